"""Running the real Part 21 reader/writer (harness/h_p21.cc linked to a generated schema library) and the Lean model
(lean/Drivers/C01.lean) on the same exchange files.  Shared by checks/c01.py and checks/c03.py."""
import concurrent.futures, os, re, subprocess
from decimal import Decimal
from . import build as B, p21_gen as G, p21_gen_rw as W

VERIF = os.path.dirname(os.path.dirname(os.path.abspath(__file__)))
H_P21 = os.path.join(VERIF, "harness", "h_p21.cc")


class Lib:
    def __init__(self, schema, exe, express):
        self.schema, self.exe, self.express = schema, exe, express


def build_libs(b, workdir, schemas):
    """schemas: [(tag, Schema)] -> [Lib], compiled in parallel"""
    def one(item):
        tag, sch = item
        wd = os.path.join(workdir, f"lib-{tag}")
        os.makedirs(wd, exist_ok=True)
        exp = os.path.join(wd, "schema.exp")
        text = sch.express()
        open(exp, "w").write(text)
        B.gen_schema_lib(b, exp, wd, [H_P21], os.path.join(wd, "h_p21"))
        return Lib(sch, os.path.join(wd, "h_p21"), text)
    with concurrent.futures.ThreadPoolExecutor(max_workers=8) as ex:
        return list(ex.map(one, schemas))


class RealResult:
    """what the implementation did with one file"""
    def __init__(self):
        self.read = {}          # ret sev invalid incomplete notcreated n ...
        self.insts = []         # [(id, TYPE, state, text)]
        self.out1 = self.out2 = None
        self.read2 = {}
        self.died = None


def _kv(line):
    return dict(x.split("=", 1) for x in line.split()[1:] if "=" in x)


def run_real(b, lib, files, workdir, rewrite=True, strict=0, nmax=None):
    """files: [(path, n_instances_upper_bound)] -> [RealResult]; when the harness process dies, the files from the
    first unanswered one on are re-run one by one so that only the file that kills it is marked"""
    out = _run_real(b, lib, files, workdir, rewrite, strict)
    if len(files) > 1:
        for k, rr in enumerate(out):
            if rr.died:
                out[k] = _run_real(b, lib, [files[k]], workdir, rewrite, strict)[0]
    return out


def _run_real(b, lib, files, workdir, rewrite=True, strict=0):
    cmds, plan = [], []
    for k, (path, n) in enumerate(files):
        o1, o2 = os.path.join(workdir, f"o1-{k}.p21"), os.path.join(workdir, f"o2-{k}.p21")
        for f in (o1, o2):
            if os.path.exists(f):
                os.remove(f)
        c = [f"reset {strict}", f"read {path}", "dump"] + [f"inst {i}" for i in range(n)]
        if rewrite:
            c += [f"write {o1} 0", f"reset {strict}", f"read {o1}", f"write {o2} 0"]
        plan.append((len(cmds), n, o1, o2))
        cmds += c
    r = subprocess.run([lib.exe], input="\n".join(cmds) + "\nquit\n", capture_output=True, text=True, env=b.env(),
                       timeout=1200)
    lines = r.stdout.split("\n")
    out = []
    for (start, n, o1, o2) in plan:
        rr = RealResult()
        need = start + 3 + n + (4 if rewrite else 0)
        if len(lines) < need + 0 or not lines[start + 1].startswith("R ret="):
            rr.died = f"harness rc={r.returncode} after {len(lines)} reply lines (needed {need})"
            out.append(rr)
            continue
        rr.read = _kv(lines[start + 1])
        dump = lines[start + 2]
        ents = dump.split("|", 1)[1].split() if "|" in dump else []
        for j, e in enumerate(ents):
            i, ty, stt = e.split("/")
            t = lines[start + 3 + j] if j < n else "T -"
            txt = bytes.fromhex(t[2:]).decode("latin-1") if t.startswith("T ") and t[2:] != "-" else ""
            rr.insts.append((int(i), ty, stt, txt))
        if rewrite:
            rr.read2 = _kv(lines[start + 3 + n + 2]) if lines[start + 3 + n + 2].startswith("R ret=") else {}
            rr.out1 = open(o1, encoding="latin-1").read() if os.path.exists(o1) else None
            rr.out2 = open(o2, encoding="latin-1").read() if os.path.exists(o2) else None
        out.append(rr)
    return out


class ModelResult:
    def __init__(self, line):
        self.line = line
        self.stop = None
        self.head, self.insts = {}, []
        if line.startswith("X "):
            self.stop = line[2:]
            return
        if not line.startswith("R "):
            self.stop = "bad reply: " + line[:100]
            return
        h, _, rest = line.partition("|")
        self.head = _kv(h)
        for e in rest.split():
            i, ty, stt, hx = e.split("/")
            self.insts.append((int(i), ty, stt, bytes.fromhex(hx).decode("latin-1") if hx != "-" else ""))


def run_model(model_exe, lib_or_schema, texts, strict=0, abstract=()):
    sch = lib_or_schema.schema if isinstance(lib_or_schema, Lib) else lib_or_schema
    lines = W.dict_lines(sch, abstract)
    nd = len(lines)
    for t in texts:
        lines.append(f"read {strict} 0 " + (W.data_bytes(t).encode("latin-1").hex() or "-"))
    r = subprocess.run([model_exe], input="\n".join(lines) + "\nquit\n", capture_output=True, text=True, timeout=1200)
    out = r.stdout.split("\n")
    if any(l != "ok" for l in out[:nd]):
        raise RuntimeError("model driver rejected the dictionary: " + repr([l for l in out[:nd] if l != "ok"][:3]))
    return [ModelResult(out[nd + k] if nd + k < len(out) else "X driver died: " + r.stderr[-200:]) for k in range(len(texts))]


def model_cfg(model_exe):
    r = subprocess.run([model_exe], input="cfg\nquit\n", capture_output=True, text=True, timeout=60)
    return _kv(r.stdout.split("\n")[0])


# ------------------------------------------------------------------ denotation (oracle side)
INT_RE = re.compile(r"[+-]?\d+$")
REAL_RE = re.compile(r"[+-]?\d+\.\d*(E[+-]?\d+)?$")


def lit_equal(a, b):
    """same literal value: integers exactly, reals to 15 significant digits, everything else byte for byte"""
    if a == b:
        return True
    if INT_RE.match(a) and INT_RE.match(b):
        return int(a) == int(b)
    if (REAL_RE.match(a) or INT_RE.match(a)) and (REAL_RE.match(b) or INT_RE.match(b)):
        import decimal
        ctx = decimal.Context(prec=15, rounding=decimal.ROUND_HALF_EVEN)
        norm = lambda s: ctx.create_decimal(s.replace(".E", ".0E").rstrip(".") if s.endswith(".") else s.replace(".E", ".0E"))
        da, db = norm(a), norm(b)          # both rounded to 15 significant digits
        return da == db
    return False


def val_equal(a, b):
    if a[0] in ("null", "empty") and b[0] in ("null", "empty"):
        return a[0] == b[0] or True
    if a[0] != b[0]:
        return False
    if a[0] == "tok":
        return lit_equal(a[1], b[1])
    if a[0] == "ref":
        return a[1] == b[1]
    if a[0] == "aggr":
        return len(a[1]) == len(b[1]) and all(val_equal(x, y) for x, y in zip(a[1], b[1]))
    if a[0] == "typed":
        return a[1] == b[1] and val_equal(a[2], b[2])
    return True


def inst_diff(a, b):
    """None when instance b denotes the same as a; else a short description"""
    if a.id != b.id:
        return f"id #{a.id} became #{b.id}"
    pa, pb = sorted(a.parts, key=lambda p: p[0]), sorted(b.parts, key=lambda p: p[0])
    if [p[0] for p in pa] != [p[0] for p in pb]:
        return f"#{a.id}: entity type {a.type_name()} became {b.type_name()}"
    for (n, va), (_, vb) in zip(pa, pb):
        if len(va) != len(vb):
            return f"#{a.id} {n}: {len(va)} parameters became {len(vb)}"
        for k, (x, y) in enumerate(zip(va, vb)):
            if not val_equal(x, y):
                return f"#{a.id} {n} parameter {k + 1}: {G.render_val(x)} became {G.render_val(y)}"
    return None


def mask_time(text):
    return re.sub(r"(FILE_NAME\s*\(\s*'[^']*'\s*,\s*)'[^']*'", r"\1'<time>'", text or "")


def parse_header(text):
    """{ENTITY: [parameters]} of the header section, or an error string"""
    try:
        a = W.find_keyword(text, "HEADER")
        b = W.find_keyword(text, "ENDSEC", a)
        b = text.rindex("ENDSEC", a, b)
        p = _P(text[a:b])
        out = {}
        while p.peek():
            n = p.ident()
            out[n.upper()] = p.params()
            p.eat(";")
        return out
    except Exception as e:
        return f"{type(e).__name__}: {e}"


def header_diff(a_text, b_text):
    """None when the two files have the same header apart from FILE_NAME's time stamp"""
    a, b = parse_header(a_text), parse_header(b_text)
    if isinstance(a, str) or isinstance(b, str):
        return f"header not parsable: {a if isinstance(a, str) else b}"
    if sorted(a) != sorted(b):
        return f"header entities {sorted(a)} became {sorted(b)}"
    for n in a:
        if len(a[n]) != len(b[n]):
            return f"{n}: {len(a[n])} parameters became {len(b[n])}"
        for k, (x, y) in enumerate(zip(a[n], b[n])):
            if n == "FILE_NAME" and k == 1:
                continue
            if not val_equal(x, y):
                return f"{n} parameter {k + 1}: {G.render_val(x)} became {G.render_val(y)}"
    return None


class _P(G._P):
    """the small reader of p21_gen with string literals delimited by the grammar (page directive `\\S\\` takes any
    character, the apostrophe included; `\\X2\\ … \\X0\\` etc.), not by apostrophe counting"""
    def ws(self):
        # blanks, comments and the explicit print control directives `\N\` / `\F\` of Part 21 edition 1
        BS = chr(92)
        while True:
            G._P.ws(self)
            if self.s.startswith(BS + "N" + BS, self.i) or self.s.startswith(BS + "F" + BS, self.i):
                self.i += 3
            else:
                return

    def value(self):
        c = self.peek()
        if c != "'":
            return G._P.value(self)
        s, j = self.s, self.i + 1
        BS = chr(92)
        while True:
            if j >= len(s):
                raise ValueError(f"unterminated string at {self.i}")
            ch = s[j]
            if ch == "'":
                if s.startswith("''", j):
                    j += 2
                    continue
                break
            if ch == BS:
                if s.startswith(BS + BS, j):
                    j += 2
                elif s.startswith(BS + "S" + BS, j):
                    j += 4
                elif s.startswith(BS + "P", j) and s[j + 3:j + 4] == BS:
                    j += 4
                elif s.startswith(BS + "X" + BS, j):
                    j += 5
                elif s.startswith(BS + "X2" + BS, j) or s.startswith(BS + "X4" + BS, j):
                    e = s.index(BS + "X0" + BS, j)
                    j = e + 4
                else:
                    raise ValueError(f"bad control directive at {j}: {s[j:j+8]!r}")
                continue
            j += 1
        t = s[self.i:j + 1]
        self.i = j + 1
        return ("tok", t)


def parse_p21(text):
    """(header text, [Inst]) — p21_gen.parse_p21 with the grammar-aware string scanner"""
    import re as _re
    d = W.data_start(text)
    if d < 0:
        raise ValueError("no DATA section")
    header = text[:d]
    p = _P(text)
    p.i = d
    out = []
    while True:
        p.peek()
        if text.startswith("ENDSEC", p.i):
            break
        p.eat("#")
        m = _re.compile(r"\s*(-?\d+)").match(text, p.i)
        p.i = m.end()
        iid = int(m.group(1))
        p.eat("=")
        if p.peek() == "(":
            p.i += 1
            parts = []
            while p.peek() != ")":
                n = p.ident()
                parts.append((n.upper(), p.params()))
            p.i += 1
        else:
            n = p.ident()
            parts = [(n.upper(), p.params())]
        p.eat(";")
        out.append(G.Inst(iid, parts))
    return header, out


def parse_written(text):
    """independent reader over the implementation's output: (header text, [Inst]) or an error string"""
    try:
        header, ents = parse_p21(text)
    except Exception as e:      # not syntactically valid for the small reader
        return None, f"{type(e).__name__}: {e}"
    return header, ents

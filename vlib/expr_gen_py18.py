"""Generator for the *bodies* exp2python writes (C18): one entity with INTEGER and BOOLEAN attributes, DERIVE attributes
and WHERE rules over a typed expression fragment, identifiers partly Python keywords.

Expression trees (tuples):
    ("i", n)  ("t",)  ("f",)                      integer literal, TRUE, FALSE
    ("a", name)  ("s", name)                      attribute by its identifier / through SELF.name
    ("u", "not"|"neg", x)
    ("b", op, l, r)   op in INT_OPS (int x int -> int), CMP_OPS (int x int -> bool), BOOL_OPS (bool x bool -> bool)
`broad` trees (outside the Lean fragment; the reference value comes from this module) additionally:
    ("str", text)  ("bin", bits)  ("real", text)  ("const", "PI"|"CONST_E"|"UNKNOWN"|"?")
    ("typeof", "SCHEMA.TYPE")  = `'SCHEMA.TYPE' IN TYPEOF(SELF)`  and the operator div
    ("l3", "and"|"or"|"xor", x, y)  ("l3", "not", x)   the logical operators over LOGICAL attributes that may be UNKNOWN

    b = gen(rng, idx, …)    -> Body
    b.express()             -> EXPRESS source
    b.lines()               -> lines for `m_c18 expr`
    evaluate(tree, env)     -> the value ISO 10303-11 gives the expression (int / bool), env: {attribute: value}

Every random choice comes from the `rng` passed in.
"""
from vlib.schema_gen_py18 import PY_KEYWORDS

INT_OPS = {"plus": "+", "minus": "-", "times": "*"}
CMP_OPS = {"eq": "=", "ne": "<>", "lt": "<", "le": "<=", "gt": ">", "ge": ">="}
BOOL_OPS = {"and": "AND", "or": "OR", "xor": "XOR", "beq": "=", "bne": "<>"}
BROAD_INT_OPS = {"div": "DIV", "mod": "MOD"}


def express_of(t):
    k = t[0]
    if k == "i":
        return str(t[1])
    if k == "t":
        return "TRUE"
    if k == "f":
        return "FALSE"
    if k == "a":
        return t[1]
    if k == "s":
        return "SELF." + t[1]
    if k == "str":
        return "'" + t[1].replace("'", "''") + "'"
    if k == "bin":
        return "%" + t[1]
    if k == "real":
        return t[1]
    if k == "const":
        return t[1]
    if k == "typeof":
        return "('" + t[1] + "' IN TYPEOF(SELF))"
    if k == "l3":
        return "(NOT " + express_of(t[2]) + ")" if t[1] == "not" else "(" + express_of(t[2]) + " " + t[1].upper() + " " + express_of(t[3]) + ")"
    if k == "u":
        return "(" + ("NOT " if t[1] == "not" else "-") + express_of(t[2]) + ")"
    op = {**INT_OPS, **CMP_OPS, **BOOL_OPS, **BROAD_INT_OPS}[t[1]]
    return "(" + express_of(t[2]) + " " + op + " " + express_of(t[3]) + ")"


def prefix_of(t):
    """the tree as tokens for `m_c18 expr`"""
    k = t[0]
    if k == "i":
        return ["i", str(t[1])]
    if k in "tf":
        return [k]
    if k in "as":
        return [k, t[1]]
    if k == "u":
        return ["u", t[1]] + prefix_of(t[2])
    return ["b", t[1]] + prefix_of(t[2]) + prefix_of(t[3])


def evaluate(t, env):
    k = t[0]
    if k == "i":
        return t[1]
    if k == "t":
        return True
    if k == "f":
        return False
    if k in "as":
        return env[t[1]]
    if k == "u":
        v = evaluate(t[2], env)
        return (not v) if t[1] == "not" else -v
    l, r = evaluate(t[2], env), evaluate(t[3], env)
    op = t[1]
    if op == "plus":
        return l + r
    if op == "minus":
        return l - r
    if op == "times":
        return l * r
    if op == "div":
        # integer division; compared only where both operands are non-negative and the divisor positive
        if r <= 0 or l < 0:
            raise ArithmeticError("DIV outside the compared range")
        return l // r
    if op in ("eq", "beq"):
        return l == r
    if op in ("ne", "bne", "xor"):
        return l != r
    if op == "lt":
        return l < r
    if op == "le":
        return l <= r
    if op == "gt":
        return l > r
    if op == "ge":
        return l >= r
    if op == "and":
        return l and r
    if op == "or":
        return l or r
    raise ValueError(op)


def attrs_of(t, out=None):
    out = [] if out is None else out
    if t[0] in "as" and len(t) == 2 and t[0] != "str":
        out.append(t[1])
    elif t[0] == "u":
        attrs_of(t[2], out)
    elif t[0] == "b":
        attrs_of(t[2], out); attrs_of(t[3], out)
    return out


def has_op(t, ops):
    if t[0] == "u":
        return has_op(t[2], ops)
    if t[0] == "b":
        return t[1] in ops or has_op(t[2], ops) or has_op(t[3], ops)
    return False


def xor_right_nested(t):
    """an XOR whose right operand is an XOR"""
    if t[0] == "u":
        return xor_right_nested(t[2])
    if t[0] == "b":
        return (t[1] == "xor" and t[3][0] == "b" and t[3][1] == "xor") or xor_right_nested(t[2]) or xor_right_nested(t[3])
    return False


class Body:
    """one entity `ent` with explicit attributes `ints`, `bools`, derived attributes [(name, 'INTEGER'|'BOOLEAN'|…, tree)]
    and rules [(label | None, tree)]"""

    def __init__(self, name, ent, ints, bools, derived, rules, broad=False):
        self.name, self.ent, self.ints, self.bools, self.derived, self.rules, self.broad = name, ent, ints, bools, derived, rules, broad

    logicals = ()    # LOGICAL attributes (after the BOOLEAN ones); their values: True / False / "U" (UNKNOWN)
    fixed_envs = None
    supers = ()      # [(entity, its supertype | None), …] declared before `ent`; `ent` is then a subtype of the last one

    def express(self):
        out = [f"SCHEMA {self.name};"]
        for n, sup in self.supers:
            out += [f"ENTITY {n}" + (f" SUBTYPE OF ({sup})" if sup else "") + ";", "END_ENTITY;"]
        out.append(f"ENTITY {self.ent}" + (f" SUBTYPE OF ({self.supers[-1][0]})" if self.supers else "") + ";")
        out += [f"  {a} : INTEGER;" for a in self.ints] + [f"  {a} : BOOLEAN;" for a in self.bools] + [f"  {a} : LOGICAL;" for a in self.logicals]
        if self.derived:
            out.append("DERIVE")
            out += [f"  {n} : {ty} := {express_of(t)};" for n, ty, t in self.derived]
        if self.rules:
            out.append("WHERE")
            out += [f"  {(lab + ' : ') if lab else ''}{express_of(t)};" for lab, t in self.rules]
        out += ["END_ENTITY;", "END_SCHEMA;"]
        return "\n".join(out) + "\n"

    def key(self):
        return self.express()

    def copy(self):
        b = Body(self.name, self.ent, list(self.ints), list(self.bools), list(self.derived), list(self.rules), self.broad)
        b.supers, b.logicals, b.fixed_envs = self.supers, self.logicals, self.fixed_envs
        return b

    def lines(self):
        """for `m_c18 expr`: one line per derived attribute / rule: `<ints,> <bools,> | <prefix tokens>`"""
        head = ",".join(self.ints) + " " + (",".join(self.bools) or "-")
        return [head + " | " + " ".join(prefix_of(t)) for _, _, t in self.derived] + [head + " | " + " ".join(prefix_of(t)) for _, t in self.rules]


def _ident(rng, used, p_kw):
    while True:
        if rng.random() < p_kw:
            n = rng.choice(PY_KEYWORDS)
        else:
            n = rng.choice("abcdghkmnpqrsuvwxz") + rng.choice(["", "", "1", "2", "x", "_q"])
        if n not in used and n not in ("e", "self"):
            used.add(n)
            return n


def gen_int(rng, ints, bools, depth, broad):
    r = rng.random()
    if depth <= 0 or r < 0.25:
        if rng.random() < 0.35:
            return ("i", rng.choice([0, 1, 2, 3, 7, 10, 255, 99999]))
        return (rng.choice("aas"), rng.choice(ints))
    if r < 0.35:
        return ("u", "neg", gen_int(rng, ints, bools, depth - 1, broad))
    ops = list(INT_OPS) + (["div", "div"] if broad else [])
    return ("b", rng.choice(ops), gen_int(rng, ints, bools, depth - 1, broad), gen_int(rng, ints, bools, depth - 1, broad))


def gen_bool(rng, ints, bools, depth, broad):
    r = rng.random()
    if depth <= 0 or r < 0.2:
        if not bools or rng.random() < 0.25:
            return (rng.choice("tf"),)
        return (rng.choice("aas"), rng.choice(bools))
    if r < 0.32:
        return ("u", "not", gen_bool(rng, ints, bools, depth - 1, broad))
    if r < 0.6:
        return ("b", rng.choice(list(CMP_OPS)), gen_int(rng, ints, bools, depth - 1, broad), gen_int(rng, ints, bools, depth - 1, broad))
    op = rng.choice(["and", "or", "xor", "xor", "beq", "bne"])
    return ("b", op, gen_bool(rng, ints, bools, depth - 1, broad), gen_bool(rng, ints, bools, depth - 1, broad))


def gen(rng, idx, p_kw=0.2, depth=3, broad=False, p_kw_label=0.15):
    used = set()
    ent = _ident(rng, used, 0.0)
    ints = [_ident(rng, used, p_kw) for _ in range(rng.randrange(1, 4))]
    bools = [_ident(rng, used, p_kw) for _ in range(rng.randrange(0, 3))]
    derived, rules = [], []
    for _ in range(rng.randrange(1, 4)):
        if rng.random() < 0.5:
            derived.append((_ident(rng, used, 0.0), "INTEGER", gen_int(rng, ints, bools, rng.randrange(1, depth + 1), broad)))
        else:
            derived.append((_ident(rng, used, 0.0), "BOOLEAN", gen_bool(rng, ints, bools, rng.randrange(1, depth + 1), broad)))
    for _ in range(rng.randrange(0, 3)):
        lab = None if rng.random() < 0.3 else _ident(rng, used, p_kw_label)
        while True:
            t = gen_bool(rng, ints, bools, rng.randrange(1, depth + 1), broad)
            if attrs_of(t):          # a domain rule must refer to SELF or an attribute (the EXPRESS front end refuses others)
                break
        rules.append((lab, t))
    return Body(f"b{idx}", ent, ints, bools, derived, rules, broad)


def fixed_bodies():
    """hand-made: right-nested same operators, keyword attributes and labels, literals of every simple type"""
    out = []
    a, b, c, p, q = ("a", "a"), ("a", "b"), ("a", "c"), ("a", "p"), ("a", "q")
    der = [("d1", "INTEGER", ("b", "minus", a, ("b", "minus", b, c))),
           ("d2", "INTEGER", ("b", "minus", ("b", "minus", a, b), c)),
           ("d3", "BOOLEAN", ("b", "xor", p, ("b", "xor", q, p))),
           ("d4", "BOOLEAN", ("b", "xor", ("b", "xor", p, q), p)),
           ("d5", "BOOLEAN", ("b", "beq", p, ("b", "eq", a, b))),
           ("d6", "BOOLEAN", ("b", "lt", a, ("b", "minus", b, c))),
           ("d7", "INTEGER", ("u", "neg", ("u", "neg", a))),
           ("d8", "BOOLEAN", ("b", "and", p, ("b", "and", q, ("u", "not", p)))),
           ("d9", "INTEGER", ("b", "times", a, ("b", "plus", b, ("s", "c"))))]
    out.append(Body("fx_ops", "e", ["a", "b", "c"], ["p", "q"], der, [("wr1", ("b", "gt", a, ("i", 0))), (None, ("b", "or", p, q))]))
    out.append(Body("fx_kwattr", "e", ["class", "a"], ["is"], [("d1", "INTEGER", ("b", "plus", ("a", "class"), ("i", 1))),
                                                              ("d2", "BOOLEAN", ("b", "and", ("s", "is"), ("b", "gt", ("s", "class"), a)))], []))
    out.append(Body("fx_kwlabel", "e", ["a"], [], [], [("pass", ("b", "ge", a, ("i", 0))), ("def", ("b", "lt", a, ("i", 99999)))]))
    out.append(Body("fx_div", "e", ["a", "b"], [], [("d1", "INTEGER", ("b", "div", a, b))], [], broad=True))
    out.append(Body("fx_str", "e", ["a"], [], [("d1", "STRING", ("str", "it's")), ("d2", "STRING", ("str", "plain")),
                                               ("d3", "STRING", ("str", "back\\slash")), ("d4", "STRING", ("str", "end\\"))], [], broad=True))
    out.append(Body("fx_bin", "e", ["a"], [], [("d1", "BINARY", ("bin", "1010"))], [], broad=True))
    out.append(Body("fx_real", "e", ["a"], [], [("d1", "REAL", ("real", "1.5")), ("d2", "REAL", ("real", "2.0E3")),
                                                ("d3", "REAL", ("real", "1.23456789")), ("d4", "REAL", ("real", "0.1"))], [], broad=True))
    out.append(Body("fx_const", "e", ["a"], [], [("d1", "REAL", ("const", "CONST_E")), ("d2", "REAL", ("const", "PI")),
                                                 ("d3", "LOGICAL", ("const", "UNKNOWN")), ("d4", "INTEGER", ("const", "?"))], [], broad=True))
    # LOGICAL operands that may be UNKNOWN: every operator on every pair of TRUE / FALSE / UNKNOWN
    p_, q_ = ("a", "p"), ("a", "q")
    b = Body("fx_logical", "e", ["a"], [], [("d_and", "LOGICAL", ("l3", "and", p_, q_)), ("d_or", "LOGICAL", ("l3", "or", p_, q_)),
                                            ("d_xor", "LOGICAL", ("l3", "xor", p_, q_)), ("d_not", "LOGICAL", ("l3", "not", p_))], [], broad=True)
    b.logicals = ["p", "q"]
    b.fixed_envs = [{"a": 1, "p": x, "q": y} for x in (True, False, "U") for y in (True, False, "U")]
    out.append(b)
    # TYPEOF: names qualified by the schema, every supertype included (fx_typeof.e is a subtype of mid, mid of root)
    b = Body("fx_typeof", "e", ["a"], [], [("d1", "BOOLEAN", ("typeof", "FX_TYPEOF.E")), ("d2", "BOOLEAN", ("typeof", "FX_TYPEOF.MID")),
                                           ("d3", "BOOLEAN", ("typeof", "FX_TYPEOF.ROOT")), ("d4", "BOOLEAN", ("typeof", "FX_TYPEOF.NOPE")),
                                           ("d5", "BOOLEAN", ("typeof", "E"))], [], broad=True)
    b.supers = [("root", None), ("mid", "root")]
    out.append(b)
    return out


def environments(rng, body, n):
    """attribute values of the declared types: small integers (non-negative, so that DIV is unambiguous) and booleans"""
    envs = []
    for _ in range(n):
        env = {a: rng.choice([0, 1, 2, 3, 5, 7, 12]) for a in body.ints}
        env.update({a: rng.random() < 0.5 for a in body.bools})
        envs.append(env)
    return envs


def l3_value(t, env):
    """ISO 10303-11 12.4: NOT AND OR XOR on TRUE / FALSE / UNKNOWN ("U")"""
    x = env[t[2][1]]
    if t[1] == "not":
        return "U" if x == "U" else (not x)
    y = env[t[3][1]]
    if t[1] == "and":
        return False if (x is False or y is False) else ("U" if "U" in (x, y) else True)
    if t[1] == "or":
        return True if (x is True or y is True) else ("U" if "U" in (x, y) else False)
    return "U" if "U" in (x, y) else (x != y)

"""Schema + population generator for Part 21 reader/writer checks (C14, C15, C16; reusable for C01/C03).

Everything is driven by a `random.Random` passed in by the caller (derive it from ctx.rng).

Schema side
-----------
`gen_schema(rng, name, n_entities, ...) -> Schema`.  A Schema holds defined types and entities and can
  * `.express()`            EXPRESS text for exp2cxx (subset: simple types, defined simple types, one ENUMERATION,
                            SELECTs of entities / of defined types, LIST/SET/BAG/ARRAY of INTEGER, REAL, STRING, entity,
                            select and LIST OF LIST OF INTEGER; OPTIONAL; single-inheritance chains; one ANDOR family
                            whose members are instantiated as *complex* (externally mapped) instances),
  * `.all_attrs(entity)`    explicit attributes in Part 21 order (supertype chain first) as `Attr` objects,
  * `.kind_table()`         {ENTITY: [(attr, base kind, optional)]} - what the C++ harness prints for `attrs E`.

`Attr.kind` is the *shape* used by the value generator; `Attr.base` is the C++ `NonRefType()` class that
STEPattribute::STEPread switches on: INTEGER REAL NUMBER STRING BINARY BOOLEAN LOGICAL ENUM ENTITY SELECT AGGREGATE.

Population side
---------------
A value is a tuple tree:  ('tok', text) | ('null',) | ('ref', id) | ('aggr', [values]) | ('typed', NAME, value).
An instance is `Inst(id, parts)` with parts = [(ENTITY_NAME_UPPER, [values])]; one part = internal mapping,
several parts = complex instance (parts in alphabetical order, as the writer emits them).
`gen_population(rng, schema, n, ids=None)` returns a *conforming, closed* population (every reference resolves to an
instance of an admissible type, ids distinct and positive).  Literal tokens are emitted in the writer's canonical
form, so that read-then-write reproduces them byte for byte.
`render(schema_name, insts, layout_rng=None, working=None)` -> Part 21 text (exchange or working-session format).
`parse_p21(text)` -> (file_type, [(state_letter|None, Inst)]) : a small independent reader for the oracle side.
`encode_inst / encode_val` produce the word encoding used on the Lean drivers' line protocol:
    value :=  N | D | T<hex> | R<int> | A<n> value*n | S<hexname> value
    inst  :=  [K<hex of the comment>] I <id> <nparts> ( <NAME> <nvals> value* )*
"""
import re

SIMPLE = ["INTEGER", "REAL", "NUMBER", "STRING", "BOOLEAN", "LOGICAL", "BINARY"]
# opt-in kinds (gen_schema(..., extra=True) / table_schema): defined types over defined types, depth 1..3, named D<depth>_<BASE>
DEPTH_BASES = ["INTEGER", "REAL", "NUMBER", "STRING", "BOOLEAN", "LOGICAL", "BINARY", "ENUM", "AGGI"]
DEPTH_KIND = re.compile(r"^D([123])_(INTEGER|REAL|NUMBER|STRING|BOOLEAN|LOGICAL|BINARY|ENUM|AGGI)$")
DEPTH_KINDS = [f"D{d}_{b}" for d in (1, 2, 3) for b in DEPTH_BASES]
# selects whose chosen member carries entity references inside a typed value, nested and renamed selects
SELECT_EXTRA = ["SELECT_L", "SELECT_N", "SELECT_R", "AGG_SELL"]
EXTRA_KINDS = DEPTH_KINDS + SELECT_EXTRA


class Attr:
    def __init__(self, name, kind, optional=False, target=None, owner=None):
        self.name, self.kind, self.optional, self.target, self.owner = name, kind, optional, target, owner
        self.redef_name = None      # "<supertype>.<attr>" when this position is redeclared by the entity at hand
        self.derived = False        # the position is redeclared as DERIVEd by the entity at hand: the file carries `*`

    @property
    def base(self):
        k = self.kind
        if k in SIMPLE:
            return k
        m = DEPTH_KIND.match(k)
        if m:
            return "AGGREGATE" if m.group(2) == "AGGI" else m.group(2)
        if k in ("DEF_REAL", ):
            return "REAL"
        if k in ("DEF_INT", ):
            return "INTEGER"
        if k == "ENUM":
            return "ENUM"
        if k == "ENTITY":
            return "ENTITY"
        if k.startswith("SELECT"):
            return "SELECT"
        return "AGGREGATE"

    @property
    def depth(self):
        """number of defined types between the attribute and the underlying simple/enumeration/aggregate type"""
        m = DEPTH_KIND.match(self.kind)
        if m:
            return int(m.group(1))
        return 1 if self.kind in ("DEF_REAL", "DEF_INT", "ENUM") else 0

    @property
    def type_ref(self):
        """is `STEPattribute::Type()` REFERENCE_TYPE?  True for a defined type declared on another defined type
        (`NonRefType()` then differs from `Type()`); also for a renamed select"""
        return self.depth >= 2 or self.kind == "SELECT_R"

    def express_type(self):
        k = self.kind
        m = DEPTH_KIND.match(k)
        if m:
            return f"d{m.group(1)}_{m.group(2).lower()}"
        t = {"DEF_REAL": "len_t", "DEF_INT": "cnt_t", "ENUM": "colour_t", "SELECT_E": "sel_e", "SELECT_T": "sel_t",
             "SELECT_M": "sel_m", "AGG_INT": "LIST [0:?] OF INTEGER", "AGG_REAL": "SET [0:?] OF REAL",
             "AGG_STR": "LIST [0:?] OF STRING", "AGG_SEL": "LIST [0:?] OF sel_m", "AGG_SELE": "SET [0:?] OF sel_e",
             "AGG_AGG": "LIST [0:?] OF LIST [0:?] OF INTEGER", "BINARY": "BINARY",
             "AGG_AGG_SEL": "LIST [0:?] OF LIST [0:?] OF sel_m",
             "SELECT_L": "sel_l", "SELECT_N": "sel_out", "SELECT_R": "sel_r", "AGG_SELL": "LIST [0:?] OF sel_l",
             "SELECT_S": "sel_n"}.get(k)
        if t:
            return t
        if k == "ENTITY":
            return self.target
        if k == "AGG_ENT":
            return f"LIST [0:?] OF {self.target}"
        if k == "AGG_ENTS":
            return f"SET [0:?] OF {self.target}"
        # aggregates of aggregates of references (b_spline_surface.control_points_list): exp2cxx maps them to GenericAggregate
        if k == "AGG_AGG_ENT":
            return f"LIST [0:?] OF LIST [0:?] OF {self.target}"
        if k == "AGG3_ENT":
            return f"LIST [0:?] OF LIST [0:?] OF SET [0:?] OF {self.target}"
        return k


class Entity:
    def __init__(self, name, supertype=None, attrs=None, andor_root=False, andor_member=False, redecl=None, derive=None):
        self.name, self.supertype, self.attrs = name, supertype, attrs or []
        self.redecl = redecl or []       # [(supertype name, Attr with the narrower type)]   SELF\\super.attr : narrower;
        self.derive = derive or []       # [(supertype name, attr name, EXPRESS type, expression)]   DERIVE SELF\\super.attr : T := e;
        self.andor_root, self.andor_member = andor_root, andor_member
        for a in self.attrs:
            a.owner = name


class Schema:
    def __init__(self, name, entities, targets, extra=False):
        self.name, self.entities, self.targets = name, entities, targets
        self.by_name = {e.name: e for e in entities}
        self.extra = extra or any(a.kind in EXTRA_KINDS for e in entities for a in e.attrs)

    def subtypes(self, name):
        return [e.name for e in self.entities if e.supertype == name]

    def is_a(self, ent, anc):
        while ent is not None:
            if ent == anc:
                return True
            ent = self.by_name[ent].supertype
        return False

    def all_attrs(self, name):
        """attribute POSITIONS of an internally mapped instance (a redeclaration does not add a position; it narrows the
        type at the inherited one; the C++ class additionally carries a redefining attribute `<super>.<attr>`)"""
        e = self.by_name[name]
        inherited = self.all_attrs(e.supertype) if e.supertype else []
        for sup, na in e.redecl:
            for k, a in enumerate(inherited):
                if a.name == na.name:
                    c = Attr(na.name, na.kind, a.optional, na.target, a.owner)
                    c.redef_name = f"{sup}.{na.name}"
                    inherited[k] = c
        for sup, nm, _, _ in e.derive:
            for k, a in enumerate(inherited):
                if a.name == nm:
                    c = Attr(a.name, a.kind, a.optional, a.target, a.owner)
                    c.derived = True
                    inherited[k] = c
        return inherited + list(e.attrs)

    def kind_table(self):
        return {e.name.upper(): [(a.name, a.base, a.optional) for a in self.all_attrs(e.name)] for e in self.entities}

    def express(self):
        t = self.targets
        out = [f"SCHEMA {self.name};", "",
               "TYPE len_t = REAL; END_TYPE;", "TYPE cnt_t = INTEGER; END_TYPE;",
               "TYPE colour_t = ENUMERATION OF (red, green, blue); END_TYPE;",
               f"TYPE sel_e = SELECT ({', '.join(t[:2])}); END_TYPE;",
               "TYPE sel_t = SELECT (len_t, cnt_t); END_TYPE;",
               f"TYPE sel_m = SELECT ({t[0]}, len_t); END_TYPE;", ""]
        if self.extra:
            under = {"INTEGER": "INTEGER", "REAL": "REAL", "NUMBER": "NUMBER", "STRING": "STRING", "BOOLEAN": "BOOLEAN",
                     "LOGICAL": "LOGICAL", "BINARY": "BINARY", "ENUM": "ENUMERATION OF (red, green, blue)",
                     "AGGI": "LIST [0:?] OF INTEGER"}
            for b in DEPTH_BASES:
                out.append(f"TYPE d1_{b.lower()} = {under[b]}; END_TYPE;")
                out.append(f"TYPE d2_{b.lower()} = d1_{b.lower()}; END_TYPE;")
                out.append(f"TYPE d3_{b.lower()} = d2_{b.lower()}; END_TYPE;")
            out += [f"TYPE ent_list = LIST [1:?] OF {t[0]}; END_TYPE;",
                    f"TYPE sel_l = SELECT (ent_list, len_t, {t[1]}); END_TYPE;",
                    "TYPE sel_in = SELECT (ent_list, len_t); END_TYPE;",
                    f"TYPE sel_out = SELECT (sel_in, {t[1]}); END_TYPE;",
                    "TYPE sel_r = sel_e; END_TYPE;", ""]
        if "t0s" in self.by_name:
            out += ["TYPE sel_n = SELECT (t0s); END_TYPE;", ""]
        for e in self.entities:
            subs = self.subtypes(e.name)
            line = f"ENTITY {e.name}"
            if subs:
                op = " ANDOR " if e.andor_root else ", "
                inner = op.join(subs)
                line += f"\n  SUPERTYPE OF ({inner})" if e.andor_root else f"\n  SUPERTYPE OF (ONEOF ({inner}))"
            if e.supertype:
                line += f"\n  SUBTYPE OF ({e.supertype})"
            out.append(line + ";")
            for sup, na in e.redecl:
                out.append(f"  SELF\\{sup}.{na.name} : {na.express_type()};")
            for a in e.attrs:
                out.append(f"  {a.name} : {'OPTIONAL ' if a.optional else ''}{a.express_type()};")
            if e.derive:
                out.append("DERIVE")
                for sup, nm, ty, ex in e.derive:
                    out.append(f"  SELF\\{sup}.{nm} : {ty} := {ex};")
            out.append("END_ENTITY;")
            out.append("")
        out.append("END_SCHEMA;")
        return "\n".join(out) + "\n"

    # ---- what can be instantiated -----------------------------------------
    def simple_instantiable(self):
        """entities that may be written with internal mapping (a leaf or inner node of a ONEOF chain; an ANDOR
        root alone and each ANDOR member alone are legal too)"""
        return [e.name for e in self.entities]

    def complex_sets(self):
        """legal externally-mapped combinations: ANDOR root + >= 2 of its members"""
        out = []
        for e in self.entities:
            if e.andor_root:
                subs = self.subtypes(e.name)
                if len(subs) >= 2:
                    out.append([e.name] + subs[:2])
                    if len(subs) >= 3:
                        out.append([e.name] + subs)
                        out.append([e.name] + subs[1:3])
        return out


KIND_POOL = (SIMPLE + ["DEF_REAL", "DEF_INT", "ENUM", "ENTITY", "ENTITY", "SELECT_E", "SELECT_T", "SELECT_M",
                       "AGG_INT", "AGG_REAL", "AGG_STR", "AGG_ENT", "AGG_ENTS", "AGG_SEL", "AGG_SELE", "AGG_AGG",
                       "AGG_AGG_ENT", "AGG_AGG_SEL", "AGG3_ENT"])

TARGET_KINDS = ("ENTITY", "AGG_ENT", "AGG_ENTS", "AGG_AGG_ENT", "AGG3_ENT")


def gen_schema(rng, name="vs", n_entities=6, max_attrs=4, kinds=None, p_optional=0.4, with_complex=True,
               cover_all_kinds=False, extra=False, with_redecl=False):
    """A schema with 2 reference-target leaf entities (t0, t1), a ONEOF chain, free entities and (optionally) one
    ANDOR family (cx_root with members cx_a, cx_b, cx_c).  `kinds` restricts the attribute shapes."""
    kinds = list(kinds or (list(KIND_POOL) + (list(EXTRA_KINDS) if extra else [])))
    cnt = [0]

    def attrs(n, allow_req_ref=True, force=None):
        out = []
        for i in range(n):
            k = force[i] if force and i < len(force) else rng.choice(kinds)
            opt = rng.random() < p_optional
            tgt = rng.choice(["t0", "t1"]) if k in TARGET_KINDS else None
            cnt[0] += 1
            out.append(Attr(f"a{cnt[0]}_{k.lower()}", k, opt, tgt))
        return out

    ents = []
    # targets: may refer to each other only through OPTIONAL attributes (so that closed populations always exist)
    t0 = Entity("t0", None, [Attr("t0_i", "INTEGER", False), Attr("t0_peer", "ENTITY", True, "t1"),
                             Attr("t0_s", "STRING", True)])
    t1 = Entity("t1", None, [Attr("t1_r", "REAL", False), Attr("t1_peers", "AGG_ENT", True, "t0")])
    ents += [t0, t1]
    pending = list(kinds) if cover_all_kinds else []
    rng.shuffle(pending)

    def take(n):
        f = [pending.pop() for _ in range(min(n, len(pending)))]
        return f

    chain_parent = None
    for i in range(n_entities):
        n = rng.randint(1, max_attrs)
        f = take(n)
        if i % 3 == 1 and chain_parent:
            e = Entity(f"e{i}", chain_parent, attrs(n, force=f))
        else:
            e = Entity(f"e{i}", None, attrs(n, force=f))
            chain_parent = e.name
        ents.append(e)
    while pending:
        f = take(max_attrs)
        ents.append(Entity(f"e{len(ents)}", None, attrs(len(f), force=f)))
    if with_complex:
        ents.append(Entity("cx_root", None, attrs(rng.randint(1, 2)), andor_root=True))
        for m in ("cx_a", "cx_b", "cx_c"):
            ents.append(Entity(m, "cx_root", attrs(rng.randint(1, 3)), andor_member=True))
    if with_redecl:
        # a subtype that redeclares inherited entity-valued attributes with narrower types (entity, aggregate of entity, select)
        ents.append(Entity("t0s", "t0", [Attr("t0s_rank", "INTEGER", False)]))
        ents.append(Entity("rh", None, [Attr("rh_label", "STRING", False), Attr("rh_content", "ENTITY", False, "t0"),
                                        Attr("rh_items", "AGG_ENT", False, "t0"), Attr("rh_choice", "SELECT_E", False),
                                        Attr("rh_opt", "ENTITY", True, "t1")]))
        ents.append(Entity("rhs", "rh", attrs(rng.randint(0, 2)),
                           redecl=[("rh", Attr("rh_content", "ENTITY", False, "t0s")),
                                   ("rh", Attr("rh_items", "AGG_ENT", False, "t0s")),
                                   ("rh", Attr("rh_choice", "SELECT_S", False))]))
    return Schema(name, ents, ["t0", "t1"], extra)


def table_schema(name="tab"):
    """deterministic schema for decision tables: one entity per base kind with an attribute for every defined-type
    depth 0..3 x OPTIONAL/required, plus one entity per remaining attribute shape (both optionalities)"""
    t0 = Entity("t0", None, [Attr("t0_i", "INTEGER", False), Attr("t0_peer", "ENTITY", True, "t1"), Attr("t0_s", "STRING", True)])
    t1 = Entity("t1", None, [Attr("t1_r", "REAL", False), Attr("t1_peers", "AGG_ENT", True, "t0")])
    ents = [t0, t1]
    depth0 = {"ENUM": None, "AGGI": "AGG_INT"}
    for b in DEPTH_BASES:
        attrs = []
        for d in range(4):
            k = (depth0.get(b, b) if d == 0 else f"D{d}_{b}")
            if k is None:
                continue
            for opt in (False, True):
                attrs.append(Attr(f"{b.lower()}_d{d}_{'opt' if opt else 'req'}", k, opt))
        ents.append(Entity(f"k_{b.lower()}", None, attrs))
    rest = ["ENTITY", "SELECT_E", "SELECT_T", "SELECT_M", "SELECT_L", "SELECT_N", "SELECT_R", "AGG_ENT", "AGG_SEL", "AGG_SELL", "AGG_AGG",
            "AGG_AGG_ENT", "AGG_AGG_SEL", "AGG3_ENT"]
    for i in range(0, len(rest), 4):
        attrs = []
        for k in rest[i:i + 4]:
            for opt in (False, True):
                attrs.append(Attr(f"{k.lower()}_{'opt' if opt else 'req'}", k, opt, "t0" if k in TARGET_KINDS else None))
        ents.append(Entity(f"k_other{i // 4}", None, attrs))
    # redeclared simple-typed attributes (narrower type) and attributes redeclared as DERIVEd
    ents.append(Entity("rq", None, [Attr("rq_label", "STRING", False), Attr("rq_n", "NUMBER", False), Attr("rq_i", "INTEGER", False),
                                    Attr("rq_s", "STRING", False), Attr("rq_b", "BOOLEAN", False), Attr("rq_o", "REAL", True)]))
    ents.append(Entity("rqs", "rq", [Attr("rqs_x", "INTEGER", False)],
                       redecl=[("rq", Attr("rq_n", "INTEGER", False)), ("rq", Attr("rq_i", "D1_INTEGER", False)),
                               ("rq", Attr("rq_s", "D2_STRING", False)), ("rq", Attr("rq_b", "D1_BOOLEAN", False))]))
    ents.append(Entity("rqd", "rq", [Attr("rqd_x", "INTEGER", False)],
                       derive=[("rq", "rq_i", "INTEGER", "5"), ("rq", "rq_s", "STRING", "'d'")]))
    return Schema(name, ents, ["t0", "t1"], True)


# ------------------------------------------------------------------ values
INTS = ["0", "1", "7", "-3", "42", "1000", "123456"]
REALS = ["0.", "1.5", "-2.25", "1000.", "3.125", "1.E+20", "2.5E-07"]
STRS = ["'a'", "'hello world'", "''", "'it''s'", "'x,y)'", "'#12'", "'$'"]
ENUMS = [".RED.", ".GREEN.", ".BLUE."]
BINS = ['"0FF"', '"1A5"', '"0"']


def gen_value(rng, attr, schema, pool):
    """pool: {entity name: [ids]} of instances that exist (incl. complex ones listed under every part)"""
    k = attr.kind

    def ref(target):
        c = [i for n, ids in pool.items() if schema.is_a(n, target) for i in ids]
        return ("ref", rng.choice(sorted(set(c)))) if c else None

    def aggr(f, lo=0, hi=3):
        return ("aggr", [f() for _ in range(rng.randint(lo, hi))])

    dm = DEPTH_KIND.match(k)
    if dm:
        b = dm.group(2)
        if b == "AGGI":
            return aggr(lambda: ("tok", rng.choice(INTS)))
        if b == "ENUM":
            return ("tok", rng.choice(ENUMS))
        k = b
    if k == "SELECT_R":
        return ref(rng.choice(schema.targets[:2]))
    if k == "SELECT_S":
        return ref("t0s")
    if k in ("SELECT_L", "SELECT_N", "AGG_SELL"):
        def one(nested):
            c = sorted({i for n, ids in pool.items() if schema.is_a(n, schema.targets[0]) for i in ids})
            alts = [("typed", "LEN_T", ("tok", rng.choice(REALS)))]
            if c:
                alts += [("typed", "ENT_LIST", ("aggr", [("ref", rng.choice(c)) for _ in range(rng.randint(1, 3))]))] * 2
            r1 = ref(schema.targets[1])
            if r1:
                alts.append(r1)
            return rng.choice(alts)
        if k == "AGG_SELL":
            return ("aggr", [one(False) for _ in range(rng.randint(0, 3))])
        return one(k == "SELECT_N")
    if k in ("INTEGER", "DEF_INT"):
        return ("tok", rng.choice(INTS))
    if k in ("REAL", "DEF_REAL"):
        return ("tok", rng.choice(REALS))
    if k == "NUMBER":
        return ("tok", rng.choice(REALS))
    if k == "STRING":
        return ("tok", rng.choice(STRS))
    if k == "BOOLEAN":
        return ("tok", rng.choice([".T.", ".F."]))
    if k == "LOGICAL":
        return ("tok", rng.choice([".T.", ".F.", ".U."]))
    if k == "BINARY":
        return ("tok", rng.choice(BINS))
    if k == "ENUM":
        return ("tok", rng.choice(ENUMS))
    if k == "ENTITY":
        return ref(attr.target)
    if k == "SELECT_E":
        return ref(rng.choice(schema.targets[:2]))
    if k == "SELECT_T":
        return rng.choice([("typed", "LEN_T", ("tok", rng.choice(REALS))), ("typed", "CNT_T", ("tok", rng.choice(INTS)))])
    if k == "SELECT_M":
        return rng.choice([ref(schema.targets[0]), ("typed", "LEN_T", ("tok", rng.choice(REALS)))])
    if k == "AGG_INT":
        return aggr(lambda: ("tok", rng.choice(INTS)))
    if k == "AGG_REAL":
        return ("aggr", [("tok", r) for r in rng.sample(REALS, rng.randint(0, 3))])
    if k == "AGG_STR":
        # at most one element: a defect of the string-aggregate writer (DESIGN section 6 row 1, property C01)
        # corrupts longer lists; C14-C16 stay clear of it
        return aggr(lambda: ("tok", rng.choice(STRS)), 0, 1)
    if k in ("AGG_ENT", "AGG_ENTS"):
        if k == "AGG_ENTS":
            c = sorted({i for n, ids in pool.items() if schema.is_a(n, attr.target) for i in ids})
            return ("aggr", [("ref", i) for i in rng.sample(c, min(len(c), rng.randint(0, 3)))])
        return ("aggr", [v for v in (ref(attr.target) for _ in range(rng.randint(0, 3))) if v])
    if k == "AGG_SEL":
        return ("aggr", [v for v in (rng.choice([ref(schema.targets[0]), ("typed", "LEN_T", ("tok", rng.choice(REALS)))])
                                     for _ in range(rng.randint(0, 3))) if v])
    if k == "AGG_SELE":
        c = sorted({i for n, ids in pool.items() for t in schema.targets[:2] if schema.is_a(n, t) for i in ids})
        return ("aggr", [("ref", i) for i in rng.sample(c, min(len(c), rng.randint(0, 3)))])
    if k == "AGG_AGG":
        return aggr(lambda: aggr(lambda: ("tok", rng.choice(INTS)), 0, 2), 0, 2)
    if k == "AGG_AGG_ENT":
        return ("aggr", [("aggr", [v for v in (ref(attr.target) for _ in range(rng.randint(0, 3))) if v]) for _ in range(rng.randint(1, 3))])
    if k == "AGG3_ENT":
        def inner():
            c = sorted({i for n, ids in pool.items() if schema.is_a(n, attr.target) for i in ids})
            return ("aggr", [("ref", i) for i in rng.sample(c, min(len(c), rng.randint(0, 2)))])
        return ("aggr", [("aggr", [inner() for _ in range(rng.randint(1, 2))]) for _ in range(rng.randint(1, 2))])
    if k == "AGG_AGG_SEL":
        return ("aggr", [("aggr", [v for v in (rng.choice([ref(schema.targets[0]), ("typed", "LEN_T", ("tok", rng.choice(REALS)))])
                                               for _ in range(rng.randint(0, 3))) if v]) for _ in range(rng.randint(1, 2))])
    raise ValueError(k)


class Inst:
    def __init__(self, id, parts, comment=None):
        self.id, self.parts = id, parts            # parts: [(NAME, [values])]
        self.comment = comment                     # Part 21 comment(s) in front of the instance, as the writer spells
                                                   # them: "/*text*/" (several: joined by newline); None = no comment

    @property
    def is_complex(self):
        return len(self.parts) > 1

    def type_name(self):
        return self.parts[0][0] if not self.is_complex else "(" + "&".join(p[0] for p in self.parts) + ")"

    def copy(self):
        return Inst(self.id, [(n, list(vs)) for n, vs in self.parts], self.comment)


def part_attrs(schema, inst, pi):
    """Attr objects for part `pi` of an instance: all (inherited+own) attributes for an internally mapped instance,
    only the entity's own attributes for a part of a complex instance"""
    nm = inst.parts[pi][0].lower()
    return schema.all_attrs(nm) if not inst.is_complex else list(schema.by_name[nm].attrs)


def covering_shapes(schema):
    """every entity once with internal mapping and every legal complex combination once"""
    return [[e] for e in schema.simple_instantiable()] + [sorted(c) for c in schema.complex_sets()]


def gen_population(rng, schema, n, ids=None, p_null_optional=0.3, p_complex=0.25, min_targets=1, shapes=None):
    """conforming closed population of n (+ targets) instances, in random file order; `shapes` (a list of entity
    name lists) replaces the random choice of n shapes"""
    shapes = [list(s) for s in shapes] if shapes is not None else None
    if shapes is None:
        shapes = []
        simple = schema.simple_instantiable()
        cx = schema.complex_sets()
        for _ in range(n):
            if cx and rng.random() < p_complex:
                shapes.append(sorted(rng.choice(cx)))
            else:
                shapes.append([rng.choice(simple)])
    for t in list(schema.targets) + (["t0s"] if "t0s" in schema.by_name else []):
        have = sum(1 for s in shapes if s == [t])
        shapes += [[t]] * max(0, min_targets - have)
    rng.shuffle(shapes)
    if ids is None:
        ids = rng.sample(range(1, 4 * len(shapes) + 10), len(shapes))
    ids = list(ids)[:len(shapes)]
    assert len(set(ids)) == len(shapes), "need distinct ids"
    pool = {}
    for i, sh in zip(ids, shapes):
        for nm in sh:
            pool.setdefault(nm, []).append(i)
    insts = []
    for i, sh in zip(ids, shapes):
        parts = []
        for nm in sh:
            attrs = schema.all_attrs(nm) if len(sh) == 1 else schema.by_name[nm].attrs
            vals = []
            for a in attrs:
                v = None
                if a.derived:
                    vals.append(("derived",))
                    continue
                if not (a.optional and rng.random() < p_null_optional):
                    v = gen_value(rng, a, schema, pool)
                if v is None:
                    if not a.optional:
                        raise ValueError(f"no admissible reference for required {nm}.{a.name}")
                    v = ("null",)
                vals.append(v)
            parts.append((nm.upper(), vals))
        insts.append(Inst(i, parts))
    return insts


# ------------------------------------------------------------------ traversal helpers
def map_refs(v, f):
    t = v[0]
    if t == "ref":
        return ("ref", f(v[1]))
    if t == "aggr":
        return ("aggr", [map_refs(x, f) for x in v[1]])
    if t == "typed":
        return ("typed", v[1], map_refs(v[2], f))
    return v


def refs_of(v):
    t = v[0]
    if t == "ref":
        return [v[1]]
    if t == "aggr":
        return [r for x in v[1] for r in refs_of(x)]
    if t == "typed":
        return refs_of(v[2])
    return []


def inst_refs(inst):
    return [r for _, vs in inst.parts for v in vs for r in refs_of(v)]


def shift_inst(inst, k):
    return Inst(inst.id + k, [(n, [map_refs(v, lambda r: r + k) for v in vs]) for n, vs in inst.parts], inst.comment)


# ------------------------------------------------------------------ rendering
def render_val(v, sp=None):
    """sp: layout callback (white space) used INSIDE aggregates and typed values too: before and after every element and
    around the parentheses - e.g. `(#1 ,#2)`, `( #2\n,#1 )`"""
    if sp is not None:
        t = v[0]
        if t == "aggr":
            return "(" + sp() + (sp() + "," + sp()).join(render_val(x, sp) for x in v[1]) + sp() + ")"
        if t == "typed":
            return f"{v[1]}({sp()}{render_val(v[2], sp)}{sp()})"
    t = v[0]
    if t == "tok":
        return v[1]
    if t == "null":
        return "$"
    if t == "empty":
        return ""
    if t == "derived":
        return "*"
    if t == "ref":
        return f"#{v[1]}"
    if t == "aggr":
        return "(" + ",".join(render_val(x) for x in v[1]) + ")"
    if t == "typed":
        return f"{v[1]}({render_val(v[2])})"
    raise ValueError(v)


def render_inst(inst, sp=lambda: ""):
    if inst.is_complex:
        body = "(" + sp().join(f"{n}{sp()}({sp()}" + f"{sp()},{sp()}".join(render_val(v, sp) for v in vs) + f"{sp()})"
                               for n, vs in inst.parts) + sp() + ")"
    else:
        n, vs = inst.parts[0]
        body = f"{n}{sp()}({sp()}" + f"{sp()},{sp()}".join(render_val(v, sp) for v in vs) + f"{sp()})"
    return (inst.comment + "\n" if inst.comment else "") + f"#{inst.id}{sp()}={sp()}{body}{sp()};"


HEADER = ("HEADER;\nFILE_DESCRIPTION((''),'2;1');\nFILE_NAME('','2000-01-01T00:00:00',(''),(''),'','','');\n"
          "FILE_SCHEMA(('{S}'));\nENDSEC;\n")


def gen_header(rng, schema_name, n_extra=None, repeat=False):
    """body of a HEADER section in the writer's spelling: the three mandatory entities with random contents plus
    `n_extra` (default random 0..3) of SECTION_LANGUAGE / SECTION_CONTEXT / FILE_POPULATION; repeat=True: the extra
    entities are drawn with repetition and in any order (several SECTION_LANGUAGE, ... - up to n_extra of them)"""
    w = lambda: rng.choice(["alpha", "bracket assembly", "gear box", "rev 7", "x", "o''brien"])
    lst = lambda: "(" + ",".join("'" + w() + "'" for _ in range(rng.randint(1, 2))) + ")"
    out = [f"FILE_DESCRIPTION({lst()},'2;1');",
           f"FILE_NAME('{w()}.stp','2000-01-01T00:00:00',{lst()},{lst()},'{w()}','{w()}','{w()}');",
           f"FILE_SCHEMA(('{schema_name.upper()}'));"]
    mk = [lambda: f"SECTION_LANGUAGE($,'{rng.choice(['en', 'de', 'fr'])}');", lambda: f"SECTION_CONTEXT($,{lst()});",
          lambda: f"FILE_POPULATION('{w()}','{w()}',$);"]
    n = rng.randint(0, 3) if n_extra is None else n_extra
    if repeat:
        extras = [rng.choice(mk)() for _ in range(n)]
    else:
        extras = [f() for f in mk][:n]
    return "\n".join(out + extras) + "\n"


def header_of(text):
    """the HEADER section body of a file, FILE_NAME's time stamp masked"""
    a, b = text.index("HEADER;") + 7, text.index("ENDSEC;")
    return re.sub(r"(FILE_NAME\('(?:[^']|'')*',)'[^']*'", r"\1'<time>'", text[a:b].strip())


def render(schema_name, insts, layout_rng=None, working=None, header=None):
    """exchange file (working=None) or working-session file (working = list of state letters, one per instance);
    header = body of the HEADER section (see gen_header), default a minimal three-entity header"""
    if layout_rng is None:
        sp = lambda: ""
    else:
        # white space only: a comment between a value and its delimiter, or inside an aggregate, trips a reader
        # defect that belongs to C01 (DESIGN section 6 row 19); comments are put between instances instead
        sp = lambda: layout_rng.choice(["", "", "", " ", "\n  ", "\t"])
    hdr = (HEADER.replace("{S}", schema_name.upper()) if header is None else "HEADER;\n" + header + "ENDSEC;\n").rstrip("\n")
    if working is None:
        out = ["ISO-10303-21;", hdr, "DATA;"]
        out += [(("/* c%d */ " % n) if layout_rng is not None and layout_rng.random() < 0.3 else "") + render_inst(i, sp)
                for n, i in enumerate(insts)]
        out += ["ENDSEC;", "END-ISO-10303-21;"]
    else:
        out = ["STEP_WORKING_SESSION;", hdr, "DATA;"]
        out += [w + render_inst(i, sp) for w, i in zip(working, insts)]
        out += ["ENDSEC;", "END-STEP_WORKING_SESSION;"]
    return "\n".join(out) + "\n"


# ------------------------------------------------------------------ independent small reader (oracle side)
class _P:
    def __init__(self, s):
        self.s, self.i = s, 0
        self.comments = None        # when a list: ws() appends the comments it skips

    def ws(self):
        s = self.s
        while self.i < len(s):
            if s[self.i].isspace():
                self.i += 1
            elif s.startswith("/*", self.i):
                j = s.find("*/", self.i + 2)
                if self.comments is not None:
                    self.comments.append(s[self.i:(len(s) if j < 0 else j + 2)])
                self.i = len(s) if j < 0 else j + 2
            else:
                break

    def peek(self):
        self.ws()
        return self.s[self.i] if self.i < len(self.s) else ""

    def eat(self, c):
        self.ws()
        if not self.s.startswith(c, self.i):
            raise ValueError(f"expected {c!r} at {self.i}: {self.s[self.i:self.i+30]!r}")
        self.i += len(c)

    def ident(self):
        self.ws()
        m = re.compile(r"[A-Za-z_][A-Za-z0-9_]*").match(self.s, self.i)
        if not m:
            raise ValueError(f"identifier expected at {self.i}: {self.s[self.i:self.i+30]!r}")
        self.i = m.end()
        return m.group(0)

    def value(self):
        c = self.peek()
        s = self.s
        if c == "$":
            self.i += 1
            return ("null",)
        if c == "*":
            self.i += 1
            return ("derived",)
        if c in ",)":
            return ("empty",)
        if c == "#":
            m = re.compile(r"#\s*(-?\d+)").match(s, self.i)
            self.i = m.end()
            return ("ref", int(m.group(1)))
        if c == "(":
            self.i += 1
            xs = []
            if self.peek() == ")":
                self.i += 1
                return ("aggr", xs)
            while True:
                xs.append(self.value())
                if self.peek() == ",":
                    self.i += 1
                    continue
                self.eat(")")
                return ("aggr", xs)
        if c == "'":
            j = self.i + 1
            while True:
                j = s.index("'", j)
                if s.startswith("''", j):
                    j += 2
                    continue
                break
            t = s[self.i:j + 1]
            self.i = j + 1
            return ("tok", t)
        if c == '"':
            j = s.index('"', self.i + 1)
            t = s[self.i:j + 1]
            self.i = j + 1
            return ("tok", t)
        if c == ".":
            j = s.index(".", self.i + 1)
            t = s[self.i:j + 1]
            self.i = j + 1
            return ("tok", t)
        if c.isalpha():
            n = self.ident()
            self.eat("(")
            v = self.value()
            self.eat(")")
            return ("typed", n, v)
        m = re.compile(r"[-+0-9.Ee]+").match(s, self.i)
        if not m:
            raise ValueError(f"value expected at {self.i}: {s[self.i:self.i+30]!r}")
        self.i = m.end()
        return ("tok", m.group(0))

    def params(self):
        self.eat("(")
        vs = []
        if self.peek() == ")":
            self.i += 1
            return vs
        while True:
            vs.append(self.value())
            if self.peek() == ",":
                self.i += 1
                continue
            self.eat(")")
            return vs


def parse_p21(text):
    """-> (file_type 'exchange'|'working', header_text, [(state_letter|None, Inst)])"""
    ft = "working" if text.lstrip().startswith("STEP_WORKING_SESSION") else "exchange"
    d = text.index("DATA;")
    header = text[:d]
    p = _P(text)
    p.i = d + 5
    out = []
    while True:
        p.comments = []
        c = p.peek()
        if text.startswith("ENDSEC", p.i):
            break
        st = None
        if c in "CIND":
            st = c
            p.i += 1
        p.eat("#")
        cm, p.comments = ("\n".join(p.comments) or None), None
        m = re.compile(r"\s*(-?\d+)").match(text, p.i)
        p.i = m.end()
        iid = int(m.group(1))
        p.eat("=")
        if p.peek() == "(":
            p.i += 1
            parts = []
            while p.peek() != ")":
                n = p.ident()
                parts.append((n.upper(), p.params()))
            p.i += 1
        else:
            n = p.ident()
            parts = [(n.upper(), p.params())]
        p.eat(";")
        out.append((st, Inst(iid, parts, cm)))
    return ft, header, out


def add_comments(rng, insts, p=0.3):
    """give some instances a Part 21 comment (in the spelling the writer reproduces)"""
    out = []
    for k, i in enumerate(insts):
        c = i.copy()
        if rng.random() < p:
            c.comment = rng.choice([f"/*note {k}*/", f"/*c{k}, with (punctuation); #7 = 'x'*/", f"/*first {k}*/\n/*second*/"])
        out.append(c)
    return out


# strings that must survive everywhere a string may stand (incl. inside entries the reader only skips): every
# delimiter of the file grammar inside a string literal
TRICKY_STRS = ["';'", "'a;b'", "'size: M6; length: 20'", "'x;'", "';x'", "'ENDSEC;'", "'DATA;'", "'#2=ITEM(1);'", "'it''s; ok'",
               "'" + "''" + ";'", "'('", "')'", "'(a;b)'", "'/* c */'", "'/*'", "'*/;'", "'$'", "'#7'", "'a,b'", "'C#1=X();'", "'D'"]


def restring(rng, insts, pool, p=0.7):
    """replace string literals (top level and inside aggregates / typed values) by strings from `pool`"""
    def f(v):
        if v[0] == "tok" and v[1].startswith("'"):
            return ("tok", rng.choice(pool)) if rng.random() < p else v
        if v[0] == "aggr":
            return ("aggr", [f(x) for x in v[1]])
        if v[0] == "typed":
            return ("typed", v[1], f(v[2]))
        return v
    return [Inst(i.id, [(n, [f(v) for v in vs]) for n, vs in i.parts], i.comment) for i in insts]


def tok_equal(a, b):
    """same literal: identical text, or both numeric and numerically equal (the writer normalises numbers)"""
    if a == b:
        return True
    try:
        fa = float(a.rstrip(".") if a.endswith(".") else a.replace(".E", "E"))
        fb = float(b.rstrip(".") if b.endswith(".") else b.replace(".E", "E"))
        return fa == fb
    except ValueError:
        return False


def val_equal(a, b):
    if a[0] in ("null", "empty") and b[0] in ("null", "empty"):
        return True
    if a[0] != b[0]:
        return False
    if a[0] == "tok":
        return tok_equal(a[1], b[1])
    if a[0] == "ref":
        return a[1] == b[1]
    if a[0] == "aggr":
        return len(a[1]) == len(b[1]) and all(val_equal(x, y) for x, y in zip(a[1], b[1]))
    if a[0] == "typed":
        return a[1] == b[1] and val_equal(a[2], b[2])
    return True


def inst_equal(a, b):
    if a.id != b.id or len(a.parts) != len(b.parts):
        return False
    pa, pb = sorted(a.parts, key=lambda p: p[0]), sorted(b.parts, key=lambda p: p[0])
    return all(x[0] == y[0] and len(x[1]) == len(y[1]) and all(val_equal(u, v) for u, v in zip(x[1], y[1]))
               for x, y in zip(pa, pb))


# ------------------------------------------------------------------ Lean line-protocol encoding
def hx(s):
    return s.encode("latin-1", "replace").hex() or "-"


def encode_val(v):
    t = v[0]
    if t == "tok":
        return "T" + hx(v[1])
    if t in ("null", "empty"):
        return "N"
    if t == "derived":
        return "D"
    if t == "ref":
        return f"R{v[1]}"
    if t == "aggr":
        return " ".join([f"A{len(v[1])}"] + [encode_val(x) for x in v[1]])
    if t == "typed":
        return f"S{hx(v[1])} " + encode_val(v[2])
    raise ValueError(v)


SELECT_AGG_KINDS = ("AGG_SEL", "AGG_SELE", "AGG_SELL")


def encode_val_at(v, attr):
    """value with the path markers the Session model wants: `Vs` = read through a SELECT (attribute or aggregate element),
    `Vr` = read through a redeclared position, `Vn` = handed on to a member that is itself a select; the markers are not part of the value (decode_words drops them)"""
    if v[0] in ("null", "empty", "derived"):
        return encode_val(v)
    if attr.kind == "SELECT_N" and v[0] == "typed":
        # sel_out = SELECT (sel_in, t1): a typed value belongs to the member select sel_in: the outer select's emitted
        # STEPread_content hands it on to sel_in's STEPread (`Vn`)
        w = f"Vs S{hx(v[1])} Vn " + encode_val(v[2])
    elif attr.base == "SELECT":
        w = "Vs " + encode_val(v)
    elif attr.kind in SELECT_AGG_KINDS and v[0] == "aggr":
        w = " ".join([f"A{len(v[1])}"] + ["Vs " + encode_val(x) for x in v[1]])
    else:
        w = encode_val(v)
    return ("Vr " + w) if attr.redef_name else w


def encode_inst(inst, schema=None):
    """schema given: values carry the path markers (see encode_val_at)"""
    w = ([f"K{hx(inst.comment)}"] if inst.comment else []) + [f"I {inst.id} {len(inst.parts)}"]
    for pi, (n, vs) in enumerate(inst.parts):
        w.append(f"{n} {len(vs)}")
        if schema is None:
            w += [encode_val(v) for v in vs]
        else:
            w += [encode_val_at(v, a) for v, a in zip(vs, part_attrs(schema, inst, pi))]
    return " ".join(w)


def decode_words(words):
    """inverse of encode_inst over a word list; returns (Inst, rest)"""
    def val(ws):
        w = ws[0]
        if w in ("Vs", "Vr", "Vn"):
            return val(ws[1:])
        if w == "N":
            return ("null",), ws[1:]
        if w == "D":
            return ("derived",), ws[1:]
        if w[0] == "T":
            return ("tok", "" if w[1:] == "-" else bytes.fromhex(w[1:]).decode("latin-1")), ws[1:]
        if w[0] == "R":
            return ("ref", int(w[1:])), ws[1:]
        if w[0] == "A":
            n, ws, xs = int(w[1:]), ws[1:], []
            for _ in range(n):
                x, ws = val(ws)
                xs.append(x)
            return ("aggr", xs), ws
        if w[0] == "S":
            x, rest = val(ws[1:])
            return ("typed", bytes.fromhex(w[1:]).decode("latin-1"), x), rest
        raise ValueError(w)
    cm = None
    if words[0].startswith("K"):
        cm, words = bytes.fromhex(words[0][1:]).decode("latin-1"), words[1:]
    assert words[0] == "I"
    iid, np_ = int(words[1]), int(words[2])
    ws, parts = words[3:], []
    for _ in range(np_):
        nm, nv, ws = ws[0], int(ws[1]), ws[2:]
        vs = []
        for _ in range(nv):
            v, ws = val(ws)
            vs.append(v)
        parts.append((nm, vs))
    return Inst(iid, parts, cm), ws

"""Schema generator for C02 (generated dictionary / classes mirror the schema).

One structural description -> (i) EXPRESS text, (ii) the AST line protocol of lean/Drivers/C02.lean,
(iii) the *specification view* (what a mirroring dictionary must contain, Part 21 attribute order), used as
oracle by checks/c02.py.  Every random choice comes from the `rng` passed in.

Type expressions (tuples):  ('B', 'INTEGER')  ('N', typename)  ('E', entityname)
                            ('A', KIND, lo|None, hi|'?'|None, unique, optional, elem)
Features (knobs) that hit defects known on the unrepaired tree are tagged; see notes/C02.md.
"""
from vlib.schema_gen import RESERVED

BASES = ["INTEGER", "REAL", "NUMBER", "STRING", "BINARY", "BOOLEAN", "LOGICAL"]
KINDS = ["ARRAY", "LIST", "SET", "BAG"]
# identifiers that look like C++ / Part 21 keywords or like suffixes the generator itself uses
KEYWORDISH = ["class", "int", "delete", "new", "this", "template", "operator", "public", "union", "double", "char",
              "data", "endsec", "header", "iso", "step", "null", "namespace", "register", "volatile", "friend",
              "virtual", "static", "struct", "typename", "long", "short", "void", "auto", "bool", "break", "goto"]


def rule_src(w):
    return (w["label"] + ": " if w["label"] else "") + w["expr"] + ";"


def rule_norm(text, spec=False):
    """a rule text up to layout: outside EXPRESS string literals white space and parentheses are dropped (the expression
    printer's layout is C07's subject).  spec=True: what the property compares — also case-insensitive outside literals, and an
    unlabelled rule may carry the parser's placeholder label"""
    import re
    segs, lit = [[False, ""]], False
    for c in text:
        if c == "'":
            if lit:
                segs[-1][1] += c
                segs.append([False, ""])
            else:
                segs.append([True, c])
            lit = not lit
        elif lit:
            segs[-1][1] += c
        elif c in " \t\r\n()":
            continue
        else:
            segs[-1][1] += c.lower() if spec else c
    # a long string literal may be printed in pieces joined with `+` where the line is wrapped: 'ab' = 'a'+'b'
    merged = []
    for q, x in segs:
        if q and len(merged) >= 2 and merged[-1] == [False, "+"] and merged[-2][0]:
            merged.pop()
            merged[-1][1] = merged[-1][1][:-1] + x[1:]
        else:
            merged.append([q, x])
    segs = merged
    # 1.0 and 1. are the same real literal (how it is printed is the expression printer's choice)
    out = [x if q else re.sub(r"(\d+\.\d*?)0+(?!\d)", r"\1", x) for q, x in segs]
    t = "".join(out)
    if spec and t.startswith("<unnamed>:"):
        t = t[len("<unnamed>:"):]
    return t


def rule_quote(t):
    import urllib.parse
    return urllib.parse.quote(t, safe="<>=:.\\'+-*/[]_,;")


class Schema:
    def __init__(self, name):
        self.name = name
        self.types = []      # dict(name, body) body = ('enum', [items]) | ('select', [tref]) | ('alias', tref)
        self.entities = []   # dict(name, abstract, supers, attrs=[dict(name, redecl, kind, opt, type, inv)])
        self.tags = set()

    # ------------------------------------------------------------ lookups
    def T(self, n):
        return next(t for t in self.types if t["name"] == n)

    def Ent(self, n):
        return next(e for e in self.entities if e["name"] == n)

    def resolve(self, n):
        t = self.T(n)
        seen = 0
        while t["body"][0] == "alias" and t["body"][1][0] == "N" and seen < len(self.types) + 1:
            t = self.T(t["body"][1][1]); seen += 1
        return t

    def base_kind(self, tr):
        """kind of value an attribute of type tr holds: base name, 'ENUM', 'SELECT', 'ENTITY', 'AGGR'"""
        if tr[0] == "B":
            return tr[1]
        if tr[0] == "E":
            return "ENTITY"
        if tr[0] == "A":
            return "AGGR"
        t = self.resolve(tr[1])
        b = t["body"]
        if b[0] == "enum":
            return "ENUM"
        if b[0] == "select":
            return "SELECT"
        return self.base_kind(b[1])

    # ------------------------------------------------------------ EXPRESS text
    def tref_text(self, tr):
        if tr[0] == "B":
            return tr[1]
        if tr[0] in "NE":
            return tr[1]
        _, k, lo, hi, u, o, el = tr
        s = k
        if lo is not None:
            s += f" [{lo}:{hi}]"
        s += " OF "
        if o and k == "ARRAY":
            s += "OPTIONAL "
        if u and k in ("ARRAY", "LIST"):
            s += "UNIQUE "
        return s + self.tref_text(el)

    def text(self):
        out = [f"SCHEMA {self.name};"]
        for t in self.types:
            b = t["body"]
            if b[0] == "enum":
                rhs = "ENUMERATION OF (" + ", ".join(b[1]) + ")"
            elif b[0] == "select":
                rhs = "SELECT (" + ", ".join(self.tref_text(m) for m in b[1]) + ")"
            else:
                rhs = self.tref_text(b[1])
            wr = "".join(" " + rule_src(w) for w in t.get("wheres", []))
            out.append(f"TYPE {t['name']} = {rhs};" + (" WHERE" + wr if wr else "") + " END_TYPE;")
        for e in self.entities:
            h = f"ENTITY {e['name']}"
            if e["abstract"]:
                h += " ABSTRACT"
            if e["abstract"] or e.get("superexpr"):
                h += " SUPERTYPE"
            if e.get("superexpr"):
                h += f" OF ({e['superexpr']})"
            if e["supers"]:
                h += " SUBTYPE OF (" + ", ".join(e["supers"]) + ")"
            out.append(h + ";")
            for kind, kw in (("E", None), ("D", "DERIVE"), ("I", "INVERSE")):
                attrs = [a for a in e["attrs"] if a["kind"] == kind]
                if attrs and kw:
                    out.append(kw)
                for a in attrs:
                    nm = (f"SELF\\{a['redecl']}.{a['name']}" if a["redecl"] else a["name"])
                    ty = ("OPTIONAL " if a["opt"] else "") + self.tref_text(a["type"])
                    if kind == "D":
                        out.append(f"  {nm} : {ty} := {a['init']};")
                    elif kind == "I":
                        out.append(f"  {nm} : {ty} FOR {a['inv']};")
                    else:
                        out.append(f"  {nm} : {ty};")
            if e.get("uniques"):
                out.append("UNIQUE")
                for u in e["uniques"]:
                    out.append("  " + (u["label"] + " : " if u["label"] else "") + ", ".join(u["attrs"]) + ";")
            if e.get("wheres"):
                out.append("WHERE")
                for w in e["wheres"]:
                    out.append("  " + rule_src(w))
            out.append("END_ENTITY;")
        out.append("END_SCHEMA;")
        return "\n".join(out) + "\n"

    # ------------------------------------------------------------ AST protocol (identifiers folded to lower case)
    def tref_ast(self, tr):
        if tr[0] == "B":
            return "B:" + tr[1]
        if tr[0] in "NE":
            return tr[0] + ":" + tr[1].lower()
        _, k, lo, hi, u, o, el = tr
        return ":".join(["A", k, "-" if lo is None else str(lo), "-" if lo is None else str(hi),
                         "1" if (u and k in ("ARRAY", "LIST")) else "0", "1" if (o and k == "ARRAY") else "0", self.tref_ast(el)])

    def ast(self):
        out = [f"schema {self.name.lower()}"]
        for t in self.types:
            b = t["body"]
            if b[0] == "enum":
                out.append(f"type {t['name'].lower()} enum " + ",".join(i.lower() for i in b[1]))
            elif b[0] == "select":
                out.append(f"type {t['name'].lower()} select " + ";".join(self.tref_ast(m) for m in b[1]))
            else:
                out.append(f"type {t['name'].lower()} alias " + self.tref_ast(b[1]))
            for w in t.get("wheres", []):
                out.append(f"twhere {(w['label'] or '-').lower()} {w['expr'].encode().hex()}")
        for e in self.entities:
            out.append(f"entity {e['name'].lower()} {1 if e['abstract'] else 0} " + (",".join(x.lower() for x in e["supers"]) or "-"))
            if e.get("superexpr"):
                out.append("esuper " + e["superexpr"].lower().replace("oneof", "ONEOF").replace(" and ", " AND ").replace(" andor ", " ANDOR ").encode().hex())
            for kind in "EDI":
                for a in e["attrs"]:
                    if a["kind"] == kind:
                        out.append(" ".join(["attr", a["name"].lower(), (a["redecl"] or "-").lower(), kind, "1" if a["opt"] else "0",
                                             (a.get("inv") or "-").lower(), self.tref_ast(a["type"])]))
                        if kind == "D":
                            out.append("ainit " + a.get("init", "1").encode().hex())
            for u in e.get("uniques", []):
                out.append(f"eunique {(u['label'] or '-').lower()} " + ";".join(x.encode().hex() for x in u["attrs"]))
            for w in e.get("wheres", []):
                out.append(f"ewhere {(w['label'] or '-').lower()} {w['expr'].encode().hex()}")
        out.append("end")
        return "\n".join(out) + "\n"

    # ------------------------------------------------------------ specification view (the oracle)
    def spec_ref(self, tr):
        if tr[0] == "B":
            return tr[1]
        if tr[0] == "N":
            return "@" + tr[1].lower()
        if tr[0] == "E":
            return "#" + tr[1].lower()
        _, k, lo, hi, u, o, el = tr
        return self.spec_aggr(tr) + f"<{k}>OF " + self.spec_ref(el)

    @staticmethod
    def spec_aggr(tr):
        _, k, lo, hi, u, o, el = tr
        b1 = "-" if lo is None else str(lo)
        b2 = "-" if lo is None else ("2147483647" if hi == "?" else str(hi))
        return f"{k}[{b1}:{b2}]" + ("U" if (u and k in ("ARRAY", "LIST")) else "") + ("O" if (o and k == "ARRAY") else "")

    def attrs_ordered(self, e):
        return [a for k in "EDI" for a in e["attrs"] if a["kind"] == k]

    def spec_lines(self):
        """what `Spec.Mirror` demands, in the dump format of harness/h_dict.cc (sub= sorted)"""
        L = []
        for e in sorted(self.entities, key=lambda e: e["name"].lower()):
            n = e["name"].lower()
            subs = sorted(x["name"].lower() for x in self.entities if n in [s.lower() for s in x["supers"]])
            L.append(f"ENTITY {n} abstract={1 if e['abstract'] else 0} super={','.join(s.lower() for s in e['supers'])} sub={','.join(subs)}")
            for a in self.attrs_ordered(e):
                dn = (a["redecl"].lower() + "." if a["redecl"] else "") + a["name"].lower()
                if a["kind"] == "I":
                    t = a["type"]
                    of = (t[6] if t[0] == "A" else t)[1].lower()
                    L.append(f" INV {dn} opt={1 if a['opt'] else 0} owner={n} type={self.spec_ref(t)} for={a['inv'].lower()} of={of}")
                else:
                    k = "D" if a["kind"] == "D" else ("R" if a["redecl"] else "E")
                    L.append(f" ATTR {dn} kind={k} opt={1 if a['opt'] else 0} owner={n} type={self.spec_ref(a['type'])}")
            if e["abstract"] or e.get("superexpr"):
                L.append(" SS - " + rule_quote(rule_norm(("ABSTRACT " if e["abstract"] else "") + "SUPERTYPE" +
                                                         (" OF " + e["superexpr"] if e.get("superexpr") else ""), True)))
            for a in self.attrs_ordered(e):
                if a["kind"] == "D":
                    dn = (a["redecl"].lower() + "." if a["redecl"] else "") + a["name"].lower()
                    L.append(f" DI {dn} " + rule_quote(rule_norm(a.get("init", "1"), True)))
            for i, u in enumerate(e.get("uniques", [])):
                L.append(f" UR {i} " + rule_quote(rule_norm((u["label"] + ":" if u["label"] else "") + ",".join(u["attrs"]), True)))
            for i, w in enumerate(e.get("wheres", [])):
                L.append(f" WR {i} " + rule_quote(rule_norm((w["label"] + ":" if w["label"] else "") + w["expr"] + ";", True)))
        for t in sorted(self.types, key=lambda t: t["name"].lower()):
            n, b = t["name"].lower(), t["body"]
            if b[0] == "enum":
                L.append(f"TYPE {n} ft=ENUMERATION ref=NULL{self.g_line(('N', t['name']))} items=" + ",".join(i.lower() for i in b[1]))
            elif b[0] == "select":
                L.append(f"TYPE {n} ft=SELECT ref=NULL{self.g_line(('N', t['name']))} members=" + ",".join(self.spec_ref(m) for m in b[1]))
            else:
                tr = b[1]
                if tr[0] == "B":
                    L.append(f"TYPE {n} ft={tr[1]} ref={tr[1]}{self.g_line(('N', t['name']))}")
                elif tr[0] == "A":
                    L.append(f"TYPE {n} ft={tr[1]} aggr={self.spec_aggr(tr)} ref={self.spec_ref(tr[6])}{self.g_line(('N', t['name']))}")
                else:
                    r = self.resolve(tr[1])["body"]
                    extra = ""
                    if r[0] == "enum":
                        extra = " items=" + ",".join(i.lower() for i in r[1])
                    elif r[0] == "select":
                        extra = " members=" + ",".join(self.spec_ref(m) for m in r[1])
                    L.append(f"TYPE {n} ft=REF ref=@{tr[1].lower()}{self.g_line(('N', t['name']))}{extra}")
            if t.get("wheres"):
                L[-1] += " wr=" + "|".join(rule_quote(rule_norm((w["label"] + ":" if w["label"] else "") + w["expr"] + ";", True))
                                           for w in t["wheres"])
        return L

    # ---------------------------------------------------------------- which entities a select type can hold
    def select_members(self, n):
        b = self.resolve(n)["body"]
        return b[1] if b[0] == "select" else None

    def can_be(self, n, mode, seen=()):
        """entities (lower case) the select named n can hold.  mode 'td': an entity member or any of its subtypes, through member
        selects of any nesting depth (the reflexive-transitive closure of select membership); 'name': member entities only;
        'set': member entities reached without passing through a RENAMED select (ISO 10303-21: its name must be written)"""
        out = set()
        if n in seen:
            return out
        for m in self.select_members(n) or []:
            if m[0] == "E":
                out.add(m[1].lower())
                if mode == "td":
                    out |= {x["name"].lower() for x in self.entities if m[1] in self.inherit_order(x["name"])}
            elif m[0] == "N" and self.select_members(m[1]) is not None:
                if mode == "set" and self.T(m[1])["body"][0] != "select":
                    continue
                out |= self.can_be(m[1], mode, seen + (n,))
        return out

    def canbe_lines(self):
        L = []
        for t in sorted(self.types, key=lambda t: t["name"].lower()):
            if self.select_members(t["name"]) is not None:
                L.append(f"CANBE {t['name'].lower()} " + " ".join(
                    f"{k}=" + ",".join(sorted(self.can_be(t["name"], k))) for k in ("td", "name", "set")))
        return L

    # what the getters that follow referent links must answer for a type expression
    def g_root(self, tr):
        """(fundamental type name, rendered descriptor) of the first non-reference descriptor"""
        if tr[0] == "B":
            return tr[1], tr[1]
        if tr[0] == "E":
            return "ENTITY", "#" + tr[1].lower()
        if tr[0] == "A":
            return tr[1], self.spec_ref(tr)
        t = self.resolve(tr[1])
        b = t["body"]
        if b[0] == "enum":
            return "ENUMERATION", "@" + t["name"].lower()
        if b[0] == "select":
            return "SELECT", "@" + t["name"].lower()
        if b[1][0] == "A":
            return b[1][1], "@" + t["name"].lower()
        return b[1][1], "@" + t["name"].lower()       # simple

    def g_base(self, tr):
        if tr[0] == "B":
            return tr[1]
        if tr[0] == "E":
            return "ENTITY"
        if tr[0] == "A":
            return self.g_base(tr[6])
        t = self.resolve(tr[1])
        b = t["body"]
        if b[0] == "enum":
            return "ENUMERATION"
        if b[0] == "select":
            return "SELECT"
        return self.g_base(b[1])

    def g_line(self, tr):
        ft, td = self.g_root(tr)
        out = f" nonref={ft} nonreftd={td} base={self.g_base(tr)}"
        if ft in KINDS:
            agg = tr if tr[0] == "A" else self.resolve(tr[1])["body"][1]
            eft, etd = self.g_root(agg[6])
            out += f" isaggr=1 elem={eft} elemtd={etd}"
        else:
            out += " isaggr=0"
        return out

    def inherit_order(self, n, vis=None):
        vis = [] if vis is None else vis
        if n in vis:
            return vis
        for s in self.Ent(n)["supers"]:
            self.inherit_order(s, vis)
        vis.append(n)
        return vis

    def declarers(self, sup, attr):
        """entities whose attribute `attr` a redeclaration SELF\\sup.attr can mean: sup or its supertypes that declare it"""
        own = next((a for a in self.Ent(sup)["attrs"] if a["name"].lower() == attr.lower()), None)
        if own is not None and own["redecl"] and own["redecl"] != sup:
            return self.declarers(own["redecl"], attr)        # sup only redeclares it: what that redeclaration means
        if own is not None and not own["redecl"]:
            return [sup]
        return [m for m in self.inherit_order(sup)
                if any(a["name"].lower() == attr.lower() and not a["redecl"] for a in self.Ent(m)["attrs"])]

    def p21_order(self, n):
        """(owner, attribute) of the value positions of an instance of n, ISO 10303-21 11.2.5.2"""
        out = []
        for m in self.inherit_order(n):
            for a in self.Ent(m)["attrs"]:
                if a["kind"] == "E" and not a["redecl"]:
                    out.append((m.lower(), a["name"].lower()))
        return out

    def decl_closure(self, kind, name):
        """minimal sub-schema containing one declaration and everything it mentions"""
        need_t, need_e = [], []

        def ref(tr):
            if tr[0] == "N":
                addt(tr[1])
            elif tr[0] == "E":
                adde(tr[1])
            elif tr[0] == "A":
                ref(tr[6])

        def addt(n):
            if n in need_t:
                return
            need_t.append(n)
            b = self.T(n)["body"]
            if b[0] == "select":
                for m in b[1]:
                    ref(m)
            elif b[0] == "alias":
                ref(b[1])

        def adde(n):
            if n in need_e:
                return
            need_e.append(n)
            e = self.Ent(n)
            for s in e["supers"]:
                adde(s)
            for a in e["attrs"]:
                ref(a["type"])
        (addt if kind == "type" else adde)(name)
        s = Schema(self.name)
        s.types = [t for t in self.types if t["name"] in need_t]
        s.entities = [dict(e) for e in self.entities if e["name"] in need_e]
        import re as _re
        for e in s.entities:          # a supertype constraint needs all the subtypes it names
            if e.get("superexpr"):
                subs = {x["name"] for x in s.entities if e["name"] in x["supers"]}
                toks = set(_re.findall(r"[A-Za-z_][A-Za-z0-9_]*", e["superexpr"])) - {"ONEOF", "AND", "ANDOR"}
                if not toks <= subs:
                    e.pop("superexpr")
        # inverse attributes need the inverted attribute: keep it simple, drop inverse attrs whose partner left
        return s


# ------------------------------------------------------------------- generation
class Gen:
    def __init__(self, rng, **knobs):
        self.rng = rng
        self.k = dict(renamed_enum=True, renamed_select=True, named_aggr_of_enumsel=True, named_multidim=True, rename_chains=True,
                      keywordish=True, mixed_case=True, n_entities=(3, 9), n_types=(3, 9), rules=True)
        self.k.update(knobs)
        self.used = set()

    def ident(self, pool=None):
        r = self.rng
        for _ in range(200):
            if pool and r.random() < 0.8:
                n = r.choice(pool)
            else:
                n = "".join(r.choice("abcdefghijklmnopqrstuvwxyz") for _ in range(r.randint(1, 6)))
                if r.random() < 0.35:
                    n += "_" + "".join(r.choice("abcxyz0123") for _ in range(r.randint(1, 3)))
                if r.random() < 0.08:
                    n += "_"
                if r.random() < 0.06:
                    n = n[0] + "__" + n[1:]
            if n in RESERVED or n in self.used or n.lower() in ("t", "e", "a", "schema", "std", "reg", "str"):
                continue
            self.used.add(n)
            return n
        raise RuntimeError("identifier pool exhausted")

    def spell(self, n):
        if self.k["mixed_case"] and self.rng.random() < 0.25:
            return "".join(c.upper() if self.rng.random() < 0.5 else c for c in n)
        return n

    def bounds(self, kind):
        r = self.rng
        if r.random() < 0.3 and kind != "ARRAY":
            return None, None
        lo = r.choice([0, 0, 1, 2, 3])   # negative literals are unary expressions: exp2cxx prints 0 (C12 #9's area)
        hi = r.choice(["?", lo + r.randint(0, 5), lo + 1]) if kind != "ARRAY" else lo + r.randint(0, 4)
        return lo, hi

    def aggr(self, elem, depth=1):
        r = self.rng
        k = r.choice(KINDS)
        lo, hi = self.bounds(k)
        u = r.random() < 0.3 and k in ("ARRAY", "LIST")
        o = r.random() < 0.3 and k == "ARRAY"
        if depth > 1:
            elem = self.aggr(elem, depth - 1)
        return ("A", k, lo, hi, u, o, elem)

    def schema(self):
        r, K = self.rng, self.k
        self.used = set()
        s = Schema(self.ident())
        kw = list(KEYWORDISH) if K["keywordish"] else None
        # ---- entity names first (types may refer to them)
        ne = r.randint(*K["n_entities"])
        enames = [self.ident(kw if r.random() < 0.3 else None) for _ in range(ne)]
        # ---- types
        simple_named, enums, selects, aggr_named = [], [], [], []
        nt = r.randint(*K["n_types"])
        for _ in range(nt):
            n = self.ident(kw if r.random() < 0.3 else None)
            c = r.random()
            if c < 0.22:
                s.types.append(dict(name=n, body=("alias", ("B", r.choice(BASES))))); simple_named.append(n)
            elif c < 0.34 and simple_named:
                if aggr_named and r.random() < 0.3:     # another name for a named aggregate
                    s.types.append(dict(name=n, body=("alias", ("N", r.choice(aggr_named))))); aggr_named.append(n)
                else:
                    s.types.append(dict(name=n, body=("alias", ("N", r.choice(simple_named))))); simple_named.append(n)
            elif c < 0.52:
                items = []
                for _ in range(r.randint(1, 5)):
                    items.append(self.ident(kw if r.random() < 0.3 else None))
                s.types.append(dict(name=n, body=("enum", items))); enums.append(n)
            elif c < 0.66:
                ms = []
                cands = [("E", x) for x in enames] + [("N", x) for x in simple_named]
                r.shuffle(cands)
                seen_kinds = set()
                for m in cands[:r.randint(1, 4)]:
                    bk = s.base_kind(m) if m[0] == "N" else "ENTITY:" + m[1]
                    if bk in seen_kinds:
                        continue
                    seen_kinds.add(bk); ms.append(m)
                if ms:
                    s.types.append(dict(name=n, body=("select", ms))); selects.append(n)
                else:
                    self.used.discard(n)
            elif c < 0.86:
                pool = [("B", b) for b in BASES] + [("N", x) for x in simple_named] + [("E", x) for x in enames]
                if K["named_aggr_of_enumsel"]:
                    pool += [("N", x) for x in enums + selects]
                el = r.choice(pool)
                depth = 2 if (K["named_multidim"] and r.random() < 0.4) else 1
                s.types.append(dict(name=n, body=("alias", self.aggr(el, depth)))); aggr_named.append(n)
                if depth > 1:
                    s.tags.add("named_multidim")
                if el[0] == "N" and el[1] in enums + selects:
                    s.tags.add("named_aggr_of_enumsel")
            elif c < 0.93 and K["renamed_enum"] and enums:
                s.types.append(dict(name=n, body=("alias", ("N", r.choice(enums))))); enums.append(n); s.tags.add("renamed_enum")
            elif K["renamed_select"] and selects:
                s.types.append(dict(name=n, body=("alias", ("N", r.choice(selects))))); selects.append(n); s.tags.add("renamed_select")
            else:
                self.used.discard(n)
        # ---- rename chains of length 1..3 over every underlying kind (TYPE n1 = root; TYPE n2 = n1; TYPE n3 = n2;):
        #      the descriptor of each link must refer to the type it is declared with, not to the end of the chain
        deep, deep_types = [], []
        if K["rename_chains"]:
            for kind_name, pool in (("simple", simple_named), ("enum", enums), ("select", selects), ("aggregate", aggr_named)):
                if not pool or r.random() < 0.35:
                    continue
                if kind_name == "enum" and not K["renamed_enum"] or kind_name == "select" and not K["renamed_select"]:
                    continue
                prev = r.choice(pool)
                # depth is a dimension of its own: short chains, the boundary around 8/9/10 links, and a long one
                length = r.choice([1, 2, 3, 1, 2, 3, 8, 9, 10, 40] if K.get("deep_chains", True) else [1, 2, 3])
                deep.append((kind_name, length))
                for _ in range(length):
                    n = self.ident(kw if r.random() < 0.2 else None)
                    s.types.append(dict(name=n, body=("alias", ("N", prev))))
                    pool.append(n)
                    prev = n
                deep_types.append(prev)
                s.tags.add(f"rename_chain_{kind_name}_{length}")
                if kind_name == "enum":
                    s.tags.add("renamed_enum")
                if kind_name == "select":
                    s.tags.add("renamed_select")
        # ---- selects nested in each other, 1 .. 4 deep, an entity member at every level (and now and then a renamed select
        #      between two levels): what the outermost can hold is the closure of select membership
        nest_types = []
        if K.get("select_nesting", True) and len(enames) >= 2 and r.random() < 0.6:
            depth = min(r.choice([1, 2, 2, 3, 3, 4]), len(enames))
            pool_e = list(enames)
            r.shuffle(pool_e)
            prev = None
            for k in range(depth):
                n = self.ident(kw if r.random() < 0.2 else None)
                ms = [("E", pool_e[k])]
                if prev:
                    ms.append(("N", prev))
                    r.shuffle(ms)
                if k == 0 and len(pool_e) > depth and r.random() < 0.5:
                    ms.append(("E", pool_e[depth]))
                s.types.append(dict(name=n, body=("select", ms))); selects.append(n); nest_types.append(n)
                prev = n
                if k + 1 < depth and r.random() < 0.3:
                    rn = self.ident()
                    s.types.append(dict(name=rn, body=("alias", ("N", prev)))); selects.append(rn); nest_types.append(rn)
                    prev = rn
                    s.tags.add("renamed_select")
            s.tags.add(f"select_nesting_{depth}")
        r.shuffle(s.types)
        # ---- entities: a DAG (supertypes among earlier entities), then shuffled textually
        def attr_type():
            c = r.random()
            pool_named = simple_named + enums + selects + aggr_named
            if c < 0.3:
                return ("B", r.choice(BASES))
            if c < 0.55 and pool_named:
                return ("N", r.choice(pool_named))
            if c < 0.7:
                return ("E", r.choice(enames))
            el = r.choice([("B", r.choice(BASES)), ("E", r.choice(enames))] + [("N", x) for x in simple_named + enums + selects])
            return self.aggr(el, 2 if r.random() < 0.25 else 1)

        for i, n in enumerate(enames):
            sup = []
            if i and r.random() < 0.75:
                k = 1 if (r.random() < 0.55 or i < 2) else r.randint(2, min(3, i))
                sup = r.sample(enames[:i], k)
                # no redundant supertype (one that is already an ancestor of another listed supertype)
                sup = [x for x in sup if not any(x in self._anc(s, [y])[:-1] for y in sup if y != x)]
            e = dict(name=n, abstract=False, supers=sup, attrs=[])
            anames = set()
            inherited = set()
            for m in (s2 for s2 in self._anc(s, sup)):
                inherited |= {a["name"] for a in s.Ent(m)["attrs"]}
            for _ in range(r.randint(0, 4)):
                unrelated = [a["name"] for x in s.entities if x["name"] not in self._anc(s, sup) for a in x["attrs"]
                             if a["kind"] == "E" and not a["redecl"] and a["name"] not in inherited and a["name"] not in anames]
                if unrelated and K.get("shared_attr_names", True) and r.random() < 0.15:
                    an = r.choice(unrelated)        # the same attribute name in another line of the hierarchy
                    s.tags.add("attr-name-in-two-lines")
                else:
                    an = self.ident(kw if r.random() < 0.3 else None)
                anames.add(an)
                e["attrs"].append(dict(name=an, redecl=None, kind="E", opt=r.random() < 0.3, type=attr_type(), inv=None))
            # derived attribute
            if r.random() < 0.3:
                an = self.ident()
                if K["rules"] and r.random() < 0.5:     # initializer text with everything a C string literal cares about
                    e["attrs"].append(dict(name=an, redecl=None, kind="D", opt=False, type=("B", "STRING"), init=self.str_lit(), inv=None))
                    s.tags.add("derived-string-literal")
                else:
                    e["attrs"].append(dict(name=an, redecl=None, kind="D", opt=False, type=("B", "INTEGER"),
                                           init=r.choice(["1", "1", "2 + 3", "-7", "65536 * 2"]), inv=None))
            # redeclaration of an inherited explicit attribute (same type, or derived)
            cands = []
            for m in self._anc(s, sup):
                for a in s.Ent(m)["attrs"]:
                    if a["kind"] == "E" and not a["redecl"] and a["type"][0] == "B":
                        cands.append((m, a))
            done = set()
            for m, a in cands:
                if a["name"] in done or r.random() > 0.4:
                    continue
                done.add(a["name"])
                # the supertype a redeclaration names: the declaring entity, or an intermediate supertype that itself
                # redeclares the attribute explicitly (SELF\b.x with b SUBTYPE OF (a), b: SELF\a.x) — chains of any length
                inter = [m2 for m2 in self._anc(s, sup) if any(x["name"] == a["name"] and x["redecl"] and x["kind"] == "E"
                                                               for x in s.Ent(m2)["attrs"])]
                q = m
                if inter and K.get("redecl_chains", True) and r.random() < 0.6:
                    q = r.choice(inter)
                    s.tags.add("redeclaration-names-intermediate-supertype")
                if r.random() < 0.5 and a["type"][1] in ("INTEGER", "REAL", "NUMBER"):
                    e["attrs"].append(dict(name=a["name"], redecl=q, kind="D", opt=False, type=a["type"], init="1", inv=None))
                else:
                    e["attrs"].append(dict(name=a["name"], redecl=q, kind="E", opt=False, type=a["type"], inv=None))
                s.tags.add("redeclared")
            s.entities.append(e)
        # an attribute of the deepest type of every rename chain, on an entity that stays instantiable (the last one has no
        # subtypes): its value goes through the generated mutator/accessor and through STEPattribute
        for tn in nest_types[-1:] + (nest_types[:1] if len(nest_types) > 2 else []):
            s.entities[-1]["attrs"].append(dict(name=self.ident(), redecl=None, kind="E", opt=r.random() < 0.3, type=("N", tn), inv=None))
        for tn in deep_types:
            s.entities[-1]["attrs"].append(dict(name=self.ident(), redecl=None, kind="E", opt=r.random() < 0.3, type=("N", tn), inv=None))
        # inverse attributes: entity X gets `inv : SET OF Y FOR attr` where Y.attr : X
        for e in s.entities:
            for a in list(e["attrs"]):
                if a["kind"] == "E" and not a["redecl"] and a["type"][0] == "E" and r.random() < 0.4:
                    tgt = s.Ent(a["type"][1])
                    if any(x["kind"] == "I" for x in tgt["attrs"]):
                        continue
                    iname = self.ident()
                    agg = r.random() < 0.7
                    ty = ("A", r.choice(["SET", "BAG"]), 0, "?", False, False, ("E", e["name"])) if agg else ("E", e["name"])
                    tgt["attrs"].append(dict(name=iname, redecl=None, kind="I", opt=False, type=ty, inv=a["name"]))
                    s.tags.add("inverse")
        if K["rules"]:
            self.add_rules(s)
        # abstract supertypes: only entities that have a subtype
        for e in s.entities:
            if any(e["name"] in x["supers"] for x in s.entities) and r.random() < 0.25:
                e["abstract"] = True
        # supertype constraints over the direct subtypes: ONEOF / AND / ANDOR, nested
        if K["rules"]:
            for e in s.entities:
                subs = [x["name"] for x in s.entities if e["name"] in x["supers"]]
                if subs and r.random() < 0.4:
                    r.shuffle(subs)
                    e["superexpr"] = self.sup_expr(subs)
                    s.tags.add("supertype-constraint")
        if any(len(e["supers"]) > 1 for e in s.entities):
            s.tags.add("multiple_supertypes")
        for e in s.entities:
            sets = [set(self._anc(s, [x])) for x in e["supers"]]
            if any(sets[i] & sets[j] for i in range(len(sets)) for j in range(i + 1, len(sets))):
                s.tags.add("diamond")
        r.shuffle(s.entities)
        # spelling: the generator keeps canonical lower-case names; text() may spell references in mixed case
        return s

    # ---------------------------------------------------------------- WHERE / UNIQUE rules
    # characters of string literals: everything that means something to EXPRESS, to C/C++ string literals or to printf
    STR_CHARS = list("abz09 _") + ['"', "\\", "%", "/", "*", "(", ")", ";", ":", "''", "<", ">", "=", "|", "&", "{", "}", "#", "~",
                                   "^", "`", "@", "!", "$", ".", ",", "[", "]", "-", "+", "?", "%s", "%n", "\\n", '\\"', "(*", "--"]

    def str_lit(self):
        r = self.rng
        body = "".join(r.choice(self.STR_CHARS) for _ in range(r.choice([0, 1, 1, 2, 3, 5, 12])))
        body = body.replace("??", "?")          # no trigraphs: those are the C++ compiler's business
        return "'" + body + "'"

    def atom(self, s, ref, tr):
        """a logical expression about the value `ref` of type tr"""
        r = self.rng
        bk = s.base_kind(tr)
        c = r.random()
        if bk in ("INTEGER", "REAL", "NUMBER") and c < 0.8:
            return f"{ref} {r.choice(['<', '>', '<=', '>=', '<>', '='])} {r.choice([0, 1, 7, 100, 65536])}"
        if bk == "STRING" and c < 0.8:
            return f"{ref} {r.choice(['<>', '='])} {self.str_lit()}"
        if bk == "AGGR" and c < 0.6:
            return f"SIZEOF({ref}) {r.choice(['<', '>', '>='])} {r.randint(0, 9)}"
        return f"EXISTS({ref})"

    def expr(self, s, refs):
        """refs: list of (text, type, attribute name); returns (expression text, attribute names used)"""
        r = self.rng
        n = r.choice([1, 1, 1, 2, 2, 3]) if r.random() < 0.92 else r.randint(12, 30)     # long: the printer wraps lines
        parts, used = [], []
        for _ in range(n):
            ref, tr, an = r.choice(refs)
            a = self.atom(s, ref, tr)
            if r.random() < 0.15:
                a = f"NOT ({a})"
            parts.append(a); used.append(an)
        if n == 1:
            return parts[0], used
        op = r.choice([" AND ", " OR "])
        return op.join(f"({p})" for p in parts), used

    def sup_expr(self, subs, top=True):
        r = self.rng
        if len(subs) == 1:
            return subs[0] if (top or r.random() < 0.7) else f"ONEOF ({subs[0]})"
        c = r.random()
        if c < 0.4:
            return "ONEOF (" + ", ".join(subs) + ")"
        k = r.randint(1, len(subs) - 1)
        a, b = self.sup_expr(subs[:k], False), self.sup_expr(subs[k:], False)
        op = r.choice(["AND", "ANDOR"])
        return f"{a} {op} {b}" if top else f"({a} {op} {b})"

    def add_rules(self, s):
        r = self.rng
        for t in s.types:
            if r.random() < 0.25:
                ws = []
                for _ in range(r.choice([1, 1, 2, 3])):
                    ex, _u = self.expr(s, [("SELF", ("N", t["name"]), None)])
                    ws.append(dict(label=self.ident() if r.random() < 0.7 else None, expr=ex, uses=[]))
                t["wheres"] = ws
                s.tags.add("type-where")
        for e in s.entities:
            refs = [(a["name"] if r.random() < 0.7 else "SELF." + a["name"], a["type"], a["name"])
                    for a in e["attrs"] if a["kind"] == "E" and not a["redecl"]]
            own = {a["name"] for a in e["attrs"]}
            seen = set(own)
            for m in reversed(self._anc(s, e["supers"])):
                for a in s.Ent(m)["attrs"]:
                    if a["kind"] == "E" and not a["redecl"] and a["name"] not in seen:
                        seen.add(a["name"])
                        refs.append((f"SELF\\{m}.{a['name']}", a["type"], a["name"]))
            if not refs:
                continue
            if r.random() < 0.3:
                us = []
                for _ in range(r.choice([1, 1, 2, 3])):
                    pick = r.sample(refs, min(len(refs), r.choice([1, 1, 2, 3])))
                    us.append(dict(label=self.ident() if r.random() < 0.7 else None,
                                   attrs=[x[0][5:] if x[0].startswith("SELF.") else x[0] for x in pick], uses=[x[2] for x in pick]))
                e["uniques"] = us
                s.tags.add("unique")
            if r.random() < 0.35:
                ws = []
                for _ in range(r.choice([1, 1, 2, 3, 6])):
                    ex, used = self.expr(s, refs)
                    ws.append(dict(label=self.ident() if r.random() < 0.7 else None, expr=ex, uses=used))
                e["wheres"] = ws
                s.tags.add("where")

    @staticmethod
    def _anc(s, sups):
        out = []

        def go(n):
            for x in s.Ent(n)["supers"]:
                go(x)
            if n not in out:
                out.append(n)
        for x in sups:
            go(x)
        return out

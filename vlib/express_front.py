"""Shared harness for the EXPRESS front-end properties (C04, C20): case generation, running the scratch tools,
talking to the Lean drivers (m_c20 / m_c04 share one protocol), parsing stderr, the regenerated message table."""
import concurrent.futures as cf
import importlib.util, json, os, re, subprocess, tempfile
from . import schema_gen_express as G
from . import build as B

VERIF = os.path.dirname(os.path.dirname(os.path.abspath(__file__)))
TOOLS = ["check-express", "exppp", "exp2cxx", "exp2python"]
LINE_RE = re.compile(rb"^(.*?):(-?\d+): (--ERROR PE|WARNING PW)(\d{3}): (.*)$")
PLAIN_RE = re.compile(rb"^(ERROR PE|WARNING PW)(\d{3}): (.*)$")
# diagnostics whose *selection* depends on hash-table iteration order (which path of a cycle is reported first)
ORDER_DEPENDENT = {"SUBSUPER_CONTINUATION", "SELECT_CONTINUATION"}
# diagnostics whose line number is not modelled
LINE_UNMODELLED = {"NONASCII_CHAR", "UNTERMINATED_STRING", "SYNTAX"}


def load_table(repo):
    """(codes: name->num, entries: name->(severity name, format, class)) straight from the source, via the extractor"""
    spec = importlib.util.spec_from_file_location("x_liberrors", os.path.join(VERIF, "tools", "extract.d", "liberrors.py"))
    m = importlib.util.module_from_spec(spec)
    spec.loader.exec_module(m)
    err_h = open(os.path.join(repo, "include/express/error.h")).read()
    err_c = open(os.path.join(repo, "src/express/error.c")).read()
    codes = dict(m._enum(err_h, "ErrorCode"))
    ent = m._table(err_c, codes)
    return codes, {k: (v[0], v[1], v[2]) for k, v in ent.items()}


class Table:
    def __init__(self, repo):
        self.codes, self.entries = load_table(repo)
        self.by_num = {v: k for k, v in self.codes.items()}

    def fmt(self, name):
        return self.entries[name][1]

    def cls(self, name):
        return self.entries[name][2]

    def is_warning(self, name):
        return self.entries[name][0] == "SEVERITY_WARNING"

    def classes(self):
        return sorted({c for (s, f, c) in self.entries.values() if c and s == "SEVERITY_WARNING"})

    def all_classes(self):
        """every class name the table carries (the usage text advertises all of them), whatever the severity"""
        return sorted({c for (s, f, c) in self.entries.values() if c})

    def expected_message(self, name, args):
        """the format with the offending texts substituted (what the property demands)"""
        out, it = [], iter(args)
        f = self.fmt(name)
        i = 0
        while i < len(f):
            if f[i] == "%" and i + 1 < len(f):
                c = f[i + 1]
                if c == "%":
                    out.append("%")
                elif c == "x":
                    v = next(it)
                    out.append(v[2:] if v.startswith("0x") else v)
                else:
                    out.append(str(next(it)))
                i += 2
            else:
                out.append(f[i]); i += 1
        return "".join(out)


LINE_BASE, LINE_RESET = 0, False        # how the scanner numbers lines (regenerated constants, set by the checks)

GENERATED = ["LibErrors.lean", "ResolveGen.lean", "ReportSites.lean"]


def seed_generated():
    """A run against another tree works in a private copy of the Lean project whose Generated/ files are only rewritten when
    extraction succeeds.  Start it from the clean tree's last generation, so that a source the extractors no longer recognise
    is judged by the model of the clean tree (and the violation search can run) instead of by a stale or missing table."""
    from . import lean as L
    src = os.path.join(L.LEAN_SRC, "StepModel", "Generated")
    if os.path.realpath(src) == os.path.realpath(L.GEN_DIR):
        return
    import shutil
    for f in GENERATED:
        if os.path.exists(os.path.join(src, f)):
            shutil.copyfile(os.path.join(src, f), os.path.join(L.GEN_DIR, f))


GUARD_SHAPES = {
    "TYPE_IS_ENTITY": ["entity_as_type", "undef_typedecl", "type_self_cycle"],
    "SELECT_LOOP": ["select_cycle", "undef_select_item"],
    "SUBSUPER_LOOP": ["sub_cycle", "undef_super", "undef_sub", "missing_super"],
    "UNIQUE_QUAL_REDECL": ["unique_needless_qualifier", "unique_unknown_attr", "unique_unknown_qualified_attr", "unique_unknown_supertype"],
}


class Case:
    """one input file + what was injected"""

    def __init__(self, name, data, proto, cls, expect, verdict, warn=False, note="", attrless=False):
        self.name, self.data, self.proto, self.cls = name, data, proto, cls
        self.expect, self.verdict, self.warn, self.note = expect, verdict, warn, note
        self.extra = {}            # relative path -> bytes: schema files found through cwd / EXPRESS_PATH
        self.express_path = None   # value of EXPRESS_PATH for the run (None: unset, the current directory is searched)
        self.expect_file = None    # the file the injected fault is in (None: the main file)

    def path(self):
        return self.name + ".exp"

    def key(self):
        return (self.cls, self.data)


def _resolve_expect(fault_expect, schema):
    """replace @line:/@attr:/@type: placeholders and callables by the 0-based line numbers of the rendered schema/file"""
    decls = [d for sc in schema.schemas for d in sc.decls] if isinstance(schema, G.File) else schema.decls
    out = []
    for code, args in fault_expect:
        na = []
        for a in args:
            if callable(a):
                na.append(a())
            elif a.startswith("@line:"):
                d = next(d for d in decls if getattr(d, "name", None) == a[6:])
                na.append(str(d.line))
            elif a.startswith("@type:"):
                na.append(str(next(d for d in decls if getattr(d, "name", None) == a[6:]).line))
            elif a.startswith("@attr:"):
                _, en, an = a.split(":")
                e = next(d for d in decls if isinstance(d, G.Entity) and d.name == en)
                na.append(str(next(x.line for x in e.attrs if x.name == an)))
            else:
                na.append(a)
        out.append((code, na))
    return out


def make_case(name, schema, cls, expect, verdict, warn=False, note="", data=None, where=None, express_path=None):
    text, proto = G.render(schema, LINE_BASE, LINE_RESET)
    raw = data if data is not None else text.encode("latin-1")
    c = Case(name, raw, G.protocol(name + ".exp", raw, proto), cls, _resolve_expect(expect, schema), verdict, warn, note)
    if isinstance(schema, G.File):
        c.extra = {k: v.encode("latin-1") for k, v in getattr(schema, "extra_texts", {}).items()}
        c.express_path = express_path
        if where is not None:
            sch = schema.find_schema(where)
            c.expect_file = sch.file if sch is not None else None
    return c


def gen_cases(rng, n_base, size, mutators=None, lexical=True, tag="g", pre=None):
    """valid schemas and all their single-fault mutants; `pre` (a function of the base index) puts a prefix in front of every
    declared name — used for identifiers long enough to overflow fixed-size message buffers"""
    cases = []
    for i in range(n_base):
        base = G.gen_schema(rng, size, pre=pre(i) if pre else "")
        cases.append(make_case(f"{tag}{i}_valid", base, "valid", [], "accept"))
        for mn in (mutators if mutators is not None else sorted(G.MUTATORS)):
            f = G.mutate(base, mn, rng)
            if f is None:
                continue
            cases.append(make_case(f"{tag}{i}_{mn}", f.schema, f.cls, f.expect, f.verdict, f.warn, f.note))
        if lexical:
            text, proto = G.render(base)
            for j, lf in enumerate(G.lexical_mutants(text, rng)):
                nm = f"{tag}{i}_lex{j}"
                cases.append(Case(nm, lf.data, G.protocol(nm + ".exp", lf.data, proto), lf.cls, lf.expect,
                                  "reject" if lf.expect else "accept", False, lf.note))
            s2, old, shown = G.underscore_mutant(base, rng)
            cases.append(make_case(f"{tag}{i}_uscore", s2, "leading-underscore", [("BAD_IDENTIFIER", [shown])], "reject"))
            em = G.encoded_mutant(base, rng)
            if em:
                cases.append(make_case(f"{tag}{i}_enc", em[0], "encoded-string", em[1], "reject"))
    return cases


def gen_file_cases(rng, n_base, size=3, tag="m", mutators=None):
    """valid multi-schema files (chained USE/REFERENCE, renames) and their single-fault mutants"""
    cases = []
    names = mutators if mutators is not None else (sorted(G.FILE_MUTATORS) + ["unique_unknown_qualified_attr", "undef_attr_type", "dup_decl", "undef_super", "missing_super",
                                                                              "sub_cycle", "dup_redecl_attr", "syntax"])
    for i in range(n_base):
        base = G.gen_file(rng, size=size)
        c = make_case(f"{tag}{i}_valid", base, "valid", [], "accept", note="schemas " + ",".join(x.name for x in base.schemas))
        c.multi = True
        cases.append(c)
        for mn in names:
            f = G.mutate_file(base, mn, rng)
            if f is None:
                continue
            c = make_case(f"{tag}{i}_{mn}", f.schema, f.cls, f.expect, f.verdict, f.warn, f.note)
            c.multi = True
            cases.append(c)
    return cases


# ------------------------------------------------------------------------------------------------ cycle graphs
NAME_POOL = ["assembly", "base_item", "part", "gadget", "widget", "node", "arc", "shell", "face", "edge", "zone", "axis",
             "b1", "k9", "mm", "q", "tt", "vx", "alpha", "omega"]


def gen_graph_case(rng, name, kind, n=None, outside=False):
    """random digraph over attribute-less entities (kind='sub') or select types (kind='sel'), cyclic or not, under random
    names (the resolver visits declarations in hash order); `outside` forces the shape "cycle + a legitimate ancestor above a
    cycle member that is not itself on the cycle".  The label is computed here (reachability), not taken from any tool."""
    n = n or rng.randint(2, 5)
    names = rng.sample(NAME_POOL, n)
    p = rng.choice([0.15, 0.3, 0.5])
    if outside:
        k = rng.randint(2, max(2, n - 1)) if n > 2 else 2
        cyc, rest = names[:k], names[k:]
        edges = {a: [] for a in names}
        for i, a in enumerate(cyc):
            edges[a].append(cyc[(i + 1) % k])
        for a in rest:                       # ancestors above cycle members (and above each other, acyclic)
            edges[a] = rng.sample(cyc, rng.randint(1, min(2, k)))
            edges[a] += [b for b in rest[rest.index(a) + 1:] if rng.random() < 0.3]
    else:
        edges = {a: [b for b in names if rng.random() < p] for a in names}    # a -> b : b is a subtype / item of a
    for a in names:
        rng.shuffle(edges[a])
    s = G.Schema("sg")
    if kind == "sub":
        ents = {a: G.Entity(a) for a in names}
        for a in names:
            for b in edges[a]:
                ents[b].supers.append(a)                # b SUBTYPE OF (a)
            listed = [b for b in edges[a] if rng.random() < 0.8]
            if listed:
                ents[a].subs_expr = ("ONEOF", listed) if len(listed) > 1 or rng.random() < 0.5 else listed[0]
        order = names[:]
        rng.shuffle(order)
        s.decls = [ents[a] for a in order]
    else:
        leaf = G.Entity("leaf")
        s.decls.append(leaf)
        order = names[:]
        rng.shuffle(order)
        for a in order:
            items = edges[a][:]
            if not items or rng.random() < 0.5:
                items.insert(rng.randint(0, len(items)), "leaf")
            s.decls.append(G.TypeDecl(a, "select", items))
    # nodes on a cycle
    def reach(a):
        seen, todo = set(), list(edges[a])
        while todo:
            x = todo.pop()
            if x not in seen:
                seen.add(x); todo += edges[x]
        return seen
    on_cycle = sorted(a for a in names if a in reach(a))
    code = "SUBSUPER_LOOP" if kind == "sub" else "SELECT_LOOP"
    c = make_case(name, s, ("subtype-cycle" if kind == "sub" else "select-cycle") if on_cycle else "valid",
                  [(code, [a]) for a in on_cycle], "reject" if on_cycle else "accept",
                  note=f"graph {edges}")
    c.on_cycle = on_cycle
    return c


def gen_multifile_cases(rng, n_base, tag="x"):
    """runs over several files: the checked file plus 1..2 schema files it USEs/REFERENCEs, found through the current
    directory or through EXPRESS_PATH; valid, one fault in the main file, one fault in a referenced file, one in each"""
    cases = []
    main_m = ["undef_attr_type", "undef_super", "missing_super", "undef_item", "dup_attr", "unique_unknown_attr", "entity_as_type"]
    ext_m = ["undef_attr_type", "undef_super", "dup_attr", "overload_attr", "unique_unknown_qualified_attr", "type_self_cycle"]
    tries = 0
    while len([c for c in cases if c.cls == "valid"]) < n_base and tries < 20 * n_base:
        tries += 1
        base = G.gen_file(rng, size=3)
        ep, ok = G.externalise(base, rng)
        if not ok:
            continue
        i = len([c for c in cases if c.cls == "valid"])
        files = ",".join(s.file or "<main>" for s in base.schemas)
        c = make_case(f"{tag}{i}_valid", base, "valid", [], "accept", note=f"files {files}; EXPRESS_PATH={ep}", express_path=ep)
        c.multi = True
        cases.append(c)
        mains = [s.name for s in base.schemas if not s.file]
        exts = [s.name for s in base.schemas if s.file]
        for mn, pool in [(m, mains) for m in main_m] + [(m, exts) for m in ext_m]:
            wh = rng.choice(pool)
            f = G.mutate_file(base, mn, rng, where=None if mn in G.FILE_MUTATORS else wh)
            if f is None or (mn in G.FILE_MUTATORS and f.schema.find_schema(f.where).file and pool is mains):
                continue
            c = make_case(f"{tag}{i}_{mn}_{'main' if pool is mains else 'ext'}", f.schema, f.cls, f.expect, f.verdict, f.warn,
                          f.note + f" [fault in schema {f.where}; files {files}; EXPRESS_PATH={ep}]", where=f.where, express_path=ep)
            c.multi = True
            cases.append(c)
    return cases


def gen_chain_case(rng, name, length=None):
    """a VALID chained import: the last schema declares x, every other one imports it from its successor (partial USE, or
    REFERENCE for the first one, optionally renamed) and the first one uses it; schema names are a random sample and the text
    order is shuffled, so the hash order in which pass 2 visits the schemas varies"""
    k = length or rng.randint(3, 4)
    names = rng.sample(G.SCHEMA_NAMES + NAME_POOL, k)
    schemas = [G.Schema(nm) for nm in names]
    x = G.Entity("point")
    x.attrs.append(G.Attr("px", ("S", "REAL")))
    schemas[-1].decls.append(x)
    vis = "point"
    for i in range(k - 2, -1, -1):
        new = None
        if rng.random() < 0.35:
            new = f"pt{i}"
        kind = "ref" if (i == 0 and rng.random() < 0.4) else "use"
        schemas[i].ifaces.append(G.Iface(kind, names[i + 1], [G.Item(vis, new)]))
        vis = new or vis
        e = G.Entity(f"holder{i}")
        e.attrs.append(G.Attr(f"at{i}", ("N", vis)))
        schemas[i].decls.append(e)
    order = schemas[:]
    rng.shuffle(order)
    f = G.File(order)
    c = make_case(name, f, "valid", [], "accept", note="chained import " + " <- ".join(names))
    c.multi = True
    return c


def gen_ring_case(rng, name, missing=False):
    """schemas that USE each other as a whole, in a ring (`USE FROM next;`, the last one from the first); one of them declares
    `point`.  A client imports item-wise from a ring member: `point` (valid: found by following the ring, possibly renamed) or —
    `missing` — a name no ring member has (the look-up comes back to the schema it started from: REF_NONEXISTENT, no crash)."""
    k = rng.randint(2, 4)
    names = rng.sample(G.SCHEMA_NAMES + NAME_POOL, k + 1)
    ring = [G.Schema(nm) for nm in names[:k]]
    for i, sc in enumerate(ring):
        sc.ifaces.append(G.Iface("use", names[(i + 1) % k], None))
        e = G.Entity(f"member{i}")
        e.attrs.append(G.Attr(f"m{i}", ("S", "INTEGER")))
        sc.decls.append(e)
    owner = rng.randrange(k)
    x = G.Entity("point")
    x.attrs.append(G.Attr("px", ("S", "REAL")))
    ring[owner].decls.append(x)
    # a ring member other than the owner sees `point` through the ring
    if k > 1:
        j = rng.choice([i for i in range(k) if i != owner])
        h = G.Entity(f"ringholder{j}")
        h.attrs.append(G.Attr(f"rh{j}", ("N", "point")))
        ring[j].decls.append(h)
    client = G.Schema(names[k])
    src = rng.randrange(k)
    want = f"nosuch_o{rng.randint(0, 99)}" if missing else "point"
    new = f"pt{rng.randint(0, 9)}" if (not missing and rng.random() < 0.4) else None
    it = G.Item(want, new)
    client.ifaces.append(G.Iface(rng.choice(["use", "ref"]), names[src], [it]))
    if not missing:
        e = G.Entity("holder")
        e.attrs.append(G.Attr("at", ("N", new or "point")))
        client.decls.append(e)
    else:
        e = G.Entity("holder")
        e.attrs.append(G.Attr("at", ("S", "INTEGER")))
        client.decls.append(e)
    order = ring + [client]
    rng.shuffle(order)
    f = G.File(order)
    if missing:
        c = make_case(name, f, "undefined-import", [("REF_NONEXISTENT", [want, names[src]])], "reject",
                      note="item looked up through a ring of whole-schema USE clauses " + " -> ".join(names[:k]))
    else:
        c = make_case(name, f, "valid", [], "accept", note="import through a ring of whole-schema USE clauses " + " -> ".join(names[:k]))
    c.multi = True
    return c


XI_FAULTS = [None, None, None, "unknown_self_attr", "undef_bare", "overload", "redecl_no_attr", "unique_no_attr", "unique_bad_qual",
             "cycle"]


def gen_xinherit_case(rng, name, fault=None):
    """inheritance ACROSS schemas (outside the Lean model: judged by the oracle alone).  A library schema declares a chain of
    entities; a client schema interfaces the lowest one (item-wise, possibly renamed, or as a whole schema) and derives from it:
    its entities refer to attributes inherited through the foreign supertype in domain rules (`SELF.a`, bare), DERIVE, UNIQUE
    (unqualified and `SELF\\sup.a`) and redeclarations.  `fault`: one fault with a by-construction label, or None (valid)."""
    ln, cn = rng.sample(G.SCHEMA_NAMES + NAME_POOL, 2)
    L, C = G.Schema(ln), G.Schema(cn)
    depth = rng.randint(1, 3)
    chain = []
    for i in range(depth):
        g = G.Entity(f"g{i}{rng.choice('klmn')}")
        if chain:
            g.supers = [chain[-1].name]
        g.attrs.append(G.Attr(f"ga_{i}_0", ("S", "INTEGER")))
        if rng.random() < 0.6:
            g.attrs.append(G.Attr(f"ga_{i}_1", ("S", rng.choice(["INTEGER", "REAL", "STRING"]))))
        chain.append(g)
    L.decls += chain
    low = chain[-1]
    alias = None
    form = rng.choice(["use-item", "use-item", "ref-item", "use-whole", "ref-whole"])
    if form.endswith("item"):
        if rng.random() < 0.5:
            alias = f"sup{rng.randint(0, 9)}{rng.choice('rst')}"
        C.ifaces.append(G.Iface(form[:3], ln, [G.Item(low.name, alias)]))
    else:
        C.ifaces.append(G.Iface(form[:3], ln, None))
    vis = alias or low.name
    inh = [(g, a) for g in chain for a in g.attrs]           # everything the client's entities inherit
    ints = [a.name for g, a in inh if a.ty == ("S", "INTEGER")]
    c0 = G.Entity(f"c0{rng.choice('klmn')}")
    c0.supers = [vis]
    c0.attrs.append(G.Attr("own0", ("S", "INTEGER")))
    k = 0
    c0.rules.append(G.Rule(f"wr{k}", "exists", attr=rng.choice(inh)[1].name)); k += 1
    if rng.random() < 0.7:
        c0.rules.append(G.Rule(f"wr{k}", "bare", attr=rng.choice(ints))); k += 1
    d = G.Attr("d_c0", ("S", "INTEGER"))
    d.expr = G.Expr(d.name, None, 0, [rng.choice(ints), "own0"])
    c0.derives.append(d)
    uses_qual = False
    if rng.random() < 0.6:
        c0.uniques.append(G.Unique("ur0", None, rng.choice(inh)[1].name))
    if rng.random() < 0.6:
        c0.uniques.append(G.Unique("ur1", vis, rng.choice(low.attrs).name)); uses_qual = True
    if rng.random() < 0.5:
        a = rng.choice(low.attrs)
        c0.attrs.append(G.Attr(a.name, a.ty, redecl_of=vis)); uses_qual = True
    C.decls.append(c0)
    c1 = None
    if rng.random() < 0.6:
        c1 = G.Entity(f"c1{rng.choice('klmn')}")
        c1.supers = [c0.name]
        c1.attrs.append(G.Attr("own1", ("S", "REAL")))
        c1.rules.append(G.Rule("wr0", "exists", attr=rng.choice(inh)[1].name))
        C.decls.append(c1)
    host = c1 if (c1 is not None and rng.random() < 0.5) else c0
    cls, verdict, note = "valid", "accept", f"{c0.name} SUBTYPE OF {vis} ({form}{', renamed' if alias else ''}), {depth} level(s) in {ln}"
    if fault == "unknown_self_attr":
        host.rules.append(G.Rule(f"wr{len(host.rules)}", "exists", attr="nosuch_xa"))
        cls, verdict = "undefined-attribute", "reject"
    elif fault == "undef_bare":
        dd = G.Attr(f"d_{host.name}_x", ("S", "INTEGER"))
        dd.expr = G.Expr(dd.name, None, 0, ["nosuch_xb"])
        host.derives.append(dd)
        cls, verdict = "undefined-reference", "reject"
    elif fault == "overload":
        g, a = rng.choice(inh)
        host.attrs.insert(0, G.Attr(a.name, a.ty))
        host.attrs = [x for x in host.attrs if not (x.redecl_of and x.name == a.name)]
        cls, verdict = "inherited-attribute-redeclared", "reject"
    elif fault == "redecl_no_attr":
        c0.attrs.append(G.Attr("nosuch_xr", ("S", "INTEGER"), redecl_of=vis)); uses_qual = True
        cls, verdict = "bad-redeclaration", "reject"
    elif fault == "unique_no_attr":
        # (in front: a plain reference AFTER a qualified reference to a redeclared attribute is the shape of finding
        # unique-stale-unqualified-lookup-crash, which has its own class)
        c0.uniques.insert(0, G.Unique(f"ur{len(c0.uniques) + 2}", None, "nosuch_xu"))
        cls, verdict = "undefined-attribute", "reject"
    elif fault == "unique_bad_qual":
        c0.uniques.append(G.Unique(f"ur{len(c0.uniques) + 2}", "nosuch_xq", low.attrs[0].name))
        cls, verdict = "undefined-supertype", "reject"
    elif fault == "cycle":
        # the library imports the client's entity back and puts it above its own chain
        L.ifaces.append(G.Iface("use", cn, [G.Item(c0.name)]))
        chain[0].supers = [c0.name]
        cls, verdict = "subtype-cycle", "reject"
    order = [L, C]
    rng.shuffle(order)
    f = G.File(order)
    c = make_case(name, f, cls, [], verdict, note=note + (f"; fault: {fault}" if fault else ""))
    c.multi = True
    # (cross-schema inheritance is in the Lean model since deepening round 2: compared with the model like every other stream)
    return c


# ------------------------------------------------------------------------------------------------ running
def parse_stderr(err, table):
    """-> (diags [(code name, file, line, message)], other lines)"""
    diags, other = [], []
    for ln in err.split(b"\n"):
        if not ln:
            continue
        m = LINE_RE.match(ln)
        if m:
            num = int(m.group(4))
            diags.append((table.by_num.get(num, f"#{num}"), m.group(1).decode("latin-1"), int(m.group(2)),
                          m.group(5).decode("latin-1"), m.group(3).startswith(b"--ERROR")))
            continue
        m = PLAIN_RE.match(ln)
        if m:
            num = int(m.group(2))
            diags.append((table.by_num.get(num, f"#{num}"), None, None, m.group(3).decode("latin-1"),
                          m.group(1).startswith(b"ERROR")))
            continue
        other.append(ln.decode("latin-1"))
    return diags, other


def run_tool(b, tool, case, switches, workroot, timeout=20):
    """run one scratch tool on one case in a fresh directory; returns dict(rc, diags, other, files)"""
    d = tempfile.mkdtemp(prefix="r-", dir=workroot)
    path = os.path.join(d, case.path())
    with open(path, "wb") as fh:
        fh.write(case.data)
    for rel, data in getattr(case, "extra", {}).items():
        os.makedirs(os.path.dirname(os.path.join(d, rel)) or d, exist_ok=True)
        with open(os.path.join(d, rel), "wb") as fh:
            fh.write(data)
    env = b.env()
    env.pop("EXPRESS_PATH", None)
    if getattr(case, "express_path", None):
        env["EXPRESS_PATH"] = case.express_path
    args = [b.tool(tool)]
    for o, nm in switches:
        args += ["-" + o] + ([nm] if nm is not None else [])       # (o, None): a flag without an argument, e.g. -B
    args.append(case.path())
    try:
        r = subprocess.run(args, cwd=d, env=env, capture_output=True, timeout=timeout)
        rc, err, out = r.returncode, r.stderr, r.stdout
    except subprocess.TimeoutExpired as ex:
        rc, err, out = "timeout", ex.stderr or b"", ex.stdout or b""
    given = {case.path()} | {rel.split("/")[0] for rel in getattr(case, "extra", {})}
    files = sorted(f for f in os.listdir(d) if f not in given)
    import shutil
    shutil.rmtree(d, ignore_errors=True)
    return {"rc": rc, "err": err, "out": out, "files": files, "cmd": " ".join(args[1:])}


def run_many(b, jobs, workroot, workers=16):
    """jobs: list of (tool, case, switches) -> list of results in order"""
    with cf.ThreadPoolExecutor(max_workers=workers) as ex:
        return list(ex.map(lambda j: run_tool(b, j[0], j[1], j[2], workroot), jobs))


class Model:
    """one session with a Lean driver"""

    def __init__(self, exe):
        self.exe = exe

    def ask(self, blocks):
        """blocks: list of lists of request lines; each block ends with requests that answer; returns list of reply lists"""
        lines, expect = [], []
        for blk in blocks:
            n = 0
            for l in blk:
                lines.append(l)
                w = l.split(" ", 1)[0]
                if w in ("end", "run", "diags", "lex", "dfs", "consts"):
                    n += 1
            expect.append(n)
        r = subprocess.run([self.exe], input=("\n".join(lines) + "\n").encode(), capture_output=True, timeout=1800)
        out = r.stdout.decode("latin-1").split("\n")
        if out and out[-1] == "":
            out.pop()
        if r.returncode != 0 or len(out) != sum(expect):
            bad = [o for o in out if o.startswith("bad-op")]
            raise RuntimeError(f"model driver rc={r.returncode}, {len(out)} replies for {sum(expect)} requests, bad-ops={len(bad)} {r.stderr[-300:]!r}")
        res, k = [], 0
        for n in expect:
            res.append(out[k:k + n]); k += n
        return res


def parse_run_reply(rep, table):
    """`R status=.. banner=.. backend=.. diverges=.. | code:hexmsg ...` -> dict"""
    if not rep.startswith("R "):
        raise RuntimeError("unexpected model reply " + rep[:80])
    head, _, tail = rep[2:].partition(" | ")
    kv = dict(x.split("=") for x in head.split())
    diags = []
    for t in tail.split():
        c, h = t.split(":")
        msg = bytes.fromhex(h)
        m = LINE_RE.match(msg)
        if m:
            diags.append((table.by_num.get(int(c), f"#{c}"), m.group(1).decode("latin-1"), int(m.group(2)),
                          m.group(5).decode("latin-1"), m.group(3).startswith(b"--ERROR")))
        else:
            m = PLAIN_RE.match(msg)
            diags.append((table.by_num.get(int(c), f"#{c}"), None, None, m.group(3).decode("latin-1") if m else msg.decode("latin-1"),
                          bool(m and m.group(1).startswith(b"ERROR"))))
    kv["diags"] = diags
    kv["status"] = {"usage": "2", "crash": "abort"}.get(kv.get("status"), kv.get("status"))
    kv.setdefault("backend", "0")
    return kv


def sw_arg(switches):
    return ",".join(f"{o}:{n}" for o, n in switches) or "-"


# warnings the declaration-level model does not produce (expression typing): never compared
UNMODELLED = {"IMPLICIT_DOWNCAST", "AMBIG_IMPLICIT_DOWNCAST"}


# codes whose message text is garbage on trees without fixes/C20-5 (finding arg:GROUP_REF_UNEXPECTED_TYPE): presence, file and line
# are compared, the text is judged by C20's oracle
TEXT_BY_ORACLE_ONLY = set()


def canon(diags, with_lines=True, drop=ORDER_DEPENDENT):
    out = []
    for (code, f, line, msg, is_err) in diags:
        if code in drop or code in UNMODELLED:
            continue
        if code in TEXT_BY_ORACLE_ONLY:
            msg = "<text checked by the C20 oracle>"
        out.append((code, msg if "\x01" not in msg else "<ambient>", line if (with_lines and code not in LINE_UNMODELLED) else None, f))
    return sorted(out, key=lambda t: (t[0], t[1], -1 if t[2] is None else t[2], t[3] or ""))


def split_wrong_scope(case, diags):
    """(diags without the `Function f undefined` / `Domain rule wt… must refer to SELF` pairs that name a function the file DOES
    declare, number of such pairs).  They come from a type's WHERE rule being resolved in the scope of whichever schema uses the
    type first (hash order) instead of the declaring schema — finding type-where-resolved-in-importing-scope / fixes/C04-3."""
    if not getattr(case, "multi", False):
        return diags, 0
    declared = {l.split()[1] for l in case.proto if l.startswith("func ")} | \
               {l.split()[2] for l in case.proto if l.startswith("alg function ")}
    bad_lines = {(d[1], d[2]) for d in diags if d[0] == "UNDEFINED_FUNC" and
                 any(d[3] == f"Function {fn} undefined." for fn in declared)}
    if not bad_lines:
        return diags, 0
    keep = [d for d in diags if not ((d[1], d[2]) in bad_lines and d[0] in ("UNDEFINED_FUNC", "MISSING_SELF"))]
    return keep, len(bad_lines)


def status_of(rc):
    if rc == "timeout":
        return "timeout"
    if rc < 0 or rc >= 128:
        return "abort" if rc in (-6, 134) else f"signal{-rc if rc < 0 else rc - 128}"
    return str(rc)

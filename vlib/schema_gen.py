"""Typed generator of EXPRESS schema files (declaration level) — shared helper.

Created for C17/C12 (file sets, determinism); written to be extended by other checks (add new
declaration classes / knobs; do not change the meaning of existing knobs or the text of
existing constructs, other checks' corpora depend on them).

    g = Gen(rng, **knobs)            # every random choice comes from rng (random.Random)
    f = g.schema_file(nschemas=1)    # -> SchemaFile
    f.text()                         # EXPRESS source
    f.schemas[i].decls               # declarations in textual order (TypeDecl/EntityDecl/OtherDecl)

What is generated is inside the subset the stepcode tools accept (check-express exit 0, exp2cxx exit 0):
  * defined types of every body kind: the 7 simple types, ENUMERATION, SELECT (of entities / defined types),
    ARRAY/LIST/BAG/SET (1-D and nested) of simple / defined / entity / enum / select types,
    renames of all of these incl. renamed enumerations and selects and renames of renames;
  * entities with explicit / optional / derived attributes, single and multiple supertypes,
    attributes typed by defined types, entities and aggregates;
  * aggregate bounds of every shape exp2cxx distinguishes: integer literal, `?`, negative literal (unary op),
    arithmetic, CONSTANT reference, attribute reference, derived-attribute reference, SELF\\e.attr, function call;
  * CONSTANT blocks, FUNCTIONs, PROCEDUREs, RULEs (they share the schema's symbol table);
  * several schemas in one file with REFERENCE FROM between them (optionally mutually dependent on
    enumerations/selects, which makes exp2cxx print a schema in several passes);
  * identifiers written in mixed case (the EXPRESS lexer folds case) and identifiers that are equal after
    case folding in *different* schemas of one file.

Resolved view used by the Lean models (matches the C after EXPRESSresolve):
  TypeDecl.kind     - enum type_enum constant of the *body* (`integer_`, `enumeration_`, `list_`, ...)
  TypeDecl.has_head - the TYPE's underlying type is another defined type (TYPEget_head != NULL)
  *.foreign         - the declaration mentions an enumeration/select/supertype declared in another schema
"""
import random

SIMPLE = {"INTEGER": "integer_", "REAL": "real_", "STRING": "string_", "BINARY": "binary_",
          "BOOLEAN": "boolean_", "LOGICAL": "logical_", "NUMBER": "number_"}
AGG = {"ARRAY": "array_", "LIST": "list_", "BAG": "bag_", "SET": "set_"}

RESERVED = set("""abs abstract acos aggregate alias and andor array as asin atan bag based_on begin binary blength
boolean by case constant const_e cos derive div else end end_alias end_case end_constant end_entity end_function
end_if end_local end_procedure end_repeat end_rule end_schema end_subtype_constraint end_type entity enumeration
escape exists exp extensible false fixed for format from function generic generic_entity hibound hiindex if in
insert integer inverse length like list lobound local log log10 log2 logical loindex mod not number nvl odd of
oneof optional or otherwise pi procedure query real reference remove renamed repeat return rolesof rule schema
select self set sin sizeof skip sqrt string subtype subtype_constraint supertype tan then to total_over true type
typeof unique unknown until use usedin value value_in value_unique var where while with xor""".split())


# ---------------------------------------------------------------- type expressions
class TSimple:
    def __init__(self, name):
        self.name = name

    def text(self):
        return self.name


class TRef:
    """reference to a named type or entity (decl is the TypeDecl / EntityDecl)"""
    def __init__(self, decl, spelled=None):
        self.decl = decl
        self.spelled = spelled or decl.spelled

    def text(self):
        return self.spelled


class Bound:
    """shape in {lit, inf, neg, arith, const, attr, derived, self, funcall, negconst, negattr, negderived}"""
    def __init__(self, shape, text, value=None, name=None):
        self.shape, self._text, self.value, self.name = shape, text, value, name

    def text(self):
        return self._text


class TAgg:
    def __init__(self, agg, lo, hi, base, unique=False, optional=False):
        self.agg, self.lo, self.hi, self.base, self.unique, self.optional = agg, lo, hi, base, unique, optional

    def text(self):
        b = ""
        if self.lo is not None:
            b = f" [{self.lo.text()}:{self.hi.text()}]"
        return (f"{self.agg}{b} OF " + ("OPTIONAL " if self.optional else "") +
                ("UNIQUE " if self.unique else "") + self.base.text())


def bounds_of(t):
    """all Bound objects in a type expression, outermost first"""
    out = []
    while isinstance(t, TAgg):
        if t.lo is not None:
            out += [t.lo, t.hi]
        t = t.base
    return out


# ---------------------------------------------------------------- declarations
class Decl:
    kind_tag = "other"

    def __init__(self, name, spelled=None):
        self.name = name               # canonical (lower-case) identifier = dictionary key in libexpress
        self.spelled = spelled or name  # as written in the source text
        self.schema = None
        self.foreign = False


class TypeDecl(Decl):
    kind_tag = "type"

    def __init__(self, name, body, spelled=None, items=None, where=None):
        super().__init__(name, spelled)
        self.body = body      # TSimple | TRef | TAgg | 'enum' | 'select'
        self.items = items or []   # enum item names | select item TRefs
        self.where = where

    @property
    def has_head(self):
        return isinstance(self.body, TRef)

    @property
    def root(self):
        t = self
        while isinstance(t.body, TRef):
            t = t.body.decl
        return t

    @property
    def kind(self):
        r = self.root
        if r.body == "enum":
            return "enumeration_"
        if r.body == "select":
            return "select_"
        if isinstance(r.body, TSimple):
            return SIMPLE[r.body.name]
        if isinstance(r.body, TAgg):
            return AGG[r.body.agg]
        raise ValueError(r.body)

    def text(self):
        if self.body == "enum":
            u = "ENUMERATION OF (" + ", ".join(self.items) + ")"
        elif self.body == "select":
            u = "SELECT (" + ", ".join(i.text() for i in self.items) + ")"
        else:
            u = self.body.text()
        w = f"\nWHERE\n  {self.where};" if self.where else ""
        return f"TYPE {self.spelled} = {u};{w}\nEND_TYPE;"


class Attr:
    def __init__(self, name, type_, optional=False, derived=None):
        self.name, self.type, self.optional, self.derived = name, type_, optional, derived
        self.owner = None     # EntityDecl, set when the attribute is attached by Gen.entity_decl


class EntityDecl(Decl):
    kind_tag = "entity"

    def __init__(self, name, spelled=None):
        super().__init__(name, spelled)
        self.supers = []   # EntityDecl
        self.attrs = []    # Attr
        self.abstract = False

    def all_attrs(self):
        out = []
        for s in self.supers:
            for a in s.all_attrs():
                if a not in out:
                    out.append(a)
        return out + self.attrs

    def text(self):
        l = [f"ENTITY {self.spelled}"]
        if self.abstract:
            l.append("  ABSTRACT SUPERTYPE")
        if self.supers:
            l.append("  SUBTYPE OF (" + ", ".join(s.spelled for s in self.supers) + ")")
        l[-1] += ";"
        for a in self.attrs:
            if a.derived is None:
                l.append(f"  {a.name} : " + ("OPTIONAL " if a.optional else "") + a.type.text() + ";")
        der = [a for a in self.attrs if a.derived is not None]
        if der:
            l.append("DERIVE")
            for a in der:
                l.append(f"  {a.name} : {a.type.text()} := {a.derived};")
        l.append("END_ENTITY;")
        return "\n".join(l)


class OtherDecl(Decl):
    """FUNCTION / PROCEDURE / RULE / a CONSTANT block (names = the constants it defines)"""
    def __init__(self, what, name, src, names=None, spelled=None):
        super().__init__(name, spelled)
        self.what, self.src = what, src
        self.names = names or [name]    # dictionary keys this declaration inserts into the schema scope

    def text(self):
        return self.src


class Schema:
    def __init__(self, name, spelled=None):
        self.name, self.spelled = name, spelled or name
        self.decls = []
        self.references = {}   # other Schema -> [decl]                      REFERENCE FROM o (d, …);
        self.uses = {}         # other Schema -> [(decl, alias or None)]     USE FROM o (d AS alias, …);
        self.ref_alias = {}    # (other Schema, decl name) -> alias          REFERENCE FROM o (d AS alias, …);

    def add(self, d):
        d.schema = self
        self.decls.append(d)
        return d

    def types(self):
        return [d for d in self.decls if isinstance(d, TypeDecl)]

    def entities(self):
        return [d for d in self.decls if isinstance(d, EntityDecl)]

    def symbol_keys(self):
        """keys inserted into the schema's symbol table, in insertion (= textual) order, with their class"""
        out = []
        for d in self.decls:
            if isinstance(d, OtherDecl):
                out += [("other", n, d) for n in d.names]
            else:
                out.append((d.kind_tag, d.name, d))
        return out

    def text(self):
        l = [f"SCHEMA {self.spelled};"]
        for o, ds in self.uses.items():
            l.append(f"USE FROM {o.spelled} (" + ", ".join(d.spelled + (f" AS {a}" if a else "") for d, a in ds) + ");")
        for o, ds in self.references.items():
            l.append(f"REFERENCE FROM {o.spelled} (" + ", ".join(d.spelled + (f" AS {self.ref_alias[(o, d.name)]}" if (o, d.name) in self.ref_alias else "")
                                                                   for d in ds) + ");")
        for d in self.decls:
            l.append(d.text())
        l.append("END_SCHEMA;")
        return "\n".join(l) + "\n"


class SchemaFile:
    def __init__(self, schemas):
        self.schemas = schemas

    def text(self):
        return "\n".join(s.text() for s in self.schemas)

    def features(self):
        f = set()
        if len(self.schemas) > 1:
            f.add("multi-schema")
        for s in self.schemas:
            if s.references:
                f.add("reference-from")
            for d in s.decls:
                if d.foreign:
                    f.add("foreign-dep")
                if d.spelled != d.name:
                    f.add("mixed-case")
                if isinstance(d, TypeDecl):
                    f.add("type:" + d.kind + ("+head" if d.has_head else ""))
                    for b in bounds_of(d.body) if isinstance(d.body, TAgg) else []:
                        f.add("bound:" + b.shape)
                elif isinstance(d, EntityDecl):
                    f.add("entity")
                    if len(d.supers) > 1:
                        f.add("multiple-inheritance")
                    for a in d.attrs:
                        for b in bounds_of(a.type):
                            f.add("bound:" + b.shape)
                else:
                    f.add(d.what)
        return f


# ---------------------------------------------------------------- generator
class Gen:
    def __init__(self, rng, n_types=(3, 12), n_entities=(1, 6), n_other=(0, 3), mixed_case=0.3,
                 p_rename=0.3, p_agg=0.3, p_nonliteral_bound=0.35, cross_refs=0.5, mutual=0.3,
                 case_collide=0.5, long_names=0.1, p_negated_ref=0.0):
        self.rng = rng
        self.k = dict(n_types=n_types, n_entities=n_entities, n_other=n_other, mixed_case=mixed_case,
                      p_rename=p_rename, p_agg=p_agg, p_nonliteral_bound=p_nonliteral_bound,
                      cross_refs=cross_refs, mutual=mutual, case_collide=case_collide, long_names=long_names,
                      p_negated_ref=p_negated_ref)
        self.used = set()
        self.ctr = 0

    # -- names
    def ident(self, prefix, scope_used=None):
        r = self.rng
        while True:
            self.ctr += 1
            syl = ["al", "be", "co", "da", "el", "fi", "ga", "ho", "in", "ju", "ka", "lo", "mu", "ne", "or", "pa"]
            n = prefix + "_" + "".join(r.choice(syl) for _ in range(r.randint(1, 3)))
            if r.random() < self.k["long_names"]:
                n += "_" + "x" * r.randint(20, 60)
            if r.random() < 0.5:
                n += str(self.ctr)
            used = self.used if scope_used is None else scope_used
            if n in used or n in RESERVED:
                continue
            used.add(n)
            return n

    def spell(self, n):
        r = self.rng
        if r.random() >= self.k["mixed_case"]:
            return n
        m = r.randint(0, 2)
        if m == 0:
            return n.upper()
        if m == 1:
            return n.capitalize()
        return "".join(c.upper() if r.random() < 0.5 else c for c in n)

    # -- bounds
    def bound_pair(self, ctx_entity=None, schema=None, agg=None):
        r = self.rng
        lo = Bound("lit", str(v := r.randint(0, 3)), value=v)
        hi_v = v + r.randint(0, 5)
        hi = Bound("lit", str(hi_v), value=hi_v)
        if r.random() < 0.25:
            hi = Bound("inf", "?")
        if r.random() < self.k["p_nonliteral_bound"]:
            shapes = ["neg", "arith"]
            consts = [d for d in schema.decls if isinstance(d, OtherDecl) and d.what == "CONSTANT"] if schema else []
            funs = [d for d in schema.decls if isinstance(d, OtherDecl) and d.what == "FUNCTION"] if schema else []
            if consts:
                shapes.append("const")
            if funs:
                shapes.append("funcall")
            if ctx_entity is not None:
                ints = [a for a in ctx_entity.all_attrs() if isinstance(a.type, TSimple) and a.type.name == "INTEGER"]
                if [a for a in ints if a.derived is None and a in ctx_entity.attrs]:
                    shapes.append("attr")
                inh = [a for a in ints if a.derived is None and a not in ctx_entity.attrs and a.owner is not None]
                if inh and agg == "ARRAY":   # libexpress resolves the group reference only in ARRAY bounds
                    shapes.append("self")     # SELF\super.attr: only legal for an inherited attribute
                if [a for a in ints if a.derived is not None and a in ctx_entity.attrs]:
                    shapes.append("derived")
            sh = r.choice(shapes)
            which = r.choice(["lo", "hi"])
            if sh == "neg":
                b, which = Bound("neg", "-" + str(r.randint(1, 4))), "lo"
            elif sh == "arith":
                b, which = Bound("arith", f"{r.randint(1, 3)} + {r.randint(3, 5)}"), "hi"
            elif sh == "const":
                c = r.choice(consts)
                b = Bound("const", r.choice(c.names), name=c.names[0])
            elif sh == "funcall":
                fdecl = r.choice(funs)
                b = Bound("funcall", f"{fdecl.spelled}({r.randint(1, 3)})", name=fdecl.name)
            elif sh == "attr":
                a = r.choice([a for a in ints if a.derived is None and a in ctx_entity.attrs])
                b = Bound(sh, a.name, name=a.name)
            elif sh == "self":
                a = r.choice(inh)
                b, which = Bound(sh, f"SELF\\{a.owner.spelled}.{a.name}", name=a.name), "hi"
            else:
                a = r.choice([a for a in ints if a.derived is not None and a in ctx_entity.attrs])
                b = Bound("derived", a.name, name=a.name)
            # knob p_negated_ref (default 0: no extra random draw): `-kk`, `-n` — unary minus applied to a reference
            if self.k["p_negated_ref"] > 0 and b.shape in ("const", "attr", "derived") and r.random() < self.k["p_negated_ref"]:
                b, which = Bound("neg" + b.shape, "-" + b.text(), name=b.name), "lo"
            if which == "lo":
                lo = b
            else:
                hi = b
        return lo, hi

    # -- type expressions
    def base_type(self, schema, visible, allow_entity=True, depth=0, ctx_entity=None, agg_ok=True):
        r = self.rng
        named = [d for d in visible if isinstance(d, TypeDecl) or (allow_entity and isinstance(d, EntityDecl))]
        x = r.random()
        if agg_ok and depth < 2 and x < self.k["p_agg"]:
            return self.agg_type(schema, visible, allow_entity, depth, ctx_entity)
        if named and x < 0.75:
            return TRef(r.choice(named))
        return TSimple(r.choice(list(SIMPLE)))

    def agg_type(self, schema, visible, allow_entity=True, depth=0, ctx_entity=None):
        r = self.rng
        agg = r.choice(list(AGG))
        lo = hi = None
        if agg == "ARRAY" or r.random() < 0.7:
            lo, hi = self.bound_pair(ctx_entity, schema if depth == 0 else None, agg if depth == 0 else None)
            if agg == "ARRAY" and hi.shape == "inf":
                hi = Bound("lit", "9", value=9)
        base = self.base_type(schema, visible, allow_entity, depth + 1, ctx_entity)
        return TAgg(agg, lo, hi, base, unique=(agg in ("ARRAY", "LIST") and r.random() < 0.2),
                    optional=(agg == "ARRAY" and r.random() < 0.2))

    # -- declarations
    def other_decl(self, schema, w=None):
        r = self.rng
        w = w or r.choice(["FUNCTION", "FUNCTION", "PROCEDURE", "RULE"])
        if w == "CONSTANT":
            names = [self.ident("k") for _ in range(r.randint(1, 3))]
            src = "CONSTANT\n" + "".join(f"  {n} : INTEGER := {r.randint(1, 9)};\n" for n in names) + "END_CONSTANT;"
            return OtherDecl(w, names[0], src, names=names)
        n = self.ident({"FUNCTION": "f", "PROCEDURE": "p", "RULE": "r"}[w])
        sp = self.spell(n)
        if w == "FUNCTION":
            src = f"FUNCTION {sp}(x : INTEGER) : INTEGER;\n  RETURN (x + 1);\nEND_FUNCTION;"
        elif w == "PROCEDURE":
            src = f"PROCEDURE {sp}(VAR x : INTEGER);\n  x := x + 1;\nEND_PROCEDURE;"
        else:
            ents = schema.entities()
            if not ents:
                return None
            e = r.choice(ents)
            src = (f"RULE {sp} FOR ({e.spelled});\nWHERE\n  wr1 : SIZEOF({e.spelled}) >= 0;\nEND_RULE;")
        return OtherDecl(w, n, src, spelled=sp)

    def type_decl(self, schema, visible, want=None):
        """want in {None, 'simple','enum','select','agg','rename','rename_enum','rename_select'}"""
        r = self.rng
        n = self.ident("t")
        sp = self.spell(n)
        types = [d for d in visible if isinstance(d, TypeDecl)]
        ents = [d for d in visible if isinstance(d, EntityDecl)]
        if want is None:
            want = r.choice(["simple", "enum", "enum", "select", "select", "agg", "agg", "rename", "rename_enum",
                             "rename_select"])
        if want == "rename_enum":
            c = [t for t in types if t.kind == "enumeration_"]
            if not c:
                want = "enum"
            else:
                return TypeDecl(n, TRef(r.choice(c)), sp)
        if want == "rename_select":
            c = [t for t in types if t.kind == "select_"]
            if not c:
                want = "select"
            else:
                return TypeDecl(n, TRef(r.choice(c)), sp)
        if want == "rename":
            c = [t for t in types if t.kind not in ("enumeration_", "select_")]
            if not c:
                want = "simple"
            else:
                return TypeDecl(n, TRef(r.choice(c)), sp)
        if want == "enum":
            items = []
            scope = set()
            for _ in range(r.randint(1, 5)):
                items.append(self.ident("v", scope))
            return TypeDecl(n, "enum", sp, items=items)
        if want == "select":
            cands = types + ents
            if not cands:
                want = "simple"
            else:
                k = r.randint(1, min(4, len(cands)))
                its = r.sample(cands, k)
                return TypeDecl(n, "select", sp, items=[TRef(i) for i in its])
        if want == "agg":
            return TypeDecl(n, self.agg_type(schema, visible, allow_entity=True), sp)
        t = TypeDecl(n, TSimple(r.choice(list(SIMPLE))), sp)
        if isinstance(t.body, TSimple) and t.body.name == "INTEGER" and r.random() < 0.3:
            t.where = "wr1 : SELF > 0"
        return t

    def entity_decl(self, schema, visible):
        r = self.rng
        n = self.ident("e")
        e = EntityDecl(n, self.spell(n))
        ents = [d for d in visible if isinstance(d, EntityDecl) and d.schema is schema]
        if ents and r.random() < 0.5:
            e.supers = r.sample(ents, 1 if r.random() < 0.7 or len(ents) < 2 else 2)
        scope = {a.name for a in e.all_attrs()}
        na = r.randint(0, 4)
        if r.random() < 0.6:
            e.attrs.append(Attr(self.ident("n", scope), TSimple("INTEGER")))
        if r.random() < 0.4 and e.attrs:
            e.attrs.append(Attr(self.ident("d", scope), TSimple("INTEGER"), derived=f"{e.attrs[0].name} + 1"))
        for _ in range(na):
            t = self.base_type(schema, visible, allow_entity=True, ctx_entity=e)
            e.attrs.append(Attr(self.ident("a", scope), t, optional=r.random() < 0.25))
        for a in e.attrs:
            a.owner = e
        return e

    def schema(self, name=None, visible_foreign=()):
        r = self.rng
        n = name or self.ident("s")
        s = Schema(n, self.spell(n))
        nt, ne, no = (r.randint(*self.k[x]) for x in ("n_types", "n_entities", "n_other"))
        plan = ["type"] * nt + ["entity"] * ne + ["other"] * no
        r.shuffle(plan)
        # an entity and a simple type early, so that selects/aggregates have something to refer to
        plan = ["entity", "type:simple"] + plan
        if r.random() < 0.5:
            plan = ["other:CONSTANT"] + plan     # the constant block has to precede all other declarations
        for p in plan:
            visible = list(s.decls) + list(visible_foreign)
            if p == "entity":
                d = self.entity_decl(s, visible)
            elif p.startswith("type"):
                d = self.type_decl(s, visible, want=p[5:] or None)
            else:
                d = self.other_decl(s, p[6:] or None)
            if d is not None:
                s.add(d)
                self._note_foreign(s, d)
        return s

    def _note_foreign(self, s, d):
        """mark d.foreign and record REFERENCE FROM clauses for everything d mentions from other schemas"""
        def mention(x):
            if isinstance(x, TRef):
                o = x.decl
                if o.schema is not None and o.schema is not s:
                    s.references.setdefault(o.schema, [])
                    if o not in s.references[o.schema]:
                        s.references[o.schema].append(o)
                    if isinstance(o, TypeDecl) and o.kind in ("enumeration_", "select_"):
                        d.foreign = True
            elif isinstance(x, TAgg):
                mention(x.base)
        if isinstance(d, TypeDecl):
            if isinstance(d.body, (TRef, TAgg)):
                mention(d.body)
            for i in d.items:
                mention(i)
        elif isinstance(d, EntityDecl):
            for a in d.attrs:
                mention(a.type)
            for sup in d.supers:
                if sup.schema is not s:
                    d.foreign = True

    def schema_file(self, nschemas=1):
        r = self.rng
        self.used = set()
        schemas = []
        for i in range(nschemas):
            foreign = []
            if schemas and r.random() < self.k["cross_refs"]:
                o = r.choice(schemas)
                pool = [d for d in o.decls if isinstance(d, (TypeDecl, EntityDecl))]
                foreign = r.sample(pool, min(len(pool), r.randint(1, 3)))
            name = None
            if schemas and r.random() < self.k["case_collide"]:
                # declarations whose names equal (after case folding) names in an earlier schema
                self.used -= {d.name for d in r.choice(schemas).decls if r.random() < 0.3}
            schemas.append(self.schema(name, foreign))
        if nschemas > 1 and r.random() < self.k["mutual"]:
            # make the first schema depend on an enumeration of the last one (mutual dependency when the last
            # one already references the first): exp2cxx must then print a schema in more than one pass
            a, b = schemas[0], schemas[-1]
            en = [t for t in b.types() if t.kind == "enumeration_" and not t.has_head]
            if en and a.entities():
                e = a.entities()[-1]
                t = TRef(r.choice(en))
                e.attrs.append(Attr(self.ident("x", {x.name for x in e.all_attrs()}), t))
                self._note_foreign(a, e)
        return SchemaFile(schemas)


def every_type_kind_schema(name="all_kinds"):
    """deterministic schema with one defined type of every shape (no randomness)"""
    s = Schema(name)
    e1 = s.add(EntityDecl("ek_one"))
    e1.attrs.append(Attr("n", TSimple("INTEGER")))
    ts = {}
    for sn in SIMPLE:
        ts[sn] = s.add(TypeDecl("tk_" + sn.lower(), TSimple(sn)))
    en = s.add(TypeDecl("tk_enum", "enum", items=["aa", "bb", "cc"]))
    en2 = s.add(TypeDecl("tk_enum_ren", TRef(en)))
    s.add(TypeDecl("tk_enum_ren2", TRef(en2)))
    sel = s.add(TypeDecl("tk_sel", "select", items=[TRef(e1), TRef(ts["INTEGER"])]))
    sel2 = s.add(TypeDecl("tk_sel_ren", TRef(sel)))
    s.add(TypeDecl("tk_sel_ren2", TRef(sel2)))
    s.add(TypeDecl("tk_sel_of_sel", "select", items=[TRef(sel), TRef(en)]))
    one = Bound("lit", "1", value=1)
    three = Bound("lit", "3", value=3)
    for agg in AGG:
        lo, hi = (one, three) if agg == "ARRAY" else (None, None)
        a = s.add(TypeDecl("tk_" + agg.lower() + "_int", TAgg(agg, lo, hi, TSimple("INTEGER"))))
        s.add(TypeDecl("tk_" + agg.lower() + "_ent", TAgg(agg, lo, hi, TRef(e1))))
        s.add(TypeDecl("tk_" + agg.lower() + "_enum", TAgg(agg, lo, hi, TRef(en))))
        s.add(TypeDecl("tk_" + agg.lower() + "_sel", TAgg(agg, lo, hi, TRef(sel2))))
        s.add(TypeDecl("tk_" + agg.lower() + "_def", TAgg(agg, lo, hi, TRef(ts["STRING"]))))
        s.add(TypeDecl("tk_" + agg.lower() + "_2d", TAgg(agg, lo, hi, TAgg("LIST", None, None, TSimple("REAL")))))
        s.add(TypeDecl("tk_" + agg.lower() + "_ren", TRef(a)))
    s.add(TypeDecl("tk_ren_simple", TRef(ts["REAL"])))
    e2 = s.add(EntityDecl("ek_two"))
    e2.supers = [e1]
    e2.attrs.append(Attr("s", TRef(sel)))
    e2.attrs.append(Attr("q", TRef(en2)))
    return SchemaFile([s])


def every_bound_shape_schema(name="all_bounds"):
    """deterministic schema with one defined aggregate type / attribute per bound shape exp2cxx distinguishes"""
    s = Schema(name)
    s.add(OtherDecl("CONSTANT", "kk", "CONSTANT\n  kk : INTEGER := 7;\nEND_CONSTANT;", names=["kk"]))
    one = Bound("lit", "1", value=1)
    def ty(n, lo, hi, agg="LIST"):
        return s.add(TypeDecl(n, TAgg(agg, lo, hi, TSimple("INTEGER"))))
    ty("tb_lit", one, Bound("lit", "3", value=3), "ARRAY")
    ty("tb_inf", Bound("lit", "0", value=0), Bound("inf", "?"))
    ty("tb_neg", Bound("neg", "-2"), Bound("lit", "3", value=3), "ARRAY")
    ty("tb_arith", one, Bound("arith", "2 + 3"))
    ty("tb_const", one, Bound("const", "kk", name="kk"))
    ty("tb_const_lo", Bound("const", "kk", name="kk"), Bound("inf", "?"))
    ty("tb_fun", one, Bound("funcall", "ff(2)", name="ff"))
    ty("tb_negconst", Bound("negconst", "-kk", name="kk"), Bound("const", "kk", name="kk"), "ARRAY")
    e0 = s.add(EntityDecl("eb_zero"))
    e0.attrs.append(Attr("n", TSimple("INTEGER")))
    e1 = s.add(EntityDecl("eb_one"))
    e1.supers = [e0]
    e1.attrs += [Attr("m", TSimple("INTEGER")),
                 Attr("d", TSimple("INTEGER"), derived="m - 1"),
                 Attr("a_attr", TAgg("ARRAY", Bound("lit", "0", value=0), Bound("attr", "m", name="m"), TSimple("REAL"))),
                 Attr("a_der", TAgg("ARRAY", Bound("lit", "0", value=0), Bound("derived", "d", name="d"), TSimple("REAL"))),
                 Attr("a_self", TAgg("ARRAY", one, Bound("self", "SELF\\eb_zero.n", name="n"), TSimple("REAL"))),
                 Attr("a_expr", TAgg("LIST", one, Bound("arith", "m + 1"), TSimple("REAL"))),
                 Attr("a_negattr", TAgg("ARRAY", Bound("negattr", "-m", name="m"), Bound("attr", "m", name="m"), TSimple("REAL")))]
    for a in e0.attrs:
        a.owner = e0
    for a in e1.attrs:
        a.owner = e1
    s.add(OtherDecl("FUNCTION", "ff", "FUNCTION ff(x : INTEGER) : INTEGER;\n  RETURN (x);\nEND_FUNCTION;"))
    return SchemaFile([s])


def renamed_in_select_schema(names, variant=0, schema_name="ren_in_sel"):
    """deterministic single schema in which renamed enumerations / selects are reached from SELECTs — as a select item,
    as the attribute type of an entity item (plain and as aggregate), through an inherited attribute — under the given
    identifiers.  `names` = dict with keys enum, ren, ren2, sel, sel2, rsel, ent, sub (the hash order of the symbol table,
    hence the order in which exp2cxx's checkTypes visits them, is a function of these strings).  variant 0..3 selects how
    the renamed enumeration is reached."""
    s = Schema(schema_name)
    n = names
    en = TypeDecl(n["enum"], "enum", items=["va_" + n["enum"][:6], "vb_" + n["enum"][:6]])
    ren = TypeDecl(n["ren"], TRef(en))
    ren2 = TypeDecl(n["ren2"], TRef(ren))
    ent = EntityDecl(n["ent"])
    sub = EntityDecl(n["sub"])
    sub.supers = [ent]
    ent.attrs.append(Attr("nm", TSimple("STRING")))
    target = ren if variant % 2 == 0 else ren2
    if variant in (0, 1):          # the renamed enumeration itself is a select item
        sel = TypeDecl(n["sel"], "select", items=[TRef(target), TRef(ent)])
    elif variant == 2:             # an entity item has an attribute of that type
        ent.attrs.append(Attr("tint", TRef(target)))
        sel = TypeDecl(n["sel"], "select", items=[TRef(ent)])
    else:                          # … an aggregate of it, inherited by the item
        ent.attrs.append(Attr("tints", TAgg("LIST", None, None, TRef(target))))
        sel = TypeDecl(n["sel"], "select", items=[TRef(sub)])
    sel2 = TypeDecl(n["sel2"], "select", items=[TRef(sel), TRef(en)])
    rsel = TypeDecl(n["rsel"], TRef(sel))
    sub.attrs.append(Attr("chosen", TRef(rsel)))
    for a in ent.attrs:
        a.owner = ent
    for a in sub.attrs:
        a.owner = sub
    # textual order: originals first (any order is legal EXPRESS; the visiting order is the hash order anyway)
    for d in (en, ren, ren2, ent, sel, sel2, rsel, sub):
        s.add(d)
    return SchemaFile([s])


def type_only_schemas():
    """[(label, SchemaFile)]: schemas WITHOUT entities — each kind of defined type alone, and a 'vocabulary' schema of
    simple/aggregate/renamed types (none of which gets per-type files)"""
    out = []
    def one(label, build):
        s = Schema("only_" + label)
        build(s)
        out.append((label, SchemaFile([s])))
    for sn in SIMPLE:
        one(sn.lower(), lambda s, sn=sn: s.add(TypeDecl("t_" + sn.lower(), TSimple(sn))))
    one("enum", lambda s: s.add(TypeDecl("t_enum", "enum", items=["aa", "bb"])))
    def ren_enum(s):
        e = s.add(TypeDecl("t_enum", "enum", items=["aa", "bb"]))
        s.add(TypeDecl("t_enum_ren", TRef(e)))
    one("renamed_enum", ren_enum)
    def sel(s):
        a = s.add(TypeDecl("t_lab", TSimple("STRING")))
        b = s.add(TypeDecl("t_cnt", TSimple("INTEGER")))
        x = s.add(TypeDecl("t_sel", "select", items=[TRef(a), TRef(b)]))
        s.add(TypeDecl("t_sel_ren", TRef(x)))
    one("select", sel)
    for agg in AGG:
        lo, hi = (Bound("lit", "1", value=1), Bound("lit", "3", value=3)) if agg == "ARRAY" else (None, None)
        one(agg.lower(), lambda s, agg=agg, lo=lo, hi=hi: s.add(TypeDecl("t_" + agg.lower(), TAgg(agg, lo, hi, TSimple("REAL")))))
    def vocab(s):
        lab = s.add(TypeDecl("label", TSimple("STRING")))
        s.add(TypeDecl("text", TRef(lab)))
        cnt = s.add(TypeDecl("count", TSimple("INTEGER")))
        cnt.where = "positive : SELF >= 0"
        ratio = s.add(TypeDecl("ratio", TSimple("REAL")))
        s.add(TypeDecl("flag", TSimple("BOOLEAN")))
        s.add(TypeDecl("labels", TAgg("LIST", Bound("lit", "1", value=1), Bound("inf", "?"), TRef(lab))))
        three = Bound("lit", "3", value=3)
        one_ = Bound("lit", "1", value=1)
        s.add(TypeDecl("matrix", TAgg("ARRAY", one_, three, TAgg("ARRAY", one_, three, TRef(ratio)))))
        s.add(TypeDecl("labels_ren", TRef(s.decls[-2])))
    one("vocabulary", vocab)
    return out


def long_identifier_schema(kind, lengths, filler="q"):
    """schema in which declarations of `kind` (enum | select | entity | simple | agg | renamed_enum | function | schema)
    have names of the given lengths (1 or 2 lengths; all <= 200 are inside exp2cxx's identifier gate); the rest of the
    schema is ordinary and uses the long-named declarations (attribute types, select items)"""
    def nm(prefix, n, i):
        base = f"{prefix}{i}_"
        return base + (filler * (n - len(base)))
    s = Schema(nm("s", lengths[0], 0) if kind == "schema" else "long_names")
    ent = EntityDecl("thing")
    ent.attrs.append(Attr("nm", TSimple("STRING")))
    made = []
    for i, n in enumerate(lengths):
        if kind == "enum":
            d = TypeDecl(nm("colour", n, i), "enum", items=[f"red{i}", f"green{i}"])
        elif kind == "renamed_enum":
            o = s.add(TypeDecl(f"orig{i}", "enum", items=[f"ra{i}", f"rb{i}"]))
            d = TypeDecl(nm("shade", n, i), TRef(o))
        elif kind == "select":
            d = TypeDecl(nm("pick", n, i), "select", items=[TRef(ent)])
        elif kind == "simple":
            d = TypeDecl(nm("label", n, i), TSimple("STRING"))
        elif kind == "agg":
            d = TypeDecl(nm("row", n, i), TAgg("LIST", None, None, TSimple("REAL")))
        elif kind == "entity":
            d = EntityDecl(nm("part", n, i))
        elif kind == "function":
            fn = nm("f", n, i)
            d = OtherDecl("FUNCTION", fn, f"FUNCTION {fn}(x : INTEGER) : INTEGER;\n  RETURN (x);\nEND_FUNCTION;")
        else:
            d = TypeDecl(f"plain{i}", "enum", items=[f"pa{i}", f"pb{i}"])
        made.append(d)
    s.add(ent)
    other = EntityDecl("other")
    for i, d in enumerate(made):
        s.add(d)
        if isinstance(d, (TypeDecl, EntityDecl)):
            other.attrs.append(Attr(f"a{i}", TRef(d)))
    s.add(TypeDecl("short_enum", "enum", items=["xa", "xb"]))
    other.attrs.append(Attr("z", TRef(s.decls[-1])))
    s.add(other)
    for a in ent.attrs:
        a.owner = ent
    for a in other.attrs:
        a.owner = other
    return SchemaFile([s])


def select_chain_schema(names, through_aggregate=False, with_user=True, schema_name="sel_chain"):
    """a legal ACYCLIC chain of nested selects: names[0] = SELECT (names[1], ent), names[1] = SELECT (names[2], ent), …, the
    last one SELECT (ent, other).  exp2cxx's checkTypes needs one sweep per link where the outer select precedes its member
    in the dictionary's (hash) order, so the names decide how many sweeps are needed.  through_aggregate: every member is
    reached through a `LIST OF` type.  with_user: an entity with an attribute of the outermost and of a middle select."""
    s = Schema(schema_name)
    ent = s.add(EntityDecl("link_end"))
    ent.attrs.append(Attr("nm", TSimple("STRING")))
    oth = s.add(EntityDecl("link_other"))
    sels = [TypeDecl(n, "select") for n in names]
    for i, t in enumerate(sels):
        if i + 1 < len(sels):
            if through_aggregate:
                lst = s.add(TypeDecl("list_of_" + sels[i + 1].name, None))
                lst.body = TAgg("LIST", None, None, TRef(sels[i + 1]))
                t.items = [TRef(lst), TRef(ent)]
            else:
                t.items = [TRef(sels[i + 1]), TRef(ent)]
        else:
            t.items = [TRef(ent), TRef(oth)]
    for t in sels:
        s.add(t)
    if with_user:
        u = s.add(EntityDecl("link_holder"))
        u.attrs.append(Attr("outer_pick", TRef(sels[0])))
        u.attrs.append(Attr("middle_pick", TRef(sels[len(sels) // 2])))
        for a in u.attrs:
            a.owner = u
    for a in ent.attrs:
        a.owner = ent
    return SchemaFile([s])


def select_cycle_through_aggregates_schema(n=2, schema_name="sel_cycle"):
    """n >= 2 selects that contain each other in a circle through LIST types (legal EXPRESS, accepted by check-express):
    TYPE c0 = SELECT (list_of_c1, e); … TYPE c<n-1> = SELECT (list_of_c0, e)"""
    s = Schema(schema_name)
    ent = s.add(EntityDecl("cyc_end"))
    ent.attrs.append(Attr("n", TSimple("INTEGER")))
    ent.attrs[0].owner = ent
    sels = [TypeDecl(f"cyc_{i}", "select") for i in range(n)]
    lists = []
    for i, t in enumerate(sels):
        l = TypeDecl(f"list_of_cyc_{i}", None)
        l.body = TAgg("LIST", None, None, TRef(t))
        lists.append(l)
    for i, t in enumerate(sels):
        t.items = [TRef(lists[(i + 1) % n]), TRef(ent)]
    for d in lists + sels:
        s.add(d)
    return SchemaFile([s])


def select_cycle_in(f):
    """names of selects of a SchemaFile that lie on a cycle of length >= 2 of the relation 'has as item (looking through one
    aggregate level, as exp2cxx's checkItem does) the select' — the shape on which checkTypes' sweep loop cannot settle"""
    out = set()
    for s in f.schemas:
        sels = {t.name: t for t in s.types() if t.body == "select"}
        def members(t):
            r = []
            for it in t.items:
                d = it.decl
                if isinstance(d, TypeDecl) and isinstance(d.body, TAgg) and isinstance(d.body.base, TRef):
                    d = d.body.base.decl
                if isinstance(d, TypeDecl):
                    d = d.root if d.has_head and d.root.body == "select" else d
                    if d.body == "select" and d.name in sels:
                        r.append(d.name)
            return r
        for n in sels:
            seen, todo = set(), members(sels[n])
            while todo:
                m = todo.pop()
                if m == n:
                    out.add(n)
                    break
                if m not in seen:
                    seen.add(m)
                    todo += members(sels[m])
    return sorted(out)


def item_interfaces_file(n_use=3, n_ref=3, renames=True, names=None):
    """one file: supplier schemas (each with an entity, an enumeration and a defined type) and a `consumer` schema that takes
    single items ITEM-WISE from n_use of them with USE FROM s (…) and from n_ref others with REFERENCE FROM s (…),
    optionally with AS renames, and uses them (attribute types, supertype).  Whole-schema interfaces are not used."""
    k = n_use + n_ref
    names = names or [f"supplier_{chr(97 + i)}" for i in range(k)]
    sups = []
    for i, n in enumerate(names):
        s = Schema(n)
        e = s.add(EntityDecl(f"part_{i}"))
        e.attrs.append(Attr("nm", TSimple("STRING")))
        e.attrs[0].owner = e
        s.add(TypeDecl(f"grade_{i}", "enum", items=[f"low_{i}", f"high_{i}"]))
        s.add(TypeDecl(f"label_{i}", TSimple("STRING")))
        sups.append(s)
    c = Schema("consumer")
    user = EntityDecl("assembly")
    for i, s in enumerate(sups):
        ent, enum, lab = s.decls
        if i < n_use:
            alias = f"used_part_{i}" if (renames and i % 2 == 0) else None
            c.uses[s] = [(ent, alias), (lab, None)]
            user.attrs.append(Attr(f"p{i}", TRef(ent, spelled=alias or ent.spelled)))
            user.attrs.append(Attr(f"l{i}", TRef(lab)))
        else:
            c.references[s] = [ent, enum]
            if renames and i % 2 == 1:
                c.ref_alias[(s, enum.name)] = f"ref_grade_{i}"
            user.attrs.append(Attr(f"r{i}", TRef(ent)))
            user.attrs.append(Attr(f"g{i}", TRef(enum, spelled=c.ref_alias.get((s, enum.name), enum.spelled))))
    for a in user.attrs:
        a.owner = user
    c.add(user)
    order = sups[:len(sups) // 2] + [c] + sups[len(sups) // 2:]
    return SchemaFile(order)

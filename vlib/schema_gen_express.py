"""Grammar-directed generator of single-schema EXPRESS files for the front-end properties (C04, C20).

`gen_schema(rng, size)` -> Schema (valid by construction: every reference resolves, no duplicates, sub/super and select
graphs acyclic, every explicitly listed subtype lists its supertype, no inherited attribute re-declared, INVERSE
well-formed, calls have the declared number of arguments).
`render(schema)`        -> (text, protocol lines for the Lean drivers m_c20 / m_c04); one construct per line, line numbers
                           are the 0-based numbers the scanner attaches (`yylineno` starts at 0).
`MUTATORS`              -> name -> function(schema, rng) -> Fault | None, each injecting exactly one fault
`lexical_mutants(text, rng)` -> byte-level single-fault mutants with the diagnostic they must cause.
Everything random comes from the `rng` passed in.
"""
import copy

SIMPLE = ["INTEGER", "REAL", "STRING", "BOOLEAN", "LOGICAL", "NUMBER"]


class Attr:
    def __init__(self, name, ty, optional=False, inverse_for=None, redecl_of=None):
        self.name, self.ty, self.optional, self.inverse_for = name, ty, optional, inverse_for
        self.redecl_of = redecl_of          # `SELF\\<redecl_of>.<name> : ty` — redeclaration of an inherited attribute
        self.line = self.for_line = 0
        self.bound = None                   # Expr: upper bound of the (aggregate) type, rendered in place of the `?` of `[1:?]`
        self.expr = None                    # Expr: initialiser (the attribute is in the entity's `derives`)


class Rule:
    def __init__(self, label, kind, **kw):
        self.label, self.kind, self.kw, self.line = label, kind, kw, 0


class Entity:
    def __init__(self, name):
        self.name, self.supers, self.subs_expr, self.attrs, self.rules = name, [], None, [], []
        self.uniques = []          # Unique(label, qual, attr): `label : attr;` / `label : SELF\\qual.attr;`
        self.derives = []          # Attr with .expr: `name : INTEGER := <expr>;` of the DERIVE clause
        self.line = 0
        self.super_lines = []


class Unique:
    def __init__(self, label, qual, attr):
        self.label, self.qual, self.attr, self.line = label, qual, attr, 0


class TypeDecl:
    def __init__(self, name, kind, arg):
        self.name, self.kind, self.arg, self.line = name, kind, arg, 0   # kind: ref|enum|select
        self.rules = []            # WHERE rules of the type: Rule(label, "tcall", fn=…, argc=…)


class Expr:
    """an expression outside domain rules (DERIVE initialiser, aggregate bound, constant value, statement of a function body,
    WHERE clause of a global RULE):  [fn(] refs…, literals… [)] [+ refs…]   — `refs` are bare identifiers"""

    def __init__(self, label, fn=None, argc=0, refs=None, args=None):
        self.label, self.fn, self.argc, self.refs, self.line = label, fn, argc, list(refs or []), 0
        # explicit argument list of the call (then `refs` stand outside it): "L" literal, ("B", name) bare identifier, ("S", attr) SELF.attr
        self.args = args
        # the statement around the assignment that carries the expression (function bodies only): (kind, literal) with kind
        # if_then / if_else / case / case_otherwise / while / until — every branch is resolved, reachable or not
        self.wrap = None

    def stmt_lines(self, lhs):
        """-> (text lines of the statement, index of the line that carries the expression)"""
        a = f"{lhs} := {self.text()};"
        if not self.wrap:
            return [a], 0
        k, lit = self.wrap
        if k == "if_then":
            return [f"IF {lit} THEN", "  " + a, "END_IF;"], 1
        if k == "if_else":
            return [f"IF {lit} THEN", f"  {lhs} := 0;", "ELSE", "  " + a, "END_IF;"], 3
        if k == "case":
            return ["CASE 1 OF", "  2 : " + a, f"  OTHERWISE : {lhs} := 0;", "END_CASE;"], 1
        if k == "case_otherwise":
            return ["CASE 1 OF", f"  2 : {lhs} := 0;", "  OTHERWISE : " + a, "END_CASE;"], 2
        if k == "while":
            return [f"REPEAT WHILE {lit};", "  " + a, "END_REPEAT;"], 1
        return [f"REPEAT UNTIL {lit};", "  " + a, "END_REPEAT;"], 1

    def text(self):
        if self.args is not None:
            at = [str(i + 1) if a == "L" else (a[1] if a[0] == "B" else f"SELF.{a[1]}") for i, a in enumerate(self.args)]
            return " + ".join([f"{self.fn}({', '.join(at)})"] + self.refs)
        rest = self.refs
        parts = []
        if self.fn:
            args = self.refs[:self.argc]
            args += [str(i + 1) for i in range(self.argc - len(args))]
            parts.append(f"{self.fn}({', '.join(args)})")
            rest = self.refs[self.argc:]
        parts += rest
        return " + ".join(parts) if parts else "1"

    def proto(self, out):
        out.append(f"expr {self.label} {self.line}")
        if self.args is not None:
            out.append(f"callwith {self.fn} " + (",".join("L" if a == "L" else f"{a[0]}:{a[1]}" for a in self.args) or "-"))
        elif self.fn:
            out.append(f"call {self.fn} {self.argc}")
        for r in self.refs:
            out.append(f"bareattr {r}")


class Func:
    """FUNCTION (kind 'function'), global RULE ('rule': `locals_` = the entities it is FOR), CONSTANT ('constant': `body` = its
    value).  `locals_`: local variables of a function; `body`: Expr list (statements `v0 := <expr>;` / WHERE clauses / the value)"""

    def __init__(self, name, nparams, kind="function"):
        self.name, self.nparams, self.line = name, nparams, 0
        self.kind, self.locals_, self.body = kind, [], []

    def scope_names(self):
        return [f"p{i}" for i in range(self.nparams)] + list(self.locals_)


class SyntaxError_:
    def __init__(self, scope_kind, scope_name):
        self.scope_kind, self.scope_name, self.line = scope_kind, scope_name, 0


class Item:
    def __init__(self, old, new=None):
        self.old, self.new, self.line = old, new, 0

    def visible(self):
        return self.new or self.old


class Iface:
    """USE FROM / REFERENCE FROM clause; items None = the whole schema"""

    def __init__(self, kind, schema, items=None):
        self.kind, self.schema, self.items, self.line = kind, schema, items, 0


class Schema:
    def __init__(self, name):
        self.name, self.decls = name, []
        self.ifaces = []
        self.file = None               # relative path of the schema's own file when it is not in the main file
        self.drop_semicolon = None     # (decl index, what) for the syntax-error mutant

    def entities(self):
        return [d for d in self.decls if isinstance(d, Entity)]

    def types(self):
        return [d for d in self.decls if isinstance(d, TypeDecl)]

    def funcs(self):
        return [d for d in self.decls if isinstance(d, Func)]

    def find(self, name):
        return next((d for d in self.decls if getattr(d, "name", None) == name), None)


# type refs: ("S", "INTEGER") | ("N", name) | ("A", "LIST [0:?] OF", ref)
def ty_text(t):
    if t[0] == "S":
        return t[1]
    if t[0] == "N":
        return t[1]
    return f"{t[1]} {ty_text(t[2])}"


def ty_proto(t, line):
    if t[0] == "S":
        return "S"
    if t[0] == "N":
        return f"N:{t[1]}:{line}"
    return "A:" + ty_proto(t[2], line)


def subs_flat(x):
    """entity references of a SUPERTYPE OF expression, left to right"""
    if x is None:
        return []
    if isinstance(x, str):
        return [x]
    out = []
    for y in x[1]:
        out += subs_flat(y)
    return out


def subs_text(x):
    if isinstance(x, str):
        return x
    op, items = x
    if op == "ONEOF":
        return "ONEOF (" + ", ".join(subs_text(i) for i in items) + ")"
    return "(" + f" {op} ".join(subs_text(i) for i in items) + ")"


def s_with(s, ents):
    """a view of `s` that already contains `ents` (used while the schema is being built)"""
    v = Schema(s.name)
    v.decls = s.decls + [e for e in ents if e not in s.decls]
    return v


def gen_schema(rng, size=6, tag="", pre=""):
    """`pre` is put in front of every declared name (keeps the schemas of one file disjoint)"""
    s = Schema("sch" + tag)
    n_types = rng.randint(1, max(2, size // 2))
    tnames = []
    for i in range(n_types):
        nm = f"{pre}ty_{i}{rng.choice('abcxyz')}"
        if tnames and rng.random() < 0.35:
            s.decls.append(TypeDecl(nm, "ref", ("N", rng.choice(tnames))))
        elif rng.random() < 0.3:
            s.decls.append(TypeDecl(nm, "ref", ("A", rng.choice(["LIST [0:?] OF", "SET [1:?] OF", "BAG OF", "ARRAY [1:3] OF"]),
                                                 ("S", rng.choice(SIMPLE)))))
        else:
            s.decls.append(TypeDecl(nm, "ref", ("S", rng.choice(SIMPLE))))
        tnames.append(nm)
    for i in range(rng.randint(0, 2)):
        s.decls.append(TypeDecl(f"{pre}en_{i}{rng.choice('pq')}", "enum", [f"{pre}it_{i}_{j}" for j in range(rng.randint(1, 4))]))
    nf = rng.randint(1, 2)
    for i in range(nf):
        s.decls.append(Func(f"{pre}fn_{i}{rng.choice('uvw')}", rng.randint(1, 3)))
    n_ent = rng.randint(2, size)
    ents = []
    for i in range(n_ent):
        e = Entity(f"{pre}e{i}{rng.choice('klmn')}")
        # supertypes among earlier entities (acyclic by construction)
        if ents and rng.random() < 0.65:
            k = 1 if rng.random() < 0.7 else 2
            e.supers = [x.name for x in rng.sample(ents, min(k, len(ents)))]
        ents.append(e)
    # explicit SUPERTYPE OF expressions (every listed subtype does list the supertype)
    for e in ents:
        subs = [x.name for x in ents if e.name in x.supers]
        if subs and rng.random() < 0.7:
            listed = [x for x in subs if rng.random() < 0.8] or subs[:1]
            rng.shuffle(listed)
            if len(listed) == 1:
                e.subs_expr = listed[0] if rng.random() < 0.5 else ("ONEOF", listed)
            elif len(listed) == 2 and rng.random() < 0.5:
                e.subs_expr = (rng.choice(["ANDOR", "AND"]), listed)
            elif len(listed) >= 3 and rng.random() < 0.4:
                e.subs_expr = ("ANDOR", [("ONEOF", listed[:2])] + listed[2:])
            else:
                e.subs_expr = ("ONEOF", listed)
    # select types over entities / other selects / defined types (acyclic: only earlier selects)
    sels = []
    for i in range(rng.randint(0, 3)):
        pool = [x.name for x in ents] + sels + tnames[:1]
        items = rng.sample(pool, min(len(pool), rng.randint(1, 3)))
        nm = f"{pre}sel_{i}{rng.choice('gh')}"
        s.decls.append(TypeDecl(nm, "select", items))
        sels.append(nm)
    # attributes
    enums = [t.name for t in s.decls if isinstance(t, TypeDecl) and t.kind == "enum"]
    for e in ents:
        for j in range(rng.randint(0, 3)):
            r = rng.random()
            if r < 0.35:
                ty = ("S", rng.choice(SIMPLE))
            elif r < 0.55:
                ty = ("N", rng.choice(tnames + enums + sels))
            elif r < 0.75:
                ty = ("N", rng.choice(ents).name)
            else:
                ty = ("A", rng.choice(["LIST [0:?] OF", "SET [1:?] OF", "ARRAY [1:3] OF"]),
                      rng.choice([("S", rng.choice(SIMPLE)), ("N", rng.choice(ents).name), ("N", rng.choice(tnames))]))
            e.attrs.append(Attr(f"a_{e.name}_{j}", ty, optional=rng.random() < 0.2))
    # INVERSE: target entity X has an explicit attribute r : Y  ==>  Y gets  inv : SET OF X FOR r
    for e in ents:
        for a in list(e.attrs):
            if a.ty[0] == "N" and a.inverse_for is None and rng.random() < 0.5:
                y = next((x for x in ents if x.name == a.ty[1]), None)
                if y is not None and y is not e:
                    y.attrs.append(Attr(f"inv_{y.name}_{len(y.attrs)}", ("A", "SET OF", ("N", e.name)), inverse_for=a.name))
    # domain rules
    funcs = s.funcs()
    for t in s.types():
        if rng.random() < 0.3:
            f = rng.choice(funcs)
            t.rules.append(Rule("wt0", "tcall", fn=f.name, argc=f.nparams))
    for e in ents:
        expl = [a for a in e.attrs if a.inverse_for is None]
        nums = [a for a in expl if a.ty == ("S", "INTEGER") or a.ty == ("S", "REAL") or a.ty == ("S", "NUMBER")]
        k = 0
        if nums and rng.random() < 0.6:
            f = rng.choice(funcs)
            e.rules.append(Rule(f"wr{k}", "call", fn=f.name, argc=f.nparams, attr=rng.choice(nums).name)); k += 1
        if expl and rng.random() < 0.4:
            e.rules.append(Rule(f"wr{k}", "exists", attr=rng.choice(expl).name)); k += 1
        if nums and rng.random() < 0.3:
            e.rules.append(Rule(f"wr{k}", "bare", attr=rng.choice(nums).name)); k += 1
    # redeclaration of an inherited explicit attribute: SELF\\ancestor.attr : <same type>
    for e in ents:
        if rng.random() < 0.25:
            cands = []
            for an in sorted(_ancestors(s_with(s, ents), e)):
                x = next(y for y in ents if y.name == an)
                cands += [(x, a) for a in x.attrs if a.inverse_for is None and a.redecl_of is None]
            if cands:
                x, a = rng.choice(cands)
                if not any(b.name == a.name for b in e.attrs):
                    e.attrs.append(Attr(a.name, a.ty, redecl_of=x.name))
    # UNIQUE rules over own and inherited attributes, unqualified or `SELF\\ancestor.attr` (never the needlessly qualified form)
    for e in ents:
        k = 0
        own = [a for a in e.attrs if a.inverse_for is None]
        if own and rng.random() < 0.35:
            e.uniques.append(Unique(f"ur{k}", None, rng.choice(own).name)); k += 1
        inh = []
        for an in sorted(_ancestors(s_with(s, ents), e)):
            x = next(y for y in ents if y.name == an)
            inh += [(x, a) for a in x.attrs if a.inverse_for is None and not any(b.name == a.name for b in e.attrs)]
        if inh and rng.random() < 0.4:
            x, a = rng.choice(inh)
            e.uniques.append(Unique(f"ur{k}", x.name if rng.random() < 0.6 else None, a.name)); k += 1
    # explicit attributes first, then INVERSE ones (the grammar's clause order)
    for e in ents:
        e.attrs = [a for a in e.attrs if a.inverse_for is None] + [a for a in e.attrs if a.inverse_for is not None]
    # interleave entities with the other declarations a little
    s.decls += ents
    add_expression_contexts(s, pre)
    return s


# statements whose body is controlled by a literal: (kind, literal)
LITERAL_WRAPS = [("if_then", "TRUE"), ("if_then", "FALSE"), ("if_then", "UNKNOWN"), ("if_then", "(FALSE)"), ("if_then", "(TRUE)"),
                 ("if_else", "TRUE"), ("if_else", "FALSE"), ("if_else", "UNKNOWN"), ("case", "1"), ("case_otherwise", "1"),
                 ("while", "FALSE"), ("until", "TRUE")]


def int_attrs_visible(s, e):
    """INTEGER attributes a bare identifier inside `e` can denote: own and inherited explicit ones"""
    out = [a.name for a in e.attrs if a.inverse_for is None and a.redecl_of is None and a.ty == ("S", "INTEGER")]
    for an in sorted(_ancestors(s, e)):
        x = s.find(an)
        if isinstance(x, Entity):
            out += [a.name for a in x.attrs if a.inverse_for is None and a.redecl_of is None and a.ty == ("S", "INTEGER")]
    return sorted(set(out))


def _mk_expr(rng, label, funcs, refs_pool, want_call=None):
    """a valid expression over callable `funcs` and the identifiers of `refs_pool`"""
    fn, argc = None, 0
    if funcs and (want_call if want_call is not None else rng.random() < 0.5):
        f = rng.choice(funcs)
        fn, argc = f.name, f.nparams
    k = rng.randint(0, min(2, len(refs_pool)))
    refs = [rng.choice(refs_pool) for _ in range(k)] if refs_pool else []
    if not fn and not refs and refs_pool:
        refs = [rng.choice(refs_pool)]
    return Expr(label, fn, argc, refs)


def add_expression_contexts(s, pre=""):
    """constants, function bodies, global rules, DERIVE initialisers and aggregate bounds — all valid; driven by a generator of
    their own (seeded from the schema's names) so that the declarations produced by `gen_schema` stay what they were"""
    import random
    rng = random.Random("expr:" + "|".join(getattr(d, "name", "?") for d in s.decls))
    funcs = [f for f in s.funcs() if f.kind == "function"]
    # one CONSTANT block at the head of the schema: a literal, a call, earlier constants
    consts = []
    for i in range(rng.randint(0, 2)):
        c = Func(f"{pre}c_{i}{rng.choice('rst')}", 0, kind="constant")
        r = rng.random()
        if r < 0.4:
            c.body = []
        else:
            c.body = [_mk_expr(rng, "v", funcs, [x.name for x in consts], want_call=(r < 0.75))]
        consts.append(c)
    cn = [c.name for c in consts]
    # function bodies: locals, statements calling functions (mutual recursion is fine) over parameters / locals / constants
    for f in funcs:
        if rng.random() < 0.6:
            f.locals_ = [f"v{j}" for j in range(rng.randint(1, 2))]
            pool = f.scope_names() + cn
            f.body = [_mk_expr(rng, f"s{j}", funcs, pool) for j in range(rng.randint(1, 2))]
            for x in f.body:
                if rng.random() < 0.4:
                    x.wrap = rng.choice(LITERAL_WRAPS)
    ents = s.entities()
    # global rules
    for i in range(rng.randint(0, 2) if ents else 0):
        g = Func(f"{pre}gr_{i}{rng.choice('de')}", 0, kind="rule")
        g.locals_ = [x.name for x in rng.sample(ents, min(len(ents), rng.randint(1, 2)))]
        for j in range(rng.randint(1, 2)):
            if rng.random() < 0.5:
                g.body.append(Expr(f"w{j}", "SIZEOF", 1, [rng.choice(g.locals_)] + ([rng.choice(cn)] if cn and rng.random() < 0.5 else [])))
            else:
                g.body.append(_mk_expr(rng, f"w{j}", funcs, cn, want_call=True))
        s.decls.append(g)
    # DERIVE initialisers and aggregate bounds
    for e in ents:
        nums = int_attrs_visible(s, e)
        pool = nums + cn
        for j in range(rng.randint(0, 2) if rng.random() < 0.5 else 0):
            a = Attr(f"d_{e.name}_{j}", ("S", "INTEGER"))
            a.expr = _mk_expr(rng, a.name, funcs, pool)
            e.derives.append(a)
        if rng.random() < 0.35:
            a = Attr(f"ab_{e.name}", ("A", rng.choice(["LIST [1:?] OF", "SET [1:?] OF", "BAG [1:?] OF"]), ("S", rng.choice(SIMPLE))))
            a.bound = _mk_expr(rng, a.name, funcs, pool)
            k = len([x for x in e.attrs if x.inverse_for is None])
            e.attrs.insert(k, a)
    s.decls[:0] = consts


def render_into(s, out, proto):
    """append the text lines and protocol lines of one schema"""
    ln = lambda: len(out)

    def emit(t):
        out.append(t)

    proto.append(f"schema {s.name} {ln()}" + (" " + s.file.encode().hex() if s.file else ""))
    emit(f"SCHEMA {s.name};")
    for i in s.ifaces:
        i.line = ln()
        kw = "USE FROM" if i.kind == "use" else "REFERENCE FROM"
        if i.items is None:
            emit(f"{kw} {i.schema};")
            proto.append(f"iface {i.kind} {i.schema} {i.line} whole")
        else:
            emit(f"{kw} {i.schema}")
            proto.append(f"iface {i.kind} {i.schema} {i.line} items")
            for k, it in enumerate(i.items):
                it.line = ln()
                txt = it.old + (f" AS {it.new}" if it.new else "")
                emit(("  (" if k == 0 else "   ") + txt + ("," if k + 1 < len(i.items) else ");"))
                proto.append(f"item {it.old} {it.new or '-'} {it.line}")
    is_const = lambda x: isinstance(x, Func) and x.kind == "constant"
    order = [i for i, x in enumerate(s.decls) if is_const(x)] + [i for i, x in enumerate(s.decls) if not is_const(x)]
    n_const = sum(1 for x in s.decls if is_const(x))
    for pos, di in enumerate(order):
        d = s.decls[di]
        drop = s.drop_semicolon if s.drop_semicolon and s.drop_semicolon[0] == di else None
        if is_const(d):
            if pos == 0:
                emit("CONSTANT")
            d.line = ln()
            emit(f"  {d.name} : INTEGER := {d.body[0].text() if d.body else '7'};")
            proto.append(f"alg constant {d.name} {d.line} 0")
            for x in d.body:
                x.line = d.line
                x.proto(proto)
            if pos + 1 == n_const:
                emit("END_CONSTANT;")
        elif isinstance(d, TypeDecl):
            d.line = ln()
            if d.kind == "ref":
                emit(f"TYPE {d.name} = {ty_text(d.arg)};")
                proto.append(f"type {d.name} {d.line} ref {ty_proto(d.arg, d.line)}")
            elif d.kind == "enum":
                emit(f"TYPE {d.name} = ENUMERATION OF ({', '.join(d.arg)});")
                proto.append(f"type {d.name} {d.line} enum " + ",".join(f"{i}:{d.line}" for i in d.arg))
            else:
                emit(f"TYPE {d.name} = SELECT ({', '.join(d.arg)});")
                proto.append(f"type {d.name} {d.line} select " + ",".join(f"{i}:{d.line}" for i in d.arg))
            if d.rules:
                emit("WHERE")
            for r in d.rules:
                r.line = ln()
                args = ["SELF"] + [str(i + 1) for i in range(r.kw["argc"] - 1)]
                emit(f"  {r.label} : {r.kw['fn']}({', '.join(args)}) > 0;")
                proto.append(f"rule {r.label} {r.line}")
                proto.append(f"call {r.kw['fn']} {r.kw['argc']}")
            if drop and drop[1] == "end_type":
                emit("END_TYPE")
                proto.append(f"syntax schema {s.name} {ln()}")
            else:
                emit("END_TYPE;")
        elif isinstance(d, Func) and d.kind == "rule":
            d.line = ln()
            emit(f"RULE {d.name} FOR ({', '.join(d.locals_)});")
            proto.append(f"alg rule {d.name} {d.line} 0")
            for v in d.locals_:
                proto.append(f"local {v}")
            emit("WHERE")
            for x in d.body:
                x.line = ln()
                emit(f"  {x.label} : {x.text()} > 0;")
                x.proto(proto)
            emit("END_RULE;")
        elif isinstance(d, Func):
            d.line = ln()
            ps = "; ".join(f"p{i} : INTEGER" for i in range(d.nparams))
            emit(f"FUNCTION {d.name}({ps}) : INTEGER;")
            proto.append(f"alg function {d.name} {d.line} {d.nparams}")
            for v in d.scope_names():
                proto.append(f"local {v}")
            if d.locals_:
                emit("  LOCAL")
                for v in d.locals_:
                    emit(f"    {v} : INTEGER := 0;")
                emit("  END_LOCAL;")
            for x in d.body:
                lines, k = x.stmt_lines(d.locals_[0] if d.locals_ else "p0")
                x.line = ln() + k
                for t in lines:
                    emit("  " + t)
                x.proto(proto)
            emit("  RETURN (p0);")
            emit("END_FUNCTION;")
        elif isinstance(d, Entity):
            d.line = ln()
            head = f"ENTITY {d.name}"
            if d.subs_expr is not None:
                x = d.subs_expr
                head += " SUPERTYPE OF (" + (subs_text(x) if isinstance(x, str) or x[0] == "ONEOF" else subs_text(x)[1:-1]) + ")"
            if d.supers:
                head += " SUBTYPE OF (" + ", ".join(d.supers) + ")"
            emit(head + ";")
            proto.append(f"entity {d.name} {d.line}")
            for sp in d.supers:
                proto.append(f"super {sp} {d.line}")
            for sb in subs_flat(d.subs_expr):
                proto.append(f"sub {sb}")
            inv_started = False

            def emit_derives():
                if d.derives:
                    emit("DERIVE")
                for a in d.derives:
                    a.line = a.expr.line = ln()
                    emit(f"  {a.name} : {ty_text(a.ty)} := {a.expr.text()};")
                    proto.append(f"attr {a.name} {a.line} {ty_proto(a.ty, a.line)}")
                    a.expr.proto(proto)

            derives_done = False
            for ai, a in enumerate(d.attrs):
                if a.inverse_for is not None and not inv_started:
                    emit_derives(); derives_done = True
                    emit("INVERSE"); inv_started = True
                a.line = ln()
                if a.inverse_for is None:
                    semi = "" if (drop and drop[1] == "attr" and drop[2] == ai) else ";"
                    if a.bound is not None and not a.redecl_of:
                        a.bound.line = a.line
                        emit(f"  {a.name} : {'OPTIONAL ' if a.optional else ''}{ty_text(a.ty).replace('[1:?]', '[1:' + a.bound.text() + ']', 1)}{semi}")
                        proto.append(f"attr {a.name} {a.line} {ty_proto(a.ty, a.line)}")
                        a.bound.proto(proto)
                        if semi == "":
                            proto.append(f"syntax entity {d.name} {ln()}")
                        continue
                    if a.redecl_of:
                        emit(f"  SELF\\{a.redecl_of}.{a.name} : {'OPTIONAL ' if a.optional else ''}{ty_text(a.ty)}{semi}")
                        proto.append(f"redecl {a.name} {a.line} {ty_proto(a.ty, a.line)} {a.redecl_of}")
                    else:
                        emit(f"  {a.name} : {'OPTIONAL ' if a.optional else ''}{ty_text(a.ty)}{semi}")
                        proto.append(f"attr {a.name} {a.line} {ty_proto(a.ty, a.line)}")
                    if semi == "":
                        proto.append(f"syntax entity {d.name} {ln()}")
                else:
                    emit(f"  {a.name} : {ty_text(a.ty)} FOR {a.inverse_for};")
                    proto.append(f"inv {a.name} {a.line} {ty_proto(a.ty, a.line)} {a.inverse_for} {a.line}")
            if not derives_done:
                emit_derives()
            if d.uniques:
                emit("UNIQUE")
            for u in d.uniques:
                u.line = ln()
                emit(f"  {u.label} : " + (f"SELF\\{u.qual}.{u.attr}" if u.qual else u.attr) + ";")
                proto.append(f"unique {u.label} {u.line} {u.qual or '-'} {u.attr}")
            if d.rules:
                emit("WHERE")
            for r in d.rules:
                r.line = ln()
                proto.append(f"rule {r.label} {r.line}")
                if r.kind == "call":
                    args = [f"SELF.{r.kw['attr']}"] + [str(i + 1) for i in range(r.kw["argc"] - 1)]
                    if r.kw["argc"] == 0:
                        args = []
                    emit(f"  {r.label} : {r.kw['fn']}({', '.join(args)}) > 0;")
                    proto.append(f"call {r.kw['fn']} {r.kw['argc']}")
                    if args:
                        proto.append(f"selfattr {r.kw['attr']}")
                elif r.kind == "exists":
                    emit(f"  {r.label} : EXISTS(SELF.{r.kw['attr']});")
                    proto.append("call exists 1")
                    proto.append(f"selfattr {r.kw['attr']}")
                elif r.kind == "bare":
                    emit(f"  {r.label} : {r.kw['attr']} > 0;")
                    proto.append(f"bareattr {r.kw['attr']}")
                elif r.kind == "dot":
                    emit(f"  {r.label} : SELF.{r.kw['attr']}{'[1]' if r.kw.get('indexed') else ''}.{r.kw['field']} > 0;")
                    proto.append(f"dot {r.kw['attr']} {r.kw['field']} {1 if r.kw.get('indexed') else 0}")
                elif r.kind == "badgroup":
                    emit(f"  {r.label} : SELF.{r.kw['attr']}\\{r.kw['ent']}.{r.kw['sub']} > 0;")
                    proto.append(f"badgroup {r.kw['sub']}")
                elif r.kind == "smallreal":
                    emit(f"  {r.label} : SELF.{r.kw['attr']} > {r.kw['lit']};")
                    proto.append(f"selfattr {r.kw['attr']}")
                    proto.append("smallreal " + "0.000000".encode().hex())
                elif r.kind == "encoded":
                    emit(f"  {r.label} : SELF.{r.kw['attr']} = \"{r.kw['body']}\";")
                    proto.append(f"selfattr {r.kw['attr']}")
            emit("END_ENTITY;")
    emit("END_SCHEMA;")


def load_order(f):
    """external schemas in the order pass 1 pulls their files in (queue of schemas: main file first; per schema partial USE,
    partial REFERENCE, whole USE, whole REFERENCE clauses)"""
    loaded = [x for x in f.schemas if not x.file]
    ext, i = [], 0
    while i < len(loaded):
        sch = loaded[i]; i += 1
        cl = [c for c in sch.ifaces if c.kind == "use" and c.items is not None] + [c for c in sch.ifaces if c.kind == "ref" and c.items is not None] + \
             [c for c in sch.ifaces if c.kind == "use" and c.items is None] + [c for c in sch.ifaces if c.kind == "ref" and c.items is None]
        for c in cl:
            t = f.find_schema(c.schema)
            if t is not None and t.file and t not in loaded:
                loaded.append(t); ext.append(t)
    return ext


def render(s, line_base=0, line_reset=False):
    """one schema or a `File` -> (text of the main file, protocol lines); for a File with schemas in files of their own the
    texts of those files are left in `s.extra_texts` (path -> text).  Line numbers follow the scanner: they start at `line_base`
    and, unless `line_reset`, keep counting across the files in the order they are read."""
    out, proto = [None] * line_base, []
    if isinstance(s, File):
        for sch in s.schemas:
            if not sch.file:
                render_into(sch, out, proto)
        main_lines = out[line_base:]
        s.extra_texts = {}
        consumed = len(out)
        for sch in load_order(s):
            o2 = [None] * (line_base if line_reset else consumed)
            k = len(o2)
            render_into(sch, o2, proto)
            s.extra_texts[sch.file] = "\n".join(o2[k:]) + "\n"
            consumed = len(o2)
        if s.order:
            proto.insert(0, "order " + ",".join(s.order))
        return "\n".join(main_lines) + "\n", proto
    render_into(s, out, proto)
    return "\n".join(out[line_base:]) + "\n", proto


def protocol(path, text, proto, with_bytes=True):
    lines = ["file " + path.encode().hex()]
    if with_bytes:
        data = text if isinstance(text, bytes) else text.encode("latin-1")
        lines.append("bytes " + (data.hex() or "-"))
    cut = next((i for i, l in enumerate(proto) if l.startswith("syntax ")), None)
    if cut is not None:          # nothing after a syntax error is ever seen
        proto = proto[:cut + 1]
    return lines + proto + ["end"]


# ----------------------------------------------------------------------------------------------- semantic mutants
class Fault:
    """cls: fault class; expect: list of (ERRORCODE, [argument texts]) that must be printed; verdict: 'reject'|'accept';
    warn: the expected diagnostics are warnings (printed only when enabled)."""

    def __init__(self, cls, schema, expect, verdict="reject", warn=False, note=""):
        self.cls, self.schema, self.expect, self.verdict, self.warn, self.note = cls, schema, expect, verdict, warn, note


def _ancestors(s, e):
    seen, todo = set(), list(e.supers)
    while todo:
        n = todo.pop()
        if n in seen:
            continue
        seen.add(n)
        x = s.find(n)
        if isinstance(x, Entity):
            todo += x.supers
    return seen


def _descendants(s, e):
    out = set()
    for x in s.entities():
        if e.name in _ancestors(s, x):
            out.add(x.name)
    return out


def m_undef_attr_type(s, rng):
    c = [(e, a) for e in s.entities() for a in e.attrs if a.inverse_for is None]
    if not c:
        return None
    e, a = rng.choice(c)
    nm = f"nosuch_t{rng.randint(0, 99)}"
    a.ty = ("N", nm) if rng.random() < 0.6 else ("A", "LIST [0:?] OF", ("N", nm))
    # an attribute some INVERSE refers to keeps its name, so nothing else changes
    for y in s.entities():
        y.attrs = [b for b in y.attrs if not (b.inverse_for == a.name and b.ty[2] == ("N", e.name))]
    return Fault("undefined-type", s, [("UNDEFINED_TYPE", [nm])])


def m_undef_typedecl(s, rng):
    c = [t for t in s.types() if t.kind == "ref"]
    if not c:
        return None
    t = rng.choice(c)
    nm = f"nosuch_u{rng.randint(0, 99)}"
    t.arg = ("N", nm)
    return Fault("undefined-type", s, [("UNDEFINED_TYPE", [nm])])


def m_undef_select_item(s, rng):
    c = [t for t in s.types() if t.kind == "select"]
    if not c:
        return None
    t = rng.choice(c)
    nm = f"nosuch_i{rng.randint(0, 99)}"
    t.arg.insert(rng.randint(0, len(t.arg)), nm)
    return Fault("undefined-type", s, [("UNDEFINED_TYPE", [nm])])


def m_undef_super(s, rng):
    e = rng.choice(s.entities())
    nm = f"nosuch_s{rng.randint(0, 99)}"
    e.supers.insert(rng.randint(0, len(e.supers)), nm)
    return Fault("undefined-supertype", s, [("UNKNOWN_SUPERTYPE", [nm, e.name])])


def m_undef_sub(s, rng):
    e = rng.choice(s.entities())
    nm = f"nosuch_b{rng.randint(0, 99)}"
    if e.subs_expr is None:
        e.subs_expr = nm
    elif isinstance(e.subs_expr, str):
        e.subs_expr = ("ONEOF", [e.subs_expr, nm])
    else:
        e.subs_expr[1].insert(rng.randint(0, len(e.subs_expr[1])), nm)
    return Fault("undefined-subtype", s, [("UNKNOWN_SUBTYPE", [nm, e.name])])


def m_dup_decl(s, rng):
    named = [d for d in s.decls if hasattr(d, "name")]
    if len(named) < 2:
        return None
    i = rng.randrange(1, len(named))
    first = rng.choice(named[:i])
    named[i].name = first.name
    return Fault("duplicate-declaration", s, [("DUPLICATE_DECL", [first.name, "@line:" + first.name])])


def m_dup_attr(s, rng):
    c = [e for e in s.entities() if [a for a in e.attrs if a.inverse_for is None]]
    if not c:
        return None
    e = rng.choice(c)
    expl = [a for a in e.attrs if a.inverse_for is None]
    a = rng.choice(expl)
    k = e.attrs.index(expl[-1]) + 1
    e.attrs.insert(k, Attr(a.name, ("S", "INTEGER")))
    return Fault("duplicate-declaration", s, [("DUPLICATE_DECL", [a.name, "@attr:" + e.name + ":" + a.name])])


def m_dup_enum_item(s, rng):
    c = [t for t in s.types() if t.kind == "enum"]
    if not c:
        return None
    t = rng.choice(c)
    it = rng.choice(t.arg)
    t.arg.append(it)
    return Fault("duplicate-declaration", s, [("DUPLICATE_DECL", [it, "@type:" + t.name])])


def m_sub_cycle(s, rng):
    ents = s.entities()
    e = rng.choice(ents)
    desc = sorted(_descendants(s, e)) + [e.name]
    d = rng.choice(desc)
    # e becomes a subtype of its own descendant d (or of itself)
    e.supers.append(d)
    x = s.find(d)
    if rng.random() < 0.5:      # also list it explicitly
        if x.subs_expr is None:
            x.subs_expr = e.name
        elif isinstance(x.subs_expr, str):
            if x.subs_expr != e.name:
                x.subs_expr = ("ONEOF", [x.subs_expr, e.name])
        elif e.name not in subs_flat(x.subs_expr):
            x.subs_expr[1].append(e.name)
    return Fault("subtype-cycle", s, [("SUBSUPER_LOOP", [e.name])], note=f"{e.name} made a subtype of its descendant {d}")


def m_select_cycle(s, rng):
    sels = [t for t in s.types() if t.kind == "select"]
    if not sels:
        return None
    t = rng.choice(sels)
    # selects reachable from t
    def reach(n, seen):
        x = s.find(n)
        for i in (x.arg if isinstance(x, TypeDecl) and x.kind == "select" else []):
            y = s.find(i)
            if isinstance(y, TypeDecl) and y.kind == "select" and i not in seen:
                seen.add(i); reach(i, seen)
        return seen
    r = sorted(reach(t.name, set())) + [t.name]
    d = rng.choice(r)
    s.find(d).arg.insert(rng.randint(0, len(s.find(d).arg)), t.name)
    return Fault("select-cycle", s, [("SELECT_LOOP", [t.name])], note=f"{t.name} added to the items of {d}, which it reaches")


def m_missing_super(s, rng):
    c = [(p, n) for p in s.entities() for n in subs_flat(p.subs_expr)]
    if c and rng.random() < 0.6:
        p, n = rng.choice(c)
        x = s.find(n)
        x.supers = [y for y in x.supers if y != p.name]
        # keep it a single fault: redeclarations that named a supertype x no longer has go away with it
        for d in [x] + [s.find(n2) for n2 in _descendants(s, x)]:
            anc = _ancestors(s, d)
            d.attrs = [a for a in d.attrs if not (a.redecl_of and a.redecl_of not in anc)]
            vis = {a.name for a in d.attrs} | {a.name for an in anc if isinstance(s.find(an), Entity) for a in s.find(an).attrs}
            d.uniques = [u for u in d.uniques if u.attr in vis and
                         (u.qual is None or (u.qual in anc and any(a.name == u.attr for a in s.find(u.qual).attrs)))]
            d.rules = [r for r in d.rules if r.kw.get("attr") is None or r.kw["attr"] in vis]
            # DERIVE initialisers / bounds: identifiers that named an attribute no longer inherited go away as well
            allattrs = {a.name for y in s.entities() for a in y.attrs + y.derives}
            vis |= {a.name for a in d.derives} | {a.name for an in anc if isinstance(s.find(an), Entity) for a in s.find(an).derives}
            for x2 in [a.expr for a in d.derives] + [a.bound for a in d.attrs if a.bound is not None]:
                x2.refs = [r for r in x2.refs if r not in allattrs or r in vis]
        return Fault("missing-supertype", s, [("MISSING_SUPERTYPE", [p.name, n])])
    ents = s.entities()
    p = rng.choice(ents)
    others = [x for x in ents if x is not p and p.name not in x.supers and x.name not in _ancestors(s, p)]
    if not others:
        return None
    x = rng.choice(others)
    if p.subs_expr is None:
        p.subs_expr = x.name
    elif isinstance(p.subs_expr, str):
        p.subs_expr = ("ONEOF", [p.subs_expr, x.name])
    else:
        p.subs_expr[1].append(x.name)
    return Fault("missing-supertype", s, [("MISSING_SUPERTYPE", [p.name, x.name])])


def m_overload_attr(s, rng):
    c = []
    for e in s.entities():
        for an in _ancestors(s, e):
            x = s.find(an)
            for a in x.attrs:
                if not any(b.name == a.name for b in e.attrs):
                    c.append((e, x, a))
    if not c:
        return None
    e, x, a = rng.choice(c)
    k = len([b for b in e.attrs if b.inverse_for is None])
    e.attrs.insert(k, Attr(a.name, ("S", "INTEGER")))
    # reported once per direct supertype through which the name is inherited
    via = [sp for sp in e.supers if sp == x.name or x.name in _ancestors(s, s.find(sp))]
    return Fault("inherited-attribute-redeclared", s, [("OVERLOADED_ATTR", [a.name, v]) for v in via])


def m_inverse_bad_attr(s, rng):
    c = [(e, a) for e in s.entities() for a in e.attrs if a.inverse_for is not None]
    if not c:
        return None
    e, a = rng.choice(c)
    nm = f"nosuch_a{rng.randint(0, 99)}"
    a.inverse_for = nm
    return Fault("bad-inverse", s, [("INVERSE_BAD_ATTR", [nm, a.ty[2][1]])])


def m_inverse_bad_entity(s, rng):
    c = [(e, a) for e in s.entities() for a in e.attrs if a.inverse_for is not None]
    ts = [t for t in s.types() if t.kind == "ref"]
    if not c or not ts:
        return None
    e, a = rng.choice(c)
    a.ty = ("A", "SET OF", ("N", rng.choice(ts).name))
    return Fault("bad-inverse", s, [("INVERSE_BAD_ENTITY", [a.inverse_for])])


def m_undef_func(s, rng):
    c = [(e, r) for e in s.entities() for r in e.rules if r.kind == "call"]
    if not c:
        return None
    e, r = rng.choice(c)
    nm = f"nosuch_f{rng.randint(0, 99)}"
    r.kw["fn"] = nm
    return Fault("undefined-function", s, [("UNDEFINED_FUNC", [nm])])


def m_undef_attr_ref(s, rng):
    c = [(e, r) for e in s.entities() for r in e.rules if r.kind in ("call", "exists") and r.kw.get("argc", 1) > 0]
    if not c:
        return None
    e, r = rng.choice(c)
    nm = f"nosuch_r{rng.randint(0, 99)}"
    r.kw["attr"] = nm
    return Fault("undefined-attribute", s, [("UNKNOWN_ATTR_IN_ENTITY", [nm, e.name])])


def m_wrong_argc(s, rng):
    c = [(e, r) for e in s.entities() for r in e.rules if r.kind == "call"]
    if not c:
        return None
    e, r = rng.choice(c)
    f = s.find(r.kw["fn"])
    old = r.kw["argc"]
    r.kw["argc"] = old + 1 if (old == 1 or rng.random() < 0.5) else old - 1
    return Fault("wrong-argument-count", s, [("WRONG_ARG_COUNT", [r.kw["fn"], str(r.kw["argc"]), str(f.nparams)])],
                 verdict="accept", warn=True)


def m_small_real(s, rng):
    c = [(e, a) for e in s.entities() for a in e.attrs if a.ty in (("S", "REAL"), ("S", "NUMBER"))]
    if not c:
        return None
    e, a = rng.choice(c)
    lit = rng.choice(["1.0e-40", "2.5E-300", "0.1e-45"])
    e.rules.append(Rule(f"wr{len(e.rules)}", "smallreal", attr=a.name, lit=lit))
    return Fault("small-real", s, [("WARN_SMALL_REAL", ["0.000000"])], verdict="accept", warn=True)


def m_syntax(s, rng):
    c = [(i, "end_type", None) for i, d in enumerate(s.decls) if isinstance(d, TypeDecl)]
    for i, d in enumerate(s.decls):
        if isinstance(d, Entity):
            for ai, a in enumerate(d.attrs):
                if a.inverse_for is None:
                    c.append((i, "attr", ai))
    if not c:
        return None
    pick = rng.choice(c)
    s.drop_semicolon = pick
    d = s.decls[pick[0]]
    scope = ("schema", s.name) if pick[1] == "end_type" else ("entity", d.name)
    return Fault("syntax-error", s, [("SYNTAX", ["Syntax error", scope[0], scope[1]])])


MUTATORS = {
    "undef_attr_type": m_undef_attr_type, "undef_typedecl": m_undef_typedecl, "undef_select_item": m_undef_select_item,
    "undef_super": m_undef_super, "undef_sub": m_undef_sub, "dup_decl": m_dup_decl, "dup_attr": m_dup_attr,
    "dup_enum_item": m_dup_enum_item, "sub_cycle": m_sub_cycle, "select_cycle": m_select_cycle,
    "missing_super": m_missing_super, "overload_attr": m_overload_attr, "inverse_bad_attr": m_inverse_bad_attr,
    "inverse_bad_entity": m_inverse_bad_entity, "undef_func": m_undef_func, "undef_attr_ref": m_undef_attr_ref,
    "wrong_argc": m_wrong_argc, "small_real": m_small_real, "syntax": m_syntax,
}


def mutate(schema, name, rng):
    s = copy.deepcopy(schema)
    return MUTATORS[name](s, rng)


# ------------------------------------------------------------------------------------------------- multi-schema files
class File:
    """several schemas in one file, in text order; `order` (optional) tells the model the hash order"""

    def __init__(self, schemas):
        self.schemas, self.order = schemas, None

    def find_schema(self, name):
        return next((x for x in self.schemas if x.name == name), None)


SCHEMA_NAMES = ["design", "catalogue", "geometry", "alpha_lib", "zeta", "m1", "core", "topology", "kernel", "b2", "parts", "qx"]


def _own(sch):
    """name -> kind of the entities and types a schema declares"""
    out = {}
    for d in sch.decls:
        if isinstance(d, Entity):
            out.setdefault(d.name, "entity")
        elif isinstance(d, TypeDecl):
            out.setdefault(d.name, "type")
    return out


def exports(f, T, depth=0):
    """what `USE/REFERENCE FROM T ( n )` can name: own declarations, what fully USE'd schemas hand out, USE'd items (by their
    visible name); name -> (home schema, declared name, kind)"""
    t = f.find_schema(T)
    if t is None or depth > len(f.schemas) + 2:
        return {}
    out = {n: (T, n, k) for n, k in _own(t).items()}
    for i in t.ifaces:
        if i.kind == "use" and i.items is None:
            for n, o in exports(f, i.schema, depth + 1).items():
                out.setdefault(n, o)
    for i in t.ifaces:
        if i.kind == "use" and i.items is not None:
            src = exports(f, i.schema, depth + 1)
            for it in i.items:
                if it.old in src:
                    out.setdefault(it.visible(), src[it.old])
    return out


def _visible_all(f, S, depth=0):
    """everything `SCOPE_find( S, name, ENTITY|TYPE )` can return (mirror of the model's `visible`): own declarations, then for
    every fully USE'd schema everything THAT schema sees (recursively — including what it REFERENCEs, as the code does), the
    partially USE'd items, the own declarations of fully REFERENCE'd schemas, the partially REFERENCE'd items"""
    s = f.find_schema(S)
    if s is None or depth > len(f.schemas) + 2:
        return {}
    out = {n: (S, n, k) for n, k in _own(s).items()}
    for i in s.ifaces:
        if i.kind == "use" and i.items is None:
            for n, o in _visible_all(f, i.schema, depth + 1).items():
                out.setdefault(n, o)
    for i in s.ifaces:
        if i.kind == "use" and i.items is not None:
            src = exports(f, i.schema)
            for it in i.items:
                if it.old in src:
                    out.setdefault(it.visible(), src[it.old])
    for i in s.ifaces:
        if i.kind == "ref" and i.items is None:
            t = f.find_schema(i.schema)
            for n, k in (_own(t).items() if t else []):
                out.setdefault(n, (i.schema, n, k))
    for i in s.ifaces:
        if i.kind == "ref" and i.items is not None:
            src = exports(f, i.schema)
            for it in i.items:
                if it.old in src:
                    out.setdefault(it.visible(), src[it.old])
    return out


def visible_imports(f, S):
    """foreign names visible inside S (not shadowed by S's own declarations)"""
    own = _own(f.find_schema(S))
    return {n: o for n, o in _visible_all(f, S).items() if n not in own}


def gen_file(rng, n_schemas=None, size=3):
    """a valid multi-schema file: a chain (and some side links) of USE / REFERENCE clauses, partial (with AS renames) and
    whole-schema, re-exports through USE, imported names used as attribute types; schema names and text order are random
    (the resolver visits schemas in hash order)"""
    n = n_schemas or rng.randint(2, 4)
    names = rng.sample(SCHEMA_NAMES, n)
    schemas = []
    for k, nm in enumerate(names):
        sch = gen_schema(rng, size, pre=f"{chr(ord('p') + k)}_")
        sch.name = nm
        schemas.append(sch)
    f = File(schemas)
    alias_n = [0]
    # schema k imports from earlier ones (acyclic); favour the immediate predecessor so that chains form
    for k in range(1, n):
        s = schemas[k]
        srcs = [k - 1] + ([rng.randrange(0, k)] if k > 1 and rng.random() < 0.4 else [])
        for j in dict.fromkeys(srcs):
            T = schemas[j].name
            ex = exports(f, T)
            if not ex:
                continue
            kind = "use" if rng.random() < 0.65 else "ref"
            if rng.random() < 0.3:
                s.ifaces.append(Iface(kind, T, None))
            else:
                # prefer names T itself only re-exports (chained import)
                foreign = [x for x, o in ex.items() if o[0] != T]
                pool = sorted(ex)
                picks = []
                if foreign:
                    picks.append(rng.choice(sorted(foreign)))
                picks += rng.sample(pool, min(len(pool), rng.randint(1, 2)))
                items, seen = [], set()
                for x in dict.fromkeys(picks):
                    new = None
                    if rng.random() < 0.4:
                        alias_n[0] += 1
                        new = f"al{alias_n[0]}{rng.choice('rst')}"
                    it = Item(x, new)
                    if it.visible() in seen or it.visible() in _own(s):
                        continue
                    seen.add(it.visible()); items.append(it)
                if items:
                    s.ifaces.append(Iface(kind, T, items))
        # use what is visible: a new entity whose attributes are typed by imported names
        vis = visible_imports(f, s.name)
        if vis:
            e = Entity(f"{chr(ord('p') + k)}_cli{k}")
            for j, nm in enumerate(rng.sample(sorted(vis), min(len(vis), rng.randint(1, 3)))):
                ty = ("N", nm) if rng.random() < 0.7 else ("A", "LIST [0:?] OF", ("N", nm))
                e.attrs.append(Attr(f"a_{e.name}_{j}", ty))
            s.decls.append(e)
    rng.shuffle(f.schemas)
    return f


def mf_undef_schema(f, rng):
    # only in a schema nobody imports from: importing from a schema that failed pass 1 is a different story (and crashes
    # when the failed clause was a whole-schema USE: SCOPEfind_for_rename does not skip the NULL entry)
    imported = {i.schema for s in f.schemas for i in s.ifaces}
    c = [(s, i) for s in f.schemas for i in s.ifaces if s.name not in imported]
    if not c:
        return None
    s, i = rng.choice(c)
    nm = f"nosuch_lib{rng.randint(0, 99)}"
    i.schema = nm
    n = 1 if i.items is None else len(i.items)
    flt = Fault("undefined-schema", f, [("UNDEFINED_SCHEMA", [nm])] * n)
    flt.where = s.name
    return flt


def mf_undef_item(f, rng):
    c = [(s, i) for s in f.schemas for i in s.ifaces if i.items is not None]
    if not c:
        return None
    s, i = rng.choice(c)
    nm = f"nosuch_x{rng.randint(0, 99)}"
    i.items.insert(rng.randint(0, len(i.items)), Item(nm, f"al_n{rng.randint(0, 9)}" if rng.random() < 0.3 else None))
    flt = Fault("undefined-import", f, [("REF_NONEXISTENT", [nm, i.schema])])
    flt.where = s.name
    return flt


def mf_dup_alias(f, rng):
    """two different objects imported under one visible name by clauses of the same kind"""
    c = []
    for s in f.schemas:
        for i in s.ifaces:
            if i.items:
                ex = exports(f, i.schema)
                for it in i.items:
                    if it.old in ex:
                        others = [x for x, o in ex.items() if o != ex[it.old]]
                        if others:
                            c.append((s, i, it, others))
    if not c:
        return None
    s, i, it, others = rng.choice(c)
    other = rng.choice(sorted(others))
    alias = it.visible()
    if other == alias:
        return None
    i.items.insert(i.items.index(it) + 1, Item(other, alias))
    first = it
    flt = Fault("duplicate-declaration", f, [("DUPLICATE_DECL", [alias, lambda: str(first.line)])],
                note=f"{it.old} and {other} both imported as {alias}")
    flt.where = s.name
    return flt


def m_dup_redecl_attr(s, rng):
    """duplicate through a qualified redeclaration: SELF\\sup.attr twice, or attr and SELF\\sup.attr"""
    c = []
    for e in s.entities():
        for an in sorted(_ancestors(s, e)):
            x = s.find(an)
            if isinstance(x, Entity):
                c += [(e, x, a) for a in x.attrs if a.inverse_for is None and a.redecl_of is None]
    if not c:
        return None
    e, x, a = rng.choice(c)
    e.attrs = [b for b in e.attrs if b.name != a.name]
    k = len([b for b in e.attrs if b.inverse_for is None])
    shape = rng.choice(["redecl-redecl", "plain-redecl", "redecl-plain"])
    first = Attr(a.name, a.ty, redecl_of=None if shape == "plain-redecl" else x.name)
    second = Attr(a.name, a.ty, redecl_of=None if shape == "redecl-plain" else x.name)
    e.attrs[k:k] = [first, second]
    return Fault("duplicate-declaration", s, [("DUPLICATE_DECL", [a.name, lambda: str(first.line)])], note=shape + f" of {x.name}.{a.name} in {e.name}")


def m_entity_as_type(s, rng):
    ents = s.entities()
    if not ents:
        return None
    e = rng.choice(ents)
    t = TypeDecl(f"tie_{rng.randint(0, 99)}", "ref", ("N", e.name))
    s.decls.insert(rng.randint(0, len(s.decls)), t)
    return Fault("entity-as-type", s, [("TYPE_IS_ENTITY", [e.name])])


def m_type_self_cycle(s, rng):
    """TYPE t = t;  /  TYPE t = LIST OF t;"""
    nm = f"tcyc_{rng.randint(0, 99)}"
    ref = ("N", nm) if rng.random() < 0.5 else ("A", rng.choice(["LIST [0:?] OF", "SET [1:?] OF", "BAG OF"]), ("N", nm))
    s.decls.insert(rng.randint(0, len(s.decls)), TypeDecl(nm, "ref", ref))
    return Fault("circular-type", s, [("CIRCULAR_REFERENCE", [nm])])


def _unique_host(s, rng, need_ancestor):
    c = [e for e in s.entities() if (not need_ancestor) or [a for a in _ancestors(s, e) if isinstance(s.find(a), Entity)]]
    return rng.choice(c) if c else None


def m_unique_unknown_attr(s, rng):
    e = _unique_host(s, rng, False)
    if e is None:
        return None
    nm = f"nosuch_u{rng.randint(0, 99)}"
    e.uniques.append(Unique(f"ur{len(e.uniques)}", None, nm))
    return Fault("undefined-attribute", s, [("UNKNOWN_ATTR_IN_ENTITY", [nm, e.name])], note="UNIQUE rule over an unknown attribute")


def m_unique_unknown_qualified_attr(s, rng):
    e = _unique_host(s, rng, True)
    if e is None:
        return None
    q = rng.choice(sorted(a for a in _ancestors(s, e) if isinstance(s.find(a), Entity)))
    nm = f"nosuch_q{rng.randint(0, 99)}"
    e.uniques.append(Unique(f"ur{len(e.uniques)}", q, nm))
    return Fault("undefined-attribute", s, [("UNKNOWN_ATTR_IN_ENTITY", [nm, q]), ("UNKNOWN_ATTR_IN_ENTITY", [nm, e.name])],
                 note=f"UNIQUE rule over SELF\\{q}.{nm}")


def m_unique_unknown_supertype(s, rng):
    c = [(e, a) for e in s.entities() for a in e.attrs if a.inverse_for is None]
    if not c:
        return None
    e, a = rng.choice(c)
    q = f"nosuch_g{rng.randint(0, 99)}"
    e.uniques.append(Unique(f"ur{len(e.uniques)}", q, a.name))
    return Fault("undefined-supertype", s, [("GROUP_REF_NO_SUCH_ENTITY", [q]), ("UNKNOWN_SUPERTYPE", [q, e.name])],
                 note="UNIQUE rule qualified by an unknown supertype")


def m_unique_needless_qualifier(s, rng):
    """the entity redeclares an inherited attribute and still qualifies it in a UNIQUE rule: warning class unnecessary_qualifiers"""
    c = [(e, a) for e in s.entities() for a in e.attrs if a.redecl_of]
    if not c:
        return None
    e, a = rng.choice(c)
    e.uniques.append(Unique(f"ur{len(e.uniques)}", a.redecl_of, a.name))
    return Fault("needless-qualifier", s, [("UNIQUE_QUAL_REDECL", [a.name, e.name])], verdict="accept", warn=True)


def m_unique_after_needless_qualifier(s, rng):
    """VALID: a UNIQUE rule qualifies a redeclared attribute (`SELF\\sup.a`, only a warning) and a LATER rule names another attribute
    without a qualifier — every reference is looked up on its own; nothing of the first may leak into the second"""
    c = [(e, a) for e in s.entities() for a in e.attrs if a.redecl_of]
    if not c:
        # make one: redeclare an inherited explicit attribute
        cand = []
        for e in s.entities():
            for an in sorted(_ancestors(s, e)):
                x = s.find(an)
                if isinstance(x, Entity):
                    cand += [(e, x, a) for a in x.attrs if a.inverse_for is None and a.redecl_of is None and a.bound is None
                             and not any(b.name == a.name for b in e.attrs)]
        if not cand:
            return None
        e, x, a0 = rng.choice(cand)
        a = Attr(a0.name, a0.ty, redecl_of=x.name)
        e.attrs.insert(len([y for y in e.attrs if y.inverse_for is None]), a)
    else:
        e, a = rng.choice(c)
    others = [b for b in e.attrs if b.inverse_for is None and b.name != a.name]
    if not others:
        b = Attr(f"a_{e.name}_u", ("S", "INTEGER"))
        e.attrs.insert(0, b)
        others = [b]
    k = len(e.uniques)
    e.uniques.append(Unique(f"ur{k}", a.redecl_of, a.name))
    e.uniques.append(Unique(f"ur{k + 1}", None, rng.choice(others).name))
    return Fault("needless-qualifier-then-unique", s, [("UNIQUE_QUAL_REDECL", [a.name, e.name])], verdict="accept", warn=True,
                 note=f"UNIQUE SELF\\{a.redecl_of}.{a.name} (redeclared in {e.name}) followed by an unqualified reference")


MUTATORS["unique_after_needless_qualifier"] = m_unique_after_needless_qualifier
MUTATORS["unique_unknown_attr"] = m_unique_unknown_attr
MUTATORS["unique_unknown_qualified_attr"] = m_unique_unknown_qualified_attr
MUTATORS["unique_unknown_supertype"] = m_unique_unknown_supertype
MUTATORS["unique_needless_qualifier"] = m_unique_needless_qualifier
def _subtree_only_attrs(s, e):
    """attributes that exist in a subtype or a sibling (subtype of one of e's supertypes) of `e`, but are not visible in e"""
    anc = _ancestors(s, e)
    vis = {a.name for a in e.attrs} | {a.name for an in anc if isinstance(s.find(an), Entity) for a in s.find(an).attrs}
    rel = set(_descendants(s, e))
    for an in anc:
        x = s.find(an)
        if isinstance(x, Entity):
            rel |= _descendants(s, x)
    rel.discard(e.name)
    out = []
    for n in sorted(rel - anc):
        x = s.find(n)
        out += [(x, a) for a in x.attrs if a.name not in vis and a.inverse_for is None]
    return out


def m_undef_bare_attr(s, rng):
    """a domain rule over a bare identifier that is no attribute of the entity: a fresh name, or (near miss) the name of an
    attribute that only a subtype / sibling declares"""
    c = [(e, x, a) for e in s.entities() for (x, a) in _subtree_only_attrs(s, e)]
    if c and rng.random() < 0.75:
        e, x, a = rng.choice(c)
        nm, note = a.name, f"{a.name} is an attribute of {x.name} (subtype/sibling of {e.name}) only"
    else:
        e = rng.choice(s.entities())
        nm, note = f"nosuch_v{rng.randint(0, 99)}", "fresh name"
    r = Rule(f"wr{len(e.rules)}", "bare", attr=nm)
    e.rules.append(r)
    return Fault("undefined-attribute", s, [("UNDEFINED", [nm]), ("MISSING_SELF", [r.label])], note=note)


def m_inverse_bad_attr_near(s, rng):
    """INVERSE … FOR attr where attr exists only in a subtype / sibling of the target entity"""
    c = [(t, x, a) for t in s.entities() for (x, a) in _subtree_only_attrs(s, t)]
    hosts = s.entities()
    if not c or not hosts:
        return None
    t, x, a = rng.choice(c)
    y = rng.choice(hosts)
    y.attrs.append(Attr(f"inv_{y.name}_{len(y.attrs)}n", ("A", "SET OF", ("N", t.name)), inverse_for=a.name))
    return Fault("bad-inverse", s, [("INVERSE_BAD_ATTR", [a.name, t.name])], note=f"{a.name} is declared by {x.name}, not by {t.name} or its supertypes")


def m_undef_func_in_type_where(s, rng):
    """an undefined function in the WHERE rule of a type — of any kind, used or not (renamed types preferred)"""
    ts = s.types()
    if not ts:
        return None
    renamed = [t for t in ts if t.kind == "ref" and t.arg[0] == "N"]
    t = rng.choice(renamed) if renamed and rng.random() < 0.6 else rng.choice(ts)
    nm = f"nosuch_f{rng.randint(0, 99)}"
    r = Rule(f"wt{len(t.rules)}", "tcall", fn=nm, argc=1)
    t.rules.append(r)
    kind = ("defined type " + ty_text(t.arg)) if t.kind == "ref" else {"enum": "enumeration", "select": "select"}[t.kind]
    return Fault("undefined-function", s, [("UNDEFINED_FUNC", [nm]), ("MISSING_SELF", [r.label])], note=f"WHERE rule of TYPE {t.name} ({kind})")


def m_group_ref_on_non_entity(s, rng):
    """`SELF.x\\ent.attr` where x is an attribute of a non-entity type (simple or aggregate)"""
    hosts = [(e, a) for e in s.entities() for a in e.attrs
             if a.inverse_for is None and a.redecl_of is None and
             (a.ty[0] == "S" or (a.ty[0] == "A" and a.ty[2][0] == "S" and not a.ty[1].startswith("ARRAY")))]
    # (an ARRAY operand takes another branch of EXPresolve_op_group that marks the expression failed without any diagnostic)
    tgts = [(x, b) for x in s.entities() for b in x.attrs if b.inverse_for is None]
    if not hosts or not tgts:
        return None
    e, a = rng.choice(hosts)
    x, b = rng.choice(tgts)
    r = Rule(f"wr{len(e.rules)}", "badgroup", attr=a.name, ent=x.name, sub=b.name)
    e.rules.append(r)
    return Fault("bad-group-reference", s, [("GROUP_REF_UNEXPECTED_TYPE", ["<expression>"]), ("ATTRIBUTE_REF_FROM_NON_ENTITY", [b.name])],
                 note=f"SELF.{a.name} is of type {ty_text(a.ty)}")


# ---- faults in the expression contexts outside domain rules: DERIVE, aggregate bounds, constants, function bodies, global rules
EXPR_CONTEXTS = ("derive", "bound", "constant", "function", "rule")


def _ensure_expr(s, rng, ctx):
    """(host, Expr, names that are legal bare identifiers there) of context `ctx`, creating a minimal valid one when the schema has
    none"""
    funcs = [f for f in s.funcs() if f.kind == "function"]
    consts = [f for f in s.decls if isinstance(f, Func) and f.kind == "constant"]
    if ctx in ("derive", "bound"):
        ents = s.entities()
        if not ents:
            return None
        have = [(e, (a.expr if ctx == "derive" else a.bound)) for e in ents for a in (e.derives if ctx == "derive" else e.attrs)
                if (a.expr if ctx == "derive" else a.bound) is not None]
        if have and rng.random() < 0.7:
            e, x = rng.choice(have)
        else:
            e = rng.choice(ents)
            if ctx == "derive":
                a = Attr(f"d_{e.name}_m{len(e.derives)}", ("S", "INTEGER"))
                a.expr = x = Expr(a.name)
                e.derives.append(a)
            else:
                a = Attr(f"ab_{e.name}_m", ("A", "LIST [1:?] OF", ("S", "INTEGER")))
                a.bound = x = Expr(a.name)
                e.attrs.insert(len([y for y in e.attrs if y.inverse_for is None]), a)
        return e, x
    if ctx == "constant":
        have = [(c, c.body[0]) for c in consts if c.body]
        if have and rng.random() < 0.7:
            return rng.choice(have)
        c = Func(f"c_m{rng.randint(0, 99)}", 0, kind="constant")
        c.body = [Expr("v")]
        s.decls.insert(0, c)
        return c, c.body[0]
    if ctx == "function":
        if not funcs:
            return None
        have = [(f, x) for f in funcs for x in f.body]
        if have and rng.random() < 0.7:
            return rng.choice(have)
        f = rng.choice(funcs)
        if not f.locals_:
            f.locals_ = ["v0"]
        x = Expr(f"s{len(f.body)}")
        f.body.append(x)
        return f, x
    rules = [g for g in s.decls if isinstance(g, Func) and g.kind == "rule"]
    have = [(g, x) for g in rules for x in g.body]
    if have and rng.random() < 0.7:
        return rng.choice(have)
    ents = s.entities()
    if not ents:
        return None
    g = Func(f"gr_m{rng.randint(0, 99)}", 0, kind="rule")
    g.locals_ = [rng.choice(ents).name]
    g.body = [Expr("w0")]
    s.decls.append(g)
    return g, g.body[0]


def _where(ctx, host):
    return {"derive": f"DERIVE initialiser in ENTITY {host.name}", "bound": f"aggregate bound in ENTITY {host.name}",
            "constant": f"value of CONSTANT {host.name}", "function": f"body of FUNCTION {host.name}",
            "rule": f"WHERE clause of RULE {host.name}"}[ctx]


def make_undef_func_in(ctx):
    def m(s, rng):
        hx = _ensure_expr(s, rng, ctx)
        if hx is None:
            return None
        host, x = hx
        nm = f"nosuch_f{rng.randint(0, 99)}"
        if x.fn is None or x.fn == "SIZEOF":
            x.fn, x.argc = nm, max(1, min(2, len(x.refs)))
        else:
            x.fn = nm
        return Fault("undefined-function", s, [("UNDEFINED_FUNC", [nm])], note=_where(ctx, host))
    return m


def make_undef_ref_in(ctx):
    def m(s, rng):
        hx = _ensure_expr(s, rng, ctx)
        if hx is None:
            return None
        host, x = hx
        nm, note = f"nosuch_v{rng.randint(0, 99)}", "fresh name"
        if ctx in ("derive", "bound"):
            near = _subtree_only_attrs(s, host)
            if near and rng.random() < 0.6:
                y, a = rng.choice(near)
                nm, note = a.name, f"{a.name} is an attribute of {y.name} (subtype/sibling of {host.name}) only"
        elif ctx == "function":
            others = [v for f in s.funcs() if f is not host and f.kind == "function" for v in f.locals_ if v not in host.scope_names()]
            if others and rng.random() < 0.5:
                nm, note = rng.choice(others), "a local variable of another function"
            elif rng.random() < 0.4 and f"p{host.nparams}" not in host.scope_names():
                nm, note = f"p{host.nparams}", "one past the last parameter"
        # the faulty identifier stands outside any argument list (the arguments of an undefined function are not resolved;
        # here every function is defined, so position does not matter — it goes last)
        x.refs.append(nm)
        return Fault("undefined-reference", s, [("UNDEFINED", [nm])], note=f"{_where(ctx, host)}; {note}")
    return m


# ---- `operand.field` on operands of every type kind (EXPresolve_op_dot)
def _fresh_enum(s, rng, tag):
    t = TypeDecl(f"xen_{tag}{rng.randint(0, 99)}", "enum", [f"xit_{tag}_{j}" for j in range(rng.randint(1, 3))])
    s.decls.append(t)
    return t.name


def _enum_only_select(s, rng, tag, depth=1):
    """a select all of whose leaves are enumerations (nested `depth` levels)"""
    items = [_fresh_enum(s, rng, f"{tag}{k}") for k in range(rng.randint(1, 2))]
    if depth > 1:
        items.insert(rng.randint(0, len(items)), _enum_only_select(s, rng, tag + "n", depth - 1))
    t = TypeDecl(f"xse_{tag}{rng.randint(0, 99)}", "select", items)
    s.decls.append(t)
    return t.name


DOT_SHAPES = ["entity", "select_entities", "select_selects", "select_enums_last", "select_enums_first", "select_enums_mid",
              "select_enum_and_entity", "select_nested3", "select_renamed", "select_with_simple", "enumeration", "enumeration_renamed",
              "aggregate", "aggregate_renamed", "simple", "simple_renamed", "indexed_entity", "indexed_select"]


def make_undef_dot(shape):
    """`SELF.a.nosuch` with `a` of the given type shape; the select shapes have at least one leaf that is not an enumeration, in
    every position relative to enumeration-only sub-selects"""
    def m(s, rng):
        ents = s.entities()
        if not ents:
            return None
        host = rng.choice(ents)
        tgt = rng.choice(ents)
        nm = f"nosuch_d{rng.randint(0, 99)}"
        indexed = False
        ent_items = [x.name for x in rng.sample(ents, min(len(ents), rng.randint(1, 2)))]
        tag = shape[:2] + str(rng.randint(0, 9))

        def sel(items):
            t = TypeDecl(f"xsl_{tag}{len(s.decls)}", "select", items)
            s.decls.append(t)
            return t.name

        if shape in ("entity", "indexed_entity"):
            ty, expect = ("N", tgt.name), ("UNKNOWN_ATTR_IN_ENTITY", [nm, tgt.name])
        elif shape == "enumeration":
            en = _fresh_enum(s, rng, tag)
            ty, expect = ("N", en), ("ENUM_NO_SUCH_ITEM", [en, nm])
        elif shape == "enumeration_renamed":
            en = _fresh_enum(s, rng, tag)
            t2 = TypeDecl(f"xrn_{tag}", "ref", ("N", en)); s.decls.append(t2)
            ty, expect = ("N", t2.name), ("ENUM_NO_SUCH_ITEM", [t2.name, nm])
        elif shape == "aggregate":
            ty, expect = ("A", rng.choice(["LIST [0:?] OF", "SET [1:?] OF", "BAG OF", "ARRAY [1:3] OF"]), ("N", tgt.name)), ("ATTRIBUTE_REF_ON_AGGREGATE", [nm])
        elif shape == "aggregate_renamed":
            t2 = TypeDecl(f"xag_{tag}", "ref", ("A", "LIST [0:?] OF", ("N", tgt.name))); s.decls.append(t2)
            ty, expect = ("N", t2.name), ("ATTRIBUTE_REF_ON_AGGREGATE", [nm])
        elif shape == "simple":
            ty, expect = ("S", rng.choice(SIMPLE)), ("ATTRIBUTE_REF_FROM_NON_ENTITY", [nm])
        elif shape == "simple_renamed":
            t2 = TypeDecl(f"xsi_{tag}", "ref", ("S", rng.choice(SIMPLE))); s.decls.append(t2)
            ty, expect = ("N", t2.name), ("ATTRIBUTE_REF_FROM_NON_ENTITY", [nm])
        else:
            expect = ("UNDEFINED_ATTR", [nm])
            if shape in ("select_entities", "indexed_select"):
                items = ent_items
            elif shape == "select_selects":
                items = [sel(ent_items), sel([rng.choice(ents).name])]
            elif shape == "select_enums_last":
                items = ent_items + [_enum_only_select(s, rng, tag)]
            elif shape == "select_enums_first":
                items = [_enum_only_select(s, rng, tag)] + ent_items
            elif shape == "select_enums_mid":
                items = [ent_items[0], _enum_only_select(s, rng, tag), rng.choice(ents).name]
                items = list(dict.fromkeys(items))
                if items[-1] == items[0] or len(items) < 3:
                    items = [ent_items[0], _enum_only_select(s, rng, tag + "b"), sel([rng.choice(ents).name])]
            elif shape == "select_enum_and_entity":
                items = ent_items[:1] + [_fresh_enum(s, rng, tag)]
                rng.shuffle(items)
            elif shape == "select_nested3":
                inner = sel(ent_items[:1])
                mid = [inner, _enum_only_select(s, rng, tag, depth=2)]
                rng.shuffle(mid)
                items = [_enum_only_select(s, rng, tag + "o"), sel(mid), _enum_only_select(s, rng, tag + "p")]
                k = rng.randrange(3)
                items = items[k:] + items[:k]
            elif shape == "select_renamed":
                t2 = TypeDecl(f"xrs_{tag}", "ref", ("N", sel(ent_items + [_enum_only_select(s, rng, tag)]))); s.decls.append(t2)
                items = None
                ty = ("N", t2.name)
            elif shape == "select_with_simple":
                t2 = TypeDecl(f"xsi_{tag}", "ref", ("S", "INTEGER")); s.decls.append(t2)
                items = [_enum_only_select(s, rng, tag), t2.name]
                rng.shuffle(items)
            if items is not None:
                ty = ("N", sel(items))
        if shape.startswith("indexed"):
            ty, indexed = ("A", "LIST [0:?] OF", ty), True
        a = Attr(f"xd_{host.name}_{len(host.attrs)}", ty)
        host.attrs.insert(len([x for x in host.attrs if x.inverse_for is None]), a)
        r = Rule(f"wr{len(host.rules)}", "dot", attr=a.name, field=nm, indexed=indexed)
        host.rules.append(r)
        return Fault("undefined-attribute", s, [expect], note=f"SELF.{a.name}{'[1]' if indexed else ''}.{nm}, operand {shape}: {ty_text(ty)}")
    return m


def m_dot_select_all_enums(s, rng):
    """`SELF.a.nosuch` where every member of a's select type is an enumeration: only the (default-silent) CASE_SKIP_LABEL warning"""
    ents = s.entities()
    if not ents:
        return None
    host = rng.choice(ents)
    items = [_fresh_enum(s, rng, f"ae{k}") for k in range(rng.randint(1, 3))]
    t = TypeDecl(f"xae_{rng.randint(0, 99)}", "select", items); s.decls.append(t)
    a = Attr(f"xd_{host.name}_{len(host.attrs)}", ("N", t.name))
    host.attrs.insert(len([x for x in host.attrs if x.inverse_for is None]), a)
    nm = f"nosuch_d{rng.randint(0, 99)}"
    host.rules.append(Rule(f"wr{len(host.rules)}", "dot", attr=a.name, field=nm, indexed=False))
    return Fault("enumeration-only-select", s, [("CASE_SKIP_LABEL", [nm])], verdict="accept", warn=True)


def m_dot_valid(s, rng):
    """`SELF.a.f` that resolves: a of entity type (f own / inherited / declared by a subtype), or of a select over entities"""
    ents = s.entities()
    c = [(x, a) for x in ents for a in x.attrs if a.inverse_for is None and a.redecl_of is None]
    if not c:
        return None
    tgt, f = rng.choice(c)
    host = rng.choice(ents)
    if rng.random() < 0.5:
        ty = ("N", tgt.name)
    else:
        items = list(dict.fromkeys([tgt.name] + [x.name for x in rng.sample(ents, min(len(ents), 2))]))
        rng.shuffle(items)
        t = TypeDecl(f"xvs_{rng.randint(0, 99)}", "select", items); s.decls.append(t)
        ty = ("N", t.name)
    a = Attr(f"xd_{host.name}_{len(host.attrs)}", ty)
    host.attrs.insert(len([x for x in host.attrs if x.inverse_for is None]), a)
    host.rules.append(Rule(f"wr{len(host.rules)}", "dot", attr=a.name, field=f.name, indexed=False))
    return Fault("valid", s, [], verdict="accept", note=f"SELF.{a.name}.{f.name} resolves ({ty_text(ty)})")


# ---- calls whose arguments fail to resolve, at every position, with the right and with a wrong number of arguments
def make_call_args(n_undef, wrong):
    def m(s, rng):
        funcs = [f for f in s.funcs() if f.kind == "function"]
        ents = s.entities()
        if not funcs or not ents:
            return None
        f = rng.choice(funcs)
        host = rng.choice(ents)
        ints = int_attrs_visible(s, host)
        n = f.nparams
        if wrong:
            n = rng.choice([x for x in (f.nparams - 1, f.nparams + 1, f.nparams + 2) if x >= max(1, n_undef)])
        n = max(n, n_undef)
        if n == f.nparams and wrong:
            n += 1
        pos = sorted(rng.sample(range(n), n_undef))
        args = []
        for i in range(n):
            if i in pos:
                args.append(("B", f"nosuch_a{i}_{rng.randint(0, 99)}"))
            elif ints and rng.random() < 0.6:
                args.append(("B", rng.choice(ints)))
            else:
                args.append("L")
        ctx = rng.choice(["derive", "function"] if n_undef == 0 or True else ["derive"])
        if ctx == "function":
            g = rng.choice(funcs)
            if not g.locals_:
                g.locals_ = ["v0"]
            args = [a if a == "L" or a[1].startswith("nosuch") else ("B", rng.choice(g.scope_names())) for a in args]
            g.body.append(Expr(f"s{len(g.body)}", f.name, 0, [], args=args))
            where = f"body of FUNCTION {g.name}"
        else:
            a = Attr(f"d_{host.name}_c{len(host.derives)}", ("S", "INTEGER"))
            a.expr = Expr(a.name, f.name, 0, [], args=args)
            host.derives.append(a)
            where = f"DERIVE initialiser in ENTITY {host.name}"
        expect = []
        if pos:
            expect.append(("UNDEFINED", [args[pos[0]][1]]))          # only the first failing argument is reported
        if n != f.nparams:
            expect.append(("WRONG_ARG_COUNT", [f.name, str(n), str(f.nparams)]))
        if not pos:
            return Fault("wrong-argument-count", s, expect, verdict="accept", warn=True, note=where)
        return Fault("undefined-reference", s, expect, note=f"{where}: {f.name} has {f.nparams} parameter(s), called with {n}, "
                                                             f"undefined argument(s) at position(s) {[p + 1 for p in pos]}")
    return m


def m_undef_func_in_unused_indirect_type_where(s, rng):
    """an undefined function in the WHERE rule of an INDIRECT type definition (`TYPE a = b;`) that nothing uses as the type of an
    attribute, constant, parameter or local: it is reachable through a SELECT, as the underlying type of another type, or not at
    all — only the pass over the type declarations themselves resolves its rule"""
    ts = [t for t in s.types() if t.kind in ("ref", "enum")]
    if not ts:
        return None
    base = rng.choice(ts)
    t = TypeDecl(f"xin_{rng.randint(0, 99)}", "ref", ("N", base.name))
    nm = f"nosuch_f{rng.randint(0, 99)}"
    r = Rule("wt0", "tcall", fn=nm, argc=1)
    t.rules.append(r)
    s.decls.insert(rng.randint(0, len(s.decls)), t)
    how = rng.choice(["unused", "select", "underlying"])
    if how == "select":
        s.decls.append(TypeDecl(f"xis_{rng.randint(0, 99)}", "select", [t.name]))
    elif how == "underlying":
        s.decls.append(TypeDecl(f"xiu_{rng.randint(0, 99)}", "ref", ("N", t.name)))
    return Fault("undefined-function", s, [("UNDEFINED_FUNC", [nm]), ("MISSING_SELF", [r.label])],
                 note=f"WHERE rule of the indirect type {t.name} = {base.name} ({how})")


MUTATORS["undef_func_in_unused_indirect_type_where"] = m_undef_func_in_unused_indirect_type_where


def make_undef_in_literal_branch(wrap):
    """an undefined function / identifier inside a statement whose execution is decided by a literal (THEN of IF FALSE, ELSE of IF
    TRUE, a CASE label that cannot match, the body of REPEAT WHILE FALSE …): reachable or not, every branch is resolved"""
    def m(s, rng):
        funcs = [f for f in s.funcs() if f.kind == "function"]
        if not funcs:
            return None
        g = rng.choice(funcs)
        if not g.locals_:
            g.locals_ = ["v0"]
        x = Expr(f"s{len(g.body)}")
        x.wrap = wrap
        if rng.random() < 0.5:
            nm = f"nosuch_f{rng.randint(0, 99)}"
            x.fn, x.argc = nm, 1
            expect, cls = [("UNDEFINED_FUNC", [nm])], "undefined-function"
        else:
            nm = f"nosuch_v{rng.randint(0, 99)}"
            x.refs = [nm]
            expect, cls = [("UNDEFINED", [nm])], "undefined-reference"
        g.body.insert(rng.randint(0, len(g.body)), x)
        return Fault(cls, s, expect, note=f"body of FUNCTION {g.name}: inside {wrap[0]} controlled by the literal {wrap[1]}")
    return m


for _w in LITERAL_WRAPS:
    MUTATORS[f"undef_in_{_w[0]}_{_w[1].strip('()').lower()}{'_paren' if '(' in _w[1] else ''}"] = make_undef_in_literal_branch(_w)


def m_missing_super_after_good(s, rng):
    """the offending subtype stands AFTER a subtype that does list the supertype (the `found` flag of
    ENTITYcheck_missing_supertypes is per subtype): p SUPERTYPE OF (ONEOF (good…, x)) with x not naming p"""
    ents = s.entities()
    hosts = [p for p in ents if subs_flat(p.subs_expr)]
    if not hosts:
        # make one: a supertype with a real subtype that it now lists explicitly
        pairs = [(p, x) for p in ents for x in ents if p.name in x.supers]
        if not pairs:
            return None
        p, x0 = rng.choice(pairs)
        p.subs_expr = ("ONEOF", [x0.name])
        hosts = [p]
    p = rng.choice(hosts)
    others = [x for x in ents if x is not p and p.name not in x.supers and x.name not in _ancestors(s, p)
              and x.name not in subs_flat(p.subs_expr)]
    if not others:
        return None
    x = rng.choice(others)
    if isinstance(p.subs_expr, str):
        p.subs_expr = ("ONEOF", [p.subs_expr, x.name])
    else:
        p.subs_expr[1].append(x.name)
    return Fault("missing-supertype", s, [("MISSING_SUPERTYPE", [p.name, x.name])],
                 note=f"{x.name} is listed after {subs_flat(p.subs_expr)[0]}, which does name {p.name}")


MUTATORS["missing_super_after_good"] = m_missing_super_after_good
for _sh in DOT_SHAPES:
    MUTATORS[f"undef_dot_{_sh}"] = make_undef_dot(_sh)
MUTATORS["dot_select_all_enums"] = m_dot_select_all_enums
MUTATORS["dot_valid"] = m_dot_valid
for _k in (1, 2, 3):
    for _w in (False, True):
        MUTATORS[f"call_args_undef{_k}_{'wrong' if _w else 'right'}"] = make_call_args(_k, _w)
MUTATORS["call_args_wrong_count"] = make_call_args(0, True)

for _c in EXPR_CONTEXTS:
    MUTATORS[f"undef_func_in_{_c}"] = make_undef_func_in(_c)
    MUTATORS[f"undef_ref_in_{_c}"] = make_undef_ref_in(_c)

MUTATORS["group_ref_on_non_entity"] = m_group_ref_on_non_entity
MUTATORS["undef_bare_attr"] = m_undef_bare_attr
MUTATORS["inverse_bad_attr_near"] = m_inverse_bad_attr_near
MUTATORS["undef_func_in_type_where"] = m_undef_func_in_type_where
MUTATORS["type_self_cycle"] = m_type_self_cycle
MUTATORS["dup_redecl_attr"] = m_dup_redecl_attr
MUTATORS["entity_as_type"] = m_entity_as_type
def _imported_types(f, s):
    """(visible name, declared name, home schema) of TYPEs schema `s` imports through partial USE/REFERENCE items"""
    out = []
    for i in s.ifaces:
        if i.items:
            ex = exports(f, i.schema)
            for it in i.items:
                o = ex.get(it.old)
                if o and o[2] == "type" and it.visible() not in _own(s):
                    out.append((it.visible(), o[1], o[0]))
    return out


def mf_super_not_entity(f, rng):
    c = [(s, e, t) for s in f.schemas for t in _imported_types(f, s) for e in s.entities()]
    if not c:
        return None
    s, e, (vis, decl, home) = rng.choice(c)
    e.supers.insert(rng.randint(0, len(e.supers)), vis)
    t = f.find_schema(home).find(decl)
    flt = Fault("undefined-supertype", f, [("SUPERTYPE_RESOLVE", [vis, lambda: str(t.line)])], note=f"{vis} is the imported TYPE {home}.{decl}")
    flt.where = s.name
    return flt


def mf_sub_not_entity(f, rng):
    c = [(s, e, t) for s in f.schemas for t in _imported_types(f, s) for e in s.entities()]
    if not c:
        return None
    s, e, (vis, decl, home) = rng.choice(c)
    if e.subs_expr is None:
        e.subs_expr = vis
    elif isinstance(e.subs_expr, str):
        e.subs_expr = ("ONEOF", [e.subs_expr, vis])
    else:
        e.subs_expr[1].append(vis)
    t = f.find_schema(home).find(decl)
    flt = Fault("undefined-subtype", f, [("SUBTYPE_RESOLVE", [vis, decl, lambda: str(t.line)])], note=f"{vis} is the imported TYPE {home}.{decl}")
    flt.where = s.name
    return flt


def mf_undef_type_other_schema(f, rng):
    """attribute typed by a name that exists — in a schema this one does not import"""
    c = []
    for s in f.schemas:
        vis = set(_own(s)) | set(visible_imports(f, s.name))
        for t in f.schemas:
            if t is not s:
                c += [(s, n) for n in _own(t) if n not in vis]
    c = [(s, n) for (s, n) in c if s.entities()]
    if not c:
        return None
    s, n = rng.choice(c)
    e = rng.choice(s.entities())
    k = len([b for b in e.attrs if b.inverse_for is None])
    e.attrs.insert(k, Attr(f"a_{e.name}_x{rng.randint(0, 9)}", ("N", n)))
    flt = Fault("undefined-type", f, [("UNDEFINED_TYPE", [n])], note=f"{n} is declared in another schema that {s.name} does not import")
    flt.where = s.name
    return flt


def externalise(f, rng):
    """move 1..2 imported schemas of a multi-schema file into files of their own (found through the current directory, or
    through EXPRESS_PATH=lib); schemas nobody reachable imports are dropped.  Returns the EXPRESS_PATH value or None."""
    imported = [s.name for s in f.schemas if any(i.schema == s.name for t in f.schemas for i in t.ifaces)]
    if not imported or len(f.schemas) < 2:
        return None, False
    via_path = rng.random() < 0.5
    for nm in rng.sample(imported, min(len(imported), rng.randint(1, 2))):
        f.find_schema(nm).file = ("lib/" if via_path else "") + nm.lower() + ".exp"
    if all(s.file for s in f.schemas):
        next(s for s in f.schemas if s.name not in imported or True).file = None
    keep = [s for s in f.schemas if not s.file] + load_order(f)
    f.schemas = [s for s in f.schemas if s in keep]
    return ("lib" if via_path else None), any(s.file for s in f.schemas)


FILE_MUTATORS = {"undef_schema": mf_undef_schema, "undef_item": mf_undef_item, "dup_alias": mf_dup_alias,
                 "super_not_entity": mf_super_not_entity, "sub_not_entity": mf_sub_not_entity,
                 "undef_type_other_schema": mf_undef_type_other_schema}


def mutate_file(f, name, rng, where=None):
    """a FILE_MUTATORS fault, or a single-schema mutator applied to one schema of the file"""
    g = copy.deepcopy(f)
    if name in FILE_MUTATORS:
        flt = FILE_MUTATORS[name](g, rng)
        return flt
    pool = [x for x in g.schemas if not (x.file and name in ("syntax",))] or g.schemas
    s = rng.choice(pool) if where is None else g.find_schema(where)
    flt = MUTATORS[name](s, rng)
    if flt is None:
        return None
    flt.schema = g
    flt.where = s.name
    return flt


# ------------------------------------------------------------------------------------------------- lexical mutants
ILLEGAL = "$&@^~%"


class LexFault:
    def __init__(self, cls, data, expect, note=""):
        self.cls, self.data, self.expect, self.note = cls, data, expect, note   # data: bytes


def lexical_mutants(text, rng, schema=None):
    """single-fault byte-level mutants of a rendered valid schema (the parse stays intact)"""
    out = []
    raw = text.encode("latin-1")
    lines = text.split("\n")
    # positions right after a `;` that ends a line (between tokens)
    ends = []
    off = 0
    for l in lines:
        if l.endswith(";"):
            ends.append(off + len(l))
        off += len(l) + 1
    if ends:
        p = rng.choice(ends)
        c = rng.choice(ILLEGAL)
        out.append(LexFault("illegal-character", raw[:p] + b" " + c.encode() + b" " + raw[p:],
                            [("UNEXPECTED_CHARACTER", [c])]))
        p = rng.choice(ends)
        b = rng.randint(0x80, 0xff)
        out.append(LexFault("non-ascii", raw[:p] + b" " + bytes([b]) + raw[p:], [], note="non-ASCII byte between tokens: NONASCII_CHAR is unreachable (SCANnextchar is dead code), the byte is skipped"))
        # inside a remark: still reported (the substitution happens while the buffer is filled)
        p = rng.choice(ends)
        b = rng.randint(0x80, 0xff)
        out.append(LexFault("non-ascii", raw[:p] + b" (* " + bytes([b]) + b" *)" + raw[p:], [], note="non-ASCII byte inside a remark"))
        # illegal characters inside a remark or a string are not diagnostics
        p = rng.choice(ends)
        out.append(LexFault("none", raw[:p] + b" (* $ _x \" *)" + raw[p:], [], note="fault-looking text inside a remark"))
    return out


def underscore_mutant(schema, rng):
    """a declaration whose name starts with an underscore (scanner lowercases identifiers)"""
    s = copy.deepcopy(schema)
    named = [d for d in s.decls if hasattr(d, "name")]
    d = rng.choice(named)
    old = d.name
    shown = "_" + (old.upper() if rng.random() < 0.3 else old)
    d.name = shown
    return s, old, shown


def encoded_mutant(schema, rng):
    """a domain rule comparing an attribute with an encoded string literal with one fault"""
    s = copy.deepcopy(schema)
    c = [(e, a) for e in s.entities() for a in e.attrs if a.inverse_for is None]
    if not c:
        return None
    e, a = rng.choice(c)
    if rng.random() < 0.5:
        good = "".join(rng.choice("0123456789abcdefABCDEF") for _ in range(8))
        k = rng.randrange(8)
        bad = rng.choice("ghxyzGZ _-.")
        body = good[:k] + bad + good[k + 1:]
        exp = [("ENCODED_STRING_BAD_DIGIT", [bad])]
    else:
        n = rng.choice([1, 2, 3, 4, 5, 6, 7, 9, 12, 15])
        body = "".join(rng.choice("0123456789abcdef") for _ in range(n))
        exp = [("ENCODED_STRING_BAD_COUNT", [str(n)])]
    e.rules.append(Rule(f"wr{len(e.rules)}", "encoded", attr=a.name, body=body))
    return s, exp

"""Per-run context shared by all checks: tiers, seeds, Lean obligations, violations, evidence."""
import json, os, random, shutil, subprocess, sys, tempfile, time, traceback
from . import build as B, lean as L, findings as F

VERIF = os.path.dirname(os.path.dirname(os.path.abspath(__file__)))


class Ctx:
    def __init__(self, pid, tier="quick", seed=None, level="proof"):
        self.pid = pid
        self.tier = tier
        self.seed = int(seed if seed is not None else os.environ.get("VERIF_SEED", "1") or 1)
        self.rng = random.Random(f"{pid}:{self.seed}")
        # evidence 'level' must be one of the schema's categories; checks that call themselves "partial" (C05, C06, C12)
        # claim level proof for the modelled part and say so in coverage.explanation / MANIFEST level_claimed.text
        self.partial = level not in ("exploration", "fault_enumeration", "model_checking", "proof",
                                     "translation_validation", "other")
        self.level = "proof" if self.partial else level
        self.t0 = time.time()
        self.cov = {"samples": [], "correspondence": {}, "partial": [], "distribution": {}}
        self.assumptions = []
        self.trusted = [
            "Lean 4.33.0 kernel (theorems elaborated by `lake build`; thorough tier re-checks with leanchecker)",
            "axioms allowed in #print axioms: propext, Classical.choice, Quot.sound (no sorry/admit/native_decide/bv_decide/own axioms)",
        ]
        self.obligations = []     # theorem names
        self.discharged = []
        self.axioms = {}
        self.checker_cmds = []
        self.violations = []      # (key, what, replay)
        self.known = []
        self.broken = []          # (name, detail) proof / correspondence ties that no longer check
        self.evals = 0
        self.distinct = set()
        os.makedirs(B.SCRATCH, exist_ok=True)
        self.work = tempfile.mkdtemp(prefix=f"w-{pid}-", dir=B.SCRATCH)
        self._builds = {}

    # ---- real code -------------------------------------------------------
    def build(self, flavor="plain"):
        if flavor not in self._builds:
            self._builds[flavor] = B.get_build(flavor)
        return self._builds[flavor]

    # ---- Lean ------------------------------------------------------------
    def lean(self, props_module, prefix=None, exes=(), extractors=None, extra_modules=()):
        """Regenerate tables, build the property module (+driver exes), audit axioms.
        Returns True when every obligation is discharged and the audit is clean."""
        prefix = prefix or (self.pid + "_")
        ok_all = True
        if extractors is not None:
            files, errs = L.regenerate(extractors, repo=B.REPO)
            for e in errs:
                self.broken.append(("extract", e)); ok_all = False
        targets = [props_module] + list(extra_modules) + list(exes)
        cmd = "cd lean && lake build " + " ".join(targets)
        self.checker_cmds.append(cmd)
        names = L.theorems_in(props_module, prefix)
        self.obligations += [n for n in names if n not in self.obligations]
        if exes:
            oke, oute = L.lake_build(list(exes))   # drivers first: a broken proof must not leave a stale driver
            if not oke:
                self.broken.append(("lake build " + " ".join(exes), oute[-3000:]))
        ok, out = L.lake_build(targets)
        if not ok:
            ok_all = False
            self.broken.append(("lake build " + props_module, out[-3000:]))
            # which theorems failed?  anything mentioned in an error line
            return False
        mods = sorted(L.imports_closure(props_module))
        hits = L.forbidden_hits(mods)
        if hits:
            ok_all = False
            self.broken.append(("forbidden constructs", "; ".join(hits[:20])))
        ax, raw = L.audit_axioms(props_module, names)
        self.checker_cmds.append(f"lake env lean <#print axioms of {len(names)} theorems in {props_module}>")
        for n in names:
            a = ax.get(n)
            self.axioms[n] = a
            if a is None:
                ok_all = False
                self.broken.append((f"theorem {n}", "not found by #print axioms: " + raw[-500:]))
            elif not set(a) <= L.ALLOWED_AXIOMS:
                ok_all = False
                self.broken.append((f"theorem {n}", f"depends on foreign axioms {a}"))
            else:
                self.discharged.append(n)
        if self.tier == "thorough":
            okc, outc = L.leanchecker(props_module)
            self.checker_cmds.append(f"lake env leanchecker {props_module}")
            if not okc:
                ok_all = False
                self.broken.append((f"leanchecker {props_module}", outc))
        self.cov["lean_modules"] = mods
        return ok_all

    def model_exe(self, name):
        return L.exe_path(name)

    # ---- bookkeeping -----------------------------------------------------
    def count(self, n=1, key=None):
        self.evals += n
        if key is not None:
            self.distinct.add(key)

    def hist(self, bucket, key, n=1):
        d = self.cov["distribution"].setdefault(bucket, {})
        d[key] = d.get(key, 0) + n

    def sample(self, obj, cap=8):
        if len(self.cov["samples"]) < cap:
            self.cov["samples"].append(obj)

    def replay_path(self, name):
        d = os.path.join(VERIF, "replay", self.pid)
        os.makedirs(d, exist_ok=True)
        return os.path.join(d, name)

    def violation(self, key, what, replay_obj, suffix=""):
        """A concrete failing input of the property on the implementation."""
        kf = F.lookup(self.pid, key)
        if kf:
            if key not in [k for k, _ in self.known]:
                self.known.append((key, kf["what"]))
                print(f"KNOWN-FINDING: property={self.pid} {kf['what']} [key={key}]", flush=True)
            return False
        if key in [k for k, _, _ in self.violations]:
            return True
        n = len(self.violations)
        path = self.replay_path(f"{self.tier}-{self.seed}-{n}.json")
        with open(path, "w") as fh:
            json.dump({"property": self.pid, "key": key, "what": what, "seed": self.seed,
                       "tier": self.tier, "replay": replay_obj}, fh, indent=1, default=str)
        self.violations.append((key, what, path))
        print(f"VIOLATION property={self.pid} replay={path}" + (f" {suffix}" if suffix else ""), flush=True)
        print(f"  what: {what}", flush=True)
        return True

    def unresolved(self):
        """Broken proofs/correspondences for which no failing input was found."""
        for i, (name, detail) in enumerate(self.broken):
            path = self.replay_path(f"{self.tier}-{self.seed}-broken-{i}.json")
            with open(path, "w") as fh:
                json.dump({"property": self.pid, "no_longer_checks": name, "detail": detail,
                           "seed": self.seed, "tier": self.tier}, fh, indent=1)
            print(f"VIOLATION property={self.pid} replay={path} no-failing-input-found", flush=True)
            print(f"  no longer checks: {name}", flush=True)

    def finish(self):
        rc = 0
        if self.violations:
            rc = 1
        elif self.broken:
            self.unresolved()
            rc = 1
        cov = self.cov
        cov["obligations"] = len(self.obligations)
        cov["discharged"] = len(self.discharged)
        cov["theorems"] = {n: self.axioms.get(n) for n in self.obligations}
        cov["checker_cmd"] = " && ".join(self.checker_cmds) if self.checker_cmds else "none"
        cov["trusted_base"] = self.trusted
        cov["evaluations"] = self.evals
        cov["distinct_nontrivial"] = len(self.distinct)
        cov["known_findings_hit"] = [k for k, _ in self.known]
        cov["broken_ties"] = [n for n, _ in self.broken]
        if self.partial:
            cov["explanation"] = ("PARTIAL by nature: the theorems (obligations/discharged) cover the modelled sites and data paths only; "
                                  "everything else this property quantifies over is observed by the instrumented correspondence runs "
                                  "counted under evaluations - testing, labelled as testing (see MANIFEST level_claimed.text and notes/%s.md)" % self.pid)
        if not cov["samples"]:
            cov["samples"] = [{"obligation": n} for n in self.obligations[:5]] or ["none"]
        ev = {"property_id": self.pid, "tier": self.tier, "seed": self.seed, "level": self.level,
              "coverage": cov, "assumptions": self.assumptions, "wall_s": round(time.time() - self.t0, 2),
              "violations": len(self.violations) + len(self.broken)}
        # evidence/ describes /repo itself; a run against another tree (VERIF_REPO=<worktree>) keeps its evidence in scratch
        evdir = os.path.join(VERIF, "evidence")
        if os.path.realpath(B.REPO) != "/repo":
            evdir = os.path.join(B.SCRATCH, "evidence-other-tree")
        os.makedirs(evdir, exist_ok=True)
        with open(os.path.join(evdir, f"{self.pid}.json"), "w") as fh:
            json.dump(ev, fh, indent=1, default=str)
        shutil.rmtree(self.work, ignore_errors=True)
        print(f"[{self.pid}] tier={self.tier} seed={self.seed} obligations={len(self.obligations)} "
              f"discharged={len(self.discharged)} evaluations={self.evals} distinct={len(self.distinct)} "
              f"violations={len(self.violations)} broken={len(self.broken)} known={len(self.known)} "
              f"wall={time.time()-self.t0:.1f}s -> exit {rc}", flush=True)
        return rc

"""Extensions of vlib/p21_gen.py for the read/write round trip (C01) and the violation stream (C03).

* `dict_lines(schema)`            the run-time dictionary of a p21_gen.Schema in the line protocol of lean/Drivers/C01.lean
* `tokens(inst)`                  an instance as a token list with a *gap class* between consecutive tokens
* `render_layout(...)`            exchange-file text with separators drawn per gap class (white space / comments)
* `gen_literal(rng, kind)`        literal spellings beyond the writer's canonical ones (signs, exponents, escapes, ...)
* `violations(schema, pop)`       single violations of C03's classes applied to a conforming population

Gap classes:
  top      between the tokens of an instance outside its parameter list, and right after `(`/`,` of the parameter list
  aftval   between a top-level parameter and the `,`/`)` that follows it
  agg      anywhere between the parentheses of a one-dimensional aggregate
  agg2     anywhere between the parentheses of an aggregate of aggregates (kept as raw text by the library)
  sel      anywhere inside a typed parameter  NAME ( value )
  cx       anywhere inside the outer parentheses of an externally mapped instance
"""
import re
from . import p21_gen as G

ELEM = {"INTEGER": "int", "DEF_INT": "int", "REAL": "real", "DEF_REAL": "real", "NUMBER": "num", "STRING": "str",
        "BOOLEAN": "bool", "LOGICAL": "log", "BINARY": "bin", "ENUM": "enum:RED.GREEN.BLUE"}


def attr_ty(a):
    k = a.kind
    if k in ELEM:
        return "one:" + ELEM[k]
    if k == "ENTITY":
        return "one:ent:" + a.target.upper()
    if k in ("SELECT_E", "SELECT_T", "SELECT_M"):
        return "one:sel:SEL_" + k[-1]
    if k in ("AGG_ENT", "AGG_ENTS"):
        return "aggr:ent:" + a.target.upper()
    return "aggr:" + {"AGG_INT": "int", "AGG_REAL": "real", "AGG_STR": "str", "AGG_SEL": "sel:SEL_M", "AGG_SELE": "sel:SEL_E",
                      "AGG_AGG": "gen", "AGG_BOOL": "bool", "AGG_ENUM": "enum:RED.GREEN.BLUE", "AGG_BIN": "bin",
                      "AGG_LOG": "log"}[k]


def ancestors(schema, name):
    out = []
    while name is not None:
        out.append(name.upper())
        name = schema.by_name[name].supertype
    return out


def dict_lines(schema, abstract=()):
    t = [x.upper() for x in schema.targets]
    L = ["dict begin"]
    for e in schema.entities:
        L.append(f"E {e.name.upper()} {1 if e.name in abstract else 0} {','.join(ancestors(schema, e.name))}")
        for a in schema.all_attrs(e.name):
            der = 1 if getattr(a, "derived_in", None) and e.name in a.derived_in else 0
            L.append(f"A {a.name} {1 if a.optional else 0} {der} 0 {1 if a.owner == e.name else 0} {attr_ty(a)}")
    L.append(f"S SEL_E {t[0]}=ent:{t[0]} {t[1]}=ent:{t[1]}")
    L.append("S SEL_T LEN_T=real CNT_T=int")
    L.append(f"S SEL_M {t[0]}=ent:{t[0]} LEN_T=real")
    # what the matcher accepts for an ANDOR family: the root with any non-empty set of its members
    import itertools
    for e in schema.entities:
        if e.andor_root:
            subs = schema.subtypes(e.name)
            for k in range(1, len(subs) + 1):
                for c in itertools.combinations(subs, k):
                    L.append("C " + " ".join(sorted(n.upper() for n in (e.name,) + c)))
    L.append("dict end")
    return L


# ------------------------------------------------------------------ tokens and layout
def val_tokens(v, inner):
    """token list of a value; gaps inside get class `inner` or deeper"""
    t = v[0]
    if t == "tok":
        return [v[1]]
    if t in ("null",):
        return ["$"]
    if t == "empty":
        return []
    if t == "derived":
        return ["*"]
    if t == "ref":
        return [f"#{v[1]}"]
    if t == "aggr":
        # an aggregate of aggregates is kept as raw text by the library (SCLundefined): its gaps are a class of their own
        cls = "agg2" if inner == "agg2" or any(x[0] == "aggr" for x in v[1]) else "agg"
        out = ["(", ("gap", cls)]
        for i, x in enumerate(v[1]):
            if i:
                out += [("gap", cls), ",", ("gap", cls)]
            out += val_tokens(x, cls)
        out += [("gap", cls), ")"]
        return out
    if t == "typed":
        return [v[1], ("gap", "sel"), "(", ("gap", "sel")] + val_tokens(v[2], "sel") + [("gap", "sel"), ")"]
    raise ValueError(v)


def part_tokens(name, vals):
    out = [name, ("gap", "top"), "("]
    for i, v in enumerate(vals):
        if i:
            out += [","]
        out += [("gap", "top")] + val_tokens(v, "top") + [("gap", "aftval")]
    if not vals:
        out += [("gap", "top")]
    out += [")"]
    return out


def tokens(inst):
    out = [f"#{inst.id}", ("gap", "top"), "=", ("gap", "top")]
    if inst.is_complex:
        out += ["(", ("gap", "cx")]
        for n, vs in inst.parts:
            out += [(("gap", "cx") if isinstance(x, tuple) else x) for x in part_tokens(n, vs)]
            out += [("gap", "cx")]
        out += [")"]
    else:
        n, vs = inst.parts[0]
        out += part_tokens(n, vs)
    out += [("gap", "top"), ";"]
    return out


WS = ["", "", "", " ", "  ", "\n", "\n  ", "\t", " \r\n "]
COMMENTS = ["/* c */", "/**/", "/* a * b / c */", "/*#9=X(1);*/", "/* ' */"[:0] + "/* q */", "/*\n multi\n line */", "/* ,) */"]


P_COMMENT = 0.35


def sep(rng, allow_comment):
    s = rng.choice(WS)
    if allow_comment and rng.random() < P_COMMENT:
        s += rng.choice(COMMENTS) + rng.choice(WS)
    return s


def render_inst(inst, rng=None, comment_classes=()):
    out = []
    for t in tokens(inst):
        if isinstance(t, tuple):
            if rng is not None:
                out.append(sep(rng, t[1] in comment_classes))
        else:
            out.append(t)
    return "".join(out)


HEADER = G.HEADER


def render_file(schema_name, insts, rng=None, comment_classes=(), between=None):
    """whole exchange file; `between` = separator generator between instances"""
    out = ["ISO-10303-21;\n", HEADER.replace("{S}", schema_name.upper()), "DATA;"]
    for i in insts:
        out.append(sep(rng, "top" in comment_classes) if rng is not None else "\n")
        out.append(i if isinstance(i, str) else render_inst(i, rng, comment_classes))
    out.append("\n" if rng is None else sep(rng, "top" in comment_classes) or "\n")
    out += ["ENDSEC;\n", "END-ISO-10303-21;\n"]
    return "".join(out)


def data_bytes(text):
    """the bytes the model is given: everything after the first `DATA;`"""
    return text[text.index("DATA;") + 5:]


# ------------------------------------------------------------------ literal spellings
def gen_literal(rng, kind):
    """a literal of the Part 21 grammar for a simple kind, not necessarily in the writer's canonical spelling"""
    if kind in ("INTEGER", "DEF_INT"):
        return rng.choice(["0", "+5", "-0", "007", "+123456789", "-2147483648", "9223372036854775806", "1", "-17"])
    if kind in ("REAL", "DEF_REAL", "NUMBER"):
        return rng.choice(["0.", "+1.5", "-2.25", "1.E5", "100000.", "1.0E+05", "6.02E23", "1.E-7", "-0.0", "123456789.012345",
                           "1.7976931348623E308", "5.E-324"[:0] + "4.9E-300", "3.14159265358979", "00.5", "1.50"])
    if kind == "STRING":
        return rng.choice(["'a'", "''", "'it''s'", "''''", "'x,y)'", "'#12'", "'$'", "'/* no comment */'", "'\\\\'",
                           "'\\S\\D'", "'\\X2\\03B1\\X0\\'", "'a;b'", "'(('", "'end''''s'", "' lead'", "'trail '",
                           "'\\X\\E9'", "'ENDSEC;'"])
    if kind == "BOOLEAN":
        return rng.choice([".T.", ".F."])
    if kind == "LOGICAL":
        return rng.choice([".T.", ".F.", ".U."])
    if kind == "BINARY":
        return rng.choice(['"0"', '"1F"', '"3ABCDEF0123456789"', '"0FF"', '"23"'])
    if kind == "ENUM":
        return rng.choice(G.ENUMS)
    raise ValueError(kind)


def respell(rng, schema, insts, p=0.5):
    """replace canonical literals by other spellings of the grammar (same kind)"""
    out = []
    for inst in insts:
        parts = []
        for pi, (n, vs) in enumerate(inst.parts):
            attrs = G.part_attrs(schema, inst, pi)
            nv = []
            for a, v in zip(attrs, vs):
                nv.append(_respell_val(rng, a.kind, v, p))
            parts.append((n, nv))
        out.append(G.Inst(inst.id, parts))
    return out


def _respell_val(rng, kind, v, p):
    simple = {"AGG_INT": "INTEGER", "AGG_REAL": "REAL", "AGG_STR": "STRING"}
    if v[0] == "tok" and kind in ELEM and rng.random() < p:
        return ("tok", gen_literal(rng, kind))
    if v[0] == "aggr" and kind in simple:
        return ("aggr", [("tok", gen_literal(rng, simple[kind])) if rng.random() < p else x for x in v[1]])
    if v[0] == "typed" and v[1] == "LEN_T" and rng.random() < p:
        return ("typed", v[1], ("tok", gen_literal(rng, "REAL")))
    if v[0] == "typed" and v[1] == "CNT_T" and rng.random() < p:
        return ("typed", v[1], ("tok", gen_literal(rng, "INTEGER")))
    if v[0] == "aggr" and kind == "AGG_SEL":
        return ("aggr", [_respell_val(rng, "SELECT_M", x, p) for x in v[1]])
    return v

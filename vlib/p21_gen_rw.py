"""Extensions of vlib/p21_gen.py for the read/write round trip (C01) and the violation stream (C03).

* `dict_lines(schema)`            the run-time dictionary of a p21_gen.Schema in the line protocol of lean/Drivers/C01.lean
* `tokens(inst)`                  an instance as a token list with a *gap class* between consecutive tokens
* `render_layout(...)`            exchange-file text with separators drawn per gap class (white space / comments)
* `gen_literal(rng, kind)`        literal spellings beyond the writer's canonical ones (signs, exponents, escapes, ...)
* `violations(schema, pop)`       single violations of C03's classes applied to a conforming population

Gap classes:
  top      between the tokens of an instance outside its parameter list, and right after `(`/`,` of the parameter list
  aftval   between a top-level parameter and the `,`/`)` that follows it
  agg      anywhere between the parentheses of a one-dimensional aggregate
  agg2     anywhere between the parentheses of an aggregate of aggregates (kept as raw text by the library)
  sel      anywhere inside a typed parameter  NAME ( value )
  cx       anywhere inside the outer parentheses of an externally mapped instance
"""
import re
from . import p21_gen as G

ELEM = {"INTEGER": "int", "DEF_INT": "int", "REAL": "real", "DEF_REAL": "real", "NUMBER": "num", "STRING": "str",
        "BOOLEAN": "bool", "LOGICAL": "log", "BINARY": "bin", "ENUM": "enum:RED.GREEN.BLUE"}


def attr_ty(a):
    k = a.kind
    if k in DEEP_KINDS:
        return DEEP_KINDS[k]
    if k in ELEM:
        return "one:" + ELEM[k]
    if k == "ENTITY":
        return "one:ent:" + a.target.upper()
    if k in ("SELECT_E", "SELECT_T", "SELECT_M"):
        return "one:sel:SEL_" + k[-1]
    if k in ("AGG_ENT", "AGG_ENTS"):
        return "aggr:ent:" + a.target.upper()
    return "aggr:" + {"AGG_INT": "int", "AGG_REAL": "real", "AGG_STR": "str", "AGG_SEL": "sel:SEL_M", "AGG_SELE": "sel:SEL_E",
                      "AGG_AGG": "gen", "AGG_AGG_ENT": "gen", "AGG_AGG_SEL": "gen", "AGG3_ENT": "gen", "AGG_BOOL": "bool", "AGG_ENUM": "enum:RED.GREEN.BLUE", "AGG_BIN": "bin",
                      "AGG_LOG": "log"}[k]


def ancestors(schema, name):
    out = []
    while name is not None:
        out.append(name.upper())
        name = schema.by_name[name].supertype
    return out


def dict_lines(schema, abstract=()):
    t = [x.upper() for x in schema.targets]
    L = ["dict begin"]
    for e in schema.entities:
        L.append(f"E {e.name.upper()} {1 if e.name in abstract else 0} {','.join(ancestors(schema, e.name))}")
        for a in schema.all_attrs(e.name):
            der = 1 if a.name in getattr(schema, "derived", {}).get(e.name, ()) else 0
            L.append(f"A {a.name} {1 if a.optional else 0} {der} 0 {1 if a.owner == e.name else 0} {attr_ty(a)}")
    L.append(f"S SEL_E {t[0]}=ent:{t[0]} {t[1]}=ent:{t[1]}")
    L.append("S SEL_T LEN_T=real CNT_T=int")
    L.append(f"S SEL_M {t[0]}=ent:{t[0]} LEN_T=real")
    if "dp_e" in schema.by_name:
        # a select that is a member of a select without being renamed never shows in a file: the reader finds the leaf
        # through the nesting, the writer writes the leaf -> to the model the members are the leaves, depth first
        for s, leaves in SEL_LEAVES.items():
            L.append(f"S {s} " + " ".join((f"{t[0]}=ent:{t[0]}" if x == "#T0" else f"{x}={LEAVES[x]}") for x in leaves))
        L.append("S S2R RS1=sel:S1 NM_LAB=str")
        L.append("S S3R RS2=sel:S2R NM_FLAG=bool")
    # what the matcher accepts for an ANDOR family: the root with any non-empty set of its members
    import itertools
    for e in schema.entities:
        if e.andor_root:
            subs = schema.subtypes(e.name)
            for k in range(1, len(subs) + 1):
                for c in itertools.combinations(subs, k):
                    L.append("C " + " ".join(sorted(n.upper() for n in (e.name,) + c)))
    L.append("dict end")
    return L


# ------------------------------------------------------------------ tokens and layout
def val_tokens(v, inner):
    """token list of a value; gaps inside get class `inner` or deeper"""
    t = v[0]
    if t == "tok":
        return [v[1]]
    if t in ("null",):
        return ["$"]
    if t == "empty":
        return []
    if t == "derived":
        return ["*"]
    if t == "ref":
        return [f"#{v[1]}"]
    if t == "aggr":
        # an aggregate of aggregates is kept as raw text by the library (SCLundefined): its gaps are a class of their own
        cls = "agg2" if inner == "agg2" or any(x[0] == "aggr" for x in v[1]) else "agg"
        out = ["(", ("gap", cls)]
        for i, x in enumerate(v[1]):
            if i:
                out += [("gap", cls), ",", ("gap", cls)]
            out += val_tokens(x, cls)
        out += [("gap", cls), ")"]
        return out
    if t == "typed":
        # inside an aggregate of aggregates a typed select value is part of the raw text too: the gaps stay of that class
        cls = "agg2" if inner == "agg2" else "sel"
        return [v[1], ("gap", cls), "(", ("gap", cls)] + val_tokens(v[2], cls) + [("gap", cls), ")"]
    raise ValueError(v)


def part_tokens(name, vals):
    out = [name, ("gap", "top"), "("]
    for i, v in enumerate(vals):
        if i:
            out += [","]
        out += [("gap", "top")] + val_tokens(v, "top") + [("gap", "aftval")]
    if not vals:
        out += [("gap", "top")]
    out += [")"]
    return out


def tokens(inst):
    out = [f"#{inst.id}", ("gap", "top"), "=", ("gap", "top")]
    if inst.is_complex:
        out += ["(", ("gap", "cx")]
        for n, vs in inst.parts:
            out += [(("gap", "cx") if isinstance(x, tuple) else x) for x in part_tokens(n, vs)]
            out += [("gap", "cx")]
        out += [")"]
    else:
        n, vs = inst.parts[0]
        out += part_tokens(n, vs)
    out += [("gap", "top"), ";"]
    return out


WS = ["", "", "", " ", "  ", "\n", "\n  ", "\t", " \r\n "]
COMMENTS = ["/* c */", "/**/", "/* a * b / c */", "/*#9=X(1);*/", "/* ' */"[:0] + "/* q */", "/*\n multi\n line */", "/* ,) */"]


P_COMMENT = 0.35


def sep(rng, allow_comment):
    s = rng.choice(WS)
    if allow_comment and rng.random() < P_COMMENT:
        s += rng.choice(COMMENTS) + rng.choice(WS)
    return s


def render_inst(inst, rng=None, comment_classes=()):
    out = []
    for t in tokens(inst):
        if isinstance(t, tuple):
            if rng is not None:
                out.append(sep(rng, t[1] in comment_classes))
        else:
            out.append(t)
    return "".join(out)


HEADER = G.HEADER


HEADERS = [
    HEADER,
    ("HEADER;\nFILE_DESCRIPTION(('first line','second ''quoted'' line'),'2;1');\n"
     "FILE_NAME('a name','2001-02-03T04:05:06',('A. Author','B. Author','C'),('Org 1','Org 2'),'pre 1.0','sys','auth');\n"
     "FILE_SCHEMA(('{S}'));\nENDSEC;\n"),
    # the section keywords and an instance look-alike inside header STRINGS and header comments
    ("HEADER;\n/* DATA; ENDSEC; #1=X(1); */\nFILE_DESCRIPTION(('archive of measurement DATA; set 7','ENDSEC;','HEADER;',"
     "'END-ISO-10303-21;','#1=X(1);','/* no comment'),'2;1');\n"
     "FILE_NAME('DATA ;','2001-02-03T04:05:06',('ISO-10303-21;','it''s DATA;'),('*/ ENDSEC ;'),'DATA','#2=','data;');\n"
     "/* HEADER; */ FILE_SCHEMA(('{S}')); /* DATA; */\nENDSEC;\n"),
    ("HEADER;\nFILE_DESCRIPTION ( ( 'x' ) , '2;1' ) ;\nFILE_NAME ( '' , '1999-12-31T23:59:59' , ( 'me' ) , ( '' , 'o' ) , '' , '' , '' ) ;\n"
     "FILE_SCHEMA ( ( '{S}' ) ) ;\nENDSEC;\n"),
]


def render_file(schema_name, insts, rng=None, comment_classes=(), between=None, header=None):
    """whole exchange file; `between` = separator generator between instances"""
    out = ["ISO-10303-21;\n", (header or HEADER).replace("{S}", schema_name.upper()), "DATA;"]
    for i in insts:
        out.append(sep(rng, "top" in comment_classes) if rng is not None else "\n")
        out.append(i if isinstance(i, str) else render_inst(i, rng, comment_classes))
    out.append("\n" if rng is None else sep(rng, "top" in comment_classes) or "\n")
    out += ["ENDSEC;\n", "END-ISO-10303-21;\n"]
    return "".join(out)


def find_keyword(text, kw, start=0):
    """index just behind the first `kw` [blanks] `;` that stands outside string literals and comments (-1: none)"""
    i, n = start, len(text)
    while i < n:
        c = text[i]
        if c == "'":
            j = i + 1
            while j < n:
                if text[j] == "'":
                    if text.startswith("''", j):
                        j += 2
                        continue
                    break
                if text.startswith(BS + "S" + BS, j):
                    j += 4
                    continue
                j += 1
            i = j + 1
        elif text.startswith("/*", i):
            j = text.find("*/", i + 2)
            i = n if j < 0 else j + 2
        elif text.startswith(kw, i):
            m = re.compile(r"\s*;").match(text, i + len(kw))
            if m:
                return m.end()
            i += 1
        else:
            i += 1
    return -1


def data_start(text):
    return find_keyword(text, "DATA")


def data_bytes(text):
    """the bytes the model is given: everything after the `DATA;` that opens the data section (the keyword may also
    occur inside header strings and comments)"""
    return text[data_start(text):]


# ------------------------------------------------------------------ literal spellings, driven by the token grammar
# (lean/StepModel/P21/Grammar.lean = doc/iso-10303-21--2002.bnf): every production and every boundary between two
# productions is hit by construction, the random choices only pick which combination goes into which file.

def gen_integer(rng):
    """integer = [ sign ] digit { digit } ; within `long`, not the in-band null LONG_MAX"""
    sign = rng.choice(["", "", "+", "-"])
    shape = rng.randrange(6)
    if shape == 0:
        ds = rng.choice("0123456789")
    elif shape == 1:
        ds = "0" * rng.randint(1, 3) + str(rng.randrange(1000))            # leading zeros
    elif shape == 2:
        ds = str(rng.choice([2147483647, 2147483648, 4294967296, 9223372036854775806, 999999999999999]))
    elif shape == 3 and sign == "-":
        ds = str(rng.choice([2147483648, 9223372036854775807, 9223372036854775808 - 1]))
    else:
        ds = str(rng.randrange(10 ** rng.randint(1, 12)))
    return sign + ds


def gen_real(rng):
    """real = [ sign ] digit { digit } '.' { digit } [ 'E' [ sign ] digit { digit } ]
    grid: sign x number of significant digits 1..15 x where the point stands x fixed / exponent notation x exponent
    magnitude (0, 1, 5, 7, 14..16, 20, 100, 300) x exponent sign and spelling.  The library's in-band null (FLT_MIN) and
    values within 1e-14 of DBL_MAX are outside the property and never produced."""
    sign = rng.choice(["", "", "+", "-", "-"])
    nd = rng.choice([1, 1, 1, 2, 3, 7, 14, 15])
    digits = rng.choice("123456789") + "".join(rng.choice("0123456789") for _ in range(nd - 1))
    if nd > 1 and rng.random() < 0.3:
        digits = digits[:-1] + rng.choice("123456789")      # last digit significant
    k = rng.randint(1, nd) if rng.random() < 0.8 else 0      # digits before the point (0: a leading `0.` form)
    if k == 0:
        mant = "0." + "0" * rng.choice([0, 0, 1, 4]) + digits
    else:
        mant = digits[:k] + "." + digits[k:]
    if rng.random() < 0.15:
        mant = "0" * rng.randint(1, 2) + mant                # leading zeros
    if rng.random() < 0.15 and "." in mant and not mant.endswith("."):
        mant = mant + "0" * rng.randint(1, 2)                # trailing zeros
    if rng.random() < 0.55:
        mag = rng.choice([0, 1, 4, 5, 6, 7, 14, 15, 16, 17, 20, 99, 100, 250])
        esign = rng.choice(["", "+", "-", "-"])
        if esign == "-":
            mag = min(mag, 250)
        width = rng.choice([0, 0, 2, 3])
        e = "E" + esign + (str(mag).zfill(width) if width else str(mag))
    else:
        e = ""
    if rng.random() < 0.06:
        return rng.choice(["0.", "-0.", "+0.0", "0.E0", "0.0E-5"])
    return sign + mant + e


BS = chr(92)
STR_PLAIN = 'abcXYZ 0189_-+*/=<>!"#$%&().,:;?@[]^`{|}~'      # non_q_char


def _str_item(rng):
    """one item of the string body: non_q_char | apostrophe apostrophe | reverse_solidus reverse_solidus | control_directive"""
    r = rng.randrange(12)
    if r < 4:
        return rng.choice(STR_PLAIN)
    if r == 4:
        return "''"
    if r == 5:
        return BS + BS
    if r == 6:      # page: \S\ character ; `character` includes the apostrophe and the reverse solidus
        return BS + "S" + BS + rng.choice(["'", "'", BS, "D", "|", " ", "7", "S"])
    if r == 7:      # alphabet
        return BS + "P" + rng.choice("ABI") + BS
    if r == 8:      # arbitrary
        return BS + "X" + BS + rng.choice(["27", "5C", "A7", "E9", "00", "FF", "0A"])
    if r == 9:      # extended2
        return (BS + "X2" + BS + "".join(rng.choice(["03B1", "0027", "005C", "20AC"]) for _ in range(rng.randint(1, 3)))
                + BS + "X0" + BS)
    if r == 10:     # extended4
        return (BS + "X4" + BS + "".join(rng.choice(["0001F600", "00000027"]) for _ in range(rng.randint(1, 2)))
                + BS + "X0" + BS)
    return rng.choice(["#12", "ENDSEC;", "/* x */", "$", "*", ",", ")", "(", ";", "=", ".T.", "DATA;", "DATA ;", "HEADER;",
                       "END-ISO-10303-21;", "#1=X(1);", "ISO-10303-21;", "/*", "*/"])


def gen_string(rng):
    """string = apostrophe { non_q_char | 2 apostrophes | 2 reverse solidi | control_directive } apostrophe ; every item kind at the start, in the middle and at
    the END of the body, and next to every other item kind (in particular a directive followed by the closing apostrophe)"""
    n = rng.choice([0, 1, 1, 2, 2, 3, 5])
    items = [_str_item(rng) for _ in range(n)]
    return "'" + "".join(items) + "'"


def gen_binary(rng):
    """binary = '"' ( '0' | '1' | '2' | '3' ) { hex } '"'"""
    return '"' + rng.choice("0123") + "".join(rng.choice("0123456789ABCDEF") for _ in range(rng.choice([0, 0, 1, 2, 7, 17]))) + '"'


def gen_literal(rng, kind):
    """a literal of the Part 21 grammar for a simple kind, not necessarily in the writer's canonical spelling"""
    if kind in ("INTEGER", "DEF_INT"):
        return gen_integer(rng)
    if kind in ("REAL", "DEF_REAL", "NUMBER"):
        return gen_real(rng)
    if kind == "STRING":
        return gen_string(rng)
    if kind == "BOOLEAN":
        return rng.choice([".T.", ".F."])
    if kind == "LOGICAL":
        return rng.choice([".T.", ".F.", ".U."])
    if kind == "BINARY":
        return gen_binary(rng)
    if kind == "ENUM":
        return rng.choice(G.ENUMS)
    raise ValueError(kind)


def real_grid():
    """every conforming REAL spelling class: sign x significant digits x position of the point x notation x exponent"""
    out = []
    for sign in ("", "+", "-"):
        for digits in ("1", "5", "25", "123456789012345"):
            for k in sorted({1, len(digits)}):
                mant = digits[:k] + "." + digits[k:]
                for e in ("", "E5", "E+20", "E-07", "E+15", "E-5", "E+250", "E-250"):
                    out.append(sign + mant + e)
    out += ["0.", "-0.", "0.E0", "0.25", "-0.25", "00.5", "1.50", "+0.0001", "-0.00001", "100000000000000.", "-1000000000000000."]
    return out


def string_grid():
    """every item kind of the string grammar alone, at the start, at the end, and next to every other item kind"""
    items = ["a", "DATA;", "ENDSEC;", "''", BS + BS, BS + "S" + BS + "'", BS + "S" + BS + BS, BS + "S" + BS + "D", BS + "PA" + BS,
             BS + "X" + BS + "27", BS + "X" + BS + "5C", BS + "X2" + BS + "0027" + BS + "X0" + BS,
             BS + "X4" + BS + "00000027" + BS + "X0" + BS, ";", ")", "/*"]
    out = ["''"]
    for d in items:
        out += ["'" + d + "'", "'x" + d + "'", "'" + d + "x'"]
    for d1 in items:
        for d2 in items:
            out.append("'" + d1 + d2 + "'")
    return out


def integer_grid():
    out = []
    for sign in ("", "+", "-"):
        for ds in ("0", "7", "007", "2147483647", "2147483648", "4294967296", "9223372036854775806"):
            out.append(sign + ds)
    return out + ["-9223372036854775807", "-9223372036854775808"]


def grid_population(schema, start_id=1):
    """a conforming population that carries every grid literal once: reals in t1.t1_r, integers and strings in
    t0.t0_i / t0.t0_s, aggregates of them in en_e (when the schema has it)"""
    t0, t1 = schema.targets[0].upper(), schema.targets[1].upper()
    insts, i = [], start_id
    for r in real_grid():
        insts.append(G.Inst(i, [(t1, [("tok", r), ("null",)])]))
        i += 1
    ints = integer_grid()
    for k, s in enumerate(string_grid()):
        insts.append(G.Inst(i, [(t0, [("tok", ints[k % len(ints)]), ("null",), ("tok", s)])]))
        i += 1
    if "en_e" in schema.by_name:
        rg, sg = real_grid(), string_grid()
        for k in range(0, len(rg), 3):
            insts.append(G.Inst(i, [("EN_E", [("tok", ".RED."), ("aggr", [("tok", ".BLUE."), ("tok", ".GREEN.")]), ("aggr", [("tok", ".F.")]),
                                              ("null",), ("aggr", [("tok", x) for x in rg[k:k + 3]]),
                                              ("aggr", [("tok", x) for x in sg[k:k + 3]])])]))
            i += 1
    return insts


def ref_population(schema, start_id=1):
    """entity-valued attributes referring to complex instances through every part, next to plain instances of every part
    type (the targets a wrong-type reference can be given)"""
    i = start_id
    cx = G.Inst(i, [("BK_D", [("tok", "1")]), ("BK_P", [("tok", "'red'")]), ("BK_ROOT", [("tok", "7")])])
    cx2 = G.Inst(i + 1, [("BK_D", [("null",)]), ("BK_ROOT", [("tok", "8")])])
    pd = G.Inst(i + 2, [("BK_D", [("tok", "9"), ("tok", "2")])])
    pp = G.Inst(i + 3, [("BK_P", [("tok", "10"), ("tok", "'blue'")])])
    pr = G.Inst(i + 4, [("BK_ROOT", [("tok", "11")])])
    rf = lambda k, p, d, r, l: G.Inst(i + 5 + k, [("RF_E", [p, d, r, ("aggr", l)])])
    R = lambda x: ("ref", x.id)
    N = ("null",)
    return [cx, cx2, pd, pp, pr,
            rf(0, R(cx), R(cx), R(cx), [R(cx), R(pp)]), rf(1, R(pp), R(cx2), R(cx2), []), rf(2, N, R(pd), R(pr), [R(cx)]),
            rf(3, R(cx), N, R(pd), [R(pp), R(cx)])]


def near_miss_enum(rng, items, shape=None):
    """an enumeration token that is NOT one of `items` but close to one: proper prefix, extension, one-letter edit,
    deletion, two items glued, an item of another enumeration"""
    items = [i.upper() for i in items]
    for _ in range(50):
        it = rng.choice(items)
        r = rng.randrange(7) if shape is None else shape % 7
        if shape is not None and len(it) == 1 and r in (0, 3, 4):
            r = 1 + shape % 2           # one-letter items have no proper prefix / suffix
        if r == 0 and len(it) > 1:
            c = it[:rng.randint(1, len(it) - 1)]                      # proper prefix
        elif r == 1:
            c = it + rng.choice(["X", "S", "_1", "ISH", "0"])          # extension
        elif r == 2:
            k = rng.randrange(len(it))
            c = it[:k] + rng.choice("ABCDEFGHIJKLMNOPQRSTUVWXYZ_") + it[k + 1:]   # one letter replaced
        elif r == 3 and len(it) > 1:
            k = rng.randrange(len(it))
            c = it[:k] + it[k + 1:]                                   # one letter deleted
        elif r == 4 and len(it) > 1:
            c = it[1:]                                                # proper suffix
        elif r == 5:
            c = it + rng.choice(items)                                # two items glued
        else:
            c = rng.choice(["PURPLE", "T", "F", "U", "UNSET", "DASH", "X"])
        if c and c not in items and (c[0].isalpha() or c[0] == "_"):
            return "." + c + "."
    return ".NO_SUCH_ITEM."


def respell(rng, schema, insts, p=0.5):
    """replace canonical literals by other spellings of the grammar (same kind)"""
    out = []
    for inst in insts:
        parts = []
        for pi, (n, vs) in enumerate(inst.parts):
            attrs = G.part_attrs(schema, inst, pi)
            nv = []
            for a, v in zip(attrs, vs):
                nv.append(_respell_val(rng, a.kind, v, p))
            parts.append((n, nv))
        out.append(G.Inst(inst.id, parts))
    return out


def _respell_val(rng, kind, v, p):
    simple = {"AGG_INT": "INTEGER", "AGG_REAL": "REAL", "AGG_STR": "STRING"}
    if v[0] == "tok" and kind in ELEM and rng.random() < p:
        return ("tok", gen_literal(rng, kind))
    if v[0] == "aggr" and kind in simple:
        return ("aggr", [("tok", gen_literal(rng, simple[kind])) if rng.random() < p else x for x in v[1]])
    if v[0] == "typed" and v[1] == "LEN_T" and rng.random() < p:
        return ("typed", v[1], ("tok", gen_literal(rng, "REAL")))
    if v[0] == "typed" and v[1] == "CNT_T" and rng.random() < p:
        return ("typed", v[1], ("tok", gen_literal(rng, "INTEGER")))
    if v[0] == "aggr" and kind == "AGG_SEL":
        return ("aggr", [_respell_val(rng, "SELECT_M", x, p) for x in v[1]])
    return v


# ------------------------------------------------------------------ C03: single violations of a conforming population
ABSTRACT_EXPRESS = ("ENTITY abs_e\n  ABSTRACT SUPERTYPE OF (ONEOF (abs_s));\n  abs_i : INTEGER;\nEND_ENTITY;\n\n"
                    "ENTITY abs_s\n  SUBTYPE OF (abs_e);\nEND_ENTITY;\n\n"
                    "ENTITY d_sup\n  SUPERTYPE OF (ONEOF (d_sub));\n  d_a : INTEGER;\n  d_b : REAL;\nEND_ENTITY;\n\n"
                    "ENTITY d_sub\n  SUBTYPE OF (d_sup);\n  d_c : OPTIONAL STRING;\nDERIVE\n  SELF\\d_sup.d_a : INTEGER := 1;\nEND_ENTITY;\n\n"
                    "ENTITY en_e;\n  en_c : colour_t;\n  en_l : LIST [0:?] OF colour_t;\n  en_b : LIST [0:?] OF BOOLEAN;\n"
                    "  en_g : OPTIONAL LIST [0:?] OF LOGICAL;\n  en_r : LIST [0:?] OF REAL;\n  en_s : LIST [0:?] OF STRING;\nEND_ENTITY;\n\n"
                    "ENTITY bk_root\n  SUPERTYPE OF (bk_d ANDOR bk_p);\n  bk_id : INTEGER;\nEND_ENTITY;\n\n"
                    "ENTITY bk_d\n  SUBTYPE OF (bk_root);\n  bk_n : OPTIONAL INTEGER;\nEND_ENTITY;\n\n"
                    "ENTITY bk_p\n  SUBTYPE OF (bk_root);\n  bk_col : STRING;\nEND_ENTITY;\n\n"
                    "ENTITY rf_e;\n  rf_p : OPTIONAL bk_p;\n  rf_d : OPTIONAL bk_d;\n  rf_r : OPTIONAL bk_root;\n  rf_l : LIST [0:?] OF bk_p;\nEND_ENTITY;\n\n"
                    "ENTITY ll_e;\n  ll_s : LIST [0:?] OF LIST [0:?] OF STRING;\n  ll_r : OPTIONAL LIST [0:?] OF LIST [0:?] OF REAL;\n"
                    "  ll_t : LIST [0:?] OF LIST [0:?] OF {T0};\n  ll_m : OPTIONAL LIST [0:?] OF LIST [0:?] OF st_t;\n"
                    "  ll_3 : OPTIONAL LIST [0:?] OF LIST [0:?] OF LIST [0:?] OF STRING;\nEND_ENTITY;\n\n"
                    "ENTITY dp_e;\n  dp_st : st_t;\n  dp_sl : LIST [0:?] OF st_t;\n  dp_so : OPTIONAL st_t;\n  dp_1 : s1;\n  dp_1b : s1b;\n"
                    "  dp_2 : OPTIONAL s2;\n  dp_3 : s3;\n  dp_4 : s4;\n  dp_l2 : LIST [0:?] OF s2;\n  dp_l3 : LIST [0:?] OF s3;\n"
                    "  dp_l4 : LIST [0:?] OF s4;\nEND_ENTITY;\n\n"
                    "ENTITY dr_e;\n  dr_2 : s2r;\n  dr_3 : OPTIONAL s3r;\n  dr_l : LIST [0:?] OF s3r;\nEND_ENTITY;\n\n"
                    "ENTITY nu_e;\n  nu_n : LIST [0:?] OF NUMBER;\n  nu_d : OPTIONAL LIST [0:?] OF nm_num;\n  nu_r : LIST [0:?] OF REAL;\nEND_ENTITY;\n\n")

# enumeration whose items are closed under "proper prefix / extension / shares a prefix", in both declaration orders;
# selects nested 1..4 deep with typed leaves of every underlying kind, and renamed selects (rs1, rs2) at two levels
DEEP_TYPES = ("TYPE st_t = ENUMERATION OF (draft, finaldraft, final, revision, fi, finale, deca, deci, d);\nEND_TYPE;\n"
              "TYPE nm_len = REAL; END_TYPE;\nTYPE nm_mass = REAL; END_TYPE;\nTYPE nm_cnt = INTEGER; END_TYPE;\n"
              "TYPE nm_lab = STRING; END_TYPE;\nTYPE nm_flag = BOOLEAN; END_TYPE;\nTYPE nm_log = LOGICAL; END_TYPE;\n"
              "TYPE s1 = SELECT (nm_len, nm_mass, nm_cnt); END_TYPE;\nTYPE s1b = SELECT (nm_lab, nm_flag, st_t); END_TYPE;\n"
              "TYPE s2 = SELECT (s1, s1b); END_TYPE;\nTYPE s3 = SELECT (s2, {T0}); END_TYPE;\nTYPE s4 = SELECT (s3, nm_log); END_TYPE;\n"
              "TYPE rs1 = s1; END_TYPE;\nTYPE s2r = SELECT (rs1, nm_lab); END_TYPE;\nTYPE rs2 = s2r; END_TYPE;\n"
              "TYPE s3r = SELECT (rs2, nm_flag); END_TYPE;\nTYPE nm_num = NUMBER; END_TYPE;\n\n")
ST_ITEMS = ["DRAFT", "FINALDRAFT", "FINAL", "REVISION", "FI", "FINALE", "DECA", "DECI", "D"]
LEAVES = {"NM_LEN": "real", "NM_MASS": "real", "NM_CNT": "int", "NM_LAB": "str", "NM_FLAG": "bool", "NM_LOG": "log",
          "ST_T": "enum:" + ".".join(ST_ITEMS)}
SEL_LEAVES = {"S1": ["NM_LEN", "NM_MASS", "NM_CNT"], "S1B": ["NM_LAB", "NM_FLAG", "ST_T"]}
SEL_LEAVES["S2"] = SEL_LEAVES["S1"] + SEL_LEAVES["S1B"]
SEL_LEAVES["S3"] = SEL_LEAVES["S2"] + ["#T0"]
SEL_LEAVES["S4"] = SEL_LEAVES["S3"] + ["NM_LOG"]
DEEP_KINDS = {"XENUM": "one:enum:" + ".".join(ST_ITEMS), "AGG_XENUM": "aggr:enum:" + ".".join(ST_ITEMS),
              "SEL_S1": "one:sel:S1", "SEL_S1B": "one:sel:S1B", "SEL_S2": "one:sel:S2", "SEL_S3": "one:sel:S3", "SEL_S4": "one:sel:S4",
              "AGG_S2": "aggr:sel:S2", "AGG_S3": "aggr:sel:S3", "AGG_S4": "aggr:sel:S4",
              "SEL_S2R": "one:sel:S2R", "SEL_S3R": "one:sel:S3R", "AGG_S3R": "aggr:sel:S3R",
              "AGG_NUM": "aggr:num", "AGG_DNUM": "aggr:num",
              "AGG2_STR": "aggr:gen", "AGG2_REAL": "aggr:gen", "AGG2_ENT": "aggr:gen", "AGG2_XENUM": "aggr:gen", "AGG3_STR": "aggr:gen"}


class SchemaX(G.Schema):
    """a p21_gen schema plus an abstract supertype `abs_e` (concrete subtype `abs_s`) and a subtype `d_sub` that
    derives the attribute `d_a` it inherits from `d_sup` (written `*` in an exchange file)"""
    def __init__(self, base):
        ents = list(base.entities) + [G.Entity("abs_e", None, [G.Attr("abs_i", "INTEGER", False)]),
                                      G.Entity("abs_s", "abs_e", []),
                                      G.Entity("d_sup", None, [G.Attr("d_a", "INTEGER", False), G.Attr("d_b", "REAL", False)]),
                                      G.Entity("d_sub", "d_sup", [G.Attr("d_c", "STRING", True)]),
                                      G.Entity("en_e", None, [G.Attr("en_c", "ENUM", False), G.Attr("en_l", "AGG_ENUM", False),
                                                              G.Attr("en_b", "AGG_BOOL", False), G.Attr("en_g", "AGG_LOG", True),
                                                              G.Attr("en_r", "AGG_REAL", False), G.Attr("en_s", "AGG_STR", False)]),
                                      # an ANDOR family whose complex instance (BK_D&BK_P&BK_ROOT) has a first part (BK_D) that
                                      # is not the domain of rf_p: references to it are accepted through another part
                                      G.Entity("bk_root", None, [G.Attr("bk_id", "INTEGER", False)], andor_root=True),
                                      G.Entity("bk_d", "bk_root", [G.Attr("bk_n", "INTEGER", True)], andor_member=True),
                                      G.Entity("bk_p", "bk_root", [G.Attr("bk_col", "STRING", False)], andor_member=True),
                                      G.Entity("rf_e", None, [G.Attr("rf_p", "ENTITY", True, "bk_p"), G.Attr("rf_d", "ENTITY", True, "bk_d"),
                                                              G.Attr("rf_r", "ENTITY", True, "bk_root"),
                                                              G.Attr("rf_l", "AGG_ENT", False, "bk_p")]),
                                      G.Entity("ll_e", None, [G.Attr("ll_s", "AGG2_STR", False), G.Attr("ll_r", "AGG2_REAL", True),
                                                              G.Attr("ll_t", "AGG2_ENT", False, base.targets[0]),
                                                              G.Attr("ll_m", "AGG2_XENUM", True), G.Attr("ll_3", "AGG3_STR", True)]),
                                      G.Entity("dp_e", None, [G.Attr("dp_st", "XENUM", False), G.Attr("dp_sl", "AGG_XENUM", False),
                                                              G.Attr("dp_so", "XENUM", True), G.Attr("dp_1", "SEL_S1", False),
                                                              G.Attr("dp_1b", "SEL_S1B", False), G.Attr("dp_2", "SEL_S2", True),
                                                              G.Attr("dp_3", "SEL_S3", False), G.Attr("dp_4", "SEL_S4", False),
                                                              G.Attr("dp_l2", "AGG_S2", False), G.Attr("dp_l3", "AGG_S3", False),
                                                              G.Attr("dp_l4", "AGG_S4", False)]),
                                      G.Entity("dr_e", None, [G.Attr("dr_2", "SEL_S2R", False), G.Attr("dr_3", "SEL_S3R", True),
                                                              G.Attr("dr_l", "AGG_S3R", False)]),
                                      G.Entity("nu_e", None, [G.Attr("nu_n", "AGG_NUM", False), G.Attr("nu_d", "AGG_DNUM", True),
                                                              G.Attr("nu_r", "AGG_REAL", False)])]
        G.Schema.__init__(self, base.name, ents, base.targets)
        self.abstract = ("abs_e",)
        self.derived = {"d_sub": {"d_a"}}

    def express(self):
        t = G.Schema.express(self)
        a = t.index("ENTITY abs_e")
        b = t.index("END_SCHEMA;")
        t = t[:a] + ABSTRACT_EXPRESS.replace("{T0}", self.targets[0]) + t[b:]
        e0 = t.index("ENTITY ")
        return t[:e0] + DEEP_TYPES.replace("{T0}", self.targets[0]) + t[e0:]

    def simple_instantiable(self):
        # dr_e (renamed selects: nested typed parameters the Lean model does not cover) is instantiated only by deep_population
        return [e.name for e in self.entities if e.name not in ("abs_e", "dr_e")]


_orig_gen_value = G.gen_value
# set by the checks from the regenerated switch `numberElemReadsNumber` (decided from the source text): a source whose
# RealNode reads NUMBER elements with ReadReal reports every integer-spelled element (finding agg:number-element-spelled-as-integer)
NUMBER_ELEM_INT = False


def _gen_value(rng, attr, schema, pool):
    k = attr.kind
    if k == "AGG_ENUM":
        return ("aggr", [("tok", rng.choice(G.ENUMS)) for _ in range(rng.randint(0, 3))])
    if k == "AGG_BOOL":
        return ("aggr", [("tok", rng.choice([".T.", ".F."])) for _ in range(rng.randint(0, 3))])
    if k == "AGG_LOG":
        return ("aggr", [("tok", rng.choice([".T.", ".F.", ".U."])) for _ in range(rng.randint(0, 3))])
    if k in ("AGG2_STR", "AGG2_REAL", "AGG2_ENT", "AGG2_XENUM", "AGG3_STR"):
        def leaf():
            if k in ("AGG2_STR", "AGG3_STR"):
                return ("tok", rng.choice([gen_string(rng), "'part number'", "'unit of  measure'", "' a b '", "'tab\there'"]))
            if k == "AGG2_REAL":
                return ("tok", gen_real(rng))
            if k == "AGG2_XENUM":
                return ("tok", "." + rng.choice(ST_ITEMS) + ".")
            c = sorted({i for n, ids in pool.items() if schema.is_a(n, attr.target) for i in ids})
            return ("ref", rng.choice(c)) if c else None
        row = lambda: ("aggr", [v for v in (leaf() for _ in range(rng.randint(0, 3))) if v])
        if k == "AGG3_STR":
            return ("aggr", [("aggr", [row() for _ in range(rng.randint(0, 2))]) for _ in range(rng.randint(0, 2))])
        return ("aggr", [row() for _ in range(rng.randint(0, 3))])
    if k in ("AGG_NUM", "AGG_DNUM"):
        # elements of an aggregate of NUMBER: real and - when the source reads them with ReadNumber - integer spellings
        one = lambda: gen_integer(rng) if (NUMBER_ELEM_INT and rng.random() < 0.5) else gen_real(rng)
        return ("aggr", [("tok", one()) for _ in range(rng.randint(0, 4))])
    if k == "XENUM":
        return ("tok", "." + rng.choice(ST_ITEMS) + ".")
    if k == "AGG_XENUM":
        return ("aggr", [("tok", "." + rng.choice(ST_ITEMS) + ".") for _ in range(rng.randint(0, 4))])
    if k in DEEP_KINDS and (k.startswith("SEL_S") or k.startswith("AGG_S")):
        sel = k.split("_", 1)[1]
        one = lambda: deep_select_value(rng, schema, pool, sel)
        return one() if k.startswith("SEL_") else ("aggr", [one() for _ in range(rng.randint(0, 3))])
    return _orig_gen_value(rng, attr, schema, pool)


def leaf_value(rng, leaf):
    ty = LEAVES[leaf]
    lit = {"real": lambda: gen_real(rng), "int": lambda: gen_integer(rng), "str": lambda: gen_string(rng),
           "bool": lambda: rng.choice([".T.", ".F."]), "log": lambda: rng.choice([".T.", ".F.", ".U."])}.get(ty)
    return ("typed", leaf, ("tok", lit() if lit else "." + rng.choice(ST_ITEMS) + "."))


def deep_select_value(rng, schema, pool, sel, leaf=None):
    """a value of the (nested) select `sel`: the typed leaf, an entity reference, or - for the renamed selects - the
    renamed select's keyword around the value of the select it renames"""
    if sel == "S2R":
        return rng.choice([("typed", "RS1", leaf_value(rng, rng.choice(SEL_LEAVES["S1"]))), leaf_value(rng, "NM_LAB")])
    if sel == "S3R":
        return rng.choice([("typed", "RS2", deep_select_value(rng, schema, pool, "S2R")), leaf_value(rng, "NM_FLAG")])
    x = leaf or rng.choice(SEL_LEAVES[sel])
    if x == "#T0":
        c = sorted({i for n, ids in pool.items() if schema.is_a(n, schema.targets[0]) for i in ids})
        if c:
            return ("ref", rng.choice(c))
        x = "NM_CNT"
    return leaf_value(rng, x)


def deep_population(rng, schema, start_id=1, renamed=False):
    """every enumeration item and every leaf of every select nesting depth once, as attribute and as aggregate element"""
    t0 = schema.targets[0].upper()
    insts = [G.Inst(start_id, [(t0, [("tok", "1"), ("null",), ("null",)])])]
    pool = {schema.targets[0]: [start_id]}
    i = start_id + 1
    n = max(len(ST_ITEMS), len(SEL_LEAVES["S4"]))
    for k in range(n):
        st = "." + ST_ITEMS[k % len(ST_ITEMS)] + "."
        pick = lambda sel: deep_select_value(rng, schema, pool, sel, SEL_LEAVES[sel][k % len(SEL_LEAVES[sel])])
        insts.append(G.Inst(i, [("DP_E", [("tok", st), ("aggr", [("tok", "." + x + ".") for x in ST_ITEMS[k:] + ST_ITEMS[:k]]),
                                          ("tok", st) if k % 2 else ("null",), pick("S1"), pick("S1B"), pick("S2"), pick("S3"), pick("S4"),
                                          ("aggr", [pick("S2"), deep_select_value(rng, schema, pool, "S2")]),
                                          ("aggr", [pick("S3")]), ("aggr", [pick("S4"), deep_select_value(rng, schema, pool, "S4")])])]))
        i += 1
    if not renamed:
        return insts
    insts = insts[:1]
    for k in range(6):
        insts.append(G.Inst(i, [("DR_E", [deep_select_value(rng, schema, pool, "S2R"),
                                          deep_select_value(rng, schema, pool, "S3R") if k % 2 else ("null",),
                                          ("aggr", [deep_select_value(rng, schema, pool, "S3R") for _ in range(k)])])]))
        i += 1
    return insts


G.gen_value = _gen_value      # new aggregate kinds only; every kind p21_gen knows is generated as before


def fix_derived(schema, pop):
    """a derived attribute stands as `*` in a conforming file"""
    der = getattr(schema, "derived", {})
    out = []
    for inst in pop:
        parts = []
        for pi, (n, vs) in enumerate(inst.parts):
            names = der.get(n.lower(), ())
            attrs = G.part_attrs(schema, inst, pi)
            parts.append((n, [("derived",) if a.name in names else v for a, v in zip(attrs, vs)]))
        out.append(G.Inst(inst.id, parts))
    return out


def gen_population(rng, schema, n, **kw):
    return fix_derived(schema, G.gen_population(rng, schema, n, **kw))


NEAR_REAL = ["5E0", "-12E+3", "2E1", "5", "-3", ".5", "-.5E1", "1.5e3", "1.5E", "1.5E+", "1.E"]
WRONG_KIND = {   # attribute kind -> literals of *another* kind
    "INTEGER": ["'abc'", ".T.", "#REF", "(1)", '"0F"', "1.5X"] + ["5.", "1.0", "7E1", "+"], "DEF_INT": ["'abc'", ".T.", "5."],
    # (the shapes the detection lemmas of Props/C03.lean exclude are generated too: a REAL that starts with the exponent
    #  letter or the point, an enumeration item / boolean without its dots, a string without apostrophes)
    # near misses of the REAL production, one mandatory element dropped each: no point (with and without exponent), no
    # leading digit, lower-case exponent letter, exponent letter without digits (wave e, seed C03-e2)
    "REAL": ["'abc'", ".T.", "#REF", "(1.5)", "E5", "e", ".E1", "-", "+.", "ABC"] + NEAR_REAL, "DEF_REAL": ["'abc'", ".F.", "E+5", "5E0", "2E1"],
    "NUMBER": ["'abc'", ".T.", "#REF", "E5", "-", ".", "ABC", ".E1", "*"],
    "STRING": ["5", "1.5", ".T.", "#REF", "(1)", "abc", "\"0F\""], "BOOLEAN": ["5", "'T'", "#REF", "1.5", "T", "TRUE", ".T"],
    "LOGICAL": ["5", "'U'", "#REF", "U", ".U"],
    "BINARY": ["5", "'0F'", ".T.", "#REF", "0F", "\"0G\"", "\"0F", "X", "G0", "ZZ", "*"], "ENUM": ["5", "'RED'", "#REF", "1.5", "RED", ".RED", "RED."],
    "ENTITY": ["5", "'#1'", ".T.", "1.5", "(#REF)", "ABC", "*", "#", "#X"],
    "AGG_INT": ["5", "'a'", "#REF", "ABC", "*"], "AGG_REAL": ["1.5", "'a'"], "AGG_STR": ["'a'", "5"], "AGG_ENT": ["#REF", "5"],
    "AGG_ENTS": ["#REF", "'a'"], "AGG_SEL": ["#REF", "5"], "AGG_SELE": ["#REF", ".T."], "AGG_AGG": ["5", "'a'"],
    "SELECT_E": ["'abc'", "5", ".T.", "*", "%"], "SELECT_T": ["'abc'", ".T.", "#REF", "*", "+5"], "SELECT_M": ["'abc'", ".T.", "%"],
}
# something behind a `$` (`$1`): the `$` is taken as the unset value, the rest is garbage CheckRemainingInput reports.  In
# lenient mode the filler for a required INTEGER/REAL/NUMBER/STRING used to overwrite that report with USERMSG (exit 0);
# generated once the source keeps it (fixes/C03-4, model switch fillerKeepsError; set by checks/c03.py)
DOLLAR_JUNK = False
DOLLAR_JUNK_LITS = ["$1", "$abc", "$ 1", "$$"]
DOLLAR_JUNK_KINDS = ("INTEGER", "REAL", "NUMBER", "STRING", "BOOLEAN", "LOGICAL", "ENUM", "BINARY", "ENTITY")
# the library's in-band null values as tokens (LONG_MAX, (double)FLT_MIN): not representable; the repaired readers report
# them (fixes/C09-9, switches int/real/numberNullReported; set by checks/c03.py).  Attribute positions only: the model's
# aggregate-element and select-leaf paths do not have the test yet.
SENTINELS = False
SENTINEL_LITS = {"INTEGER": ["9223372036854775807"], "REAL": ["1.1754943508222875E-38", "1.17549435082228750797E-38"],
                 "NUMBER": ["1.1754943508222875E-38"]}
# near misses of the grammar's productions, each with one mandatory element dropped - every one generated (not sampled)
# when violations(..., near_miss=True): REAL without point (with / without exponent) / without leading digit / lower-case
# e / E without digits; INTEGER with point or exponent; ENUMERATION / BOOLEAN without a dot; BINARY without a quote
NEAR_MISS = {"REAL": NEAR_REAL, "DEF_REAL": ["5E0", "2E1", "7", ".5"], "INTEGER": ["5.", "1.0", "7E1", "5E0"], "DEF_INT": ["5."],
             "ENUM": [".RED", "RED.", "RED"], "BOOLEAN": [".T", "T.", "T"], "LOGICAL": [".U", "U."],
             "BINARY": ['"0F', '0F"', "0F"]}     # (a STRING with one apostrophe is the class unterminated_string)
NEAR_MISS_ELEM = {"AGG_REAL": ["5E0", "-12E+3", "2E1", "5", ".5", "1.5e3", "1.5E"], "AGG_INT": ["5.", "7E1"]}
AGG_ELEM_WRONG = {"AGG_INT": ["'x'", ".T.", "#REF", "5."], "AGG_REAL": ["'x'", ".T.", "5E0", "-12E+3", "2E1", "5", ".5", "1.5e3", "1.5E"], "AGG_STR": ["5", ".T."],
                  "AGG_ENT": ["5", "'x'"], "AGG_ENTS": ["5", ".T."]}


class Violation:
    def __init__(self, cls, victim, insts, detail, skip_confine=(), lost=()):
        self.cls, self.victim, self.insts, self.detail = cls, victim, insts, detail
        self.skip_confine = set(skip_confine) | {victim} | set(lost)     # ids whose values are not claimed
        self.lost = set(lost)                                               # instances that no longer exist in the file

    def close(self, pop):
        """an instance that refers (at any depth, transitively) to an instance that is no longer there has a dangling
        reference: it is not a conforming instance of the violated file either"""
        changed = True
        gone = set(self.lost)
        while changed:
            changed = False
            for i in pop:
                if i.id not in gone and any(r in gone for r in G.inst_refs(i)):
                    gone.add(i.id)
                    changed = True
        self.skip_confine |= gone
        return self

    def key(self):
        return f"{self.cls}:{self.detail}"


def _set_val(inst, pi, ai, v):
    c = inst.copy()
    c.parts[pi][1][ai] = v
    return c


# a STRING literal with delimiters of the record syntax inside, given where a value of another scalar type is expected:
# the failed read must not leave the stream inside the literal (the next records would be taken for string content)
STRING_DELIMS = ["'a)b;c'", "'x,y'", "'p)'", "'((q'", "'it''s;)'", "');#1=X('"]
STRING_DELIM_KINDS = ("INTEGER", "DEF_INT", "REAL", "DEF_REAL", "NUMBER", "BOOLEAN", "LOGICAL", "ENUM", "XENUM", "BINARY", "ENTITY")


def violations(rng, schema, pop, per_class=1, string_delims=False, missing_elem=False, near_miss=False):
    """-> [Violation]; `insts` is the file content: Inst objects or raw text for the mutated instance"""
    out = []
    ids = [i.id for i in pop]
    by_type = {}
    for i in pop:
        for n, _ in i.parts:
            by_type.setdefault(n, []).append(i.id)
    free_id = max(ids) + 100

    def positions(pred):
        """(instance index, part index, attr index, Attr) of every parameter satisfying pred(attr, value)"""
        ps = []
        for ii, inst in enumerate(pop):
            for pi, (n, vs) in enumerate(inst.parts):
                for ai, (a, v) in enumerate(zip(G.part_attrs(schema, inst, pi), vs)):
                    if v[0] != "derived" and pred(a, v, inst):
                        ps.append((ii, pi, ai, a))
        rng.shuffle(ps)
        return ps[:per_class]

    def replaced(ii, new):
        return [new if k == ii else x for k, x in enumerate(pop)]

    def where(inst, pi, ai, a):
        n = len(inst.parts[pi][1])
        pos = "only" if n == 1 else "first" if ai == 0 else "last" if ai == n - 1 else "middle"
        return f"{a.kind}@{pos}" + ("@complex" if inst.is_complex else "")

    someref = f"#{ids[0]}"
    # wrong literal kind
    for (ii, pi, ai, a) in positions(lambda a, v, i: a.kind in WRONG_KIND and v[0] != "null"):
        lits = WRONG_KIND[a.kind] + (DOLLAR_JUNK_LITS if DOLLAR_JUNK and a.kind in DOLLAR_JUNK_KINDS else []) + \
            (SENTINEL_LITS.get(a.kind, []) if SENTINELS else [])
        lit = rng.choice(lits).replace("#REF", someref)
        out.append(Violation("wrong_kind", pop[ii].id, replaced(ii, _set_val(pop[ii], pi, ai, ("tok", lit))),
                             where(pop[ii], pi, ai, a) + ":" + re.sub(r"[^A-Za-z0-9#'.()\"]", "", lit)[:6]))
    if near_miss:
        allpos = [(ii, pi, ai, a, v) for ii, inst in enumerate(pop) for pi, (n, vs) in enumerate(inst.parts)
                  for ai, (a, v) in enumerate(zip(G.part_attrs(schema, inst, pi), vs)) if v[0] not in ("derived", "null")]
        clean = lambda lit: re.sub(r"[^A-Za-z0-9#'.()+-]", "", lit.replace('"', "q"))[:8]
        for kind, lits in sorted(NEAR_MISS.items()):
            cand = [x for x in allpos if x[3].kind == kind]
            for j, lit in enumerate(lits if cand else []):
                (ii, pi, ai, a, v) = cand[(j + rng.randrange(len(cand))) % len(cand)]
                out.append(Violation("wrong_kind", pop[ii].id, replaced(ii, _set_val(pop[ii], pi, ai, ("tok", lit))),
                                     where(pop[ii], pi, ai, a) + ":near:" + clean(lit)))
        for kind, lits in sorted(NEAR_MISS_ELEM.items()):
            cand = [x for x in allpos if x[3].kind == kind and x[4][0] == "aggr" and len(x[4][1]) >= 1]
            for j, lit in enumerate(lits if cand else []):
                (ii, pi, ai, a, v) = cand[(j + rng.randrange(len(cand))) % len(cand)]
                k = rng.randrange(len(v[1]))
                nv = ("aggr", [("tok", lit) if q == k else x for q, x in enumerate(v[1])])
                out.append(Violation("wrong_kind_in_aggregate", pop[ii].id, replaced(ii, _set_val(pop[ii], pi, ai, nv)),
                                     where(pop[ii], pi, ai, a) + ":near:" + clean(lit)))
    # a stray `/` (no comment) or `\` (no complete print control directive) in front of a parameter: ReadTokenSeparator drops
    # it without a word - the malformed file reads clean (finding detect:stray-slash-or-backslash-between-parameters)
    STRAY = ["/ ", "//", "\\N ", "\\"]
    for k, (ii, pi, ai, a) in enumerate(positions(lambda a, v, i: v[0] == "tok" and a.kind in ("INTEGER", "REAL", "NUMBER", "STRING", "BOOLEAN", "LOGICAL", "ENUM", "BINARY"))):
        pre = STRAY[k % len(STRAY)]
        out.append(Violation("stray_separator", pop[ii].id, replaced(ii, _set_val(pop[ii], pi, ai, ("tok", pre + pop[ii].parts[pi][1][ai][1]))),
                             where(pop[ii], pi, ai, a) + ":" + {"/ ": "slash", "//": "slashslash", "\\N ": "pcd-open", "\\": "backslash"}[pre]))
    if string_delims:
        for k, (ii, pi, ai, a) in enumerate(positions(lambda a, v, i: a.kind in STRING_DELIM_KINDS and v[0] != "null")):
            lit = STRING_DELIMS[rng.randrange(len(STRING_DELIMS))]
            out.append(Violation("wrong_kind_string_delims", pop[ii].id, replaced(ii, _set_val(pop[ii], pi, ai, ("tok", lit))),
                                 where(pop[ii], pi, ai, a) + ":" + re.sub(r"[^A-Za-z0-9#'.();,]", "", lit)[:8]))
    if missing_elem:
        # a delimiter where an element must stand: `(a,,b)`, `(a,)`, `(,a)`, `(/* c */,a)`, `(,)`
        MISS_KINDS = ("AGG_INT", "AGG_REAL", "AGG_STR", "AGG_ENT", "AGG_ENTS", "AGG_BOOL", "AGG_LOG", "AGG_ENUM", "AGG_XENUM",
                      "AGG_NUM", "AGG_DNUM", "AGG_SEL", "AGG_SELE", "AGG_S2", "AGG_S3", "AGG_S4")
        for k, (ii, pi, ai, a) in enumerate(positions(lambda a, v, i: a.kind in MISS_KINDS and v[0] == "aggr")):
            v = pop[ii].parts[pi][1][ai]
            elems = [G.render_val(x) for x in v[1]]
            shape = rng.randrange(5)
            if not elems:
                txt, shape = "(,)", 4
            elif shape == 0:
                j = rng.randrange(len(elems))
                txt = "(" + ",".join(elems[:j + 1]) + ",," + ",".join(elems[j + 1:]) + ")" if j + 1 < len(elems) else "(" + ",".join(elems) + ",)"
            elif shape == 1:
                txt = "(" + ",".join(elems) + ",)"
            elif shape == 2:
                txt = "(," + ",".join(elems) + ")"
            elif shape == 3:
                txt = "(/* c */," + ",".join(elems) + ")"
            else:
                txt = "(" + ",".join(elems) + " , )"
            out.append(Violation("missing_aggregate_element", pop[ii].id, replaced(ii, _set_val(pop[ii], pi, ai, ("tok", txt))),
                                 where(pop[ii], pi, ai, a) + f":shape{shape}"))
    # wrong kind inside an aggregate
    for (ii, pi, ai, a) in positions(lambda a, v, i: a.kind in AGG_ELEM_WRONG and v[0] == "aggr" and len(v[1]) >= 1):
        v = pop[ii].parts[pi][1][ai]
        k = rng.randrange(len(v[1]))
        lit = rng.choice(AGG_ELEM_WRONG[a.kind]).replace("#REF", someref)
        nv = ("aggr", [("tok", lit) if j == k else x for j, x in enumerate(v[1])])
        out.append(Violation("wrong_kind_in_aggregate", pop[ii].id, replaced(ii, _set_val(pop[ii], pi, ai, nv)),
                             where(pop[ii], pi, ai, a)))
    # undeclared enumeration item: near misses of the declared items (prefix, extension, edit, ...), every one its own file
    ENUM_ITEMS = {"ENUM": ["RED", "GREEN", "BLUE"], "BOOLEAN": ["T", "F"], "LOGICAL": ["T", "F", "U"],
                  "AGG_ENUM": ["RED", "GREEN", "BLUE"], "AGG_BOOL": ["T", "F"], "AGG_LOG": ["T", "F", "U"],
                  "XENUM": ST_ITEMS, "AGG_XENUM": ST_ITEMS}
    epos = []
    for ii, inst in enumerate(pop):
        for pi, (n, vs) in enumerate(inst.parts):
            for ai, (a, v) in enumerate(zip(G.part_attrs(schema, inst, pi), vs)):
                if a.kind in ("ENUM", "BOOLEAN", "LOGICAL", "XENUM") and v[0] == "tok":
                    epos.append((ii, pi, ai, a, None))
                elif a.kind in ("AGG_ENUM", "AGG_BOOL", "AGG_LOG", "AGG_XENUM") and v[0] == "aggr" and v[1]:
                    epos.append((ii, pi, ai, a, rng.randrange(len(v[1]))))
    rng.shuffle(epos)
    for j, (ii, pi, ai, a, ei) in enumerate(epos[:max(4, 4 * per_class)]):
        bad = near_miss_enum(rng, ENUM_ITEMS[a.kind], shape=j)       # the shapes in turn: prefix first
        v = pop[ii].parts[pi][1][ai]
        nv = ("tok", bad) if ei is None else ("aggr", [("tok", bad) if j == ei else x for j, x in enumerate(v[1])])
        shape = "prefix" if any(it.startswith(bad.strip(".")) for it in ENUM_ITEMS[a.kind]) else \
                "extension" if any(bad.strip(".").startswith(it) for it in ENUM_ITEMS[a.kind]) else "other"
        out.append(Violation("bad_enum_item", pop[ii].id, replaced(ii, _set_val(pop[ii], pi, ai, nv)),
                             where(pop[ii], pi, ai, a) + ":" + shape))
    # `*` where no attribute is derived
    for (ii, pi, ai, a) in positions(lambda a, v, i: True):
        out.append(Violation("star_not_derived", pop[ii].id, replaced(ii, _set_val(pop[ii], pi, ai, ("derived",))),
                             where(pop[ii], pi, ai, a)))
    # a value where the attribute is derived
    dpos = [(ii, pi, ai, a) for ii, inst in enumerate(pop) for pi, (n, vs) in enumerate(inst.parts)
            for ai, (a, v) in enumerate(zip(G.part_attrs(schema, inst, pi), vs)) if v[0] == "derived"]
    rng.shuffle(dpos)
    for (ii, pi, ai, a) in dpos[:per_class]:
        out.append(Violation("value_where_derived", pop[ii].id, replaced(ii, _set_val(pop[ii], pi, ai, ("tok", "5"))),
                             where(pop[ii], pi, ai, a)))
    # missing required aggregate
    for (ii, pi, ai, a) in positions(lambda a, v, i: a.kind.startswith("AGG") and not a.optional):
        out.append(Violation("missing_required_aggregate", pop[ii].id, replaced(ii, _set_val(pop[ii], pi, ai, ("null",))),
                             where(pop[ii], pi, ai, a)))
    # reference to an instance that does not exist / of the wrong type
    for (ii, pi, ai, a) in positions(lambda a, v, i: a.kind == "ENTITY" and v[0] == "ref"):
        out.append(Violation("dangling_reference", pop[ii].id, replaced(ii, _set_val(pop[ii], pi, ai, ("ref", free_id + 7))),
                             where(pop[ii], pi, ai, a)))
    # reference to an instance whose type is not the attribute's entity type: for every entity-valued attribute position
    # (up to a budget) every wrong *type* present in the population once - plain instances of each entity, including the
    # entities that occur as (first) parts of complex instances the same attribute type legitimately refers to
    rpos = [(ii, pi, ai, a) for ii, inst in enumerate(pop) for pi, (n, vs) in enumerate(inst.parts)
            for ai, (a, v) in enumerate(zip(G.part_attrs(schema, inst, pi), vs)) if a.kind == "ENTITY" and v[0] == "ref"]
    rng.shuffle(rpos)
    pairs = {}
    for (ii, pi, ai, a) in rpos:
        for x in pop:
            if not x.is_complex and not schema.is_a(x.parts[0][0].lower(), a.target) and x.id != pop[ii].id:
                pairs.setdefault((a.target, x.parts[0][0]), (ii, pi, ai, a, x.id))
    # interleave the attribute domains so that a small budget still meets every domain
    by_target = {}
    for (tg, ty), v in sorted(pairs.items()):
        by_target.setdefault(tg, []).append((ty, v))
    order = []
    while any(by_target.values()):
        for tg in sorted(by_target):
            if by_target[tg]:
                order.append(by_target[tg].pop(rng.randrange(len(by_target[tg]))))
    for ty, (ii, pi, ai, a, wid) in order[:max(8, 8 * per_class)]:
        out.append(Violation("wrong_type_reference", pop[ii].id, replaced(ii, _set_val(pop[ii], pi, ai, ("ref", wid))),
                             where(pop[ii], pi, ai, a) + f":{a.target.upper()}<-{ty}"))
    for (ii, pi, ai, a) in positions(lambda a, v, i: a.kind in ("AGG_ENT", "AGG_ENTS") and v[0] == "aggr" and len(v[1]) >= 1):
        v = pop[ii].parts[pi][1][ai]
        nv = ("aggr", [("ref", free_id + 9)] + list(v[1][1:]))
        out.append(Violation("dangling_reference_in_aggregate", pop[ii].id, replaced(ii, _set_val(pop[ii], pi, ai, nv)),
                             where(pop[ii], pi, ai, a)))
    # a dangling or malformed reference at every reference-bearing position: entity attribute, select (also nested in a
    # select), element of an aggregate of entities / of selects, in simple and complex instances.  (Aggregates of
    # aggregates are kept as raw text by SCLundefined: references inside them are never looked up - not claimed.)
    def ref_paths(v, path=()):
        if v[0] == "ref":
            yield path
        elif v[0] == "aggr":
            for j, x in enumerate(v[1]):
                yield from ref_paths(x, path + (("aggr", j),))
        elif v[0] == "typed":
            yield from ref_paths(v[2], path + (("typed",),))

    def put(v, path, new):
        if not path:
            return new
        if path[0][0] == "aggr":
            return ("aggr", [put(x, path[1:], new) if j == path[0][1] else x for j, x in enumerate(v[1])])
        return ("typed", v[1], put(v[2], path[1:], new))

    rp = {}
    for ii, inst in enumerate(pop):
        for pi, (n, vs) in enumerate(inst.parts):
            for ai, (a, v) in enumerate(zip(G.part_attrs(schema, inst, pi), vs)):
                if a.kind.startswith("AGG2") or a.kind.startswith("AGG3") or a.kind == "AGG_AGG":
                    continue
                for path in ref_paths(v):
                    shape = "".join("[]" if st[0] == "aggr" else "()" for st in path)
                    rp.setdefault((a.kind, shape, inst.is_complex), []).append((ii, pi, ai, a, path))
    BAD_REFS = [("ref", free_id + 11), ("tok", "#"), ("tok", "#x"), ("tok", "#-4"), ("tok", "#99999999999")]
    for k, ((kind, shape, cx), lst) in enumerate(sorted(rp.items(), key=lambda kv: (kv[0][0], kv[0][1], kv[0][2]))):
        for (ii, pi, ai, a, path) in rng.sample(lst, min(len(lst), per_class)):
            bad = BAD_REFS[0] if rng.random() < 0.6 else rng.choice(BAD_REFS[1:])
            nv = put(pop[ii].parts[pi][1][ai], path, bad)
            what = "dangling" if bad[0] == "ref" else "malformed:" + bad[1]
            out.append(Violation("bad_reference_at_" + ("select" if ("SEL" in kind) else "entity"), pop[ii].id,
                                 replaced(ii, _set_val(pop[ii], pi, ai, nv)), where(pop[ii], pi, ai, a) + f":{kind}{shape}:{what}"))
    # SELECT value outside the select list
    for (ii, pi, ai, a) in positions(lambda a, v, i: a.kind == "SELECT_M" and v[0] != "null"):
        out.append(Violation("select_outside_list", pop[ii].id,
                             replaced(ii, _set_val(pop[ii], pi, ai, ("typed", "CNT_T", ("tok", "5")))), where(pop[ii], pi, ai, a) + ":typed"))
    for (ii, pi, ai, a) in positions(lambda a, v, i: a.kind in ("SELECT_E", "SELECT_M") and v[0] != "null"):
        members = schema.targets[:2] if a.kind == "SELECT_E" else schema.targets[:1]
        wrong = [x.id for x in pop if not x.is_complex and not any(schema.is_a(x.parts[0][0].lower(), m) for m in members)]
        if wrong:
            out.append(Violation("select_outside_list", pop[ii].id,
                                 replaced(ii, _set_val(pop[ii], pi, ai, ("ref", rng.choice(wrong)))), where(pop[ii], pi, ai, a) + ":ref"))
    # arity
    # (an instance with a single parameter written `E()` is the lenient-mode "missing required value" case of C15)
    cand2 = [k for k, i in enumerate(pop) if not i.is_complex and len(i.parts[0][1]) >= 2]
    cand = [k for k, i in enumerate(pop) if not i.is_complex and len(i.parts[0][1]) >= 1]
    rng.shuffle(cand)
    rng.shuffle(cand2)
    for ii in cand2[:per_class]:
        c = pop[ii].copy()
        last = G.part_attrs(schema, c, 0)[-1]
        c.parts[0][1].pop()
        out.append(Violation("too_few_parameters", c.id, replaced(ii, c), f"last={last.kind}" + ("?" if last.optional else "")))
    for ii in cand[:per_class]:
        c = pop[ii].copy()
        c.parts[0][1].append(("tok", rng.choice(["1", "'x'", "$", "(1,2)"])))
        nxt = "end" if ii == len(pop) - 1 else "more"
        out.append(Violation("too_many_parameters", c.id, replaced(ii, c), f"extra={G.render_val(c.parts[0][1][-1])[:3]}:{nxt}"))
    # keywords
    cand = [k for k, i in enumerate(pop) if not i.is_complex]
    rng.shuffle(cand)
    for ii in cand[:per_class]:
        c = pop[ii].copy()
        c.parts[0] = ("NO_SUCH_ENTITY", c.parts[0][1])
        out.append(Violation("unknown_keyword", c.id, replaced(ii, c), "simple", lost=[c.id]).close(pop))
    if getattr(schema, "abstract", None):
        out.append(Violation("abstract_keyword", free_id + 1, list(pop) + [G.Inst(free_id + 1, [("ABS_E", [("tok", "1")])])], "simple"))
    cx = [k for k, i in enumerate(pop) if i.is_complex]
    rng.shuffle(cx)
    for ii in cx[:per_class]:
        c = pop[ii].copy()
        c.parts[rng.randrange(len(c.parts))] = ("NO_SUCH_ENTITY", [("tok", "1")])
        # the instance is created without that part: what refers to it through the lost part's type is no longer conforming
        out.append(Violation("unknown_keyword", c.id, replaced(ii, c), "complex-part", lost=[c.id]).close(pop))
    # duplicate id
    if len(pop) >= 2:
        a, b = rng.sample(range(len(pop)), 2)
        dup = pop[b].copy()
        dup.id = pop[a].id
        out.append(Violation("duplicate_id", pop[a].id, list(pop) + [dup], "later-copy", skip_confine=()))
    # unterminated instance / string
    cand = list(range(len(pop) - 1))
    rng.shuffle(cand)
    for ii in cand[:per_class]:
        raw = G.render_inst(pop[ii])[:-1]
        out.append(Violation("unterminated_instance", pop[ii].id, replaced(ii, raw), "no-semicolon",
                             lost=[pop[ii + 1].id]).close(pop))
    for (ii, pi, ai, a) in positions(lambda a, v, i: a.kind == "STRING" and v[0] == "tok" and len(v[1]) > 2):
        v = pop[ii].parts[pi][1][ai]
        bad = _set_val(pop[ii], pi, ai, ("tok", v[1][:-1]))
        out.append(Violation("unterminated_string", pop[ii].id, replaced(ii, bad), where(pop[ii], pi, ai, a),
                             lost=[x.id for x in pop[ii + 1:]] + ([pop[ii].id] if pop[ii].is_complex else [])).close(pop))
    return out



# ------------------------------------------------------------------ redeclared (explicitly narrowed) positions  (wave e, seed C03-e1)
def redecl_schema(name="rdc"):
    """subtypes that narrow inherited EXPLICIT attributes (`SELF\\super.attr : narrower;`), one and two levels deep: an
    entity-valued attribute, an aggregate of entities and a NUMBER narrowed to INTEGER.  The C++ class keeps the inherited
    slot and adds a redefining attribute the slot forwards to (`_redefAttr`)."""
    E, A = G.Entity, G.Attr
    ents = [E("t0", None, [A("t0_i", "INTEGER", False), A("t0_peer", "ENTITY", True, "t1"), A("t0_s", "STRING", True)]),
            E("t1", None, [A("t1_r", "REAL", False), A("t1_peers", "AGG_ENT", True, "t0")]),
            E("t0s", "t0", [A("t0s_rank", "INTEGER", False)]),
            E("t0ss", "t0s", [A("t0ss_z", "STRING", False)]),
            E("rh", None, [A("rh_label", "STRING", False), A("rh_content", "ENTITY", False, "t0"),
                           A("rh_items", "AGG_ENT", False, "t0"), A("rh_num", "NUMBER", False), A("rh_opt", "ENTITY", True, "t1")]),
            E("rhs", "rh", [A("rhs_tag", "STRING", False)],
              redecl=[("rh", A("rh_content", "ENTITY", False, "t0s")), ("rh", A("rh_items", "AGG_ENT", False, "t0s")),
                      ("rh", A("rh_num", "INTEGER", False))]),
            E("rhs2", "rhs", [A("rhs2_n", "INTEGER", False)], redecl=[("rh", A("rh_content", "ENTITY", False, "t0ss"))])]
    return G.Schema(name, ents, ["t0", "t1"])


REDECL_SHAPES = [["t0"], ["t0"], ["t0s"], ["t0s"], ["t0ss"], ["t1"], ["rh"], ["rhs"], ["rhs"], ["rhs2"], ["rhs2"]]


def redecl_population(rng, schema):
    return G.gen_population(rng, schema, 0, shapes=REDECL_SHAPES, p_null_optional=0.3)


def redecl_violations(rng, schema, pop):
    """every violation class of the statement that applies, at EVERY redeclared position of every instance (position class
    `@redecl1` / `@redecl2`: narrowed by the instance's entity's supertype chain once / twice)"""
    out = []
    ids = [i.id for i in pop]
    free_id = max(ids) + 100

    def replaced(ii, new):
        return [new if k == ii else x for k, x in enumerate(pop)]

    def level(ent, aname):
        n, e = 0, schema.by_name[ent]
        while e is not None:
            n += sum(1 for _, na in e.redecl if na.name == aname)
            e = schema.by_name[e.supertype] if e.supertype else None
        return n

    for ii, inst in enumerate(pop):
        if inst.is_complex:
            continue
        ent = inst.parts[0][0].lower()
        for ai, (a, v) in enumerate(zip(G.part_attrs(schema, inst, 0), inst.parts[0][1])):
            if not getattr(a, "redef_name", None) or v[0] in ("null", "derived"):
                continue
            w = f"{a.kind}@redecl{level(ent, a.name)}"
            put = lambda nv: replaced(ii, _set_val(inst, 0, ai, nv))
            for lit in WRONG_KIND.get(a.kind, []) + NEAR_MISS.get(a.kind, []):
                lit2 = lit.replace("#REF", f"#{ids[0]}")
                if a.kind == "ENTITY" and lit2.startswith("(#"):
                    continue
                out.append(Violation("wrong_kind", inst.id, put(("tok", lit2)), w + ":" + re.sub(r"[^A-Za-z0-9#'.()+-]", "", lit.replace('"', "q"))[:8]))
            out.append(Violation("star_not_derived", inst.id, put(("derived",)), w))
            if a.kind == "ENTITY":
                out.append(Violation("dangling_reference", inst.id, put(("ref", free_id + 7)), w))
                for bad in ("#", "#x"):
                    out.append(Violation("bad_reference_at_entity", inst.id, put(("tok", bad)), w + ":malformed:" + bad))
                seen = set()
                for x in pop:
                    ty = x.parts[0][0]
                    if not x.is_complex and x.id != inst.id and ty not in seen and not schema.is_a(ty.lower(), a.target):
                        seen.add(ty)
                        out.append(Violation("wrong_type_reference", inst.id, put(("ref", x.id)), w + f":{a.target.upper()}<-{ty}"))
            if a.kind == "AGG_ENT":
                out.append(Violation("missing_required_aggregate", inst.id, put(("null",)), w))
                out.append(Violation("dangling_reference_in_aggregate", inst.id, put(("aggr", [("ref", free_id + 9)] + list(v[1][1:]))), w))
                for lit in AGG_ELEM_WRONG["AGG_ENT"]:
                    out.append(Violation("wrong_kind_in_aggregate", inst.id, put(("aggr", [("tok", lit)] + list(v[1][1:]))), w + ":" + lit[:3]))
    return out


def render_violation(schema_name, v):
    return render_file(schema_name, v.insts)

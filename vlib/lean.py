"""Lean side of a check: regenerate Generated/*.lean from /repo, build, audit."""
import fcntl, glob, importlib.util, os, re, subprocess, sys, tempfile, time

VERIF = os.path.dirname(os.path.dirname(os.path.abspath(__file__)))
LEAN_SRC = os.path.join(VERIF, "lean")


def _lean_dir():
    """The Lean project a run works in.  Generated/*.lean are derived from the source tree being checked, so a run
    against another tree (VERIF_REPO=<worktree>: seeded changes, fix development) gets its own private copy of the
    project (incl. the build cache) under the scratch area; runs against /repo use /verif/lean itself."""
    repo = os.path.realpath(os.environ.get("VERIF_REPO", "/repo"))
    if repo == "/repo":
        return LEAN_SRC
    import hashlib
    scratch = os.environ.get("VERIF_SCRATCH", "/var/tmp/stepcode-verif")
    d = os.path.join(scratch, "lean-" + hashlib.sha1(repo.encode()).hexdigest()[:12])
    os.makedirs(d, exist_ok=True)
    lock = open(os.path.join(scratch, ".lean-copy.lock"), "w")
    fcntl.flock(lock, fcntl.LOCK_EX)
    try:
        # sources always from /verif/lean (Generated/ is rewritten by regenerate() afterwards); keep the copy's own build cache
        first = not os.path.isdir(os.path.join(d, ".lake"))
        # Generated/ starts every run from /verif/lean's tables (= /repo HEAD): the run's own extractors then overwrite
        # theirs from the tree under test; a table whose extractor raises on that tree (reported as a broken tie) and
        # the tables of other properties' models that the run only imports stay HEAD's instead of going stale
        cmd = ["rsync", "-a", "--delete", "--exclude", ".lake/", LEAN_SRC + "/", d + "/"]
        subprocess.run(cmd, check=True)
        if first:
            subprocess.run(["rsync", "-a", os.path.join(LEAN_SRC, ".lake"), d + "/"], check=False)
    finally:
        fcntl.flock(lock, fcntl.LOCK_UN); lock.close()
    return d


LEAN_DIR = _lean_dir()
GEN_DIR = os.path.join(LEAN_DIR, "StepModel", "Generated")
EXTRACT_DIR = os.path.join(VERIF, "tools", "extract.d")
ALLOWED_AXIOMS = {"propext", "Classical.choice", "Quot.sound"}
FORBIDDEN = re.compile(r"\b(sorry|admit|native_decide|bv_decide|implemented_by|unsafe)\b|^\s*axiom\s|maxHeartbeats\s+0\b", re.M)


class Lock:
    def __init__(self, name="lake"):
        os.makedirs(os.path.join(LEAN_DIR, ".lake"), exist_ok=True)
        self.path = os.path.join(LEAN_DIR, ".lake", f".verif-{name}.lock")

    def __enter__(self):
        self.f = open(self.path, "w")
        fcntl.flock(self.f, fcntl.LOCK_EX)

    def __exit__(self, *a):
        fcntl.flock(self.f, fcntl.LOCK_UN)
        self.f.close()


def regenerate(names=None, repo="/repo"):
    """Run tools/extract.d/<name>.py:extract(repo) -> {relative .lean file: text}; write only on change.
    Returns (written_files, errors).  An extractor that no longer matches the source raises; that is a broken tie."""
    os.makedirs(GEN_DIR, exist_ok=True)
    errors, files = [], []
    mods = sorted(glob.glob(os.path.join(EXTRACT_DIR, "*.py")))
    for path in mods:
        nm = os.path.basename(path)[:-3]
        if names is not None and nm not in names:
            continue
        spec = importlib.util.spec_from_file_location("extract_" + nm, path)
        m = importlib.util.module_from_spec(spec)
        try:
            spec.loader.exec_module(m)
            out = m.extract(repo)
        except Exception as e:  # pattern no longer matches
            errors.append(f"extractor {nm}: {type(e).__name__}: {e}")
            continue
        with Lock("gen"):
            for rel, text in out.items():
                dst = os.path.join(GEN_DIR, rel)
                old = open(dst).read() if os.path.exists(dst) else None
                if old != text:
                    with open(dst + ".tmp", "w") as fh:
                        fh.write(text)
                    os.replace(dst + ".tmp", dst)
                files.append(dst)
    return files, errors


def lake_build(targets, timeout=3600):
    """lake build <targets>; returns (ok, output)."""
    with Lock("lake"):
        r = subprocess.run(["lake", "build"] + list(targets), cwd=LEAN_DIR, capture_output=True,
                           text=True, timeout=timeout)
    return r.returncode == 0, (r.stdout + r.stderr)


def exe_path(name):
    return os.path.join(LEAN_DIR, ".lake", "build", "bin", name)


def module_file(module):
    return os.path.join(LEAN_DIR, *module.split(".")) + ".lean"


def strip_comments(src):
    # remove /- ... -/ (nested) and -- line comments
    out, i, depth = [], 0, 0
    while i < len(src):
        if src.startswith("/-", i):
            depth += 1; i += 2; continue
        if depth and src.startswith("-/", i):
            depth -= 1; i += 2; continue
        if depth:
            if src[i] == "\n":
                out.append("\n")
            i += 1; continue
        if src.startswith("--", i):
            j = src.find("\n", i)
            i = len(src) if j < 0 else j
            continue
        out.append(src[i]); i += 1
    return "".join(out)


def theorems_in(module, prefix):
    """Names of `theorem <prefix>...` declared in a Props module (these are the proof obligations)."""
    src = strip_comments(open(module_file(module)).read())
    return re.findall(r"^\s*(?:@\[[^\]]*\]\s*)?(?:private\s+|protected\s+)?theorem\s+(" + re.escape(prefix) + r"[A-Za-z0-9_'.]*)", src, re.M)


def namespace_of(module):
    src = strip_comments(open(module_file(module)).read())
    m = re.search(r"^namespace\s+(\S+)", src, re.M)
    return m.group(1) if m else None


def forbidden_hits(modules):
    hits = []
    for mod in modules:
        f = module_file(mod)
        if not os.path.exists(f):
            hits.append(f"{mod}: missing file")
            continue
        src = strip_comments(open(f).read())
        for m in FORBIDDEN.finditer(src):
            line = src.count("\n", 0, m.start()) + 1
            hits.append(f"{mod}:{line}: {m.group(0).strip()}")
    return hits


def imports_closure(module, seen=None):
    """StepModel.* modules transitively imported by `module` (including itself)."""
    seen = seen if seen is not None else set()
    if module in seen or not module.startswith(("StepModel", "Drivers")):
        return seen
    f = module_file(module)
    if not os.path.exists(f):
        return seen
    seen.add(module)
    for m in re.findall(r"^\s*import\s+(\S+)", strip_comments(open(f).read()), re.M):
        imports_closure(m, seen)
    return seen


def audit_axioms(module, names):
    """#print axioms for every name; returns {name: [axioms]} and raw output. Missing names -> None."""
    if not names:
        return {}, ""
    ns = namespace_of(module)
    body = f"import {module}\n" + (f"open {ns} in\n" if False else "")
    for n in names:
        q = f"{ns}.{n}" if ns else n
        body += f"#print axioms {q}\n"
    with tempfile.NamedTemporaryFile("w", suffix=".lean", dir=LEAN_DIR, delete=False) as fh:
        fh.write(body)
        tmp = fh.name
    try:
        r = subprocess.run(["lake", "env", "lean", tmp], cwd=LEAN_DIR, capture_output=True, text=True,
                           timeout=1800)
    finally:
        os.unlink(tmp)
    out = r.stdout + r.stderr
    res = {}
    for n in names:
        q = f"{ns}.{n}" if ns else n
        m = re.search(r"'" + re.escape(q) + r"' depends on axioms: \[([^\]]*)\]", out, re.S)
        if m:
            res[n] = [a.strip() for a in m.group(1).replace("\n", " ").split(",") if a.strip()]
        elif re.search(r"'" + re.escape(q) + r"' does not depend on any axioms", out):
            res[n] = []
        else:
            res[n] = None
    return res, out


def leanchecker(module, timeout=3600):
    r = subprocess.run(["lake", "env", "leanchecker", module], cwd=LEAN_DIR, capture_output=True,
                       text=True, timeout=timeout)
    return r.returncode == 0, (r.stdout + r.stderr)[-3000:]

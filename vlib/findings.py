"""KNOWN_FINDINGS.txt: committed, read-only at run time.

  finding: property=C10 key=<key> what=<free text>
  fixed:   property=C15 <commit> <what failed>          (suppresses nothing)
"""
import os, re
VERIF = os.path.dirname(os.path.dirname(os.path.abspath(__file__)))
PATH = os.path.join(VERIF, "KNOWN_FINDINGS.txt")


def load():
    out = []
    if not os.path.exists(PATH):
        return out
    for line in open(PATH):
        line = line.strip()
        if not line.startswith("finding:"):
            continue
        m = re.match(r"finding:\s+property=(\S+)\s+key=(\S+)\s+what=(.*)$", line)
        if m:
            out.append({"property": m.group(1), "key": m.group(2), "what": m.group(3)})
    return out


def lookup(pid, key):
    for f in load():
        if f["property"] == pid and f["key"] == key:
            return f
    return None

"""Scratch builds of /repo's *current working tree*, keyed by a content hash.

A build lives outside /repo and /verif (under VERIF_SCRATCH, default
/var/tmp/stepcode-verif).  The key is a hash over every source byte that can
influence the build, so a changed working tree is always rebuilt; builds of
other trees are pruned as soon as a new one is made (disk is limited).
"""
import hashlib, os, shutil, subprocess, sys, time, fcntl, glob

REPO = os.environ.get("VERIF_REPO", "/repo")
SCRATCH = os.environ.get("VERIF_SCRATCH", "/var/tmp/stepcode-verif")
GUARD = "STEPCODE_VERIF"
NPROC = str(os.cpu_count() or 8)

SRC_DIRS = ["src", "include", "cmake", "CMakeLists.txt", "example", "test", "misc", "doc/man"]


def tree_hash():
    """sha256 over (path, bytes) of every file that is input to the build."""
    h = hashlib.sha256()
    files = []
    for d in ["src", "include", "cmake", "CMakeLists.txt"]:
        p = os.path.join(REPO, d)
        if os.path.isfile(p):
            files.append(p)
            continue
        for root, dirs, fs in os.walk(p):
            dirs.sort()
            for f in sorted(fs):
                files.append(os.path.join(root, f))
    for f in files:
        h.update(os.path.relpath(f, REPO).encode() + b"\0")
        try:
            with open(f, "rb") as fh:
                h.update(fh.read())
        except OSError:
            h.update(b"<unreadable>")
        h.update(b"\0")
    return h.hexdigest()[:20]


SAN = "-fsanitize=address,undefined -fno-sanitize-recover=undefined -fno-omit-frame-pointer"


class Build:
    def __init__(self, root, flavor):
        self.root = root
        self.flavor = flavor
        self.src = os.path.join(root, "src")
        self.bld = os.path.join(root, "bld")
        self.bin = os.path.join(self.bld, "bin")
        self.lib = os.path.join(self.bld, "lib")

    def tool(self, name):
        return os.path.join(self.bin, name)

    def env(self):
        e = dict(os.environ)
        e["LD_LIBRARY_PATH"] = self.lib
        e["ASAN_OPTIONS"] = "detect_leaks=0:abort_on_error=0:exitcode=99"
        e["UBSAN_OPTIONS"] = "print_stacktrace=1:halt_on_error=1:exitcode=98"
        return e

    def inc_flags(self):
        s, b = self.src, self.bld
        incs = [f"{s}/include", f"{b}/include", f"{s}/src/cldai", f"{s}/src/cleditor",
                f"{s}/src/clutils", f"{s}/src/clstepcore", f"{s}/src/cllazyfile", f"{s}/src/base",
                f"{s}/include/stepcode"]
        return [f"-I{i}" for i in incs if os.path.isdir(i)]

    def cxxflags(self):
        f = ["-std=c++11", "-w", f"-D{GUARD}", "-g"]
        if self.flavor == "asan":
            f += SAN.split()
        return f

    def link_flags(self):
        f = [f"-L{self.lib}", "-lsteplazyfile", "-lstepeditor", "-lstepcore", "-lstepdai",
             "-lsteputils", f"-Wl,-rpath,{self.lib}"]
        if self.flavor == "asan":
            f += SAN.split()
        return f


def _prune(keep):
    for d in glob.glob(os.path.join(SCRATCH, "lean-*")) + glob.glob(os.path.join(SCRATCH, "w-*")):
        try:
            if time.time() - os.path.getmtime(d) > 7200:
                shutil.rmtree(d, ignore_errors=True)
        except OSError:
            pass
    for d in glob.glob(os.path.join(SCRATCH, "b-*")):
        if os.path.basename(d) in keep:
            continue
        # only prune builds not touched for 20 minutes (another check may be using them)
        try:
            if time.time() - os.path.getmtime(d) > 3 * 3600:
                shutil.rmtree(d, ignore_errors=True)
        except OSError:
            pass


def get_build(flavor="plain", log=sys.stderr):
    """Return a Build of the current working tree (configure+build if not cached)."""
    os.makedirs(SCRATCH, exist_ok=True)
    key = tree_hash()
    name = f"b-{key}-{flavor}"
    root = os.path.join(SCRATCH, name)
    lockf = open(os.path.join(SCRATCH, f".lock-{flavor}"), "w")
    fcntl.flock(lockf, fcntl.LOCK_EX)
    try:
        b = Build(root, flavor)
        if os.path.exists(os.path.join(root, "OK")):
            os.utime(root, None)
            return b
        shutil.rmtree(root, ignore_errors=True)
        _prune({name})
        os.makedirs(root)
        t0 = time.time()
        subprocess.check_call(["rsync", "-a", "--exclude", "_build", "--exclude", ".git",
                               REPO + "/", b.src + "/"])
        cflags = f"-D{GUARD} -g"
        ldflags = ""
        if flavor == "asan":
            cflags += " " + SAN
            ldflags = SAN
        cmd = ["cmake", "-G", "Ninja", "-B", b.bld, "-S", b.src, "-DSC_BUILD_SCHEMAS=",
               "-DSC_ENABLE_TESTING=OFF", "-DCMAKE_BUILD_TYPE=Debug",
               f"-DCMAKE_C_FLAGS={cflags}", f"-DCMAKE_CXX_FLAGS={cflags}",
               f"-DCMAKE_EXE_LINKER_FLAGS={ldflags}", f"-DCMAKE_SHARED_LINKER_FLAGS={ldflags}"]
        with open(os.path.join(root, "build.log"), "w") as lf:
            r = subprocess.run(cmd, stdout=lf, stderr=subprocess.STDOUT)
            if r.returncode == 0:
                r = subprocess.run(["cmake", "--build", b.bld, "-j", NPROC], stdout=lf,
                                   stderr=subprocess.STDOUT)
        if r.returncode != 0:
            tail = open(os.path.join(root, "build.log")).read()[-4000:]
            raise BuildError(f"build of /repo working tree failed ({flavor}):\n{tail}")
        open(os.path.join(root, "OK"), "w").write(str(time.time() - t0))
        print(f"[build] {flavor} build of tree {key} in {time.time()-t0:.1f}s", file=log)
        return b
    finally:
        fcntl.flock(lockf, fcntl.LOCK_UN)
        lockf.close()


class BuildError(Exception):
    pass


def compile_driver(b, sources, out, extra=(), opt="-O1"):
    """Compile a C++ harness against the scratch libraries."""
    cmd = ["g++", opt] + b.cxxflags() + b.inc_flags() + list(extra) + list(sources) + ["-o", out] + b.link_flags()
    r = subprocess.run(cmd, capture_output=True, text=True)
    if r.returncode != 0:
        raise BuildError("harness compile failed:\n" + " ".join(cmd) + "\n" + r.stderr[-4000:])
    return out


def gen_schema_lib(b, exp_path, workdir, driver_srcs, out, extra=()):
    """Run the scratch exp2cxx on a schema and compile its output with a driver.
    Returns (exe, gen_dir)."""
    os.makedirs(workdir, exist_ok=True)
    r = subprocess.run([b.tool("exp2cxx"), exp_path], cwd=workdir, env=b.env(),
                       capture_output=True, text=True)
    if r.returncode != 0:
        raise BuildError(f"exp2cxx failed on {exp_path}: rc={r.returncode}\n{r.stderr[-2000:]}")
    srcs = []
    for pat in ["SdaiAll.cc", "compstructs.cc", "schema.cc", "Sdai*.init.cc",
                "Sdai*_unity_entities.cc", "Sdai*_unity_types.cc"]:
        srcs += sorted(glob.glob(os.path.join(workdir, pat)))
    # Sdai<SCHEMA>.cc (not .init.cc, not unity)
    for f in sorted(glob.glob(os.path.join(workdir, "Sdai*.cc"))):
        bn = os.path.basename(f)
        if bn == "SdaiAll.cc" or bn.endswith(".init.cc") or "_unity_" in bn:
            continue
        if f not in srcs:
            srcs.append(f)
    cmd = (["g++", "-O0"] + b.cxxflags() + ["-DSC_SDAI_UNITY_BUILD"] + b.inc_flags() +
           [f"-I{workdir}"] + list(extra) + srcs + list(driver_srcs) + ["-o", out] + b.link_flags())
    r = subprocess.run(cmd, capture_output=True, text=True)
    if r.returncode != 0:
        raise BuildError("schema lib compile failed:\n" + r.stderr[-4000:])
    return out

"""C18, the bodies exp2python writes for derived attributes and WHERE rules: generated entities through the scratch
exp2python, harness/h_pybody.py (py_compile, import, Python's own parse of every emitted right-hand side, getters and rule
methods run on instances) against `m_c18 spec` (the reference value) and `m_c18 model` (what the printer + Python's parser
yield, correspondence).

property (oracle):   the module compiles and imports; every derived-attribute getter returns, on an instance whose attributes
                     hold values of their declared types, the value ISO 10303-11 gives the expression; a rule method returns
                     TRUE when the rule holds and raises AssertionError when it is violated; no other exception.
correspondence:      the tree Python reads in each emitted right-hand side and every value = the Lean model's.
`broad` bodies (integer division, string / binary / real literals) are outside the Lean fragment: oracle only, the reference
value computed by vlib/expr_gen_py18.evaluate.
"""
import json, os, subprocess, sys
from concurrent.futures import ThreadPoolExecutor
from vlib import build as B
from vlib import expr_gen_py18 as X
from vlib.schema_gen_py18 import PY_KEYWORDS

if hasattr(sys, "set_int_max_str_digits"):
    sys.set_int_max_str_digits(0)          # generated functions square their results in loops: results of thousands of digits occur

VERIF = os.path.dirname(os.path.dirname(os.path.abspath(__file__)))
HARNESS = os.path.join(VERIF, "harness", "h_pybody.py")
TOOL_TIMEOUT = 30
CLASSES = ("body-compile:keyword-attribute-in-expression", "body-compile:keyword-rule-label", "body-compile:string-literal-quote-or-backslash",
           "body-compile:binary-literal", "body-value:xor-right-nested", "body-value:integer-division", "body-value:real-literal-digits", "body-value:builtin-constant", "body-value:typeof-names", "body-value:logical-unknown-operand")


def show(v):
    return ("true" if v else "false") if isinstance(v, bool) else str(v)


TYPEOF_TRUE = ("FX_TYPEOF.E", "FX_TYPEOF.MID", "FX_TYPEOF.ROOT")     # ISO 10303-11 15.25 on an instance of fx_typeof.e


def env_row(body, env):
    return [env[a] for a in body.ints + body.bools + list(body.logicals)]


def run_impl(b, work, body, envs):
    d = os.path.join(work, "body_" + body.name)
    os.makedirs(d, exist_ok=True)
    for f in os.listdir(d):
        os.unlink(os.path.join(d, f))
    open(os.path.join(d, body.name + ".exp"), "w").write(body.express())
    try:
        r = subprocess.run([b.tool("exp2python"), body.name + ".exp"], cwd=d, env=b.env(), capture_output=True, text=True, timeout=TOOL_TIMEOUT)
    except subprocess.TimeoutExpired:
        return {"status": "tool-timeout", "msg": f"no return within {TOOL_TIMEOUT} s"}
    if r.returncode != 0 or not os.path.exists(os.path.join(d, body.name + ".py")):
        return {"status": "exit-status", "msg": f"exp2python exited {r.returncode}: {r.stderr[-200:]!r}"}
    spec = {"ent": body.ent, "ctor": body.ints + body.bools + list(body.logicals), "derived": [n for n, _, _ in body.derived],
            "rules": [lab for lab, _ in body.rules], "envs": [env_row(body, e) for e in envs]}
    json.dump(spec, open(os.path.join(d, "spec.json"), "w"))
    env = dict(os.environ); env["VERIF_REPO"] = B.REPO
    h = subprocess.run([sys.executable, "-B", HARNESS, d, body.name, os.path.join(d, "spec.json")], capture_output=True, text=True, env=env, timeout=120)
    try:
        return json.loads(h.stdout)
    except Exception:
        return {"status": "harness-died", "msg": h.stderr[-300:]}


def lean_lines(body, envs):
    ints = ",".join(body.ints) or "-"
    bools = ",".join(body.bools) or "-"
    ev = ";".join(",".join(("t" if v else "f") if isinstance(v, bool) else str(v) for v in env_row(body, e)) for e in envs) or "-"
    out = []
    for _, _, t in body.derived:
        out.append(f"expr d - {ints} {bools} {ev} " + " ".join(X.prefix_of(t)))
    for lab, t in body.rules:
        out.append(f"expr r {lab or '-'} {ints} {bools} {ev} " + " ".join(X.prefix_of(t)))
    return out


def run_lean(exe, mode, lines):
    if not lines:
        return []
    r = subprocess.run([exe, mode], input="\n".join(lines) + "\n", capture_output=True, text=True, timeout=600)
    out = r.stdout.split("\n")[:-1]
    if r.returncode != 0 or len(out) != len(lines):
        raise RuntimeError(f"m_c18 {mode} (expr): rc={r.returncode} lines={len(out)}/{len(lines)} {r.stderr[-300:]}")
    return out


def items(body):
    """[(harness name, kind, label, tree)]"""
    out, unnamed = [], 0
    for n, _, t in body.derived:
        out.append((n, "d", None, t))
    for lab, t in body.rules:
        if lab is None:
            out.append((f"unnamed_wr_{unnamed}", "r", None, t)); unnamed += 1
        else:
            out.append((lab, "r", lab, t))
    return out


def expected_value(kind, tree, env, spec_val):
    """-> the string the harness must report, or None when the reference gives no value here"""
    if spec_val is not None:
        return spec_val
    k = tree[0]
    if k == "str":
        return "STR:" + tree[1]
    if k == "bin":
        return "STR:" + tree[1]
    if k == "real":
        return "REAL:" + repr(float(tree[1]))
    if k == "typeof":
        return "true" if tree[1] in TYPEOF_TRUE else "false"
    if k == "l3":
        v = X.l3_value(tree, env)
        return "unknown" if v == "U" else show(v)
    if k == "const":
        import math
        return {"PI": "REAL:" + repr(math.pi), "CONST_E": "REAL:" + repr(math.e), "UNKNOWN": "unknown", "?": "none"}[tree[1]]
    try:
        v = X.evaluate(tree, env)
    except ArithmeticError:
        return None
    if kind == "r":
        return "true" if v else "!AssertionError"
    return show(v)


def normal(got):
    """harness value -> comparable: any str subclass `Class:'text'` -> STR:text, real -> REAL:repr"""
    if got.startswith("real:"):
        return "REAL:" + got[5:]
    if got.lstrip("-").isdigit():
        return got
    if ":" in got and not got.startswith("!"):
        cls, _, rep = got.partition(":")
        try:
            val = eval(rep, {"__builtins__": {}})
        except Exception:
            return got
        if isinstance(val, str):
            return "STR:" + val
    return got


def oracle(body, envs, impl, spec_lines):
    """-> None | (kind, what)"""
    st = impl["status"]
    if st != "ok":
        return ("body-" + st, f"{st}: {impl.get('msg', '')[:240]}")
    its = items(body)
    for idx, (name, kind, lab, tree) in enumerate(its):
        spec_vals = None
        if spec_lines is not None:
            sv = spec_lines[idx]
            spec_vals = sv[len("values="):].split(";") if sv.startswith("values=") and sv != "values=" else []
        for ei, env in enumerate(envs):
            sv = spec_vals[ei] if spec_vals else None
            if sv == "?":
                return ("body-reference", f"the reference gives no value to {X.express_of(tree)} (ill-typed generator output)")
            want = expected_value(kind, tree, env, sv)
            if want is None:
                continue
            got = normal(impl["values"][ei][name])
            if want.startswith("REAL:") and got.lstrip("-").isdigit():
                got = "REAL:" + repr(float(got))         # `2.0E3` written `2000`: the same number
            if got != want:
                what = "rule method" if kind == "r" else "derived attribute"
                return ("body-value", f"{what} {name} := {X.express_of(tree)} with {env}: the emitted code gives {got}, EXPRESS gives {want}"
                        f" (Python reads {impl['ast'][name]})", {"item": name})
    return None


def correspondence(body, envs, impl, model_lines):
    if model_lines is None:
        return None
    syntax = any("ast=!syntax" in m or "name=!syntax" in m for m in model_lines)
    if impl["status"] == "compile-error":
        return None if syntax else f"the module does not compile ({impl.get('msg', '')[:120]}), the model says every body is Python"
    if impl["status"] != "ok":
        return None
    if syntax:
        return "the module compiles, the model says a body is not Python"
    for (name, kind, lab, tree), m in zip(items(body), model_lines):
        f = dict(x.split("=", 1) for x in m.split(" "))
        got_ast = impl["ast"][name].replace(" ", "_")
        if got_ast != f["ast"]:
            return f"{name} := {X.express_of(tree)}: Python reads {got_ast}, the model {f['ast']}"
        vals = f["values"].split(";") if f["values"] else []
        for ei, v in enumerate(vals):
            if impl["values"][ei][name] != v:
                return f"{name} := {X.express_of(tree)} with {envs[ei]}: the emitted code gives {impl['values'][ei][name]}, the model {v}"
    return None


def trees(body):
    return [t for _, _, t in body.derived] + [t for _, t in body.rules]


def walk(t):
    yield t
    if t[0] == "u":
        yield from walk(t[2])
    elif t[0] == "b":
        yield from walk(t[2]); yield from walk(t[3])


def classify(o, body):
    """the class of a failure, decided from the schema (stable across seeds) -> key"""
    kind = o[0]
    if kind == "body-compile-error":
        refs = {n for t in trees(body) for n in X.attrs_of(t)}
        if refs & set(PY_KEYWORDS):
            return CLASSES[0]
        if any(lab in PY_KEYWORDS for lab, _ in body.rules):
            return CLASSES[1]
        lits = [x for t in trees(body) for x in walk(t)]
        if any(x[0] == "str" and ("'" in x[1] or "\\" in x[1]) for x in lits):
            return CLASSES[2]
        if any(x[0] == "bin" for x in lits):
            return CLASSES[3]
    if kind == "body-value" and len(o) > 2:
        t = next(t for n, _, _, t in items(body) if n == o[2]["item"])
        if X.xor_right_nested(t):
            return CLASSES[4]
        if X.has_op(t, ("div",)):
            return CLASSES[5]
        if any(x[0] == "real" for x in walk(t)):
            return CLASSES[6]
        if any(x[0] == "const" for x in walk(t)):
            return CLASSES[7]
        if any(x[0] == "typeof" for x in walk(t)):
            return CLASSES[8]
        if any(x[0] == "l3" for x in walk(t)):
            return CLASSES[9]
    return kind + ":" + body.express()


def shrink(fails, body, key):
    """greedy: drop derived attributes / rules, replace subtrees by their operands, while the same class key is produced"""
    cur = body
    changed = True
    while changed:
        changed = False
        for cand in candidates(cur):
            if fails(cand) == key:
                cur, changed = cand, True
                break
    return cur


def sub_replacements(t):
    if t[0] == "u":
        yield t[2]
        for s in sub_replacements(t[2]):
            yield ("u", t[1], s)
    elif t[0] == "b":
        yield t[2]; yield t[3]
        for s in sub_replacements(t[2]):
            yield ("b", t[1], s, t[3])
        for s in sub_replacements(t[3]):
            yield ("b", t[1], t[2], s)


def candidates(body):
    for i in range(len(body.derived)):
        c = body.copy(); del c.derived[i]
        if c.derived or c.rules:
            yield c
    for i in range(len(body.rules)):
        c = body.copy(); del c.rules[i]
        if c.derived or c.rules:
            yield c
    used = lambda c: {n for t in trees(c) for n in X.attrs_of(t)}
    for a in body.ints:
        if a not in used(body) and len(body.ints) > 1:
            c = body.copy(); c.ints.remove(a); yield c
    for a in body.bools:
        if a not in used(body):
            c = body.copy(); c.bools.remove(a); yield c
    for i, (n, ty, t) in enumerate(body.derived):
        for s in sub_replacements(t):
            if static_type(s, body) == static_type(t, body):
                c = body.copy(); c.derived[i] = (n, ty, s); yield c
    for i, (lab, t) in enumerate(body.rules):
        for s in sub_replacements(t):
            if static_type(s, body) == "B":
                c = body.copy(); c.rules[i] = (lab, s); yield c


def static_type(t, body):
    k = t[0]
    if k == "i":
        return "I"
    if k in ("t", "f"):
        return "B"
    if k in ("a", "s"):
        return "I" if t[1] in body.ints else "B"
    if k == "u":
        return "B" if t[1] == "not" else "I"
    if k == "b":
        return "I" if t[1] in ("plus", "minus", "times", "div") else "B"
    return k


class BodyRunner:
    def __init__(self, ctx, b, exe):
        self.ctx, self.b, self.exe = ctx, b, exe

    def evaluate(self, bodies, envs_of):
        """-> [(oracle result, correspondence result, impl)]"""
        with ThreadPoolExecutor(max_workers=14) as ex:
            impls = list(ex.map(lambda bd: run_impl(self.b, self.ctx.work, bd, envs_of[id(bd)]), bodies))
        narrow = [bd for bd in bodies if not bd.broad]
        lines = [l for bd in narrow for l in lean_lines(bd, envs_of[id(bd)])]
        spec, model = run_lean(self.exe, "spec", lines), run_lean(self.exe, "model", lines)
        pos, by = 0, {}
        for bd in narrow:
            n = len(items(bd))
            by[id(bd)] = (spec[pos:pos + n], model[pos:pos + n]); pos += n
        out = []
        for bd, im in zip(bodies, impls):
            sp, mo = by.get(id(bd), (None, None))
            o = oracle(bd, envs_of[id(bd)], im, sp)
            c = None if o and o[0] not in ("body-compile-error", "body-value") else correspondence(bd, envs_of[id(bd)], im, mo)
            out.append((o, c, im))
        return out


def logic_correspondence(ctx, exe, bodies, envs_of, res):
    """the shape fx_logical: what the getters return for every operator and every pair of TRUE / FALSE / UNKNOWN must be the Lean
    model's reading of Python (`m_c18 model`, `logic` lines), and the reference table must be the Lean specification's"""
    enc = lambda v: "u" if v == "U" else ("t" if v else "f")
    for bd, (o, c, im) in zip(bodies, res):
        if bd.name != "fx_logical" or im.get("status") != "ok":
            continue
        lines, where = [], []
        for n, _, t in bd.derived:
            for ei, env in enumerate(envs_of[id(bd)]):
                lines.append(f"logic {t[1]} {enc(env[t[2][1]])} {enc(env[t[3][1]]) if t[1] != 'not' else 't'}"); where.append((n, ei, t, env))
        model, spec = run_lean(exe, "model", lines), run_lean(exe, "spec", lines)
        for (n, ei, t, env), m, sp, ln in zip(where, model, spec, lines):
            got = im["values"][ei][n]
            if "value=" + got != m and not any(x[0].startswith("correspondence three-valued") for x in ctx.broken):
                ctx.broken.append(("correspondence three-valued operators model vs the emitted getter", f"{ln}: getter {got}, model {m}"))
            v = X.l3_value(t, env)
            if "value=" + ("unknown" if v == "U" else show(v)) != sp and not any(x[0].startswith("reference disagreement (three") for x in ctx.broken):
                ctx.broken.append(("reference disagreement (three-valued tables)", f"{ln}: {v} vs {sp}"))
        ctx.cov["correspondence"]["three-valued-logic"] = {"probes": len(lines)}


def run_bodies(ctx, b, exe, only=None, only_envs=None):
    quick = ctx.tier == "quick"
    if only is not None:
        bodies = [only]
    else:
        bodies = X.fixed_bodies()
        bodies += [X.gen(ctx.rng, i) for i in range(60 if quick else 700)]
        bodies += [X.gen(ctx.rng, 5000 + i, p_kw=0.0, depth=4) for i in range(40 if quick else 500)]
        bodies += [X.gen(ctx.rng, 9000 + i, p_kw=0.0, broad=True) for i in range(20 if quick else 200)]
    envs_of = {id(bd): (bd.fixed_envs or X.environments(ctx.rng, bd, 6)) for bd in bodies}
    if only is not None and only_envs:
        envs_of[id(only)] = only_envs
    run = BodyRunner(ctx, b, exe)
    res = run.evaluate(bodies, envs_of)
    logic_correspondence(ctx, exe, bodies, envs_of, res)
    done, unclassified, first_c = set(), 0, None
    for bd, (o, c, im) in zip(bodies, res):
        ctx.count(1, key="body:" + bd.key())
        ctx.hist("verdict", "body:" + (o[0] if o else ("model-differs" if c else "mirror")))
        for t in trees(bd):
            for x in walk(t):
                ctx.hist("body-nodes", x[1] if x[0] in ("u", "b") else x[0])
        if c and first_c is None:
            first_c = (bd, c)
        if not o:
            continue
        k0 = classify(o, bd)
        if k0 in done or (k0 not in CLASSES and unclassified >= 4):
            continue
        if k0 not in CLASSES:
            unclassified += 1

        in_class = k0 in CLASSES
        want = k0 if in_class else o[0]

        def fails(cand, _envs=envs_of[id(bd)], _in=in_class):
            envs = [{a: e.get(a, 1) for a in cand.ints + cand.bools + list(cand.logicals)} for e in _envs]
            r = BodyRunner(ctx, b, exe).evaluate([cand], {id(cand): envs})[0][0]
            if not r:
                return None
            k = classify(r, cand)
            return k if _in else (None if k in CLASSES else r[0])
        m = shrink(fails, bd, want)
        envs = [{a: e.get(a, 1) for a in m.ints + m.bools + list(m.logicals)} for e in envs_of[id(bd)]]
        mo = BodyRunner(ctx, b, exe).evaluate([m], {id(m): envs})[0][0] or o
        done.add(k0)
        ctx.violation(k0 if in_class else classify(mo, m), mo[1], {"body": to_obj(m), "envs": envs, "schema": m.express(),
                                  "how": "run the scratch exp2python on the schema, then harness/h_pybody.py <dir> <schema> spec.json with VERIF_REPO set; compare with `m_c18 spec`"})
    if first_c is not None:
        bd, c = first_c
        ctx.broken.append(("correspondence Gen.Py.Body model vs exp2python + Python's parser", f"{c}; schema:\n{bd.express()}"))
    ctx.cov["correspondence"]["bodies"] = {"entities": len(bodies), "expressions": sum(len(items(bd)) for bd in bodies),
                                          "environments_each": 6, "property_failures": sum(1 for o, _, _ in res if o),
                                          "model_differences": sum(1 for _, c, _ in res if c)}


def to_obj(b):
    return {"name": b.name, "ent": b.ent, "ints": b.ints, "bools": b.bools, "derived": b.derived, "rules": b.rules, "broad": b.broad,
            "supers": list(b.supers), "logicals": list(b.logicals), "fixed_envs": b.fixed_envs}


def _tup(t):
    return tuple(_tup(x) if isinstance(x, list) else x for x in t)


def from_obj(o):
    b = X.Body(o["name"], o["ent"], list(o["ints"]), list(o["bools"]), [(n, ty, _tup(t)) for n, ty, t in o["derived"]],
               [(lab, _tup(t)) for lab, t in o["rules"]], o.get("broad", False))
    b.supers = [tuple(x) for x in o.get("supers", [])]
    b.logicals, b.fixed_envs = list(o.get("logicals", [])), o.get("fixed_envs")
    return b


# ---------------------------------------------------------------------------------------------------------------------
# FUNCTIONs: the statement translator (FUNCPrint, STATEMENTPrint, CASEout, LOOPpyout).  Oracle only: the value of every
# call = the value vlib/func_gen_py18.run gives (ISO 10303-11 clause 13); no Lean model of statements.

from vlib import func_gen_py18 as F

FHARNESS = os.path.join(VERIF, "harness", "h_pyfunc.py")
FCLASSES = {"keyword-parameter": "func-compile:keyword-parameter", "local-initializer": "func-value:local-initializer-dropped",
            "repeat-increment": "func-value:repeat-bound-exclusive", "skip": "func-value:skip-is-break",
            "repeat-increment-while": "func-value:repeat-while-does-not-end-loop", "skip-under-until": "func-value:skip-jumps-over-until",
            "case-selector-name": "func-value:variable-named-case-selector"}
FPRIORITY = ["keyword-parameter", "local-initializer", "case-selector-name", "skip-under-until", "skip", "repeat-increment-while", "repeat-increment"]


def run_func_impl(b, work, f, args):
    m = F.Module("m_" + f.name, [f])
    d = os.path.join(work, "func_" + f.name)
    os.makedirs(d, exist_ok=True)
    for x in os.listdir(d):
        os.unlink(os.path.join(d, x))
    open(os.path.join(d, m.name + ".exp"), "w").write(m.express())
    try:
        r = subprocess.run([b.tool("exp2python"), m.name + ".exp"], cwd=d, env=b.env(), capture_output=True, text=True, timeout=TOOL_TIMEOUT)
    except subprocess.TimeoutExpired:
        return {"status": "tool-timeout", "msg": f"no return within {TOOL_TIMEOUT} s"}
    if r.returncode != 0 or not os.path.exists(os.path.join(d, m.name + ".py")):
        return {"status": "exit-status", "msg": f"exp2python exited {r.returncode}: {r.stderr[-200:]!r}"}
    json.dump({"funcs": [{"name": f.name, "args": args}]}, open(os.path.join(d, "spec.json"), "w"))
    env = dict(os.environ); env["VERIF_REPO"] = B.REPO
    h = subprocess.run([sys.executable, "-B", FHARNESS, d, m.name, os.path.join(d, "spec.json")], capture_output=True, text=True, env=env, timeout=300)
    try:
        return json.loads(h.stdout)
    except Exception:
        return {"status": "harness-died", "msg": h.stderr[-300:]}


def func_oracle(f, args, impl):
    if impl["status"] != "ok":
        return ("func-" + impl["status"], f"{impl['status']}: {impl.get('msg', '')[:240]}")
    for a, got in zip(args, impl["values"][f.name]):
        try:
            want = F.run(f, a)
        except F.Budget:
            continue
        if isinstance(want, int) and abs(want) >= 10 ** 15:
            want = "big:%d" % (want % 1000000007)
        if got != want:
            return ("func-value", f"{f.name}({', '.join(map(str, a))}): the emitted function gives {got}, EXPRESS gives {want}")
    return None


def func_class(o, f):
    fe = F.features(f)
    if o[0] == "func-compile-error" and "keyword-parameter" in fe:
        return FCLASSES["keyword-parameter"]
    if o[0] == "func-value":
        for k in FPRIORITY[1:]:
            if k in fe:
                return FCLASSES[k]
    return o[0] + ":" + f.express()


def func_candidates(f):
    """smaller functions: drop a statement, replace a compound statement by its body, drop an unused local's initialiser"""
    def rewrite(stmts):
        for i, s in enumerate(stmts):
            if s[0] != "return":
                yield stmts[:i] + stmts[i + 1:]
            k = s[0]
            if k == "if":
                yield stmts[:i] + s[2] + stmts[i + 1:]
                if s[3] is not None:
                    yield stmts[:i] + s[3] + stmts[i + 1:]
                    yield stmts[:i] + [("if", s[1], s[2], None)] + stmts[i + 1:]
                for b in rewrite(s[2]):
                    yield stmts[:i] + [("if", s[1], b, s[3])] + stmts[i + 1:]
                if s[3] is not None:
                    for b in rewrite(s[3]):
                        yield stmts[:i] + [("if", s[1], s[2], b)] + stmts[i + 1:]
            elif k == "for":
                if s[5] is not None:
                    yield stmts[:i] + [s[:5] + (None,) + s[6:]] + stmts[i + 1:]
                if s[6] is not None:
                    yield stmts[:i] + [s[:6] + (None,) + s[7:]] + stmts[i + 1:]
                for b in rewrite(s[7]):
                    if b:
                        yield stmts[:i] + [s[:7] + (b,)] + stmts[i + 1:]
            elif k in ("while", "until"):
                for b in rewrite(s[3]):
                    if b:
                        yield stmts[:i] + [s[:3] + (b,)] + stmts[i + 1:]
            elif k == "begin":
                yield stmts[:i] + s[1] + stmts[i + 1:]
            elif k == "case":
                yield stmts[:i] + [a for _, a in s[2]] + stmts[i + 1:]
    for body in rewrite(f.body):
        if any(s[0] in ("skip", "escape") for s in body):       # SKIP / ESCAPE must stay inside a loop
            continue
        c = f.copy(); c.body = body
        yield c
    for i, (n, init) in enumerate(f.locals):
        if init is not None and init[0] != "i":
            c = f.copy(); c.locals = f.locals[:i] + [(n, ("i", 1))] + f.locals[i + 1:]
            yield c


def func_valid(f):
    """every variable read has been given a value on the reference's path for small arguments"""
    try:
        for a in ([0] * len(f.params), [3] * len(f.params), [1, 4][:len(f.params)] if len(f.params) > 1 else [2]):
            if F.run(f, a) is None:
                return False
    except F.Budget:
        return True
    except Exception:
        return False
    return True


def range_correspondence(ctx, exe, funcs, args_of, res):
    """the probes f_seq<k>: the digits of the emitted function's result are the values its loop variable took; they must be
    the Lean model's `pyRange … (stopWritten …)`, and the reference interpreter must agree with the Lean specification"""
    probes = [(f, im) for f, (o, im) in zip(funcs, res) if f.name.startswith("f_seq") and im.get("status") == "ok"]
    lines, where = [], []
    for f, im in probes:
        step = next(s for s in f.body if s[0] == "for")[4] or 1
        for a, got in zip(args_of[id(f)], im["values"][f.name]):
            lines.append(f"range {a[0]} {a[1]} {step}"); where.append((f, a, got))
    if not lines:
        return
    enc = lambda line: int("".join(str(int(v) + 1) for v in line[len("values="):].split(",") if v) or "0")
    model, spec = run_lean(exe, "model", lines), run_lean(exe, "spec", lines)
    for (f, a, got), m, sp, ln in zip(where, model, spec, lines):
        if got != enc(m) and not any(x[0].startswith("correspondence REPEAT") for x in ctx.broken):
            ctx.broken.append(("correspondence REPEAT range model vs exp2python", f"{ln}: the emitted loop ran over {got}, the model says {m}"))
        if F.run(f, a) != enc(sp) and not any(x[0].startswith("reference disagreement") for x in ctx.broken):
            ctx.broken.append(("reference disagreement (vlib/func_gen_py18.run vs Spec.Body.repeatValues)", f"{ln}: {F.run(f, a)} vs {sp}"))
    ctx.cov["correspondence"]["repeat-range"] = {"probes": len(lines)}


def stmt_correspondence(ctx, exe, funcs, args_of, res):
    """functions inside the fragment of lean/StepModel/GenPyStmt.lean: what the emitted function returns must be what the Lean
    model of the translation returns (`m_c18 model`, `func` lines: Stmt.tr + Stmt.pyExec), and the reference interpreter must
    agree with the Lean reference semantics (`m_c18 spec`: Spec.Stmt.exec)"""
    sel = [(f, im) for f, (o, im) in zip(funcs, res) if F.in_fragment(f) and im.get("status") == "ok"]
    if not sel:
        return
    lines = []
    for f, _ in sel:
        args = ";".join(",".join(str(v) for v in a) for a in args_of[id(f)])
        lines.append("func " + ",".join(f.params) + " " + args + " " + " ".join(F.lean_tokens(f)))
    model, spec = run_lean(exe, "model", lines), run_lean(exe, "spec", lines)

    def vals(line):
        out = []
        for v in line[len("values="):].split(";"):
            if v.lstrip("-").isdigit():
                v = int(v)
                v = v if abs(v) < 10 ** 15 else "big:%d" % (v % 1000000007)
            out.append(v)
        return out
    nm = ns = 0
    for (f, im), m, sp, ln in zip(sel, model, spec, lines):
        if not m.startswith("values=") or not sp.startswith("values="):
            ctx.broken.append(("Gen.Py.Stmt driver", f"{ln[:200]} -> {m} / {sp}")); return
        got = im["values"][f.name]
        if got != vals(m) and not nm:
            nm += 1
            ctx.broken.append(("correspondence Gen.Py.Stmt model vs exp2python", f"{f.name}: the emitted function returns {got}, the model {vals(m)}\n{f.express()}"))
        ref = []
        for a in args_of[id(f)]:
            try:
                w = F.run(f, a)
            except F.Budget:
                w = None
            ref.append(w if not (isinstance(w, int) and abs(w) >= 10 ** 15) else "big:%d" % (w % 1000000007))
        if [r for r in ref] != [v if v != "!none" else None for v in vals(sp)] and not ns:
            ns += 1
            ctx.broken.append(("reference disagreement (vlib/func_gen_py18.run vs Spec.Stmt.exec)", f"{f.name}: {ref} vs {vals(sp)}\n{f.express()}"))
    ctx.cov["correspondence"]["statement-model"] = {"functions_in_fragment": len(sel), "calls_each": 6}


def run_functions(ctx, b, only=None, only_args=None, exe=None):
    quick = ctx.tier == "quick"
    if only is not None:
        funcs = [only]
    else:
        funcs = F.fixed_functions() + [F.gen_function(ctx.rng, i) for i in range(120 if quick else 1500)]
        funcs += [F.gen_function(ctx.rng, 50000 + i, frag=True) for i in range(60 if quick else 600)]     # inside the Lean fragment
    args_of = {id(f): (only_args if (only is not None and only_args) else F.arguments(ctx.rng, f, 6)) for f in funcs}

    def evaluate(fs):
        with ThreadPoolExecutor(max_workers=14) as ex:
            impls = list(ex.map(lambda f: run_func_impl(b, ctx.work, f, args_of[id(f)]), fs))
        return [(func_oracle(f, args_of[id(f)], im), im) for f, im in zip(fs, impls)]
    res = evaluate(funcs)
    if exe is not None and only is None:
        range_correspondence(ctx, exe, funcs, args_of, res)
        stmt_correspondence(ctx, exe, funcs, args_of, res)
    done, unclassified = set(), 0
    for f, (o, im) in zip(funcs, res):
        ctx.count(1, key="func:" + f.express())
        ctx.hist("verdict", "func:" + (o[0] if o else "mirror"))
        for s in F.walk(f.body):
            ctx.hist("statements", s[0])
        if not o:
            continue
        k0 = func_class(o, f)
        classed = k0 in FCLASSES.values()
        if k0 in done or (not classed and unclassified >= 4):
            continue
        if not classed:
            unclassified += 1
        cur, cur_o = f, o
        changed = True
        while changed:
            changed = False
            for cand in func_candidates(cur):
                if not func_valid(cand):
                    continue
                args_of[id(cand)] = args_of[id(f)]
                r = evaluate([cand])[0][0]
                if r and r[0] == o[0] and (func_class(r, cand) == k0 if classed else func_class(r, cand) not in FCLASSES.values()):
                    cur, cur_o, changed = cand, r, True
                    break
        k = func_class(cur_o, cur)
        done.add(k0); done.add(k)
        ctx.violation(k, cur_o[1], {"function": func_to_obj(cur), "args": args_of[id(f)], "schema": F.Module("m_" + cur.name, [cur]).express(),
                                    "how": "run the scratch exp2python on the schema, import the module against the bundled runtime, call the function; "
                                           "the reference is vlib/func_gen_py18.run"})
    ctx.cov["correspondence"]["functions"] = {"functions": len(funcs), "calls_each": 6, "property_failures": sum(1 for o, _ in res if o)}


def func_to_obj(f):
    return {"name": f.name, "params": f.params, "locals": f.locals, "body": f.body}


def _deep(t):
    if isinstance(t, list):
        # statement lists stay lists; statement / expression tuples were serialised as lists whose first item is a string tag
        if t and isinstance(t[0], str) and t[0] in ("assign", "if", "for", "while", "until", "skip", "escape", "case", "begin", "return",
                                                    "i", "t", "f", "a", "s", "u", "b"):
            return tuple(_deep(x) for x in t)
        return [_deep(x) for x in t]
    return t


def func_from_obj(o):
    locs = [(n, _deep(i) if i is not None else None) for n, i in o["locals"]]
    body = _deep(o["body"])
    fix = lambda s: s
    return F.Func(o["name"], list(o["params"]), locs, body)

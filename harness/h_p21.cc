// h_p21: a p21read-like driver with a command protocol, linked against ONE generated schema library
// (vlib.build.gen_schema_lib(b, schema.exp, workdir, [h_p21.cc], exe); the driver includes "schema.h").
// Used by C14 (append), C15 (strict/lenient), C16 (working-session files); general enough for C01/C03.
//
// One command per line on stdin, exactly one reply line per command on the ORIGINAL stdout.  The library prints
// progress chatter on cout/cerr; both are redirected (to /dev/null, or to $H_P21_LOG when set), so the reply
// channel carries replies only.
//
//   reset STRICT                 fresh InstMgr + STEPfile(registry, mgr, "", STRICT!=0)          -> R reset
//   read FILE | append FILE | readwork FILE | appendwork FILE
//        -> R ret=<Severity returned> sev=<STEPfile::Error().severity()> errs=<ErrorCount()> warns=<WarningCount()>
//             invalid=<_entsInvalid> incomplete=<_entsIncomplete> entwarn=<_entsWarning> notcreated=<_entsNotCreated>
//             incr=<_fileIdIncr used> n=<InstanceCount> max=<MaxFileId>
//   write FILE VALIDATE [COMMENTS]  WriteExchangeFile(FILE, VALIDATE, 1, COMMENTS default 0)  -> R ret=<sev> sev=<Error().severity()>
//   writework FILE [COMMENTS]    WriteWorkingFile(FILE, 1, COMMENTS default 0)  -> R ret=<sev> sev=<...>
//   setstate IDX STATE           MgrNode(IDX)->ChangeState(STATE)         -> R ok | R bad-index
//   incr                         SetFileIdIncrement() then report         -> R incr=<k> max=<MaxFileId>
//   readpre FILE                 ReadExchangeFile( FILE, useTechCor = false ); reply as for read
//   hdr                          -> H <id>/<NAME> ...      header instances the STEPfile holds, in list order
//   dump                         -> D n=<count> max=<MaxFileId> | <id>/<TYPE>/<state> ...   (TYPE = NAME or (A&B&C))
//   inst IDX                     -> T <hex of the text STEPwrite(ostream) emits for instance IDX>
//   vals IDX                     -> V <PART> (<attr name>/<redefining 0|1>/<hex of asStr()>)* | <PART> ...   the values the session
//                                  holds (asStr of every attribute of every part, redeclared/redefining ones included; asStr is
//                                  not the file writer: reals and enumerations are spelled differently, references are `#id`)
//   attrs ENTITY                 -> A <name>/<NonRefType name>/<nullable 0|1>/<derived 0|1>/<redefining 0|1>/<Type() name, REF = REFERENCE_TYPE> ...
//   quit
// Unknown / malformed command -> R bad-op.
#include <cstdio>
#include <cstdlib>
#include <cstring>
#include <fcntl.h>
#include <unistd.h>
#include <iostream>
#include <sstream>
#include <string>
#include <vector>

#include "cleditor/STEPfile.h"
#include "clstepcore/sdai.h"
#include "clstepcore/STEPattribute.h"
#include "clstepcore/STEPcomplex.h"
#include "clstepcore/ExpDict.h"
#include "schema.h"

static const char * sevName( Severity s ) {
    switch( s ) {
        case SEVERITY_MAX: return "MAX";
        case SEVERITY_DUMP: return "DUMP";
        case SEVERITY_EXIT: return "EXIT";
        case SEVERITY_BUG: return "BUG";
        case SEVERITY_INPUT_ERROR: return "INPUT_ERROR";
        case SEVERITY_WARNING: return "WARNING";
        case SEVERITY_INCOMPLETE: return "INCOMPLETE";
        case SEVERITY_USERMSG: return "USERMSG";
        case SEVERITY_NULL: return "NULL";
    }
    return "?";
}
static const char * stName( stateEnum s ) {
    switch( s ) {
        case noStateSE: return "noStateSE";
        case completeSE: return "completeSE";
        case incompleteSE: return "incompleteSE";
        case deleteSE: return "deleteSE";
        case newSE: return "newSE";
    }
    return "?";
}
static bool parseSt( const std::string & w, stateEnum & s ) {
    if( w == "noStateSE" ) { s = noStateSE; return true; }
    if( w == "completeSE" ) { s = completeSE; return true; }
    if( w == "incompleteSE" ) { s = incompleteSE; return true; }
    if( w == "deleteSE" ) { s = deleteSE; return true; }
    if( w == "newSE" ) { s = newSE; return true; }
    return false;
}
static const char * typeName( PrimitiveType t ) {
    switch( t ) {
        case sdaiINTEGER: return "INTEGER";
        case sdaiREAL: return "REAL";
        case sdaiBOOLEAN: return "BOOLEAN";
        case sdaiLOGICAL: return "LOGICAL";
        case sdaiSTRING: return "STRING";
        case sdaiBINARY: return "BINARY";
        case sdaiENUMERATION: return "ENUM";
        case sdaiSELECT: return "SELECT";
        case sdaiINSTANCE: return "ENTITY";
        case sdaiAGGR: case ARRAY_TYPE: case BAG_TYPE: case SET_TYPE: case LIST_TYPE: return "AGGREGATE";
        case sdaiNUMBER: return "NUMBER";
        default: return "OTHER";
    }
}

// STEPfile keeps its counters protected; a subclass exposes them read-only.
struct XFile : public STEPfile {
    XFile( Registry & r, InstMgr & i, bool strict ) : STEPfile( r, i, "", strict ) {}
    int incr() const { return _fileIdIncr; }
    int invalid() const { return _entsInvalid; }
    int incomplete() const { return _entsIncomplete; }
    int entwarn() const { return _entsWarning; }
    int notcreated() const { return _entsNotCreated; }
    void setIncr() { SetFileIdIncrement(); }
};

static Registry * reg = 0;
static InstMgr * mgr = 0;
static XFile * sf = 0;
static FILE * reply = 0;

static std::string hex( const std::string & s ) {
    static const char * d = "0123456789abcdef";
    std::string o;
    for( size_t i = 0; i < s.size(); i++ ) {
        unsigned char c = ( unsigned char )s[i];
        o += d[c >> 4];
        o += d[c & 15];
    }
    return o.empty() ? "-" : o;
}

static std::string instType( SDAI_Application_instance * se ) {
    std::string tmp;
    if( se->IsComplex() ) {
        std::string o = "(";
        STEPcomplex * p = ( ( STEPcomplex * )se )->head;
        bool first = true;
        while( p ) {
            if( !first ) o += "&";
            first = false;
            o += StrToUpper( p->EntityName(), tmp );
            p = p->sc;
        }
        return o + ")";
    }
    return StrToUpper( se->EntityName(), tmp );
}

static void readReply( Severity ret ) {
    fprintf( reply, "R ret=%s sev=%s errs=%d warns=%d invalid=%d incomplete=%d entwarn=%d notcreated=%d incr=%d n=%d max=%d\n",
             sevName( ret ), sevName( sf->Error().severity() ), sf->ErrorCount(), sf->WarningCount(), sf->invalid(),
             sf->incomplete(), sf->entwarn(), sf->notcreated(), sf->incr(), mgr->InstanceCount(), mgr->MaxFileId() );
}

int main() {
    // keep the reply channel clean
    int fd = dup( 1 );
    reply = fdopen( fd, "w" );
    const char * log = getenv( "H_P21_LOG" );
    int nfd = open( log ? log : "/dev/null", O_WRONLY | O_CREAT | O_APPEND, 0644 );
    dup2( nfd, 1 );
    dup2( nfd, 2 );

    reg = new Registry( SchemaInit );
    mgr = new InstMgr( 1 );
    sf = new XFile( *reg, *mgr, false );

    std::string line;
    while( std::getline( std::cin, line ) ) {
        std::istringstream ls( line );
        std::vector<std::string> w;
        std::string t;
        while( ls >> t ) w.push_back( t );
        if( w.empty() ) continue;
        const std::string & c = w[0];
        if( c == "quit" ) break;
        if( c == "reset" && w.size() == 2 ) {
            delete sf;
            mgr->DeleteInstances();
            delete mgr;
            mgr = new InstMgr( 1 );
            sf = new XFile( *reg, *mgr, w[1] != "0" );
            fprintf( reply, "R reset\n" );
        } else if( c == "readpre" && w.size() == 2 ) {
            // pre-technical-corrigendum encoding of redeclared attributes (useTechCor = false)
            readReply( sf->ReadExchangeFile( w[1], false ) );
        } else if( ( c == "read" || c == "append" || c == "readwork" || c == "appendwork" ) && w.size() == 2 ) {
            Severity r;
            if( c == "read" ) r = sf->ReadExchangeFile( w[1] );
            else if( c == "append" ) r = sf->AppendExchangeFile( w[1] );
            else if( c == "readwork" ) r = sf->ReadWorkingFile( w[1] );
            else r = sf->AppendWorkingFile( w[1] );
            readReply( r );
        } else if( c == "write" && ( w.size() == 3 || w.size() == 4 ) ) {
            Severity r = sf->WriteExchangeFile( w[1], atoi( w[2].c_str() ), 1, w.size() == 4 ? atoi( w[3].c_str() ) : 0 );
            fprintf( reply, "R ret=%s sev=%s\n", sevName( r ), sevName( sf->Error().severity() ) );
        } else if( c == "writework" && ( w.size() == 2 || w.size() == 3 ) ) {
            Severity r = sf->WriteWorkingFile( w[1], 1, w.size() == 3 ? atoi( w[2].c_str() ) : 0 );
            fprintf( reply, "R ret=%s sev=%s\n", sevName( r ), sevName( sf->Error().severity() ) );
        } else if( c == "setstate" && w.size() == 3 ) {
            int i = atoi( w[1].c_str() );
            stateEnum s;
            if( !parseSt( w[2], s ) ) {
                fprintf( reply, "R bad-op\n" );
            } else if( i < 0 || i >= mgr->InstanceCount() ) {
                fprintf( reply, "R bad-index\n" );
            } else {
                mgr->GetMgrNode( i )->ChangeState( s );
                fprintf( reply, "R ok\n" );
            }
        } else if( c == "incr" && w.size() == 1 ) {
            sf->setIncr();
            fprintf( reply, "R incr=%d max=%d\n", sf->incr(), mgr->MaxFileId() );
        } else if( c == "hdr" && w.size() == 1 ) {
            // the header instances the STEPfile holds: file id and entity, in list order
            InstMgr * hm = sf->HeaderInstances();
            int n = hm ? hm->InstanceCount() : 0;
            fprintf( reply, "H" );
            for( int i = 0; i < n; i++ ) {
                SDAI_Application_instance * se = hm->GetMgrNode( i )->GetApplication_instance();
                std::string tmp;
                fprintf( reply, " %d/%s", se->StepFileId(), std::string( StrToUpper( se->EntityName(), tmp ) ).c_str() );
            }
            fprintf( reply, "\n" );
        } else if( c == "dump" && w.size() == 1 ) {
            int n = mgr->InstanceCount();
            fprintf( reply, "D n=%d max=%d |", n, mgr->MaxFileId() );
            for( int i = 0; i < n; i++ ) {
                MgrNode * mn = mgr->GetMgrNode( i );
                SDAI_Application_instance * se = mn->GetApplication_instance();
                fprintf( reply, " %d/%s/%s", se->StepFileId(), instType( se ).c_str(), stName( mn->CurrState() ) );
            }
            fprintf( reply, "\n" );
        } else if( c == "inst" && w.size() == 2 ) {
            int i = atoi( w[1].c_str() );
            if( i < 0 || i >= mgr->InstanceCount() ) {
                fprintf( reply, "R bad-index\n" );
            } else {
                std::ostringstream os; // the ostream writer is the one WriteData/WriteWorkingData use
                mgr->GetMgrNode( i )->GetApplication_instance()->STEPwrite( os, 0, 0 );
                fprintf( reply, "T %s\n", hex( os.str() ).c_str() );
            }
        } else if( c == "vals" && w.size() == 2 ) {
            // the population as the session holds it: every attribute of every part, redeclared ones included
            int i = atoi( w[1].c_str() );
            if( i < 0 || i >= mgr->InstanceCount() ) {
                fprintf( reply, "R bad-index\n" );
            } else {
                SDAI_Application_instance * se = mgr->GetMgrNode( i )->GetApplication_instance();
                std::vector<SDAI_Application_instance *> parts;
                if( se->IsComplex() ) {
                    for( STEPcomplex * p = ( ( STEPcomplex * )se )->head; p; p = p->sc ) parts.push_back( p );
                } else {
                    parts.push_back( se );
                }
                fprintf( reply, "V" );
                for( size_t pi = 0; pi < parts.size(); pi++ ) {
                    std::string tmp;
                    fprintf( reply, "%s %s", pi ? " |" : "", StrToUpper( parts[pi]->EntityName(), tmp ) );
                    int n = parts[pi]->attributes.list_length();
                    for( int k = 0; k < n; k++ ) {
                        STEPattribute & a = parts[pi]->attributes[k];
                        std::string v = a.asStr( 0 );
                        fprintf( reply, " %s/%d/%s", a.Name(), a.aDesc->AttrType() == AttrType_Redefining ? 1 : 0, hex( v ).c_str() );
                    }
                }
                fprintf( reply, "\n" );
            }
        } else if( c == "attrs" && w.size() == 2 ) {
            SDAI_Application_instance * se = reg->ObjCreate( w[1].c_str() );
            if( !se || se == ENTITY_NULL ) {
                fprintf( reply, "A !unknown\n" );
            } else {
                fprintf( reply, "A" );
                int n = se->attributes.list_length();
                for( int i = 0; i < n; i++ ) {
                    STEPattribute & a = se->attributes[i];
                    fprintf( reply, " %s/%s/%d/%d/%d/%s", a.Name(), typeName( a.NonRefType() ), a.Nullable() ? 1 : 0,
                             a.IsDerived() ? 1 : 0, a.aDesc->AttrType() == AttrType_Redefining ? 1 : 0,
                             a.Type() == REFERENCE_TYPE ? "REF" : typeName( a.Type() ) );
                }
                fprintf( reply, "\n" );
                delete se;
            }
        } else {
            fprintf( reply, "R bad-op\n" );
        }
        fflush( reply );
    }
    fflush( reply );
    _exit( 0 );
}

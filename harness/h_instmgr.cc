// C13 harness: drives a real InstMgr with the op-line protocol shared with the Lean driver (Drivers/C13.lean).
//   new h id name | append h st | delnode i | delinst h | state i st | clear | deleteall | peek i | dump | reset own
// After every operation one line `R <result>`; `dump` prints one canonical line of every public query.
#include <cstdio>
#include <cstring>
#include <iostream>
#include <sstream>
#include <string>
#include <vector>
#include <map>
#include "clstepcore/sdai.h"
#include "clstepcore/instmgr.h"
#include "clstepcore/ExpDict.h"

// two of the names are a prefix pair (Edge / Edge_Loop): a look-up by name must compare whole names
static const char * ENT_NAMES[] = { "Edge", "Edge_Loop", "Face" };
static const char * ENT_KEYWORDS[] = { "EDGE", "edge_loop", "face" };   // any letter case
// keywords that name no entity: proper prefixes of names, a name with a suffix, the empty keyword
static const char * NO_KEYWORDS[] = { "FA", "EDG", "EDGE_", "EDGE_LOOP_X", "" };
static const int NNAMES = 3;

struct TInst : public SDAI_Application_instance {
    int handle;
    TInst( const EntityDescriptor * d, int h, int id ) : handle( h ) {
        eDesc = d;
        STEPfile_id = id;
    }
};

static Schema * schema = 0;
static EntityDescriptor * descs[NNAMES];
static std::map<int, TInst *> heap; // alive instances by handle
static InstMgr * mgr = 0;

static const char * stName( stateEnum s ) {
    switch( s ) {
        case noStateSE: return "noStateSE";
        case completeSE: return "completeSE";
        case incompleteSE: return "incompleteSE";
        case deleteSE: return "deleteSE";
        case newSE: return "newSE";
    }
    return "?";
}
static bool parseSt( const std::string & w, stateEnum & s ) {
    if( w == "noStateSE" ) { s = noStateSE; return true; }
    if( w == "completeSE" ) { s = completeSE; return true; }
    if( w == "incompleteSE" ) { s = incompleteSE; return true; }
    if( w == "deleteSE" ) { s = deleteSE; return true; }
    if( w == "newSE" ) { s = newSE; return true; }
    return false;
}
static int nameIdx( const char * nm ) {
    for( int i = 0; i < NNAMES; i++ ) if( !strcmp( nm, ENT_NAMES[i] ) ) return i;
    return -1;
}
static bool inMgr( TInst * t ) {
    int n = mgr->InstanceCount();
    for( int i = 0; i < n; i++ ) if( mgr->GetApplication_instance( i ) == t ) return true;
    return false;
}

static void dump( std::ostream & out ) {
    int n = mgr->InstanceCount();
    int mx = mgr->MaxFileId();
    out << "D cnt=" << n << " max=" << mx << " |";
    for( int i = 0; i < n; i++ ) {
        MgrNode * mn = mgr->GetMgrNode( i );
        TInst * t = ( TInst * )mgr->GetApplication_instance( i );
        out << " " << t->handle << "/" << t->StepFileId() << "/" << nameIdx( t->EntityName() ) << "/"
            << stName( mn->CurrState() ) << "/" << mgr->GetIndex( mn );
    }
    out << " | find";
    int hi = mx + 2;
    for( int k = -2; k <= hi; k++ ) {
        MgrNode * mn = mgr->FindFileId( k );
        if( mn ) {
            out << " " << k << ">" << ( ( TInst * )mn->GetApplication_instance() )->handle;
        }
    }
    out << " | kw";
    for( int a = 0; a < NNAMES; a++ ) {
        out << " " << mgr->EntityKeywordCount( ENT_KEYWORDS[a] );
    }
    out << " | none";
    for( unsigned a = 0; a < sizeof( NO_KEYWORDS ) / sizeof( NO_KEYWORDS[0] ); a++ ) {
        SDAI_Application_instance * se = mgr->GetApplication_instance( NO_KEYWORDS[a], 0 );
        out << " " << mgr->EntityKeywordCount( NO_KEYWORDS[a] ) << ( ( se && se != ENTITY_NULL ) ? "X" : "-" );
    }
    out << " | by";
    for( int a = 0; a < NNAMES; a++ ) {
        for( int st = 0; st <= n; st++ ) {
            SDAI_Application_instance * se = mgr->GetApplication_instance( ENT_KEYWORDS[a], st );
            out << " ";
            if( se && se != ENTITY_NULL ) out << ( ( TInst * )se )->handle; else out << "-";
        }
        out << ";";
    }
    // look-ups by index at and above the count: "no instance there" is a null answer (the pointer is not followed here)
    out << " | above";
    for( int k = 0; k < 3; k++ ) {
        out << " " << ( mgr->GetApplication_instance( n + k ) ? "X" : "-" ) << ( mgr->GetMgrNode( n + k ) ? "X" : "-" );
    }
    out << "\n";
}

int main( int argc, char ** argv ) {
    // keep the library's own chatter (cout) away from the protocol stream
    std::ostringstream sink;
    std::streambuf * realout = std::cout.rdbuf( sink.rdbuf() );
    std::ostream out( realout );
    schema = new Schema( "H_INSTMGR" );
    for( int i = 0; i < NNAMES; i++ ) descs[i] = new EntityDescriptor( ENT_NAMES[i], schema, LFalse, LFalse );
    mgr = new InstMgr( 0 );
    std::string line;
    while( std::getline( std::cin, line ) ) {
        std::istringstream ls( line );
        std::string cmd;
        ls >> cmd;
        sink.str( "" );
        if( cmd.empty() ) continue;
        if( cmd == "reset" ) {
            // new history: drop everything.  arg = 1 owning (destructor deletes instances), 0 non-owning
            int own = 0;
            ls >> own;
            // instances still referenced by the manager are deleted with it when owning; the others here
            std::vector<TInst *> loose;
            for( std::map<int, TInst *>::iterator it = heap.begin(); it != heap.end(); ++it )
                if( !inMgr( it->second ) ) loose.push_back( it->second );
            bool wasOwning = mgr->OwnsInstances();
            std::vector<TInst *> held;
            if( !wasOwning ) for( std::map<int, TInst *>::iterator it = heap.begin(); it != heap.end(); ++it )
                    if( inMgr( it->second ) ) held.push_back( it->second );
            delete mgr;
            for( size_t i = 0; i < loose.size(); i++ ) delete loose[i];
            for( size_t i = 0; i < held.size(); i++ ) delete held[i];
            heap.clear();
            mgr = new InstMgr( own );
            out << "R reset\n";
        } else if( cmd == "new" ) {
            int h, id, nm;
            if( !( ls >> h >> id >> nm ) || nm < 0 || nm >= NNAMES ) { out << "R bad-op\n"; continue; }
            if( heap.count( h ) ) { out << "R skipped\n"; continue; }
            heap[h] = new TInst( descs[nm], h, id );
            out << "R unit\n";
        } else if( cmd == "append" ) {
            int h; std::string sw; stateEnum st;
            if( !( ls >> h >> sw ) || !parseSt( sw, st ) ) { out << "R bad-op\n"; continue; }
            if( !heap.count( h ) ) { out << "R skipped\n"; continue; }
            MgrNode * mn = mgr->Append( heap[h], st );
            if( !mn ) out << "R null\n";
            else out << "R node " << mgr->GetIndex( mn ) << " " << mn->GetFileId() << "\n";
        } else if( cmd == "delnode" ) {
            int i;
            if( !( ls >> i ) || i < 0 ) { out << "R bad-op\n"; continue; }
            if( i >= mgr->InstanceCount() ) { out << "R skipped\n"; continue; }
            MgrNode * mn = mgr->GetMgrNode( i );
            TInst * t = ( TInst * )mn->GetApplication_instance();
            heap.erase( t->handle );
            mgr->Delete( mn );
            out << "R unit\n";
        } else if( cmd == "delinst" ) {
            int h;
            if( !( ls >> h ) ) { out << "R bad-op\n"; continue; }
            if( !heap.count( h ) || !inMgr( heap[h] ) ) { out << "R skipped\n"; continue; }
            TInst * t = heap[h];
            // which instance will really go?  (the one FindFileId finds for t's id)
            MgrNode * mn = mgr->FindFileId( t->StepFileId() );
            if( !mn ) { out << "R crash\n"; continue; } // Delete(NULL) would dereference null
            TInst * victim = ( TInst * )mn->GetApplication_instance();
            heap.erase( victim->handle );
            mgr->Delete( t );
            out << "R unit\n";
        } else if( cmd == "state" ) {
            int i; std::string sw; stateEnum st;
            if( !( ls >> i >> sw ) || !parseSt( sw, st ) || i < 0 ) { out << "R bad-op\n"; continue; }
            if( i >= mgr->InstanceCount() ) { out << "R skipped\n"; continue; }
            mgr->ChangeState( mgr->GetMgrNode( i ), st );
            out << "R unit\n";
        } else if( cmd == "clear" ) {
            mgr->ClearInstances();
            out << "R unit\n";
        } else if( cmd == "deleteall" ) {
            int n = mgr->InstanceCount();
            for( int i = 0; i < n; i++ ) heap.erase( ( ( TInst * )mgr->GetApplication_instance( i ) )->handle );
            mgr->DeleteInstances();
            out << "R unit\n";
        } else if( cmd == "peek" ) {
            // GetApplication_instance( index ) for any index: below the count the instance, at or above it null
            // (the pointer is followed only below the count)
            int i = 0;
            ls >> i;
            SDAI_Application_instance * se = mgr->GetApplication_instance( i );
            if( !se ) out << "R found -\n";
            else if( i < mgr->InstanceCount() ) out << "R found " << ( ( TInst * )se )->handle << "\n";
            else out << "R found X\n";
        } else if( cmd == "dump" ) {
            dump( out );
        } else {
            out << "R bad-op\n";
        }
    }
    out.flush();
    std::cout.rdbuf( realout );
    return 0;
}

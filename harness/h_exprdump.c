/* Dump, with the real libexpress parser + resolver, the declaration-level view of an EXPRESS file that the
 * C17/C12 Lean models take as input: for every schema the content of its symbol table (class, name, source line,
 * and for types the kind of the resolved body and whether TYPEget_head is set), in DICTdo order.
 *   usage: h_exprdump file.exp        exit status 0 = accepted, 1 = rejected
 * output lines:  schema <name> <line> | ent <name> <line> | type <name> <kind#> <head 0/1> <line> | other <name> <class char> <line>
 *   usage: h_exprdump -p file.exp     additionally the structure exp2cxx's pass logic (multpass.c) looks at, read off the
 *                                     resolved model (q = <schema>.<name> of the object a reference resolved to):
 *     P type <name> <line> <isEnum> <isSelect> <q of the end of the TYPEget_head chain | ->
 *       P head <q of TYPEget_head | ->
 *       P item T <q|-> <isEnum> <isSelect>   a non-entity select item, seen through ONE aggregate level (TYPEinherits_from aggregate_ -> base)
 *       P item E <q>                          an entity item, followed by one line per attribute (ENTITYget_all_attributes):
 *         P eattr <q|-> <isEnum> <isSelect>
 *     P entity <name> <line>
 *       P super <q> | P sub <q> | P attr <q|-> <isEnum> <isSelect>      (direct supertypes / subtypes, own explicit+derived+inverse attributes)
 */
#include <stdio.h>
#include <stdlib.h>
#include <string.h>
#include "express/express.h"
#include "express/scope.h"
#include "express/type.h"
#include "express/dict.h"

int multiple_inheritance = 0;

static void q( Scope x ) {
    if( x && x->symbol.name && x->superscope && x->superscope->symbol.name ) {
        printf( " %s.%s", x->superscope->symbol.name, x->symbol.name );
    } else {
        printf( " -" );
    }
}

/* a type as multpass.c's checkItem() looks at it: through one aggregate level */
static void looked_at( const char * tag, Type t ) {
    Type i = t;
    if( t && TYPEinherits_from( t, aggregate_ ) ) {
        i = TYPEget_base_type( t );
    }
    printf( "P %s", tag );
    if( i && i->u.type && i->u.type->body ) {
        q( ( Scope )i );
        printf( " %d %d\n", TYPEis_enumeration( i ) ? 1 : 0, TYPEis_select( i ) ? 1 : 0 );
    } else {
        printf( " - 0 0\n" );
    }
}

static void pass_structure( Schema schema ) {
    DictionaryEntry de;
    void * x;
    DICTdo_init( schema->symbol_table, &de );
    while( 0 != ( x = DICTdo( &de ) ) ) {
        if( DICT_type == OBJ_TYPE ) {
            Type t = ( Type )x, a = t;
            while( TYPEget_head( a ) ) {
                a = TYPEget_head( a );
            }
            printf( "P type %s %d %d %d", t->symbol.name, t->symbol.line, TYPEis_enumeration( t ) ? 1 : 0, TYPEis_select( t ) ? 1 : 0 );
            if( a != t ) {
                q( ( Scope )a );
            } else {
                printf( " -" );
            }
            printf( "\n" );
            printf( "P head" );
            if( TYPEget_head( t ) ) {
                q( ( Scope )TYPEget_head( t ) );
            } else {
                printf( " -" );
            }
            printf( "\n" );
            if( TYPEis_select( t ) ) {
                LISTdo( SEL_TYPEget_items( t ), ii, Type ) {
                    if( !TYPEis_entity( ii ) ) {
                        looked_at( "item T", ii );
                    } else {
                        Entity ent = ENT_TYPEget_entity( ii );
                        Linked_List attribs = ENTITYget_all_attributes( ent );
                        printf( "P item E" );
                        q( ( Scope )ent );
                        printf( "\n" );
                        LISTdo_n( attribs, attr, Variable, z ) {
                            looked_at( "eattr", attr->type );
                        } LISTod
                        LISTfree( attribs );
                    }
                } LISTod
            }
        } else if( DICT_type == OBJ_ENTITY ) {
            Entity e = ( Entity )x;
            printf( "P entity %s %d\n", e->symbol.name, e->symbol.line );
            LISTdo( ENTITYget_supertypes( e ), super, Entity ) {
                printf( "P super" );
                q( ( Scope )super );
                printf( "\n" );
            } LISTod
            LISTdo( ENTITYget_subtypes( e ), sub, Entity ) {
                printf( "P sub" );
                q( ( Scope )sub );
                printf( "\n" );
            } LISTod
            LISTdo( ENTITYget_attributes( e ), attr, Variable ) {
                looked_at( "attr", attr->type );
            } LISTod
        }
    }
}

int main( int argc, char ** argv ) {
    Express model;
    Schema schema;
    DictionaryEntry de, de2;
    void * x;
    int pass = 0;
    if( argc == 3 && !strcmp( argv[1], "-p" ) ) {
        pass = 1;
        argv++;
        argc--;
    }
    if( argc != 2 ) {
        return 2;
    }
    EXPRESSprogram_name = argv[0];
    input_filename = argv[1];
    EXPRESSinitialize();
    model = EXPRESScreate();
    EXPRESSparse( model, ( FILE * )0, input_filename );
    if( ERRORoccurred ) {
        return 1;
    }
    EXPRESSresolve( model );
    if( ERRORoccurred ) {
        return 1;
    }
    DICTdo_type_init( model->symbol_table, &de, OBJ_SCHEMA );
    while( 0 != ( schema = ( Schema )DICTdo( &de ) ) ) {
        printf( "schema %s %d\n", schema->symbol.name, schema->symbol.line );
        DICTdo_init( schema->symbol_table, &de2 );
        while( 0 != ( x = DICTdo( &de2 ) ) ) {
            switch( DICT_type ) {
                case OBJ_ENTITY:
                    printf( "ent %s %d\n", ( ( Entity )x )->symbol.name, ( ( Entity )x )->symbol.line );
                    break;
                case OBJ_TYPE: {
                    Type t = ( Type )x;
                    printf( "type %s %d %d %d\n", t->symbol.name, ( int )TYPEget_body( t )->type, TYPEget_head( t ) ? 1 : 0, t->symbol.line );
                    break;
                }
                default:
                    printf( "other %s %c %d\n", de2.e->key, DICT_type, de2.e->symbol ? de2.e->symbol->line : 0 );
                    break;
            }
        }
        if( pass ) {
            pass_structure( schema );
        }
    }
    return 0;
}

/* Dump, with the real libexpress parser + resolver, the declaration-level view of an EXPRESS file that the
 * C17/C12 Lean models take as input: for every schema the content of its symbol table (class, name, source line,
 * and for types the kind of the resolved body and whether TYPEget_head is set), in DICTdo order.
 *   usage: h_exprdump file.exp        exit status 0 = accepted, 1 = rejected
 * output lines:  schema <name> <line> | ent <name> <line> | type <name> <kind#> <head 0/1> <line> | other <name> <class char> <line>
 */
#include <stdio.h>
#include <stdlib.h>
#include <string.h>
#include "express/express.h"
#include "express/scope.h"
#include "express/type.h"
#include "express/dict.h"

int multiple_inheritance = 0;

int main( int argc, char ** argv ) {
    Express model;
    Schema schema;
    DictionaryEntry de, de2;
    void * x;
    if( argc != 2 ) {
        return 2;
    }
    EXPRESSprogram_name = argv[0];
    input_filename = argv[1];
    EXPRESSinitialize();
    model = EXPRESScreate();
    EXPRESSparse( model, ( FILE * )0, input_filename );
    if( ERRORoccurred ) {
        return 1;
    }
    EXPRESSresolve( model );
    if( ERRORoccurred ) {
        return 1;
    }
    DICTdo_type_init( model->symbol_table, &de, OBJ_SCHEMA );
    while( 0 != ( schema = ( Schema )DICTdo( &de ) ) ) {
        printf( "schema %s %d\n", schema->symbol.name, schema->symbol.line );
        DICTdo_init( schema->symbol_table, &de2 );
        while( 0 != ( x = DICTdo( &de2 ) ) ) {
            switch( DICT_type ) {
                case OBJ_ENTITY:
                    printf( "ent %s %d\n", ( ( Entity )x )->symbol.name, ( ( Entity )x )->symbol.line );
                    break;
                case OBJ_TYPE: {
                    Type t = ( Type )x;
                    printf( "type %s %d %d %d\n", t->symbol.name, ( int )TYPEget_body( t )->type, TYPEget_head( t ) ? 1 : 0, t->symbol.line );
                    break;
                }
                default:
                    printf( "other %s %c %d\n", de2.e->key, DICT_type, de2.e->symbol ? de2.e->symbol->line : 0 );
                    break;
            }
        }
    }
    return 0;
}

// C10/C11 harness: one Part 21 file, read by the lazy loader (lazyInstMgr) and by the eager reader (STEPfile),
// linked with an exp2cxx-generated schema library (schema.h / SchemaInit).
//
//   h_lazy FILE MAXID MODE [id ...]
//     MODE = index : print the lazy index only (COUNT/KW/FWD/REV/DEP lines), nothing is loaded
//            eager : print the eagerly read population only (EAGER lines)
//            load  : loadInstance(id) for every id on the command line, in that order (repeats allowed);
//                    after every call `LOAD id NULL|<STEPwrite text>` and `LOADED n`; at the end, for every
//                    loaded instance its inverse attributes (`INV id name invAggr fwdAggr : ids`)
//
// Every line is flushed at once so that output produced before a crash is kept.  Only public API is used.
#include <algorithm>
#include <cstdio>
#include <cstdlib>
#include <cstring>
#include <iostream>
#include <map>
#include <set>
#include <sstream>
#include <string>
#include <vector>
#include "cllazyfile/lazyInstMgr.h"
#include "cllazyfile/lazyTypes.h"
#include "clstepcore/sdai.h"
#include "clstepcore/STEPattribute.h"
#include "clstepcore/STEPaggregate.h"
#include "clstepcore/ExpDict.h"
#include "clstepcore/Registry.h"
#include "clstepcore/instmgr.h"
#include "cleditor/STEPfile.h"
#include "schema.h"

static std::string oneLine( const std::string & s ) {
    std::string o;
    for( size_t i = 0; i < s.size(); i++ ) {
        unsigned char c = s[i];
        if( c == '\n' ) {
            o += "\\n";
        } else if( c == '\r' ) {
            o += "\\r";
        } else {
            o += c;
        }
    }
    return o;
}

static std::string writeOf( SDAI_Application_instance * inst ) {
    std::ostringstream os;
    inst->STEPwrite( os );
    return oneLine( os.str() );
}

static std::vector<std::string> keywords() {
    std::vector<std::string> kws;
    Registry reg( SchemaInit );
    reg.ResetEntities();
    const EntityDescriptor * ed;
    while( 0 != ( ed = reg.NextEntity() ) ) {
        std::string n = ed->Name();
        for( size_t i = 0; i < n.size(); i++ ) {
            n[i] = toupper( n[i] );
        }
        kws.push_back( n );
    }
    std::sort( kws.begin(), kws.end() );
    return kws;
}

static void printIndex( lazyInstMgr & lim, unsigned long maxid ) {
    std::cout << "COUNT " << lim.totalInstanceCount() << std::endl;
    std::vector<std::string> kws = keywords();
    kws.insert( kws.begin(), "" ); // complex instances are indexed under the empty keyword
    for( size_t k = 0; k < kws.size(); k++ ) {
        instanceTypes_t::cvector * v = lim.getInstances( kws[k], true );
        if( !v || v->empty() ) {
            continue;
        }
        std::vector<instanceID> ids( v->begin(), v->end() );
        std::sort( ids.begin(), ids.end() );
        std::cout << "KW " << ( kws[k].empty() ? "-" : kws[k] );
        for( size_t i = 0; i < ids.size(); i++ ) {
            std::cout << " " << ids[i];
        }
        std::cout << std::endl;
    }
    for( unsigned long id = 1; id <= maxid; id++ ) {
        instanceRefs_t::cvector * f = lim.getFwdRefs()->find( id );
        if( f && !f->empty() ) {
            std::cout << "FWD " << id;
            for( size_t i = 0; i < f->size(); i++ ) {
                std::cout << " " << f->at( i );
            }
            std::cout << std::endl;
        }
    }
    for( unsigned long id = 1; id <= maxid; id++ ) {
        instanceRefs_t::cvector * r = lim.getRevRefs()->find( id );
        if( r && !r->empty() ) {
            std::cout << "REV " << id;
            for( size_t i = 0; i < r->size(); i++ ) {
                std::cout << " " << r->at( i );
            }
            std::cout << std::endl;
        }
    }
    for( unsigned long id = 1; id <= maxid; id++ ) {
        instanceSet * d = lim.instanceDependencies( id );
        if( d && !d->empty() ) {
            std::cout << "DEP " << id;
            for( instanceSet::iterator it = d->begin(); it != d->end(); ++it ) {
                std::cout << " " << *it;
            }
            std::cout << std::endl;
        }
        delete d;
    }
}

static void printInverses( SDAI_Application_instance * x ) {
    const SDAI_Application_instance::iAMap_t & m = x->getInvAttrs();
    // order by name + owner so that the output does not depend on pointer order
    std::map<std::string, std::string> lines;
    SDAI_Application_instance::iAMap_t::const_iterator it = m.begin();
    for( ; it != m.end(); ++it ) {
        const Inverse_attribute * ia = it->first;
        bool invAggr = ia->IsAggrType();                       // how the generated accessor reads the slot
        bool fwdAggr = ia->inverted_attr_() ? ia->inverted_attr_()->IsAggrType() : false;
        std::ostringstream os;
        os << "INV " << x->StepFileId() << " " << ia->Name() << "@" << ia->Owner().Name()
           << " " << ( invAggr ? "A" : "S" ) << ( fwdAggr ? "A" : "S" ) << " :";
        iAstruct ias = it->second;
        if( invAggr ) {
            EntityAggregate * a = ias.a;
            if( a ) {
                EntityNode * en = ( EntityNode * ) a->GetHead();
                while( en ) {
                    os << " " << ( en->node ? en->node->StepFileId() : -1 );
                    en = ( EntityNode * ) en->NextNode();
                }
            }
        } else {
            if( ias.i ) {
                os << " " << ias.i->StepFileId();
            }
        }
        std::string key = std::string( ia->Name() ) + "@" + ia->Owner().Name();
        lines[key] = os.str();
        // the same inverse attribute looked up BY NAME (SDAI_Application_instance::getInvAttr( const char * )): which descriptor comes
        // back, and what its slot holds
        {
            SDAI_Application_instance::iAMap_t::value_type byName = x->getInvAttr( ia->Name() );
            std::ostringstream on;
            on << "INVN " << x->StepFileId() << " " << ia->Name() << "@" << ia->Owner().Name() << " ->";
            if( !byName.first ) {
                on << " NULL";
            } else {
                on << " " << byName.first->Name() << "@" << byName.first->Owner().Name() << " :";
                if( byName.first->IsAggrType() ) {
                    EntityAggregate * a = byName.second.a;
                    if( a ) {
                        EntityNode * en = ( EntityNode * ) a->GetHead();
                        while( en ) {
                            on << " " << ( en->node ? en->node->StepFileId() : -1 );
                            en = ( EntityNode * ) en->NextNode();
                        }
                    }
                } else if( byName.second.i ) {
                    on << " " << byName.second.i->StepFileId();
                }
            }
            lines[key + "#byname"] = on.str();
        }
    }
    for( std::map<std::string, std::string>::iterator l = lines.begin(); l != lines.end(); ++l ) {
        std::cout << l->second << std::endl;
    }
}

int main( int argc, char ** argv ) {
    if( argc < 4 ) {
        std::cerr << "usage: h_lazy FILE MAXID index|eager|registry|load [id...]" << std::endl;
        return 2;
    }
    std::string file = argv[1];
    unsigned long maxid = strtoul( argv[2], 0, 10 );
    std::string mode = argv[3];
    if( mode == "eager" ) {
        Registry reg( SchemaInit );
        InstMgr im;
        STEPfile sf( reg, im, "", false );
        Severity sev = sf.ReadExchangeFile( file );
        std::cout << "SEVERITY " << ( int ) sev << std::endl;
        std::cout << "COUNT " << im.InstanceCount() << std::endl;
        for( int i = 0; i < im.InstanceCount(); i++ ) {
            SDAI_Application_instance * inst = im.GetApplication_instance( i );
            std::string kw;
            if( inst->IsComplex() ) {
                kw = "-";
            } else {
                kw = inst->EntityName();
                for( size_t k = 0; k < kw.size(); k++ ) {
                    kw[k] = toupper( kw[k] );
                }
            }
            std::cout << "EAGER " << inst->StepFileId() << " " << kw << " " << writeOf( inst ) << std::endl;
        }
        return 0;
    }
    if( mode == "registry" ) {
        // the hierarchy as the generated schema init code registered it: per entity its supertype list and its subtype list
        // (EntityDescriptor::_supertypes / _subtypes, the lists supertypesIterator / subtypesIterator walk), in registry order
        Registry reg( SchemaInit );
        reg.ResetEntities();
        const EntityDescriptor * e;
        while( ( e = reg.NextEntity() ) ) {
            std::cout << "ENT " << e->Name() << " SUPS";
            {
                EntityDescItr it( e->Supertypes() );
                const EntityDescriptor * x;
                while( ( x = it.NextEntityDesc() ) ) {
                    std::cout << " " << x->Name();
                }
            }
            std::cout << " SUBS";
            {
                EntityDescItr it( e->Subtypes() );
                const EntityDescriptor * x;
                while( ( x = it.NextEntityDesc() ) ) {
                    std::cout << " " << x->Name();
                }
            }
            std::cout << std::endl;
        }
        std::cout << "END" << std::endl;
        return 0;
    }
    lazyInstMgr lim;
    lim.initRegistry( SchemaInit );
    lim.openFile( file );
    if( mode == "index" ) {
        printIndex( lim, maxid );
        return 0;
    }
    if( mode != "load" ) {
        std::cout << "bad-op" << std::endl;
        return 2;
    }
    std::set<instanceID> asked;
    for( int a = 4; a < argc; a++ ) {
        instanceID id = strtoull( argv[a], 0, 10 );
        std::cout << "CALL " << id << std::endl;
        SDAI_Application_instance * inst = lim.loadInstance( id );
        if( !inst ) {
            std::cout << "LOAD " << id << " NULL" << std::endl;
        } else {
            asked.insert( id );
            std::cout << "LOAD " << id << " " << writeOf( inst ) << std::endl;
        }
        std::cout << "LOADED " << lim.loadedInstanceCount() << std::endl;
    }
    // which instances are in the cache now (public: isLoaded), and their inverse attributes
    for( unsigned long id = 1; id <= maxid; id++ ) {
        if( lim.isLoaded( id ) ) {
            SDAI_Application_instance * inst = lim.loadInstance( id );
            if( !inst ) {
                std::cout << "CACHED " << id << " NULL" << std::endl;
                continue;
            }
            std::cout << "CACHED " << id << " " << writeOf( inst ) << std::endl;
            if( asked.count( id ) ) {
                printInverses( inst );
            }
        }
    }
    std::cout << "END" << std::endl;
    return 0;
}

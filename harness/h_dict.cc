// C02 harness: canonical dump of the run-time dictionary registered by a generated schema library,
// of the attribute list of a freshly created instance of every instantiable entity, and (when the
// per-schema file c02_acc.inc is supplied, -DC02_ACC) mutator/accessor round trips through the
// generated member functions.
//
// Linked with the output of the scratch exp2cxx for one schema (vlib.build.gen_schema_lib).
// Output is line oriented; names are lower-cased (the dictionary stores PrettyTmpName forms, the raw
// form is printed once per entity/type as `raw=`), everything that comes out of a hash table is sorted.
#include "schema.h"
#include <clstepcore/Registry.h>
#include <clstepcore/STEPattribute.h>
#include <clstepcore/STEPaggregate.h>
#include <clstepcore/ExpDict.h>
#include <cldai/sdaiEnum.h>
#include <algorithm>
#include <functional>
#include <iostream>
#include <sstream>
#include <string>
#include <vector>
#include <map>
#include <cstring>
#include <cstdio>

// everything of the harness lives in its own namespace: exp2cxx puts typedefs named after the schema's enumeration
// types (`typedef Dszpo L;`) into the global namespace
namespace c02h {

static std::string lower(const char *s) {
    std::string r(s ? s : "");
    for (size_t i = 0; i < r.size(); i++) r[i] = (char)tolower((unsigned char)r[i]);
    return r;
}

static const char *ftName(PrimitiveType t) {
    switch (t) {
        case sdaiINTEGER: return "INTEGER";
        case sdaiREAL: return "REAL";
        case sdaiBOOLEAN: return "BOOLEAN";
        case sdaiLOGICAL: return "LOGICAL";
        case sdaiSTRING: return "STRING";
        case sdaiBINARY: return "BINARY";
        case sdaiENUMERATION: return "ENUMERATION";
        case sdaiSELECT: return "SELECT";
        case sdaiINSTANCE: return "ENTITY";
        case sdaiAGGR: return "AGGREGATE";
        case sdaiNUMBER: return "NUMBER";
        case ARRAY_TYPE: return "ARRAY";
        case BAG_TYPE: return "BAG";
        case SET_TYPE: return "SET";
        case LIST_TYPE: return "LIST";
        case GENERIC_TYPE: return "GENERIC";
        case REFERENCE_TYPE: return "REF";
        case UNKNOWN_TYPE: return "UNKNOWN";
    }
    return "?";
}

static bool isBuiltin(const TypeDescriptor *td) {
    return td == t_sdaiINTEGER || td == t_sdaiREAL || td == t_sdaiNUMBER || td == t_sdaiSTRING ||
           td == t_sdaiBINARY || td == t_sdaiBOOLEAN || td == t_sdaiLOGICAL;
}

static std::string boundStr(AggrTypeDescriptor *a, int which) {
    AggrBoundTypeEnum bt = which == 1 ? a->Bound1Type() : a->Bound2Type();
    std::ostringstream o;
    switch (bt) {
        case bound_unset: o << "-"; break;
        case bound_constant: o << (long)(which == 1 ? a->Bound1() : a->Bound2()); break;
        case bound_runtime: o << "rt"; break;
        case bound_funcall: o << "fn"; break;
    }
    return o.str();
}

// aggregate facts: KIND[b1:b2] flags U (unique) O (optional elements)
static std::string aggrFacts(const TypeDescriptor *td) {
    AggrTypeDescriptor *a = dynamic_cast<AggrTypeDescriptor *>(const_cast<TypeDescriptor *>(td));
    if (!a) return "";
    std::ostringstream o;
    const char *k = dynamic_cast<ArrayTypeDescriptor *>(a) ? "ARRAY" : dynamic_cast<ListTypeDescriptor *>(a) ? "LIST"
                  : dynamic_cast<SetTypeDescriptor *>(a) ? "SET" : dynamic_cast<BagTypeDescriptor *>(a) ? "BAG" : "AGGR";
    o << k << "[" << boundStr(a, 1) << ":" << boundStr(a, 2) << "]";
    if (a->UniqueElements().asInt() == LTrue) o << "U";
    ArrayTypeDescriptor *ar = dynamic_cast<ArrayTypeDescriptor *>(a);
    if (ar && ar->OptionalElements().asInt() == LTrue) o << "O";
    return o.str();
}

// structural rendering of a type reference as seen from an attribute or another type
static std::string render(const TypeDescriptor *td, int depth = 0) {
    if (!td) return "NULL";
    if (depth > 20) return "DEEP";
    if (isBuiltin(td)) return ftName(td->Type());
    if (dynamic_cast<const EntityDescriptor *>(td)) return "#" + lower(td->Name());
    const char *nm = td->Name();
    if (nm && *nm) return "@" + lower(nm);
    std::string f = aggrFacts(td);
    if (!f.empty()) return f + "<" + ftName(td->Type()) + ">OF " + render(td->ReferentType(), depth + 1);
    return std::string("ANON<") + ftName(td->Type()) + ">" + render(td->ReferentType(), depth + 1);
}

static int L(const SDAI_LOGICAL &l) { return l.asInt() == LTrue ? 1 : 0; }

struct Peek : public STEPattribute {
    static STEPattribute *redef(STEPattribute &a) { return a.*(&Peek::_redefAttr); }
};

static std::string attrKind(const AttrDescriptor *ad) {
    switch (ad->AttrType()) {
        case AttrType_Explicit: return "E";
        case AttrType_Inverse: return "I";
        case AttrType_Deriving: return "D";
        case AttrType_Redefining: return "R";
    }
    return "?";
}

static std::string hexOf(const std::string &t) {
    static const char *d = "0123456789abcdef";
    std::string o;
    for (unsigned char c : t) { o += d[c >> 4]; o += d[c & 15]; }
    return o;
}
// the rule lists of a descriptor: one line per rule, in list order, text in hex (it contains blanks and line breaks)
static void dumpWhere(const char *tag, const Where_rule__list_var wl) {
    if (!wl) return;
    for (int i = 0; i < wl->Count(); i++) {
        Where_rule_ptr w = (*wl)[i];
        std::cout << " " << tag << " " << i << " " << (w ? hexOf(w->label_().c_str()) : std::string("NULL")) << "\n";
    }
}

static void dumpEntity(const EntityDescriptor *ed) {
    std::cout << "ENTITY " << lower(ed->Name()) << " raw=" << ed->Name() << " abstract=" << L(ed->AbstractEntity());
    std::cout << " super=";
    {
        EntityDescItr it(ed->Supertypes());
        const EntityDescriptor *s; bool first = true;
        while ((s = it.NextEntityDesc())) { std::cout << (first ? "" : ",") << lower(s->Name()); first = false; }
    }
    std::cout << " sub=";
    {
        EntityDescItr it(ed->Subtypes());
        const EntityDescriptor *s; bool first = true;
        while ((s = it.NextEntityDesc())) { std::cout << (first ? "" : ",") << lower(s->Name()); first = false; }
    }
    std::cout << "\n";
    AttrDescItr ai(ed->ExplicitAttr());
    const AttrDescriptor *ad;
    while ((ad = ai.NextAttrDesc())) {
        std::cout << " ATTR " << ad->Name() << " kind=" << attrKind(ad) << " opt=" << L(ad->Optional())
                  << " owner=" << lower(ad->Owner().Name()) << " type=" << render(ad->DomainType()) << "\n";
    }
    InverseAItr ii(&(ed->InverseAttr()));
    Inverse_attribute *ia;
    while ((ia = ii.NextInverse_attribute())) {
        std::cout << " INV " << ia->Name() << " opt=" << L(ia->Optional()) << " owner=" << lower(ia->Owner().Name())
                  << " type=" << render(ia->DomainType())
                  << " for=" << (ia->inverted_attr_id_() ? ia->inverted_attr_id_() : "NULL")
                  << " of=" << (ia->inverted_entity_id_() ? ia->inverted_entity_id_() : "NULL") << "\n";
    }
    {
        const char *st = const_cast<EntityDescriptor *>(ed)->Supertype_Stmt();
        if (st && *st) std::cout << " SS - " << hexOf(st) << "\n";
    }
    {   // initializer text of the attributes in the DERIVE clause
        AttrDescItr di(ed->ExplicitAttr());
        const AttrDescriptor *d;
        while ((d = di.NextAttrDesc())) {
            if (d->AttrType() != AttrType_Deriving) continue;
            Derived_attribute *da = dynamic_cast<Derived_attribute *>(const_cast<AttrDescriptor *>(d));
            const char *t = da ? da->initializer_() : 0;
            std::cout << " DI " << d->Name() << " " << (t ? hexOf(t) : std::string("NULL")) << "\n";
        }
    }
    if (ed->_uniqueness_rules) {
        for (int i = 0; i < ed->_uniqueness_rules->Count(); i++) {
            Uniqueness_rule_ptr u = (*ed->_uniqueness_rules)[i];
            std::cout << " UR " << i << " " << (u ? hexOf(u->label_().c_str()) : std::string("NULL")) << "\n";
        }
    }
    dumpWhere("WR", ed->_where_rules);
}

static void dumpType(const TypeDescriptor *td) {
    std::cout << "TYPE " << lower(td->Name()) << " raw=" << td->Name() << " ft=" << ftName(td->Type());
    std::string f = aggrFacts(td);
    // a renamed aggregate (TYPE b = a) is an aggregate descriptor of its own that only refers to a: its facts are a's
    if (!f.empty() && td->Type() != REFERENCE_TYPE) std::cout << " aggr=" << f;
    std::cout << " ref=" << render(td->ReferentType());
    // the getters that follow the referent links
    std::cout << " nonref=" << ftName(td->NonRefType()) << " nonreftd=" << render(td->NonRefTypeDescriptor())
              << " base=" << ftName(td->BaseType()) << " isaggr=" << (td->IsAggrType() ? 1 : 0);
    if (td->IsAggrType()) std::cout << " elem=" << ftName(td->AggrElemType()) << " elemtd=" << render(td->AggrElemTypeDescriptor());
    if (td->Type() == sdaiENUMERATION || (td->Type() == REFERENCE_TYPE && td->NonRefType() == sdaiENUMERATION)) {
        const EnumTypeDescriptor *et = dynamic_cast<const EnumTypeDescriptor *>(td);
        std::cout << " items=";
        if (et) {
            SDAI_Enum *e = const_cast<EnumTypeDescriptor *>(et)->CreateEnum();
            if (e) {
                for (int i = 0; i < e->no_elements(); i++) std::cout << (i ? "," : "") << lower(e->element_at(i));
            } else std::cout << "NOCREATOR";
        } else std::cout << "NOTENUMTD";
    }
    const SelectTypeDescriptor *st = dynamic_cast<const SelectTypeDescriptor *>(td);
    if (st) {
        std::cout << " members=";
        TypeDescItr it(st->GetElements());
        const TypeDescriptor *m; bool first = true;
        while ((m = it.NextTypeDesc())) { std::cout << (first ? "" : ",") << render(m); first = false; }
    }
    std::cout << "\n";
    dumpWhere("TWR", td->_where_rules);
}

static void dumpInstance(Registry &reg, const EntityDescriptor *ed) {
    if (L(ed->AbstractEntity())) return;
    SDAI_Application_instance *inst = reg.ObjCreate(ed->Name());
    if (!inst || inst == S_ENTITY_NULL) { std::cout << "INST " << lower(ed->Name()) << " NOCREATE\n"; return; }
    std::cout << "INST " << lower(ed->Name()) << " desc=" << (inst->eDesc ? lower(inst->eDesc->Name()) : "NULL") << " :";
    int n = inst->AttributeCount();
    for (int i = 0; i < n; i++) {
        STEPattribute &a = inst->attributes[i];
        std::cout << " " << lower(a.aDesc->Owner().Name()) << "." << a.aDesc->Name() << "/" << attrKind(a.aDesc);
        if (a.IsDerived()) std::cout << "d";
        if (Peek::redef(a)) std::cout << "r";
    }
    std::cout << "\n";
}

// ---------------------------------------------------------------- accessor round trips
static Registry *g_reg = 0;
static void accResult(const char *ent, const char *attr, const char *kind, bool ok, const std::string &detail = "") {
    std::cout << "ACC " << ent << "." << attr << " " << kind << " " << (ok ? "ok" : "FAIL") << (detail.empty() ? "" : " ") << detail << "\n";
}
// a value stored through the generated mutator must be the value on the instance's attribute list (what a Part 21 file gets)
static void lstResult(const char *ent, const char *owner, const char *attr, const char *kind, bool ok, const std::string &got) {
    std::cout << "LST " << ent << " " << owner << "." << attr << " " << kind << " " << (ok ? "ok" : "FAIL") << " listed=" << got << "\n";
}
// an entity reference assigned to an attribute of a select type and written
static void selEntResult(const char *attr, const char *ent, bool ok, const std::string &wrote) {
    std::string w;
    for (size_t i = 0; i < wrote.size(); i++) if (wrote[i]) w += (wrote[i] == ' ' || wrote[i] == '\n') ? '_' : wrote[i];
    std::cout << "SELENT " << attr << " " << ent << " " << (ok ? "ok" : "FAIL") << " wrote=" << w << "\n";
}
static SDAI_Application_instance *mk(const char *pretty) {
    SDAI_Application_instance *i = g_reg->ObjCreate(pretty);
    return (i == S_ENTITY_NULL) ? 0 : i;
}
// value stored through the mutator is also what the instance's attribute list shows (reported, not demanded)
static std::string listed(SDAI_Application_instance *inst, const char *owner, const char *attr) {
    int n = inst->AttributeCount();
    for (int i = 0; i < n; i++) {
        STEPattribute &a = inst->attributes[i];
        if (lower(a.aDesc->Owner().Name()) == owner && !strcmp(a.aDesc->Name(), attr)) return a.asStr();
    }
    return "<absent>";
}
// the STEPattribute of an instance for (owner entity, registered attribute name)
static STEPattribute *attrOf(SDAI_Application_instance *inst, const char *owner, const char *attr) {
    int n = inst->AttributeCount();
    for (int i = 0; i < n; i++) {
        STEPattribute &a = inst->attributes[i];
        if (lower(a.aDesc->Owner().Name()) == owner && !strcmp(a.aDesc->Name(), attr)) return &a;
    }
    return 0;
}
static std::string aggStr(const STEPaggregate *a) { std::string s; if (!a) return "<null>"; a->asStr(s); return s; }
static std::string selStr(const SDAI_Select *a) { std::string s; if (!a) return "<null>"; a->STEPwrite(s); return s; }
#ifdef C02_ACC
#include "c02_acc.inc"
#endif

// ---------------------------------------------------------------- registry API as an operation sequence
// script file: whitespace separated ops
//   RE NE AE  ResetEntities / NextEntity / NextEntity until null        (RT NT AT types, RS NS AS schemas)
//   CE GetEntityCnt   CF GetFullEntCnt   FE:<n> FindEntity   FT:<n> FindType   FS:<n> FindSchema   OC:<n> ObjCreate
// A reference walk of each table is printed first (REF lines: the tables' iteration order); one `R …` line per op.
static int runScript(const char *path) {
    Registry reg(SchemaInit);
    FILE *f = fopen(path, "r");
    if (!f) { std::cout << "noscript\n"; return 2; }
    std::vector<std::string> ops;
    char buf[512];
    while (fscanf(f, "%500s", buf) == 1) ops.push_back(buf);
    fclose(f);
    {
        std::cout << "REF E";
        reg.ResetEntities(); const EntityDescriptor *e; int n = 0;
        while ((e = reg.NextEntity()) && n++ < 100000) std::cout << " " << lower(e->Name());
        std::cout << "\nREF T";
        reg.ResetTypes(); const TypeDescriptor *t; n = 0;
        while ((t = reg.NextType()) && n++ < 100000) std::cout << " " << lower(t->Name());
        std::cout << "\nREF S";
        reg.ResetSchemas(); const Schema *sc; n = 0;
        while ((sc = reg.NextSchema()) && n++ < 100000) std::cout << " " << lower(sc->Name());
        std::cout << "\n";
    }
    for (size_t i = 0; i < ops.size(); i++) {
        const std::string &o = ops[i];
        std::string arg = o.size() > 3 && o[2] == ':' ? o.substr(3) : "";
        std::string op = o.substr(0, 2);
        std::cout << "R ";
        if (op == "RE") { reg.ResetEntities(); std::cout << "unit"; }
        else if (op == "RT") { reg.ResetTypes(); std::cout << "unit"; }
        else if (op == "RS") { reg.ResetSchemas(); std::cout << "unit"; }
        else if (op == "NE") { const EntityDescriptor *e = reg.NextEntity(); if (e) std::cout << "name " << lower(e->Name()); else std::cout << "null"; }
        else if (op == "NT") { const TypeDescriptor *e = reg.NextType(); if (e) std::cout << "name " << lower(e->Name()); else std::cout << "null"; }
        else if (op == "NS") { const Schema *e = reg.NextSchema(); if (e) std::cout << "name " << lower(e->Name()); else std::cout << "null"; }
        else if (op == "AE") { std::cout << "names"; const EntityDescriptor *e; int n = 0; while ((e = reg.NextEntity()) && n++ < 100000) std::cout << " " << lower(e->Name()); }
        else if (op == "AT") { std::cout << "names"; const TypeDescriptor *e; int n = 0; while ((e = reg.NextType()) && n++ < 100000) std::cout << " " << lower(e->Name()); }
        else if (op == "AS") { std::cout << "names"; const Schema *e; int n = 0; while ((e = reg.NextSchema()) && n++ < 100000) std::cout << " " << lower(e->Name()); }
        else if (op == "CE") std::cout << "num " << reg.GetEntityCnt();
        else if (op == "CF") std::cout << "num " << reg.GetFullEntCnt();
        else if (op == "FE") std::cout << "found " << (reg.FindEntity(arg.c_str()) ? 1 : 0);
        else if (op == "FT") std::cout << "found " << (reg.FindType(arg.c_str()) ? 1 : 0);
        else if (op == "FS") std::cout << "found " << (reg.FindSchema(arg.c_str()) ? 1 : 0);
        else if (op == "OC") { SDAI_Application_instance *x = reg.ObjCreate(arg.c_str()); std::cout << "found " << ((x && x != S_ENTITY_NULL) ? 1 : 0); }
        else std::cout << "bad-op";
        std::cout << "\n";
    }
    std::cout << "END" << std::endl;
    return 0;
}

static int run() {
    Registry reg(SchemaInit);
    g_reg = &reg;
    {
        std::vector<std::string> names;
        reg.ResetSchemas();
        const Schema *s;
        while ((s = reg.NextSchema())) names.push_back(s->Name());
        std::sort(names.begin(), names.end());
        for (size_t i = 0; i < names.size(); i++) std::cout << "SCHEMA " << lower(names[i].c_str()) << " raw=" << names[i] << "\n";
    }
    std::map<std::string, const EntityDescriptor *> ents;
    reg.ResetEntities();
    const EntityDescriptor *ed;
    while ((ed = reg.NextEntity())) ents[lower(ed->Name())] = ed;
    std::map<std::string, const TypeDescriptor *> types;
    reg.ResetTypes();
    const TypeDescriptor *td;
    while ((td = reg.NextType())) types[lower(td->Name())] = td;
    for (std::map<std::string, const EntityDescriptor *>::iterator i = ents.begin(); i != ents.end(); ++i) dumpEntity(i->second);
    for (std::map<std::string, const TypeDescriptor *>::iterator i = types.begin(); i != types.end(); ++i) dumpType(i->second);
    // which entities a select type can hold: the three dictionary queries, for every (select, entity) pair
    for (std::map<std::string, const TypeDescriptor *>::iterator i = types.begin(); i != types.end(); ++i) {
        const SelectTypeDescriptor *st = dynamic_cast<const SelectTypeDescriptor *>(i->second);
        if (!st) continue;
        std::string byTd, byName, bySet;
        for (std::map<std::string, const EntityDescriptor *>::iterator e = ents.begin(); e != ents.end(); ++e) {
            if (st->CanBe(e->second)) byTd += (byTd.empty() ? "" : ",") + e->first;
            if (st->CanBe(e->second->Name())) byName += (byName.empty() ? "" : ",") + e->first;
            if (st->CanBeSet(e->second->Name(), 0)) bySet += (bySet.empty() ? "" : ",") + e->first;
        }
        std::cout << "CANBE " << i->first << " td=" << byTd << " name=" << byName << " set=" << bySet << "\n";
    }
    std::cout.flush();
    for (std::map<std::string, const EntityDescriptor *>::iterator i = ents.begin(); i != ents.end(); ++i) {
        dumpInstance(reg, i->second);
        std::cout.flush();
    }
#ifdef C02_ACC
    c02_accessors(reg);
#endif
    std::cout << "END\n";
    return 0;
}

} // namespace c02h

int main(int argc, char **argv) { return argc > 1 ? c02h::runScript(argv[1]) : c02h::run(); }

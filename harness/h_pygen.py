#!/usr/bin/env python3
"""C18 harness: py_compile + import a module written by exp2python against the *bundled* runtime and describe it by
introspection in the format of the Lean driver m_c18.

    h_pygen.py <dir> <module>      runtime from $VERIF_REPO/src/exp2python/python (default /repo)

stdout, one line:   ok | pkg=… | wiring=ok|bad:… | class NAME bases=… ctor=… | … | type NAME=… | …     (classes then types, each sorted by name)
or                  compile-error <message>   /   import-error <ExceptionClass>: <message>
"""
import enum, importlib, inspect, os, py_compile, re, sys

REPO = os.environ.get("VERIF_REPO", "/repo")
sys.dont_write_bytecode = True


def show_agg(obj, M):
    """KIND,lo,hi,<base>; a nested level in [ ]; `@` before the base name of the level that was given a scope; `!` when
    that name cannot be resolved in its scope"""
    hi = obj.bound_2()
    head = "%s,%s,%s," % (type(obj).__name__, obj.bound_1(), "?" if hi is None else hi)
    inner = obj._typedef
    if isinstance(inner, str):
        mark = "@" if obj._scope is not None else ""
        try:
            obj.get_type()
        except Exception as e:
            mark += "!"
        return head + mark + inner
    from stepcode import AggregationDataTypes as A
    if isinstance(inner, (A.ARRAY, A.LIST, A.BAG, A.SET)):
        return head + ("@" if obj._scope is not None else "") + "[" + show_agg(inner, M) + "]"
    return head + "?%r" % (inner,)


def main():
    d, mod = sys.argv[1], sys.argv[2]
    path = os.path.join(d, mod + ".py")
    try:
        py_compile.compile(path, cfile=os.path.join(d, mod + ".pyc.tmp"), doraise=True)
    except py_compile.PyCompileError as e:
        msg = " ".join(str(e.msg).split())
        print("compile-error " + msg[:300]); return
    except Exception as e:
        print("compile-error %s: %s" % (type(e).__name__, " ".join(str(e).split())[:300])); return
    text = open(path).read()
    m = re.search(r"^from (\w+) import SCLBase$", text, re.M)
    pkg = m.group(1) if m else "?"
    sys.path.insert(0, os.path.join(REPO, "src", "exp2python", "python"))
    sys.path.insert(0, d)
    try:
        M = importlib.import_module(mod)
    except BaseException as e:
        print("import-error %s: %s" % (type(e).__name__, " ".join(str(e).split())[:300])); return
    from stepcode.SCLBase import BaseEntityClass
    from stepcode.ConstructedDataTypes import ENUMERATION, SELECT
    from stepcode import AggregationDataTypes as A
    import stepcode.SimpleDataTypes, stepcode.SCLBase, stepcode.Builtin, stepcode.Rules, stepcode.TypeChecker
    runtime = {}
    for rm in (stepcode.SimpleDataTypes, stepcode.SCLBase, stepcode.ConstructedDataTypes, A, stepcode.Builtin, stepcode.Rules):
        runtime.update(vars(rm))
    classes, types = [], []
    for name, obj in vars(M).items():
        if name in runtime and runtime[name] is obj:
            continue            # came in through `from stepcode.X import *`
        if name.startswith("__") or obj is sys or obj is M or (name == "schema_name" and isinstance(obj, str)) \
                or (name == "check_type" and inspect.isfunction(obj)):
            continue
        if inspect.isclass(obj) and getattr(obj, "__module__", None) == mod and issubclass(obj, enum.Enum):
            types.append((name, "enum:" + (",".join(sorted(x.name for x in obj)) or "-")))
        elif inspect.isclass(obj) and getattr(obj, "__module__", None) == mod and issubclass(obj, BaseEntityClass):
            if obj.__name__ != name:
                continue
            bases = [b.__name__ for b in obj.__bases__ if b is not BaseEntityClass]
            if "__init__" in vars(obj):
                ps = [p for p in inspect.signature(obj.__init__).parameters][1:]
                ctor = ",".join(ps) or "-"
            else:
                ctor = "!"
            classes.append((name, "bases=%s ctor=%s" % (",".join(bases) or "-", ctor)))
        elif inspect.isclass(obj) and getattr(obj, "__module__", None) == mod:
            if obj.__name__ != name:
                continue
            b = obj.__bases__[0]
            types.append((name, ("defined:" if b.__module__ == mod else "simple:") + b.__name__))
        elif obj is bool:
            types.append((name, "boolean"))
        elif isinstance(obj, SELECT):
            types.append((name, "select:" + (",".join(sorted(str(t._typedef) for t in obj._base_types)) or "-")))
        elif isinstance(obj, (A.ARRAY, A.LIST, A.BAG, A.SET)):
            types.append((name, "aggregate:" + show_agg(obj, M)))
    # constructor wiring: every parameter must reach the attribute it stands for, through the superclass __init__ calls
    wiring = "ok"
    for name, obj in vars(M).items():
        if not (inspect.isclass(obj) and getattr(obj, "__module__", None) == mod and issubclass(obj, BaseEntityClass)
                and obj.__name__ == name and "__init__" in vars(obj)):
            continue
        ps = [p for p in inspect.signature(obj.__init__).parameters][1:]
        vals = [object() for _ in ps]
        try:
            inst = obj(*vals)
        except Exception as e:
            wiring = "bad:%s:constructor-raises-%s" % (name, type(e).__name__); break
        for p_, v in zip(ps, vals):
            an = p_ if hasattr(obj, p_) else re.sub(r"^inherited\d+__", "", p_)     # an own attribute may itself be called inherited<i>__…
            try:
                got = getattr(inst, an)
            except Exception as e:
                got = e
            if got is not v:
                wiring = "bad:%s.%s" % (name, an); break
        if wiring != "ok":
            break
        # every explicit attribute's setter evaluates its type expression: a plain object must be refused with
        # TypeError (the type check), nothing else (an unresolvable name, a malformed aggregate expression, …)
        for p_ in ps:
            an = p_ if hasattr(obj, p_) else re.sub(r"^inherited\d+__", "", p_)     # an own attribute may itself be called inherited<i>__…
            try:
                setattr(inst, an, object())
                wiring = "bad:%s.%s:setter-accepts-any-object" % (name, an)
            except TypeError:
                pass
            except Exception as e:
                wiring = "bad:%s.%s:setter-raises-%s" % (name, an, type(e).__name__)
            if wiring != "ok":
                break
        if wiring != "ok":
            break
    # the class body: one property per own attribute; what each setter does, probed on an instance
    from stepcode.SimpleDataTypes import INTEGER, REAL, STRING, BINARY
    battery = [("I", lambda: INTEGER(1)), ("R", lambda: REAL(1.5)), ("S", lambda: STRING("x")), ("B", lambda: BINARY("01")),
               ("T", lambda: True)]
    props = []
    for name, obj in vars(M).items():
        if not (inspect.isclass(obj) and getattr(obj, "__module__", None) == mod and issubclass(obj, BaseEntityClass)
                and obj.__name__ == name):
            continue
        own = [(k, v) for k, v in vars(obj).items() if isinstance(v, property)]
        desc = []
        try:
            n_par = len(inspect.signature(obj.__init__).parameters) - 1 if "__init__" in vars(obj) or obj.__bases__[0] is not BaseEntityClass else 0
            inst = obj(*[object() for _ in range(n_par)])
        except Exception as e:
            props.append((name, "cannot-instantiate-" + type(e).__name__)); continue
        for k, v in own:
            try:
                setattr(inst, k, object())
                acc = "any"
            except TypeError:
                acc = "settable"
            except AssertionError as e:
                acc = "d" if "DERIVED" in str(e) else "i" if "INVERSE" in str(e) else "assert"
            except Exception as e:
                acc = "raises-" + type(e).__name__
            got = "-"
            if acc == "settable":
                try:
                    setattr(inst, k, None)
                    acc = "o"
                except AssertionError:
                    acc = "m"
                except Exception as e:
                    acc = "none-raises-" + type(e).__name__
                got = ""
                for letter, mk in battery:
                    try:
                        val = mk()
                        setattr(inst, k, val)
                        if getattr(inst, k) == val:
                            got += letter
                    except Exception:
                        pass
                got = got or "-"
            desc.append("%s:%s:%s" % (k, acc, got))
        props.append((name, ",".join(desc) or "-"))
    order = [name for name, obj in vars(M).items() if inspect.isclass(obj) and getattr(obj, "__module__", None) == mod
             and issubclass(obj, BaseEntityClass) and obj.__name__ == name]
    # in the order of the `class` statements in the file (a name like `sys` keeps an older slot in the module dict)
    order.sort(key=lambda n: text.find("\nclass %s(" % n))
    items = ["ok", "pkg=" + pkg, "wiring=" + wiring, "order=" + (",".join(order) or "-")] + ["props %s=%s" % p_ for p_ in sorted(props)] + ["class %s %s" % c for c in sorted(classes)] + ["type %s=%s" % t for t in sorted(types)]
    print(" | ".join(items))


if __name__ == "__main__":
    main()

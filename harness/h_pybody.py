#!/usr/bin/env python3
"""C18 harness for the bodies exp2python writes: derived-attribute getters and WHERE-rule methods.

    h_pybody.py <dir> <module> <spec.json>     runtime from $VERIF_REPO/src/exp2python/python (default /repo)

spec.json: {"ent": entity, "ctor": [attribute, …], "derived": [name, …], "rules": [label | null, …], "envs": [[value, …], …]}
stdout, one JSON object:
    {"status": "ok", "ast": {name: dump}, "values": [{name: value-or-"!Exception", …} per environment]}
    {"status": "compile-error" | "import-error" | "shape-error", "msg": …}
`dump` is what Python's own parser reads in the emitted right-hand side, in the prefix form of the Lean driver
(`m_c18 expr`): (int n) (name X) (attr X) (un not|neg x) (bin op l r) (chain l op x op y …) (str 'text') (other Class).
Rule methods: the value returned, or "!AssertionError" when the rule reports a violation.
"""
import ast, importlib, json, os, py_compile, sys

REPO = os.environ.get("VERIF_REPO", "/repo")
sys.dont_write_bytecode = True

BIN = {ast.Add: "plus", ast.Sub: "minus", ast.Mult: "times", ast.Div: "rdiv", ast.FloorDiv: "div", ast.Mod: "mod", ast.Pow: "exp"}
CMP = {ast.Eq: "eq", ast.NotEq: "ne", ast.Lt: "lt", ast.LtE: "le", ast.Gt: "gt", ast.GtE: "ge", ast.In: "in"}


def dump(n):
    if isinstance(n, ast.Constant):
        if isinstance(n.value, bool) or n.value is None:
            return "(name %s)" % n.value
        if isinstance(n.value, int):
            return "(int %d)" % n.value
        if isinstance(n.value, str):
            return "(str %r)" % n.value
        return "(const %r)" % (n.value,)
    if isinstance(n, ast.Name):
        return "(name %s)" % n.id
    if isinstance(n, ast.Attribute) and isinstance(n.value, ast.Name) and n.value.id == "self":
        return "(attr %s)" % n.attr
    if isinstance(n, ast.UnaryOp) and isinstance(n.op, (ast.Not, ast.USub)):
        return "(un %s %s)" % ("not" if isinstance(n.op, ast.Not) else "neg", dump(n.operand))
    if isinstance(n, ast.BinOp) and type(n.op) in BIN:
        return "(bin %s %s %s)" % (BIN[type(n.op)], dump(n.left), dump(n.right))
    if isinstance(n, ast.BoolOp):
        op = "and" if isinstance(n.op, ast.And) else "or"
        if len(n.values) == 2:
            return "(bin %s %s %s)" % (op, dump(n.values[0]), dump(n.values[1]))
        return "(boolop %s %s)" % (op, " ".join(dump(v) for v in n.values))
    if isinstance(n, ast.Compare) and all(type(o) in CMP for o in n.ops):
        if len(n.ops) == 1:
            return "(bin %s %s %s)" % (CMP[type(n.ops[0])], dump(n.left), dump(n.comparators[0]))
        return "(chain %s %s)" % (dump(n.left), " ".join(CMP[type(o)] + " " + dump(c) for o, c in zip(n.ops, n.comparators)))
    if isinstance(n, ast.Call) and isinstance(n.func, ast.Name):
        return "(call %s %s)" % (n.func.id, " ".join(dump(a) for a in n.args))
    return "(other %s)" % type(n).__name__


def show(v):
    if v is None:
        return "none"
    if type(v).__name__ == "LOGICAL":
        return "unknown"
    if isinstance(v, bool):
        return "true" if v else "false"
    if isinstance(v, int):
        return str(v)
    if isinstance(v, float):
        return "real:%r" % v
    if isinstance(v, str):
        return "%s:%r" % (type(v).__name__, str(v))
    return "%s:%r" % (type(v).__name__, v)


def main():
    d, mod = sys.argv[1], sys.argv[2]
    spec = json.load(open(sys.argv[3]))
    path = os.path.join(d, mod + ".py")
    try:
        py_compile.compile(path, cfile=os.path.join(d, mod + ".pyc.tmp"), doraise=True)
    except py_compile.PyCompileError as e:
        msg = " ".join(str(e.msg).split())
        print(json.dumps({"status": "compile-error", "msg": msg[:300]})); return
    except Exception as e:
        print(json.dumps({"status": "compile-error", "msg": "%s: %s" % (type(e).__name__, " ".join(str(e).split())[:300])})); return
    tree = ast.parse(open(path).read())
    sys.path.insert(0, os.path.join(REPO, "src", "exp2python", "python"))
    sys.path.insert(0, d)
    try:
        M = importlib.import_module(mod)
    except BaseException as e:
        print(json.dumps({"status": "import-error", "msg": "%s: %s" % (type(e).__name__, " ".join(str(e).split())[:300])})); return
    from stepcode.SimpleDataTypes import Unknown as UNKNOWN_VALUE
    globals()["UNKNOWN_VALUE"] = UNKNOWN_VALUE
    classes = {c.name: c for c in tree.body if isinstance(c, ast.ClassDef)}
    cname = next((c for c in (spec["ent"], spec["ent"] + "_") if c in classes), None)
    if cname is None:
        print(json.dumps({"status": "shape-error", "msg": "no class for entity %s" % spec["ent"]})); return
    defs = {}
    for f in classes[cname].body:
        if isinstance(f, ast.FunctionDef) and f.name not in defs:
            defs[f.name] = f           # the getter comes before the setter of the same name
    labels = []
    unnamed = 0
    for lab in spec["rules"]:
        if lab is None:
            labels.append(("unnamed_wr_%d" % unnamed, ["unnamed_wr_%d" % unnamed])); unnamed += 1
        else:
            labels.append((lab, [lab, lab + "_"]))
    asts, pyname = {}, {}
    for name, cands in [(n, [n, n + "_"]) for n in spec["derived"]] + labels:
        f = next((defs[c] for c in cands if c in defs), None)
        if f is None:
            print(json.dumps({"status": "shape-error", "msg": "no method for %s in class %s (methods: %s)" % (name, cname, sorted(defs))})); return
        pyname[name] = f.name
        first = f.body[0]
        asts[name] = dump(first.value) if isinstance(first, ast.Assign) else "(other %s)" % type(first).__name__
    cls = getattr(M, cname)
    values = []
    for env in spec["envs"]:
        row = {}
        try:
            inst = cls(*[UNKNOWN_VALUE if v == "U" else v for v in env])
        except BaseException as e:
            print(json.dumps({"status": "shape-error", "msg": "constructor: %s: %s" % (type(e).__name__, e)})); return
        for name in spec["derived"]:
            try:
                row[name] = show(getattr(inst, pyname[name]))
            except BaseException as e:
                row[name] = "!" + type(e).__name__
        for name, _ in labels:
            try:
                row[name] = show(getattr(inst, pyname[name])())
            except BaseException as e:
                row[name] = "!" + type(e).__name__
        values.append(row)
    print(json.dumps({"status": "ok", "ast": asts, "values": values}))


main()

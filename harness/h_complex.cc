// C08 harness: drives the real run-time complex-entity matcher (clstepcore ComplexCollect::supports) on the
// EntList trees that the scratch exp2cxx emitted (compstructs.cc, compiled *unchanged*, one object per schema with
// -Dgencomplex=gencomplex_<k>; the table of constructors is in the generated gc_table.cc).
// Line protocol (shared with lean/Drivers/C08.lean, which receives the tree explicitly):
//   use <k>                      -> T <tree>        build collect k with its gencomplex(), print it through the public accessors
//   q <name>[*] <name>[*] ...    -> R 0 | R 1       EntNode(const char**) of the names in the given order (`*` = entity has >1
//                                                   supertype, as STEPcomplex::Initialize flags it), ComplexCollect::supports
//   n <name> <name> ...          -> N <names>       the EntNode list as constructed (sorted insertion, duplicates dropped, lower-cased)
//   rs <i>=<new> ... | <names>   -> N <names>       build list, rename node #i (Initialize's renaming), EntNode::sort, print
// Tree syntax:  C[ t ; t ; ... ]   t ::= name | (A t ...) | (O t ...) | (X t ...)      (AND / OR / ANDOR)
// A crash of the matcher kills this process; the caller sees the missing reply (that *is* the observation).
#include <cstdio>
#include <cstring>
#include <iostream>
#include <sstream>
#include <string>
#include <vector>
#include "clstepcore/complexSupport.h"

typedef ComplexCollect * ( *gcfn )();
extern gcfn gc_table[];
extern int gc_count;

static void printList( EntList * e, std::ostream & out ) {
    if( !e ) {
        out << "<null>";
        return;
    }
    if( e->join == SIMPLE ) {
        out << ( ( SimpleList * )e )->Name();
        return;
    }
    MultList * m = ( MultList * )e;
    out << "(" << ( e->join == AND ? "A" : e->join == OR ? "O" : "X" );
    // follow the links the matcher follows (childList/next), and report a childCount that disagrees
    int n = m->childCount(), seen = 0;
    EntList * c = m->getChild( 0 );
    EntList * prev = 0;
    while( c ) {
        out << " ";
        if( c->prev != prev ) {
            out << "<badprev>";
        }
        printList( c, out );
        prev = c;
        c = c->next;
        seen++;
    }
    if( seen != n ) {
        out << " <numchildren=" << n << ">";
    }
    out << ")";
}

static void printCollect( ComplexCollect * cc, std::ostream & out ) {
    out << "T C[";
    bool first = true;
    for( ComplexList * cl = cc ? cc->clists : 0; cl; cl = cl->next ) {
        out << ( first ? " " : " ; " );
        first = false;
        printList( cl->head, out );
    }
    out << " ]";
}

static void printNodes( EntNode * e, std::ostream & out ) {
    out << "N";
    for( ; e; e = e->next ) {
        out << " " << e->Name() << ( e->multSuprs() ? "*" : "" );
    }
}

static EntNode * build( const std::vector<std::string> & w, size_t from, size_t to ) {
    std::vector<std::string> names;
    std::vector<bool> mult;
    for( size_t i = from; i < to; i++ ) {
        std::string s = w[i];
        bool m = false;
        if( !s.empty() && s[s.size() - 1] == '*' ) {
            m = true;
            s.erase( s.size() - 1 );
        }
        names.push_back( s );
        mult.push_back( m );
    }
    std::vector<const char *> arr;
    for( size_t i = 0; i < names.size(); i++ ) {
        arr.push_back( names[i].c_str() );
    }
    arr.push_back( 0 );
    EntNode * ents = new EntNode( &arr[0] );
    for( EntNode * e = ents; e; e = e->next ) {
        for( size_t i = 0; i < names.size(); i++ ) {
            if( mult[i] && !strcasecmp( names[i].c_str(), e->Name() ) ) {
                e->multSuprs( true );
            }
        }
    }
    return ents;
}

int main() {
    std::string line;
    ComplexCollect * cc = 0;
    std::ios::sync_with_stdio( false );
    while( std::getline( std::cin, line ) ) {
        std::istringstream is( line );
        std::vector<std::string> w;
        std::string t;
        while( is >> t ) {
            w.push_back( t );
        }
        if( w.empty() ) {
            continue;
        }
        if( w[0] == "use" && w.size() == 2 ) {
            int k = atoi( w[1].c_str() );
            if( k < 0 || k >= gc_count ) {
                std::cout << "bad-op" << std::endl;
                continue;
            }
            cc = gc_table[k]();   // a stub gencomplex() returns 0: no complex structures at all
            printCollect( cc, std::cout );
            std::cout << std::endl;
        } else if( w[0] == "q" && w.size() >= 2 ) {
            EntNode * ents = build( w, 1, w.size() );
            bool r;
            if( cc ) {
                r = cc->supports( ents );
            } else {
                ComplexCollect empty;
                r = empty.supports( ents );
            }
            delete ents;
            std::cout << "R " << ( r ? 1 : 0 ) << std::endl;
        } else if( w[0] == "n" && w.size() >= 2 ) {
            EntNode * ents = build( w, 1, w.size() );
            printNodes( ents, std::cout );
            std::cout << std::endl;
            delete ents;
        } else if( w[0] == "rs" ) {
            size_t bar = 1;
            while( bar < w.size() && w[bar] != "|" ) {
                bar++;
            }
            if( bar >= w.size() - 1 ) {
                std::cout << "bad-op" << std::endl;
                continue;
            }
            EntNode * ents = build( w, bar + 1, w.size() );
            std::vector<EntNode *> nodes;
            for( EntNode * e = ents; e; e = e->next ) {
                nodes.push_back( e );
            }
            bool ok = true;
            for( size_t i = 1; i < bar; i++ ) {
                size_t eq = w[i].find( '=' );
                if( eq == std::string::npos ) {
                    ok = false;
                    break;
                }
                size_t idx = ( size_t )atoi( w[i].substr( 0, eq ).c_str() );
                if( idx >= nodes.size() ) {
                    ok = false;
                    break;
                }
                nodes[idx]->Name( w[i].substr( eq + 1 ).c_str() );
            }
            if( !ok ) {
                std::cout << "bad-op" << std::endl;
                delete ents;
                continue;
            }
            ents->sort( &ents );
            printNodes( ents, std::cout );
            std::cout << std::endl;
            delete ents;
        } else {
            std::cout << "bad-op" << std::endl;
        }
    }
    return 0;
}

// C13 (state lists): drives the real MgrNodeList / MgrNode / GenericNode with the line protocol of lean/Drivers/C13l.lean.
//   reset          new lists A (address 0) and B (address 1), NN fresh nodes (addresses 2..NN+1)
//   a <0|1> <n>    MgrNodeList::Append( node n ) on list A|B   (moves the node if it is in a list)
//   c <0|1>        GenNodeList::ClearEntries() on list A|B
//   r <n>          MgrNode::Remove()                           (GenericNode::Remove, null-guarded)
// after every op: forward and backward traversal of both lists and the nodes whose pointers are both null.
#include <cstdio>
#include <iostream>
#include <sstream>
#include <string>
#include <vector>
#include <map>
#include "clstepcore/sdai.h"
#include "clstepcore/mgrnode.h"
#include "clstepcore/mgrnodelist.h"

static const int NN = 8;
static MgrNodeList * L[2];
static std::vector<MgrNode *> nodes;
static std::map<GenericNode *, int> addr;

static std::string walk( int l, bool fwd ) {
    std::ostringstream o;
    GenericNode * head = L[l]->GetHead();
    GenericNode * n = fwd ? head->Next() : head->Prev();
    int steps = 0;
    while( n != head ) {
        if( !n || ++steps > 4 * NN || !addr.count( n ) ) {
            o << " !";
            break;
        }
        o << " " << addr[n];
        n = fwd ? n->Next() : n->Prev();
    }
    return o.str();
}

static void dump() {
    std::cout << "F0:" << walk( 0, true ) << " | R0:" << walk( 0, false ) << " | F1:" << walk( 1, true ) << " | R1:" << walk( 1, false ) << " | U:";
    for( int i = 0; i < NN; i++ ) {
        if( !nodes[i]->Next() && !nodes[i]->Prev() ) {
            std::cout << " " << i + 2;
        } else if( !nodes[i]->Next() || !nodes[i]->Prev() ) {
            std::cout << " half" << i + 2;
        }
    }
    std::cout << "\n";
}

static void reset() {
    // earlier objects are deliberately not freed (a broken list must not make the harness itself crash in a destructor)
    addr.clear();
    nodes.clear();
    L[0] = new MgrNodeList( completeSE );
    L[1] = new MgrNodeList( newSE );
    addr[L[0]->GetHead()] = 0;
    addr[L[1]->GetHead()] = 1;
    for( int i = 0; i < NN; i++ ) {
        nodes.push_back( new MgrNode() );
        addr[nodes[i]] = i + 2;
    }
}

int main() {
    std::string line;
    reset();
    while( std::getline( std::cin, line ) ) {
        std::istringstream in( line );
        std::string op;
        in >> op;
        if( op == "reset" ) {
            reset();
            std::cout << "ok\n";
            continue;
        }
        int a = -1, b = -1;
        if( op == "a" ) {
            in >> a >> b;
            if( a < 0 || a > 1 || b < 2 || b >= NN + 2 ) { std::cout << "bad-op\n"; continue; }
            L[a]->Append( nodes[b - 2] );
        } else if( op == "c" ) {
            in >> a;
            if( a < 0 || a > 1 ) { std::cout << "bad-op\n"; continue; }
            L[a]->ClearEntries();
        } else if( op == "r" ) {
            in >> b;
            if( b < 2 || b >= NN + 2 ) { std::cout << "bad-op\n"; continue; }
            nodes[b - 2]->Remove();
        } else {
            std::cout << "bad-op\n";
            continue;
        }
        dump();
    }
    return 0;
}

// IStream correspondence (C09 and every later reader check): runs operation scripts on a real
// std::istringstream; the Lean driver m_c09 runs the same scripts on lean/StepModel/IStream.lean.
//
//   st <hex buffer> <script>      one letter per operation:
//       w  in >> ws          p  in.peek()          g  in.get(c)         c  in >> c (char)     i  in.ignore()
//       l  in >> long        n  in >> int          d  in >> double      k  in.clear()
//       s  unsetf(skipws)    S  setf(skipws)       b  putback(last consumed char)   B  putback('?')
//   -> S {op}:{result}/{pos}/{eof}{fail}{bad} ...   (pos = offset after the op, measured on a cleared copy of the state)
//
// `d` prints the IEEE bits of the stored value when the extraction succeeded, `inv` when the text was not a number
// (value 0) and `ovf` when it overflowed (value ±DBL_MAX) - the same three outcomes the model distinguishes.
#include <cstdio>
#include <cstring>
#include <cfloat>
#include <iostream>
#include <sstream>
#include <string>

static bool unhex( const std::string & h, std::string & out ) {
    out.clear();
    if( h == "-" ) return true;
    if( h.size() % 2 ) return false;
    for( size_t i = 0; i < h.size(); i += 2 ) {
        int v = 0;
        for( int k = 0; k < 2; k++ ) {
            char c = h[i + k];
            int d = ( c >= '0' && c <= '9' ) ? c - '0' : ( c >= 'A' && c <= 'F' ) ? c - 'A' + 10 : ( c >= 'a' && c <= 'f' ) ? c - 'a' + 10 : -1;
            if( d < 0 ) return false;
            v = v * 16 + d;
        }
        out += ( char )v;
    }
    return true;
}

static long posOf( std::istringstream & in, const std::string & buf ) {
    std::ios_base::iostate st = in.rdstate();
    in.clear();
    long p = ( long )in.tellg();
    if( p < 0 ) p = ( long )buf.size();
    in.clear( st );
    return p;
}

int main() {
    std::string line;
    while( std::getline( std::cin, line ) ) {
        std::istringstream ls( line );
        std::string cmd, h, script, buf;
        ls >> cmd >> h >> script;
        if( cmd.empty() ) { std::cout << "\n"; continue; }
        if( cmd != "st" || !unhex( h, buf ) ) { std::cout << "bad-op\n"; continue; }
        std::istringstream in( buf );
        std::ostringstream out;
        out << "S";
        char last = '?';
        for( size_t i = 0; i < script.size(); i++ ) {
            char op = script[i];
            std::ostringstream r;
            switch( op ) {
                case 'w': in >> std::ws; break;
                case 'p': { int c = in.peek(); r << c; break; }
                case 'g': { char c = 0; bool ok = ( bool )in.get( c ); if( ok ) r << ( int )( unsigned char )c; else r << "x"; break; }
                case 'c': { char c = 0; in >> c; if( !in.fail() ) r << ( int )( unsigned char )c; else r << "x"; break; }
                case 'i': in.ignore(); break;
                case 'l': { long v = 777; in >> v; if( in.fail() && v == 777 ) r << "x"; else r << v; break; }   // 777 untouched = the sentry refused
                case 'n': { int v = 777; in >> v; if( in.fail() && v == 777 ) r << "x"; else r << v; break; }
                case 'd': {
                    double v = 777; in >> v;
                    // a refused sentry (stream not good, or skipws ran into the end) leaves v alone: "x"
                    if( in.fail() && v == 777 ) { r << "x"; break; }
                    if( !in.fail() ) { unsigned long long u; memcpy( &u, &v, 8 ); char b[32]; sprintf( b, "%016llX", u ); r << b; }
                    else if( v == DBL_MAX || v == -DBL_MAX ) r << "ovf";
                    else r << "inv";
                    break;
                }
                case 'k': in.clear(); break;
                case 's': in.unsetf( std::ios::skipws ); break;
                case 'S': in.setf( std::ios::skipws ); break;
                case 'b': {
                    long p = posOf( in, buf );
                    char c = p > 0 ? buf[p - 1] : '?';
                    in.putback( c );
                    break;
                }
                case 'B': in.putback( '?' ); break;
                default: r << "?";
            }
            out << " " << op << ":" << r.str() << "/" << posOf( in, buf ) << "/" << in.eof() << ( ( in.rdstate() & std::ios::failbit ) ? 1 : 0 ) << in.bad();
        }
        std::cout << out.str() << "\n";
    }
    return 0;
}

// C09 harness: drives the real STEPattribute::STEPread / STEPwrite / asStr on the one-entity-per-kind schema
// corpus/C09/lit.exp (compiled by the scratch exp2cxx), line protocol shared with lean/Drivers/C09.lean.
//
//   rd <KIND> <opt 0|1> <strict 0|1> <hex token bytes> <hex context bytes (delimiter context + rest)>
//        -> R sev=<NAME> val=<V> pos=<n> eof=<b> fail=<b> w=<hex of STEPwrite> s=<hex of asStr>
//   sq <KIND> <opt> <hex STRING token> <hex bytes>   read a STRING attribute, the `,`, then a <KIND> attribute from one stream
//   ag <KIND> <hex bytes>      read the bytes as a required LIST OF <KIND> attribute: severity, element values, stream
//   wr <KIND> <value>          value: INTEGER decimal | REAL/NUMBER 16-hex-digit IEEE bits | STRING/BINARY hex content
//                                     | BOOLEAN/LOGICAL/ENUM element name | REF file id
//        -> W w=<hex of STEPwrite> s=<hex of asStr> | R ... (the written token followed by ',' read back by STEPread)
//   fl g15 <16-hex bits>       -> F <hex of sprintf("%.15G")>            (FloatLaws validation against libc)
//   fl parse <hex text>        -> F ok=<b> bits=<16hex> used=<n>         (strtod as libstdc++'s num_get uses it)
//
// KIND in INTEGER REAL NUMBER STRING BINARY BOOLEAN LOGICAL ENUM REF.
// V: unset | i:<dec> | r:<16hex bits> | s:<hex> | b:<hex> | e:<NAME> | #<id>
// `pos` is the stream offset after the call (state bits captured first, then cleared for tellg).
// Instances #1 #5 #12 #123 #2147483647 of entity tgt and #7 of entity other exist in the instance manager for REF
// (ids that 32-bit wrap-around of 2^32+k, 2^64+k, 2^32+2^31-1 would hit).
#include <cstdio>
#include <cstdlib>
#include <cstring>
#include <cmath>
#include <iostream>
#include <sstream>
#include <string>
#include <map>
#include "schema.h"
#include "clstepcore/sdai.h"
#include "clstepcore/instmgr.h"
#include "clstepcore/STEPattribute.h"
#include "clstepcore/Registry.h"

static const char * sevName( Severity s ) {
    switch( s ) {
        case SEVERITY_MAX: return "MAX";
        case SEVERITY_DUMP: return "DUMP";
        case SEVERITY_EXIT: return "EXIT";
        case SEVERITY_BUG: return "BUG";
        case SEVERITY_INPUT_ERROR: return "INPUT_ERROR";
        case SEVERITY_WARNING: return "WARNING";
        case SEVERITY_INCOMPLETE: return "INCOMPLETE";
        case SEVERITY_USERMSG: return "USERMSG";
        case SEVERITY_NULL: return "NULL";
    }
    return "?";
}

static std::string hex( const std::string & s ) {
    static const char * d = "0123456789ABCDEF";
    std::string o;
    for( size_t i = 0; i < s.size(); i++ ) {
        unsigned char c = ( unsigned char )s[i];
        o += d[c >> 4];
        o += d[c & 15];
    }
    return o.empty() ? "-" : o;
}
static bool unhex( const std::string & h, std::string & out ) {
    out.clear();
    if( h == "-" ) return true;
    if( h.size() % 2 ) return false;
    for( size_t i = 0; i < h.size(); i += 2 ) {
        int v = 0;
        for( int k = 0; k < 2; k++ ) {
            char c = h[i + k];
            int d = ( c >= '0' && c <= '9' ) ? c - '0' : ( c >= 'A' && c <= 'F' ) ? c - 'A' + 10 : ( c >= 'a' && c <= 'f' ) ? c - 'a' + 10 : -1;
            if( d < 0 ) return false;
            v = v * 16 + d;
        }
        out += ( char )v;
    }
    return true;
}

static Registry * reg = 0;
static InstMgr * mgr = 0;
static std::map<std::string, SDAI_Application_instance *> inst; // "e_int" / "o_int" ...

static const char * KINDS[] = { "INTEGER", "REAL", "NUMBER", "STRING", "BINARY", "BOOLEAN", "LOGICAL", "ENUM", "REF" };
static const char * SUFF[]  = { "int", "real", "num", "str", "bin", "bool", "log", "enum", "ref" };

static STEPattribute * attrOf( const std::string & kind, int opt ) {
    for( int i = 0; i < 9; i++ ) if( kind == KINDS[i] ) {
            std::string nm = std::string( opt == 2 ? "a_" : opt ? "o_" : "e_" ) + SUFF[i];
            std::map<std::string, SDAI_Application_instance *>::iterator it = inst.find( nm );
            if( it == inst.end() ) return 0;
            return &( it->second->attributes[0] );
        }
    return 0;
}

static std::string bitsOf( double d ) {
    unsigned long long u;
    memcpy( &u, &d, 8 );
    char b[32];
    sprintf( b, "%016llX", u );
    return b;
}

static std::string valueOf( STEPattribute * a ) {
    if( a->is_null() ) return "unset";
    char b[64];
    switch( a->NonRefType() ) {
        case INTEGER_TYPE: sprintf( b, "i:%ld", *( a->ptr.i ) ); return b;
        case REAL_TYPE:
        case NUMBER_TYPE: return "r:" + bitsOf( *( a->ptr.r ) );
        case STRING_TYPE: return "s:" + hex( a->ptr.S->c_str() );
        case BINARY_TYPE: return "b:" + hex( a->ptr.b->c_str() );
        case BOOLEAN_TYPE:
        case LOGICAL_TYPE:
        case ENUM_TYPE: { std::string t; a->ptr.e->asStr( t ); return "e:" + t; }
        case ENTITY_TYPE: sprintf( b, "#%d", ( *( a->ptr.c ) )->StepFileId() ); return b;
        default: return "?";
    }
}

// the elements of an aggregate attribute (LIST OF <kind>), `;`-separated, in the value notation of valueOf()
static std::string elemsOf( STEPattribute * a, int kindIdx ) {
    STEPaggregate * ag = a->ptr.a;
    if( !ag || ag->is_null() ) return "null";
    std::string out = "[";
    bool first = true;
    for( SingleLinkNode * n = ag->GetHead(); n; n = n->NextNode() ) {
        char b[64];
        std::string v;
        switch( kindIdx ) {
            case 0: { long x = ( ( IntNode * )n )->value; if( x == S_INT_NULL ) v = "unset"; else { sprintf( b, "i:%ld", x ); v = b; } break; }
            case 1:
            case 2: { double x = ( ( RealNode * )n )->value; if( x == S_REAL_NULL ) v = "unset"; else v = "r:" + bitsOf( x ); break; }
            case 3: { SDAI_String & x = ( ( StringNode * )n )->value; if( x.empty() ) v = "unset"; else v = "s:" + hex( x.c_str() ); break; }
            case 4: { SDAI_Binary & x = ( ( BinaryNode * )n )->value; if( x.empty() ) v = "unset"; else v = "b:" + hex( x.c_str() ); break; }
            case 5:
            case 6:
            case 7: { SDAI_Enum * x = ( ( EnumNode * )n )->node; if( !x || x->is_null() ) v = "unset"; else { std::string t; x->asStr( t ); v = "e:" + t; } break; }
            case 8: { SDAI_Application_instance * x = ( ( EntityNode * )n )->node; if( !x || x == S_ENTITY_NULL ) v = "unset"; else { sprintf( b, "#%d", x->StepFileId() ); v = b; } break; }
            default: v = "?";
        }
        if( !first ) out += ";";
        first = false;
        out += v;
    }
    return out + "]";
}

static std::string doReadAggr( STEPattribute * a, int kindIdx, const std::string & bytes ) {
    std::istringstream in( bytes );
    Severity sv = a->STEPread( in, mgr, 0, 0, true );
    bool e = in.eof(), f = in.fail();
    in.clear();
    long pos = ( long )in.tellg();
    std::ostringstream o;
    o << "A sev=" << sevName( sv ) << " val=" << elemsOf( a, kindIdx ) << " pos=" << pos << " eof=" << e << " fail=" << f;
    return o.str();
}

static std::string doRead( STEPattribute * a, const std::string & bytes, bool strict ) {
    std::istringstream in( bytes );
    Severity sv = a->STEPread( in, mgr, 0, 0, strict );
    bool e = in.eof(), f = in.fail();
    in.clear();
    long pos = ( long )in.tellg();
    std::ostringstream w;
    a->STEPwrite( w );
    std::string as = a->asStr();
    std::ostringstream o;
    o << "R sev=" << sevName( sv ) << " val=" << valueOf( a ) << " pos=" << pos << " eof=" << e << " fail=" << f
      << " w=" << hex( w.str() ) << " s=" << hex( as );
    return o.str();
}

int main() {
    reg = new Registry( SchemaInit );
    mgr = new InstMgr();
    for( int i = 0; i < 9; i++ ) for( int o = 0; o < 3; o++ ) {
            std::string nm = std::string( o == 2 ? "a_" : o ? "o_" : "e_" ) + SUFF[i];
            std::string up = nm;
            up[0] = toupper( up[0] );
            SDAI_Application_instance * s = reg->ObjCreate( up.c_str() );
            if( !s || s == ENTITY_NULL ) {
                fprintf( stderr, "cannot create %s\n", up.c_str() );
                return 2;
            }
            inst[nm] = s;
        }
    int tids[] = { 1, 5, 12, 123, 2147483647 };
    for( int i = 0; i < 5; i++ ) {
        SDAI_Application_instance * t = reg->ObjCreate( "Tgt" );
        t->StepFileId( tids[i] );
        mgr->Append( t, completeSE );
    }
    {
        SDAI_Application_instance * t = reg->ObjCreate( "Other" );
        t->StepFileId( 7 );
        mgr->Append( t, completeSE );
    }
    std::string line;
    while( std::getline( std::cin, line ) ) {
        std::istringstream ls( line );
        std::string cmd;
        ls >> cmd;
        if( cmd.empty() ) { std::cout << "\n"; continue; }
        if( cmd == "rd" ) {
            std::string kind, h, h2, bytes, ctx; int opt = 0, strict = 1;
            ls >> kind >> opt >> strict >> h >> h2;
            STEPattribute * a = attrOf( kind, opt );
            if( !a || h2.empty() || !unhex( h, bytes ) || !unhex( h2, ctx ) ) { std::cout << "bad-op\n"; continue; }
            std::cout << doRead( a, bytes + ctx, strict != 0 ) << "\n";
        } else if( cmd == "sq" ) {
            // sq <KIND> <opt> <hex STRING token> <hex bytes>: on ONE stream holding <STRING token> `,` <bytes>, read the STRING
            // attribute, take the `,` with in.get(), then read the <KIND> attribute: the second read starts in the middle of the
            // stream, with the skipws flag as SDAI_String::STEPread left it
            std::string kind, h, h2, first, bytes; int opt = 0;
            ls >> kind >> opt >> h >> h2;
            STEPattribute * s = attrOf( "STRING", 0 );
            STEPattribute * a = attrOf( kind, opt );
            if( !a || !s || h2.empty() || !unhex( h, first ) || !unhex( h2, bytes ) ) { std::cout << "bad-op\n"; continue; }
            std::istringstream in( first + "," + bytes );
            Severity s1 = s->STEPread( in, mgr, 0, 0, true );
            in.get();
            Severity sv = a->STEPread( in, mgr, 0, 0, true );
            bool e = in.eof(), f = in.fail();
            in.clear();
            long pos = ( long )in.tellg();
            std::ostringstream o;
            o << "R first=" << sevName( s1 ) << " sev=" << sevName( sv ) << " val=" << valueOf( a ) << " pos=" << pos << " eof=" << e << " fail=" << f;
            std::cout << o.str() << "\n";
        } else if( cmd == "ag" ) {
            // ag <KIND> <hex bytes>: STEPattribute::STEPread of a required LIST OF <KIND> attribute on the bytes
            std::string kind, h, bytes;
            ls >> kind >> h;
            int ki = -1;
            for( int i = 0; i < 9; i++ ) if( kind == KINDS[i] ) ki = i;
            STEPattribute * a = attrOf( kind, 2 );
            if( !a || ki < 0 || !unhex( h, bytes ) ) { std::cout << "bad-op\n"; continue; }
            std::cout << doReadAggr( a, ki, bytes ) << "\n";
        } else if( cmd == "wr" ) {
            std::string kind, v;
            ls >> kind >> v;
            STEPattribute * a = attrOf( kind, 0 );
            if( !a ) { std::cout << "bad-op\n"; continue; }
            a->set_null();
            bool ok = true;
            std::string raw;
            switch( a->NonRefType() ) {
                case INTEGER_TYPE: *( a->ptr.i ) = strtol( v.c_str(), 0, 10 ); break;
                case REAL_TYPE:
                case NUMBER_TYPE: { unsigned long long u = strtoull( v.c_str(), 0, 16 ); double d; memcpy( &d, &u, 8 ); *( a->ptr.r ) = d; break; }
                case STRING_TYPE: ok = unhex( v, raw ); *( a->ptr.S ) = raw.c_str(); break;
                case BINARY_TYPE: ok = unhex( v, raw ); *( a->ptr.b ) = raw.c_str(); break;
                case BOOLEAN_TYPE:
                case LOGICAL_TYPE:
                case ENUM_TYPE: a->ptr.e->put( v.c_str() ); break;
                case ENTITY_TYPE: {
                    MgrNodeBase * mn = mgr->FindFileId( atoi( v.c_str() ) );
                    if( !mn ) ok = false; else *( a->ptr.c ) = mn->GetSTEPentity();
                    break;
                }
                default: ok = false;
            }
            if( !ok ) { std::cout << "bad-op\n"; continue; }
            std::ostringstream w;
            a->STEPwrite( w );
            std::string as = a->asStr();
            std::string tok = w.str();
            std::cout << "W w=" << hex( tok ) << " s=" << hex( as ) << " | " << doRead( a, tok + ",", true ) << "\n";
        } else if( cmd == "fl" ) {
            std::string sub, v;
            ls >> sub >> v;
            if( sub == "g15" || sub == "g16" || sub == "g17" ) {
                unsigned long long u = strtoull( v.c_str(), 0, 16 ); double d; memcpy( &d, &u, 8 );
                char b[128];
                sprintf( b, "%.*G", atoi( sub.c_str() + 1 ), d );
                std::cout << "F " << hex( b ) << "\n";
            } else if( sub == "parse" ) {
                std::string t;
                if( !unhex( v, t ) ) { std::cout << "bad-op\n"; continue; }
                // exactly what `istream >> double` does with the accumulated text
                std::istringstream in( t );
                double d = 0;
                in >> d;
                bool f = in.fail();
                in.clear();
                long used = in.eof() ? ( long )t.size() : ( long )in.tellg();
                if( used < 0 ) used = ( long )t.size();
                std::cout << "F ok=" << !f << " bits=" << bitsOf( d ) << " used=" << used << "\n";
            } else std::cout << "bad-op\n";
        } else {
            std::cout << "bad-op\n";
        }
    }
    std::cout.flush();
    return 0;
}

// C05 harness: the real Part 21 reader/writer under ASan+UBSan, driven over files and over single functions.
//
//   h_p21safe files <listfile>
//       listfile lines:  <mode> <budget_seconds> <path | hex:<bytes>>     mode: x = exchange file, w = working-session file
//       (hex: the bytes are written to a private temporary file first — the reader re-opens the file by name for pass 2)
//       per input:  "B <idx>"  (before),  then
//                   "E <idx> sev=<int> ord=<0|1> n=<instances> out=<bytes written> ms=<wall> cpu=<process CPU ms>"  (after)
//       read (ReadExchangeFile | ReadWorkingFile) -> WriteExchangeFile -> WriteWorkingFile, all on fresh objects.
//       alarm(<budget>) is armed per input: SIGALRM kills the process => the driver sees "B i" without "E i" and
//       WTERMSIG == SIGALRM  (time-out);  a sanitizer report exits 99/98;  any other signal is a crash.
//   h_p21safe fn
//       stdin lines:  <idx> <fn> <hex bytes> [<int arg>]    ->   "R <idx> ..."  (same line protocol as lean exe m_c05)
//       functions: readreal skipinst findstart readcomment toksep findheader recover exportlist
//                  strupper strlower strconst pretty entnode entname subsuper hdrkw readdata1
//
// Library chatter on cout/cerr is silenced (rdbuf -> null); sanitizer reports go to fd 2 untouched.
#include <cstdio>
#include <cstdlib>
#include <cstring>
#include <csignal>
#include <unistd.h>
#include <fcntl.h>
#include <chrono>
#include <ctime>
#include <fstream>
#include <iostream>
#include <sstream>
#include <string>
#include <vector>
#include "clstepcore/sdai.h"
#include "cleditor/STEPfile.h"
#include "clstepcore/STEPcomplex.h"
#include "clstepcore/STEPaggrSelect.h"
#include "clstepcore/selectTypeDescriptor.h"
#include "clstepcore/complexSupport.h"
#include "clstepcore/read_func.h"
#include "clutils/Str.h"
#include "schema.h"

struct NullBuf : std::streambuf {
    int overflow( int c ) { return c; }
    std::streamsize xsputn( const char *, std::streamsize n ) { return n; }
};
struct CountBuf : std::streambuf {
    long n;
    CountBuf() : n( 0 ) {}
    int overflow( int c ) { ++n; return c; }
    std::streamsize xsputn( const char *, std::streamsize k ) { n += k; return k; }
};

static FILE * proto = 0;

struct SF : public STEPfile {
    SF( Registry & r, InstMgr & i ) : STEPfile( r, i, "", false ) {}
    using STEPfile::FindHeaderSection;
    using STEPfile::CreateSubSuperInstance;
    using STEPfile::ReadHeader;
    using STEPfile::CreateScopeInstances;
    using STEPfile::ReadScopeInstances;
    using STEPfile::ReadData1;
    using STEPfile::ReadData2;
    using STEPfile::FindDataSection;
    int notCreated() const { return _entsNotCreated; }
    int invalid() const { return _entsInvalid; }
    int incomplete() const { return _entsIncomplete; }
};

static bool ordinary( int s ) {
    switch( s ) {
        case SEVERITY_MAX: case SEVERITY_DUMP: case SEVERITY_EXIT: case SEVERITY_BUG: case SEVERITY_INPUT_ERROR:
        case SEVERITY_WARNING: case SEVERITY_INCOMPLETE: case SEVERITY_USERMSG: case SEVERITY_NULL:
            return true;
    }
    return false;
}

static std::string unhex( const std::string & h );

static int run_files( const char * listfile ) {
    std::ifstream lf( listfile );
    std::string mode, path;
    int budget, idx = 0;
    char tmpname[256];
    const char * td = getenv( "C05_TMPDIR" );
    snprintf( tmpname, sizeof tmpname, "%s/h_p21safe.%d.p21", td ? td : "/tmp", ( int )getpid() );
    while( lf >> mode >> budget >> path ) {
        if( path.compare( 0, 4, "hex:" ) == 0 ) {
            std::string bytes = unhex( path.substr( 4 ) );
            FILE * tf = fopen( tmpname, "wb" );
            if( !tf ) { fprintf( stderr, "cannot write %s\n", tmpname ); return 3; }
            fwrite( bytes.data(), 1, bytes.size(), tf );
            fclose( tf );
            path = tmpname;
        }
        fprintf( proto, "B %d\n", idx ); fflush( proto );
        auto t0 = std::chrono::steady_clock::now();
        struct timespec c0; clock_gettime( CLOCK_PROCESS_CPUTIME_ID, &c0 );
        alarm( budget > 0 ? budget : 1 );
        long outb = 0; int sev = 0, n = 0, inv = 0, inc = 0;
        {
            Registry reg( SchemaInit );
            InstMgr im;
            SF sf( reg, im );
            Severity s = ( mode == "w" ) ? sf.ReadWorkingFile( path ) : sf.ReadExchangeFile( path );
            sev = ( int )s;
            n = im.InstanceCount();
            inv = sf.invalid(); inc = sf.incomplete();
            CountBuf cb; std::ostream os( &cb );
            sf.WriteExchangeFile( os );
            CountBuf cb2; std::ostream os2( &cb2 );
            sf.WriteWorkingFile( os2 );
            outb = cb.n + cb2.n;
            im.DeleteInstances();   // destructor path of every instance
        }
        alarm( 0 );
        double ms = std::chrono::duration<double, std::milli>( std::chrono::steady_clock::now() - t0 ).count();
        struct timespec c1; clock_gettime( CLOCK_PROCESS_CPUTIME_ID, &c1 );
        double cpu = ( c1.tv_sec - c0.tv_sec ) * 1000.0 + ( c1.tv_nsec - c0.tv_nsec ) / 1.0e6;   // independent of machine load
        fprintf( proto, "E %d sev=%d ord=%d n=%d out=%ld ms=%.1f cpu=%.1f inv=%d inc=%d\n", idx, sev, ordinary( sev ) ? 1 : 0, n, outb, ms, cpu, inv, inc );
        fflush( proto );
        idx++;
    }
    unlink( tmpname );
    return 0;
}

static std::string unhex( const std::string & h ) {
    std::string s;
    if( h == "-" ) return s;
    for( size_t i = 0; i + 1 < h.size(); i += 2 ) {
        s += ( char )strtol( h.substr( i, 2 ).c_str(), 0, 16 );
    }
    return s;
}

// stream observation shared with the Lean driver:  pos=<bytes consumed> eof=<0|1> fail=<0|1>
static std::string obs( std::istream & in ) {
    bool e = in.eof(), f = in.fail();
    in.clear();
    long p = ( long )in.tellg();
    char b[96];
    snprintf( b, sizeof b, "pos=%ld eof=%d fail=%d", p, e ? 1 : 0, f ? 1 : 0 );
    return b;
}

static int run_fn() {
    std::string line;
    Registry reg( SchemaInit );
    while( std::getline( std::cin, line ) ) {
        std::istringstream ls( line );
        std::string idx, fn, hex; long arg = 0;
        ls >> idx >> fn >> hex; ls >> arg;
        std::string bytes = unhex( hex );
        alarm( 3 );
        std::ostringstream r;
        // "<fn>@f": the same call on a std::ifstream over a file holding the bytes (filebuf: block-wise buffer, one-byte
        // putback area at a block boundary) instead of a std::istringstream
        // ("<fn>@s": istringstream.)  Both forms put |arg| bytes of white space (' ', or '\n' for a negative arg) in front.
        bool viaFile = fn.size() > 2 && fn.compare( fn.size() - 2, 2, "@f" ) == 0;
        bool padded = viaFile || ( fn.size() > 2 && fn.compare( fn.size() - 2, 2, "@s" ) == 0 );
        std::istream * inp = 0;
        char fname[256];
        if( padded ) {
            fn.erase( fn.size() - 2 );
            bytes = std::string( ( size_t )( arg < 0 ? -arg : arg ), arg < 0 ? '\n' : ' ' ) + bytes;
            arg = 0;
        }
        if( viaFile ) {
            const char * td = getenv( "C05_TMPDIR" );
            snprintf( fname, sizeof fname, "%s/h_p21safe.fn.%d.p21", td ? td : "/tmp", ( int )getpid() );
            FILE * tf = fopen( fname, "wb" );
            if( tf ) { fwrite( bytes.data(), 1, bytes.size(), tf ); fclose( tf ); }
            inp = new std::ifstream( fname );
        } else {
            inp = new std::istringstream( bytes );
        }
        if( fn == "readreal" ) {
            std::istream & in = *inp;
            SDAI_Real v = 0; ErrorDescriptor e;
            int assigned = ReadReal( v, in, &e, ",)" );
            r << "ok assigned=" << assigned;
        } else if( fn == "skipinst" || fn == "findstart" ) {
            std::istream & in = *inp;
            std::string inst;
            Severity s = ( fn == "skipinst" ) ? SkipInstance( in, inst ) : FindStartOfInstance( in, inst );
            r << "ok sev=" << ( int )s << " len=" << inst.size() << " " << obs( in );
        } else if( fn == "readcomment" ) {
            std::istream & in = *inp;
            std::string s;
            const char * p = ReadComment( in, s );
            r << "ok ret=" << ( p ? 1 : 0 ) << " len=" << s.size() << " " << obs( in );
        } else if( fn == "toksep" ) {
            std::istream & in = *inp;
            std::string s;
            ReadTokenSeparator( in, &s );
            r << "ok " << obs( in );
        } else if( fn == "findheader" ) {
            std::istream & in = *inp;
            InstMgr im; SF sf( reg, im );
            int f = sf.FindHeaderSection( in );
            r << "ok found=" << f << " " << obs( in );
        } else if( fn == "strupper" || fn == "strlower" || fn == "strconst" ) {
            std::string w( ( size_t )arg, 'a' ), s;
            if( !bytes.empty() ) w = bytes;
            if( fn == "strupper" ) StrToUpper( w.c_str(), s );
            else if( fn == "strlower" ) StrToLower( w.c_str(), s );
            else StrToConstant( w.c_str(), s );
            r << "ok len=" << s.size();
        } else if( fn == "pretty" ) {
            // arg = length, bytes = optional explicit word; 'u' positions given as: word of 'a' with '_' at index arg2
            std::string w( ( size_t )arg, 'a' );
            long us = -1; ls >> us;
            if( us >= 0 && us < ( long )w.size() ) w[us] = '_';
            const char * p = PrettyTmpName( w.c_str() );
            r << "ok len=" << strlen( p );
        } else if( fn == "entnode" ) {
            std::string w( ( size_t )arg, 'A' );
            EntNode * n = new EntNode( w.c_str() );
            r << "ok len=" << strlen( n->Name() );
            delete n;
        } else if( fn == "entname" ) {
            std::string w( ( size_t )arg, 'a' );
            EntNode * n = new EntNode( "x" );
            n->Name( w.c_str() );
            r << "ok len=" << strlen( n->Name() );
            delete n;
        } else if( fn == "subsuper" ) {
            // arg parts "A1(2.5)" repeated inside one external mapping
            std::string rec = "(";
            for( long i = 0; i < arg; i++ ) rec += "A1(2.5)";
            rec += ");";
            std::istringstream in( rec );
            InstMgr im; SF sf( reg, im );
            std::istringstream hdr( "HEADER;FILE_DESCRIPTION((''),'2;1');FILE_NAME('','',(''),(''),'','','');FILE_SCHEMA(('C05A'));ENDSEC;" );
            sf.ReadHeader( hdr );
            ErrorDescriptor e;
            SDAI_Application_instance * o = sf.CreateSubSuperInstance( in, 1, e );
            r << "ok obj=" << ( ( o && o != ENTITY_NULL ) ? 1 : 0 );
            if( o && o != ENTITY_NULL ) delete o;
        } else if( fn == "getkeyword" ) {
            std::istream & in = *inp;
            ErrorDescriptor e;
            std::string kw = GetKeyword( in, ";( /\\", e );
            r << "ok len=" << kw.size() << " " << obs( in );
        } else if( fn == "readheader" ) {
            // ReadHeader on the bytes: ReadTokenSeparator, FindHeaderSection, the loop over the header instances
            std::istream & in = *inp;
            InstMgr im; SF sf( reg, im );
            sf.ReadHeader( in );
            r << "ok " << obs( in );
        } else if( fn == "append1" ) {
            // pass 1 of AppendFile: without a file name the stream for the second pass cannot be opened
            std::istream & in = *inp;
            InstMgr im; SF sf( reg, im );
            sf.AppendFile( &in );
            r << "ok cnt=" << im.InstanceCount() << " " << obs( in );
            im.DeleteInstances();
        } else if( fn == "recover" ) {
            // STEPread of an entity without attributes: `(`, token separator, one character; unless that is `)` the
            // `);` recovery scan runs from there
            std::istream & in = *inp;
            InstMgr im;
            SDAI_Application_instance * o = reg.ObjCreate( "Bare" );
            if( !o || o == ENTITY_NULL ) { r << "no-entity"; }
            else {
                o->STEPread( 1, 0, &im, in, NULL, true, false );
                r << "ok " << obs( in );
                delete o;
            }
        } else if( fn == "finddata" ) {
            std::istream & in = *inp;
            InstMgr im; SF sf( reg, im );
            int f = sf.FindDataSection( in );
            r << "ok found=" << f << " " << obs( in );
        } else if( fn == "subsuperb" ) {
            // CreateSubSuperInstance on the bytes of an external mapping (the stream is positioned at its "(")
            std::istream & in = *inp;
            InstMgr im; SF sf( reg, im );
            std::istringstream hdr( "HEADER;FILE_DESCRIPTION((''),'2;1');FILE_NAME('','',(''),(''),'','','');FILE_SCHEMA(('C05A'));ENDSEC;" );
            sf.ReadHeader( hdr );
            ErrorDescriptor e;
            SDAI_Application_instance * o = sf.CreateSubSuperInstance( in, 1, e );
            if( o && o != ENTITY_NULL ) delete o;
            r << "ok " << obs( in );
        } else if( fn == "readdata1" || fn == "readdata1w" ) {
            // pass 1 of the DATA section (the stream is positioned after "DATA;")
            std::istream & in = *inp;
            InstMgr im; SF sf( reg, im );
            std::istringstream hdr( "HEADER;FILE_DESCRIPTION((''),'2;1');FILE_NAME('','',(''),(''),'','','');FILE_SCHEMA(('C05A'));ENDSEC;" );
            sf.ReadHeader( hdr );
            if( fn == "readdata1w" ) sf.SetFileType( WORKING_SESSION );
            int cnt = sf.ReadData1( in );
            r << "ok cnt=" << cnt << " nc=" << sf.notCreated() << " " << obs( in );
            im.DeleteInstances();
        } else if( fn == "readdata2" ) {
            // both passes over the bytes of a DATA section: pass 1 creates the instances (their ids are reported: they are
            // the model's look-up oracle), pass 2 (ReadData2 -> ReadInstance) is what is observed
            InstMgr im; SF sf( reg, im );
            std::istringstream hdr( "HEADER;FILE_DESCRIPTION((''),'2;1');FILE_NAME('','',(''),(''),'','','');FILE_SCHEMA(('C05A'));ENDSEC;" );
            sf.ReadHeader( hdr );
            std::istringstream in1( bytes );
            sf.ReadData1( in1 );
            r << "ok ids=";
            for( int i = 0; i < im.InstanceCount(); i++ ) {
                r << ( i ? "," : "" ) << im.GetSTEPentity( i )->StepFileId();
            }
            std::istringstream in2( bytes );
            int valid = sf.ReadData2( in2, true );
            r << " cnt=" << valid << " nc=" << sf.invalid() << " " << obs( in2 );
            im.DeleteInstances();
        } else if( fn == "stayin" ) {
            // the hypothesis of the pass-2 theorems on the real record readers: where does `STEPread` (+ the token separator
            // behind it) stop, compared with the ends of this record (p1) and of the next one (p2) as SkipInstance finds them
            // from the record's start?  bytes = the input from the start of a record on.
            std::string t1, t2;
            std::istringstream sk( bytes );
            SkipInstance( sk, t1 ); sk.clear(); long p1 = ( long )sk.tellg();
            SkipInstance( sk, t2 ); sk.clear(); long p2 = ( long )sk.tellg();
            InstMgr im; SF sf( reg, im );
            std::istringstream hdr( "HEADER;FILE_DESCRIPTION((''),'2;1');FILE_NAME('','',(''),(''),'','','');FILE_SCHEMA(('C05A'));ENDSEC;" );
            sf.ReadHeader( hdr );
            std::istringstream in( bytes );
            SDAI_Application_instance * o = 0;
            std::string cmt;
            ReadTokenSeparator( in, &cmt );
            if( in.peek() == '(' ) {
                std::istringstream in1( bytes );
                ErrorDescriptor e;
                o = sf.CreateSubSuperInstance( in1, 1, e );
            } else {
                std::string kw;
                ReadStdKeyword( in, kw, 1 );
                ReadTokenSeparator( in, &cmt );
                o = reg.ObjCreate( kw.c_str() );
            }
            if( !o || o == ENTITY_NULL ) {
                r << "ok none p1=" << p1 << " p2=" << p2;
            } else {
                Severity s = o->STEPread( 1, 0, &im, in, NULL, true, false );
                ReadTokenSeparator( in, &cmt );
                in.clear();
                long prd = ( long )in.tellg();
                r << "ok sev=" << ( int )s << " p1=" << p1 << " p2=" << p2 << " prd=" << prd;
                delete o;
            }
        } else if( fn == "shallowcopy" ) {
            // API history of the listed finding api:selectaggregate-shallowcopy-double-ownership: a select aggregate with one
            // element (bytes = name of a SELECT type of the schema), ShallowCopy into a second aggregate, destroy both
            const TypeDescriptor * td = reg.FindType( bytes.c_str() );
            SelectTypeDescriptor * sd = td ? dynamic_cast< SelectTypeDescriptor * >( const_cast< TypeDescriptor * >( td ) ) : 0;
            if( !sd ) {
                r << "no-select";
            } else {
                SelectAggregate * a = new SelectAggregate;
                a->AddNode( new SelectNode( sd->CreateSelect() ) );
                SelectAggregate * b = new SelectAggregate;
                b->ShallowCopy( *a );
                fprintf( proto, "N %s copied\n", idx.c_str() ); fflush( proto );
                delete a;
                delete b;
                r << "ok destroyed";
            }
        } else if( fn == "hdrkw" ) {
            // a header section whose first entity keyword has <arg> characters
            std::string h = "HEADER;\n" + std::string( ( size_t )arg, 'K' ) + "(());\nENDSEC;\n";
            std::istringstream in( h );
            InstMgr im; SF sf( reg, im );
            Severity s = sf.ReadHeader( in );
            r << "ok sev=" << ( int )s;
        } else {
            r << "bad-op";
        }
        alarm( 0 );
        delete inp;
        if( viaFile ) unlink( fname );
        fprintf( proto, "R %s %s\n", idx.c_str(), r.str().c_str() );
        fflush( proto );
    }
    return 0;
}

int main( int argc, char ** argv ) {
    proto = fdopen( dup( 1 ), "w" );
    int dn = open( "/dev/null", O_WRONLY );
    if( !getenv( "C05_VERBOSE" ) ) {
        dup2( dn, 1 );
    }
    if( !getenv( "C05_VERBOSE" ) ) {
        NullBuf * nb = new NullBuf;   // never destroyed: ios_base::Init::~Init flushes cout at exit
        std::cout.rdbuf( nb );
        std::cerr.rdbuf( nb );
        std::clog.rdbuf( nb );
    }
    if( argc >= 3 && !strcmp( argv[1], "files" ) ) {
        return run_files( argv[2] );
    }
    if( argc >= 2 && !strcmp( argv[1], "fn" ) ) {
        return run_fn();
    }
    fprintf( stderr, "usage: h_p21safe files <list> | fn\n" );
    return 2;
}

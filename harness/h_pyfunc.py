#!/usr/bin/env python3
"""C18 harness for the FUNCTIONs exp2python translates.

    h_pyfunc.py <dir> <module> <spec.json>     runtime from $VERIF_REPO/src/exp2python/python (default /repo)

spec.json: {"funcs": [{"name": f, "args": [[v, …], …]}, …]}
stdout, one JSON object: {"status": "ok", "values": {f: [value | "!Exception", …]}}
                         {"status": "compile-error" | "import-error" | "shape-error", "msg": …}
A call that does not return within 5 s is reported as "!Timeout".
"""
import importlib, json, os, py_compile, signal, sys

REPO = os.environ.get("VERIF_REPO", "/repo")
sys.dont_write_bytecode = True


class Timeout(BaseException):
    pass


def on_alarm(sig, frm):
    raise Timeout()


def main():
    d, mod = sys.argv[1], sys.argv[2]
    spec = json.load(open(sys.argv[3]))
    path = os.path.join(d, mod + ".py")
    try:
        py_compile.compile(path, cfile=os.path.join(d, mod + ".pyc.tmp"), doraise=True)
    except py_compile.PyCompileError as e:
        print(json.dumps({"status": "compile-error", "msg": " ".join(str(e.msg).split())[:300]})); return
    except Exception as e:
        print(json.dumps({"status": "compile-error", "msg": "%s: %s" % (type(e).__name__, " ".join(str(e).split())[:300])})); return
    sys.path.insert(0, os.path.join(REPO, "src", "exp2python", "python"))
    sys.path.insert(0, d)
    try:
        M = importlib.import_module(mod)
    except BaseException as e:
        print(json.dumps({"status": "import-error", "msg": "%s: %s" % (type(e).__name__, " ".join(str(e).split())[:300])})); return
    signal.signal(signal.SIGALRM, on_alarm)
    values = {}
    for f in spec["funcs"]:
        fn = getattr(M, f["name"], None) or getattr(M, f["name"] + "_", None)
        if fn is None:
            print(json.dumps({"status": "shape-error", "msg": "no function %s in the module" % f["name"]})); return
        row = []
        for args in f["args"]:
            signal.alarm(5)
            try:
                v = fn(*args)
                if isinstance(v, int) and not isinstance(v, bool):
                    # very large results are reported by their residue (json and int->str conversion have digit limits)
                    row.append(v if abs(v) < 10 ** 15 else "big:%d" % (v % 1000000007))
                else:
                    row.append("%s:%r" % (type(v).__name__, v))
            except Timeout:
                row.append("!Timeout")
            except BaseException as e:
                row.append("!" + type(e).__name__)
            finally:
                signal.alarm(0)
        values[f["name"]] = row
    print(json.dumps({"status": "ok", "values": values}))


main()

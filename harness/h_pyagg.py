#!/usr/bin/env python3
"""C19 harness: drives the *bundled* Python runtime's ARRAY/LIST/BAG/SET in-process.

Same line protocol as the Lean driver m_c19 (lean/Drivers/C19.lean): one request per line, one reply per line.

  new KIND lo hi base U O N     KIND in ARRAY LIST BAG SET; lo int; hi int or `?` (indeterminate upper bound);
                                base 0|1|2 (INTEGER STRING REAL); U,O = UNIQUE/OPTIONAL flags 0|1;
                                N = 1: the base type is passed *by name* with scope= (exercises Type.get_type)
  set i t v | get i | add t v   item assignment, item read, BAG/SET add; value = type tag t, payload v
  size hiindex loindex hibound lobound unique
replies
  ok | val t v | unset | refused <ExceptionClass> | int n | indet | logical T|F|U | no-aggregate | bad-op

The exception class is reported only for the histogram in the evidence; the check compares `refused` only.
The runtime is imported from $VERIF_REPO/src/exp2python/python (default /repo).
"""
import os, sys

REPO = os.environ.get("VERIF_REPO", "/repo")
sys.path.insert(0, os.path.join(REPO, "src", "exp2python", "python"))
sys.dont_write_bytecode = True

from stepcode.SimpleDataTypes import INTEGER, STRING, REAL, LOGICAL, Unknown  # noqa: E402
from stepcode import AggregationDataTypes as A                               # noqa: E402

BASES = [INTEGER, STRING, REAL]
BASE_NAMES = ["INTEGER", "STRING", "REAL"]
SCOPE = sys.modules[__name__]


def mk_val(t, v):
    if t == 0:
        return INTEGER(v)
    if t == 1:
        return STRING("s%d" % v)
    if t == 2:
        return REAL(v + 0.5)
    raise ValueError("type tag")


def show_val(x):
    if x is None:
        return "unset"
    if isinstance(x, INTEGER):
        return "val 0 %d" % int(x)
    if isinstance(x, STRING) and x[:1] == "s":
        return "val 1 %s" % x[1:]
    if isinstance(x, REAL):
        return "val 2 %d" % int(float(x) - 0.5)
    return "val ? %r" % (x,)


def show_int(x):
    if x is None:
        return "indet"
    if isinstance(x, bool) or not isinstance(x, int):
        return "notint %r" % (x,)
    return "int %d" % int(x)


def show_logical(x):
    if x is True:
        return "logical T"
    if x is False:
        return "logical F"
    if x is Unknown or isinstance(x, LOGICAL):
        return "logical U"
    return "notlogical %r" % (x,)


def refused(e):
    return "refused " + type(e).__name__


def handle(agg, w):
    """returns (agg, reply)"""
    op = w[0]
    if op == "new":
        if len(w) != 8:
            return agg, "bad-op"
        kind, lo, hi, base, u, o, byname = w[1], int(w[2]), (None if w[3] == "?" else int(w[3])), int(w[4]), w[5] == "1", w[6] == "1", w[7] == "1"
        bt = BASE_NAMES[base] if byname else BASES[base]
        kw = {"scope": SCOPE} if byname else {}
        try:
            if kind == "ARRAY":
                agg = A.ARRAY(lo, hi, bt, UNIQUE=u, OPTIONAL=o, **kw)
            elif kind == "LIST":
                agg = A.LIST(lo, hi, bt, UNIQUE=u, **kw)
            elif kind == "BAG":
                agg = A.BAG(lo, hi, bt, **kw)
            elif kind == "SET":
                agg = A.SET(lo, hi, bt, **kw)
            else:
                return None, "bad-op"
        except Exception as e:
            return None, refused(e)
        return agg, "ok"
    if agg is None:
        return agg, "no-aggregate"
    indexed = isinstance(agg, (A.ARRAY, A.LIST))
    try:
        if op == "set" and len(w) == 4 and indexed:
            agg[int(w[1])] = mk_val(int(w[2]), int(w[3]))
            return agg, "ok"
        if op == "get" and len(w) == 2 and indexed:
            return agg, show_val(agg[int(w[1])])
        if op == "add" and len(w) == 3 and not indexed:
            agg.add(mk_val(int(w[1]), int(w[2])))
            return agg, "ok"
        if len(w) == 1:
            if op == "size":
                return agg, show_int(agg.get_size())
            if op == "hiindex":
                return agg, show_int(agg.get_hiindex())
            if op == "loindex":
                return agg, show_int(agg.get_loindex())
            if op == "hibound":
                return agg, show_int(agg.get_hibound())
            if op == "lobound":
                return agg, show_int(agg.get_lobound())
            if op == "unique":
                return agg, show_logical(agg.get_value_unique())
    except Exception as e:
        return agg, refused(e)
    return agg, "bad-op"


def main():
    agg = None
    out = sys.stdout
    for line in sys.stdin:
        w = line.split()
        if not w:
            continue
        try:
            agg, r = handle(agg, w)
        except Exception as e:          # malformed request
            r = "bad-op"
        out.write(r + "\n")
    out.flush()


# the names below make by-name base types resolvable in this module's scope
if __name__ == "__main__":
    main()

#!/usr/bin/env python3
"""C19 harness: drives the *bundled* Python runtime's ARRAY/LIST/BAG/SET in-process.

Same line protocol as the Lean driver m_c19 (lean/Drivers/C19.lean): one request per line, one reply per line.

  reset                         forget all containers (the interpreter and the runtime's module state stay!)
  use i                         select container slot i (several containers live side by side in one process)
  new KIND lo hi base U O N     create a container in the current slot; KIND in ARRAY LIST BAG SET; lo int; hi int or
                                `?` (indeterminate upper bound); base = 0|1|2|3|4|5 (INTEGER STRING REAL(whole numbers) BOOLEAN(payload 0/1) LOGICAL(payload 0 = Unknown) NUMBER(base type only) 6|7 two ENUMERATIONs E1 E2 (payload = member)) or s<mask> = SELECT over the tags whose bits are set (base type only) or kind letters down to
                                a simple type: A0, LS2 (LIST OF SET OF REAL), ALS2 …; U,O = UNIQUE/OPTIONAL flags 0|1;
                                N = 1: the base type is passed *by name* with scope= (exercises Type.get_type)
  set i t v | get i | add t v   item assignment, item read, BAG/SET add; value = type t (as for base), payload v;
                                for an aggregate type the payload is the identity of the inner aggregate object; an element
                                with an EVEN payload whose base type equals the base type of the container's declared
                                element type is built over the declaration's own base-type object, all others over fresh
                                (structurally equal) objects
  size hiindex loindex hibound lobound unique
  fits K lo hi K' lo' hi'       may a `K [lo:hi] OF REAL` object be stored where `K' [lo':hi'] OF REAL` is the declared element type?
  accepts t base                is a value of the simple type t stored by a `LIST [0:?] OF base`?
  mem t v                       `value in container` (EXPRESS `IN`): logical T | logical F | refused …
  bi F | biv F t v              the built-in function F of Builtin.py (SIZEOF HIINDEX LOINDEX HIBOUND LOBOUND VALUE_UNIQUE)
                                applied to the current container | to a simple value
replies
  ok | val t v | unset | refused <ExceptionClass> | int n | indet | logical T|F|U | no-aggregate | bad-op

The exception class is reported only for the histogram in the evidence; the check compares `refused` only.
The runtime is imported from $VERIF_REPO/src/exp2python/python (default /repo).
"""
import os, sys

REPO = os.environ.get("VERIF_REPO", "/repo")
sys.path.insert(0, os.path.join(REPO, "src", "exp2python", "python"))
sys.dont_write_bytecode = True

from stepcode.SimpleDataTypes import INTEGER, STRING, REAL, LOGICAL, BOOLEAN, NUMBER, BINARY, Unknown  # noqa: E402
from stepcode import AggregationDataTypes as A                               # noqa: E402
from stepcode.BaseType import Aggregate as BaseTypeAggregate                 # noqa: E402

from stepcode import Builtin                                                 # noqa: E402
BUILTIN = ("SIZEOF", "HIINDEX", "LOINDEX", "HIBOUND", "LOBOUND", "VALUE_UNIQUE")
from stepcode.ConstructedDataTypes import ENUMERATION, SELECT                # noqa: E402
E1 = ENUMERATION("E1", " ".join("m%d" % i for i in range(16)))
E2 = ENUMERATION("E2", " ".join("m%d" % i for i in range(16)))
BASES = [INTEGER, STRING, REAL, BOOLEAN, LOGICAL, NUMBER, E1, E2, BINARY]
BASE_NAMES = ["INTEGER", "STRING", "REAL", "BOOLEAN", "LOGICAL", "NUMBER", "E1", "E2", "BINARY"]
SCOPE = sys.modules[__name__]


INNER = {"A": lambda b: A.ARRAY(1, 2, b), "L": lambda b: A.LIST(0, None, b), "B": lambda b: A.BAG(0, None, b),
         "S": lambda b: A.SET(0, None, b)}
OBJECTS = {}        # (type token, payload) -> inner aggregate object, and id(object) -> (token, payload); per `reset`


def parse_ty(t):
    """-> nested tuple: ('s', tag) | (kind letter, inner)"""
    if len(t) > 6:
        raise ValueError("type token")
    if t[:1] == "s":                               # SELECT over the simple types whose bits are set in the mask
        m = int(t[1:])
        if not 0 < m < 256:
            raise ValueError("select mask")
        return ("sel", m)
    if len(t) == 1:
        if t not in "012345678":
            raise ValueError("type tag")
        return ("s", int(t))
    if t[0] in INNER:
        return (t[0], parse_ty(t[1:]))
    raise ValueError("type token")


def build(ty):
    if ty[0] == "sel":
        return SELECT(*[BASE_NAMES[i] for i in range(8) if ty[1] >> i & 1], scope=SCOPE)
    return BASES[ty[1]] if ty[0] == "s" else INNER[ty[0]](build(ty[1]))


def mk_type(t):
    return build(parse_ty(t))


def mk_val(t, v, declared=None):
    """declared = (token, object) of the current container's element type"""
    ty = parse_ty(t)
    if ty[0] == "sel":
        raise ValueError("a SELECT has no values of its own")
    if ty[0] != "s":
        if (t, v) not in OBJECTS:
            inner_tok = t[1:]
            if (declared and v % 2 == 0 and len(declared[0]) > 1 and declared[0][1:] == inner_tok
                    and isinstance(declared[1], BaseTypeAggregate)):
                base_obj = declared[1].get_type()          # the declaration's own base-type object (or class)
            else:
                base_obj = build(ty[1])
            o = INNER[ty[0]](base_obj)
            OBJECTS[(t, v)] = o
            OBJECTS[id(o)] = (t, v)
        return OBJECTS[(t, v)]
    b = ty[1]
    if b == 5:
        raise ValueError("NUMBER has no values of its own")
    if b == 0:
        return INTEGER(v)
    if b == 1:
        return STRING("s%d" % v)        # never the text of a BINARY value: STRING and BINARY values are never python-equal here
    if b == 8:
        return BINARY(format(v, "b"))
    if b == 2:
        return REAL(v)                  # whole numbers: REAL(1.0) == INTEGER(1) == True in python
    if b in (6, 7):
        return BASES[b]["m%d" % (v % 16)]
    if b == 3:
        return bool(v % 2)              # BOOLEAN = bool; payloads 0/1
    # LOGICAL: payload 0 is the runtime's `Unknown`, every other payload its own LOGICAL object
    if (t, v) not in OBJECTS:
        o = Unknown if v == 0 else LOGICAL()
        OBJECTS[(t, v)] = o
        OBJECTS[id(o)] = (t, v)
    return OBJECTS[(t, v)]


def show_val(x):
    if x is None:
        return "unset"
    if isinstance(x, BaseTypeAggregate):
        tv = OBJECTS.get(id(x))
        return "val %s %d" % tv if tv else "val ? %r" % (x,)
    if isinstance(x, E1) or isinstance(x, E2):
        return "val %d %s" % (6 if isinstance(x, E1) else 7, x.name[1:])
    if isinstance(x, bool):
        return "val 3 %d" % int(x)
    if isinstance(x, LOGICAL):
        tv = OBJECTS.get(id(x))
        return "val %s %d" % tv if tv else "val ? %r" % (x,)
    if isinstance(x, BINARY):
        return "val 8 %d" % int(x, 2)
    if isinstance(x, INTEGER):
        return "val 0 %d" % int(x)
    if isinstance(x, STRING) and x[:1] == "s":
        return "val 1 %s" % x[1:]
    if isinstance(x, REAL):
        return "val 2 %d" % int(float(x))
    return "val ? %r" % (x,)


def show_int(x):
    if x is None:
        return "indet"
    if isinstance(x, bool) or not isinstance(x, int):
        return "notint %r" % (x,)
    return "int %d" % int(x)


def show_logical(x):
    if x is True:
        return "logical T"
    if x is False:
        return "logical F"
    if x is Unknown or isinstance(x, LOGICAL):
        return "logical U"
    return "notlogical %r" % (x,)


def refused(e):
    return "refused " + type(e).__name__


def handle(agg, w):
    """returns (agg, reply)"""
    op = w[0]
    if op == "new":
        if len(w) != 8:
            return agg, "bad-op"
        kind, lo, hi, base, u, o, byname = w[1], int(w[2]), (None if w[3] == "?" else int(w[3])), w[4], w[5] == "1", w[6] == "1", w[7] == "1"
        byname = byname and base.isdigit() and int(base) < 6
        bt = BASE_NAMES[int(base)] if byname else mk_type(base)
        kw = {"scope": SCOPE} if byname else {}
        try:
            if kind == "ARRAY":
                agg = A.ARRAY(lo, hi, bt, UNIQUE=u, OPTIONAL=o, **kw)
            elif kind == "LIST":
                agg = A.LIST(lo, hi, bt, UNIQUE=u, **kw)
            elif kind == "BAG":
                agg = A.BAG(lo, hi, bt, **kw)
            elif kind == "SET":
                agg = A.SET(lo, hi, bt, **kw)
            else:
                return None, "bad-op"
        except Exception as e:
            return None, refused(e)
        agg._verif_declared = (base, None if byname else bt)
        return agg, "ok"
    if op == "accepts" and len(w) == 3:
        try:
            probe = A.LIST(0, None, mk_type(w[2]))
            value = mk_val(w[1], 1)
        except Exception as e:
            return agg, "bad-op"
        try:
            probe[1] = value
            return agg, "ok"
        except Exception as e:
            return agg, refused(e)
    if op == "fits" and len(w) == 7:
        kinds = {"ARRAY": A.ARRAY, "LIST": A.LIST, "BAG": A.BAG, "SET": A.SET}
        hi = lambda x: None if x == "?" else int(x)
        try:
            declared = kinds[w[4]](int(w[5]), hi(w[6]), REAL)
            element = kinds[w[1]](int(w[2]), hi(w[3]), REAL)
        except Exception as e:
            return agg, "bad-op"
        outer = A.ARRAY(1, 1, declared, OPTIONAL=True)
        try:
            outer[1] = element
            return agg, "ok"
        except Exception as e:
            return agg, refused(e)
    if op == "biv" and len(w) == 4 and w[1] in BUILTIN:
        try:
            r = getattr(Builtin, w[1])(mk_val(w[2], int(w[3])))
            return agg, "notrefused %r" % (r,)
        except Exception as e:
            return agg, refused(e)
    if agg is None:
        return agg, "no-aggregate"
    if op == "mem" and len(w) == 3:
        try:
            r = mk_val(w[1], int(w[2]), agg._verif_declared) in agg
        except Exception as e:
            return agg, refused(e)
        return agg, show_logical(r)
    if op == "bi" and len(w) == 2 and w[1] in BUILTIN:
        try:
            r = getattr(Builtin, w[1])(agg)
        except Exception as e:
            return agg, refused(e)
        return agg, (show_logical(r) if w[1] == "VALUE_UNIQUE" else show_int(r))
    indexed = isinstance(agg, (A.ARRAY, A.LIST))
    try:
        if op == "set" and len(w) == 4 and indexed:
            agg[int(w[1])] = mk_val(w[2], int(w[3]), agg._verif_declared)
            return agg, "ok"
        if op == "get" and len(w) == 2 and indexed:
            return agg, show_val(agg[int(w[1])])
        if op == "add" and len(w) == 3 and not indexed:
            agg.add(mk_val(w[1], int(w[2]), agg._verif_declared))
            return agg, "ok"
        if len(w) == 1:
            if op == "size":
                return agg, show_int(agg.get_size())
            if op == "hiindex":
                return agg, show_int(agg.get_hiindex())
            if op == "loindex":
                return agg, show_int(agg.get_loindex())
            if op == "hibound":
                return agg, show_int(agg.get_hibound())
            if op == "lobound":
                return agg, show_int(agg.get_lobound())
            if op == "unique":
                return agg, show_logical(agg.get_value_unique())
    except Exception as e:
        return agg, refused(e)
    return agg, "bad-op"


def main():
    slots, cur = {}, 0
    out = sys.stdout
    for line in sys.stdin:
        w = line.split()
        if not w:
            continue
        try:
            if w == ["reset"]:
                slots, cur = {}, 0
                OBJECTS.clear()
                r = "ok"
            elif w[0] == "use" and len(w) == 2:
                cur = int(w[1]); r = "ok"
            else:
                slots[cur], r = handle(slots.get(cur), w)
        except Exception as e:          # malformed request
            r = "bad-op"
        out.write(r + "\n")
    out.flush()


# the names below make by-name base types resolvable in this module's scope
if __name__ == "__main__":
    main()

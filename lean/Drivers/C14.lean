import StepModel.SessionProto
/-! C14 driver: the session protocol of StepModel/SessionProto.lean -/
def main : IO Unit := StepModel.SessionProto.run

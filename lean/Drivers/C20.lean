import StepModel.ExpressDriver
/-! Driver `m_c20`: line protocol over `Express.Diag` / `Express.Lex` / `Express.Resolve` (see StepModel/ExpressDriver.lean). -/
def main : IO Unit := StepModel.Express.Driver.main

import StepModel.ExpressDriver
/-! Driver `m_c04`: the same front end as `m_c20` (the two properties share the EXPRESS front-end model). -/
def main : IO Unit := StepModel.Express.Driver.main

import StepModel.LazyRefs
/-! Line-protocol driver for the `LazyRefs` model (C11).
  `resolve X KEY AGGR OVER ANAME AOWNER ; ID T1,T2|- O.N.A.R1+R2|O.N.A.- ... ; ID ...`  → `ok id id ..` | `crash`
  (flags = `fromSource`, regenerated from lazyRefs.h); anything else → `bad-op`. -/
open StepModel.LazyRefs

def parseNats (sep : Char) (s : String) : Option (List Nat) :=
  if s == "-" || s == "" then some [] else (s.splitOn (String.singleton sep)).mapM (fun t => t.toNat?)

def parseAttr (s : String) : Option Attr :=
  match s.splitOn "." with
  | [o, n, a, r] => do
    let o ← o.toNat?
    let n ← n.toNat?
    let refs ← parseNats '+' r
    pure { owner := o, name := n, aggr := a == "1", refs := refs }
  | _ => none

def parseInst (s : String) : Option Inst :=
  match (s.splitOn " ").filter (· ≠ "") with
  | id :: ty :: attrs => do
    let id ← id.toNat?
    let ty ← parseNats ',' ty
    let ats ← attrs.mapM parseAttr
    pure { id := id, types := ty, attrs := ats }
  | _ => none

def handle (line : String) : String :=
  match line.trimAscii.toString.splitOn ";" with
  | head :: insts =>
    match (head.splitOn " ").filter (· ≠ "") with
    | ["resolve", x, k, a, o, an, ao] =>
      match x.toNat?, k.toNat?, o.toNat?, an.toNat?, ao.toNat?, (insts.filter (fun s => s.trimAscii.toString ≠ "")).mapM parseInst with
      | some x, some k, some o, some an, some ao, some pop =>
        match resolve fromSource pop x { key := k, aggr := a == "1", over := o, attrName := an, attrOwner := ao } with
        | .ok l => "ok" ++ String.join (l.map (fun n => s!" {n}"))
        | .crash => "crash"
      | _, _, _, _, _, _ => "bad-op"
    | [] => ""
    | _ => "bad-op"
  | [] => ""

partial def loop (h : IO.FS.Stream) (out : IO.FS.Stream) : IO Unit := do
  let line ← h.getLine
  if line.isEmpty then return ()
  let o := handle line
  if o ≠ "" then out.putStrLn o
  loop h out

def main : IO Unit := do
  let out ← IO.getStdout
  loop (← IO.getStdin) out
  out.flush

import StepModel.LazyDict
/-! Line-protocol driver for the `LazyRefs` model (C11).
  `resolve X KEY AGGR OVER ANAME AOWNER ; ID T1,T2|- O.N.A.R1+R2|O.N.A.- ... ; ID ...`  → `ok id id ..` | `crash`
  (flags = `fromSource`, regenerated from lazyRefs.h); anything else → `bad-op`. -/
open StepModel.LazyRefs

def parseNats (sep : Char) (s : String) : Option (List Nat) :=
  if s == "-" || s == "" then some [] else (s.splitOn (String.singleton sep)).mapM (fun t => t.toNat?)

def parseAttr (s : String) : Option Attr :=
  match s.splitOn "." with
  | [o, n, a, r] => do
    let o ← o.toNat?
    let n ← n.toNat?
    let refs ← parseNats '+' r
    pure { owner := o, name := n, aggr := a == "1", refs := refs }
  | _ => none

def parseInst (s : String) : Option Inst :=
  match (s.splitOn " ").filter (· ≠ "") with
  | id :: ty :: attrs => do
    let id ← id.toNat?
    let ty ← parseNats ',' ty
    let ats ← attrs.mapM parseAttr
    pure { id := id, types := ty, attrs := ats }
  | _ => none

def parsePair (s : String) : Option (Nat × Bool) :=
  match s.splitOn "." with
  | [n, a] => do let n ← n.toNat?; pure (n, a == "1")
  | _ => none

def parseInv (s : String) : Option InvDecl :=
  match s.splitOn "." with
  | [k, a, o, n] => do
    let k ← k.toNat?
    let o ← o.toNat?
    let n ← n.toNat?
    pure { key := k, aggr := a == "1", over := o, attrName := n }
  | _ => none

def parseList {α} (f : String → Option α) (s : String) : Option (List α) :=
  if s == "-" || s == "" then some [] else (s.splitOn ",").mapM f

/-- `E name sups attrs redecl invs` -/
def parseEnt (ws : List String) : Option EntityD :=
  match ws with
  | [n, sups, attrs, rd, invs] => do
    let n ← n.toNat?
    let sups ← parseNats ',' sups
    let attrs ← parseList parsePair attrs
    let rd ← parseNats ',' rd
    let invs ← parseList parseInv invs
    pure { name := n, sups := sups, attrs := attrs, redecl := rd, invs := invs }
  | _ => none

/-- `P id kw|- v1 v2 ...` (each value: ids joined by `+`, or `-`) -/
def parsePInst (ws : List String) : Option PInst :=
  match ws with
  | id :: kw :: vals => do
    let id ← id.toNat?
    let vs ← vals.mapM (parseNats '+')
    pure { id := id, kw := if kw == "-" then none else kw.toNat?, vals := vs }
  | _ => none

/-- `rd X K KEY AGGR OVER ANAME ; E … ; P …` : dictionary and population as data, everything else computed by the model -/
def handleRd (recs : List String) : String :=
  match recs with
  | head :: rest =>
    match (head.splitOn " ").filter (· ≠ "") with
    | ["rd", x, k, key, a, o, an] =>
      let toks := rest.map (fun r => (r.splitOn " ").filter (· ≠ ""))
      let ents := (toks.filter (fun t => t.head? == some "E")).mapM (fun t => parseEnt t.tail)
      let pop := (toks.filter (fun t => t.head? == some "P")).mapM (fun t => parsePInst t.tail)
      match x.toNat?, k.toNat?, key.toNat?, o.toNat?, an.toNat?, ents, pop with
      | some x, some k, some key, some o, some an, some d, some pop =>
        match resolveD d pop x k { key := key, aggr := a == "1", over := o, attrName := an } with
        | .ok l => "ok" ++ String.join (l.map (fun n => s!" {n}"))
        | .crash => "crash"
      | _, _, _, _, _, _, _ => "bad-op"
    | _ => "bad-op"
  | [] => ""

def handle (line : String) : String :=
  if line.trimAscii.toString.startsWith "rd " then handleRd (line.trimAscii.toString.splitOn ";") else
  match line.trimAscii.toString.splitOn ";" with
  | head :: insts =>
    match (head.splitOn " ").filter (· ≠ "") with
    | ["resolve", x, k, a, o, an, ao] =>
      match x.toNat?, k.toNat?, o.toNat?, an.toNat?, ao.toNat?, (insts.filter (fun s => s.trimAscii.toString ≠ "")).mapM parseInst with
      | some x, some k, some o, some an, some ao, some pop =>
        match resolve fromSource pop x { key := k, aggr := a == "1", over := o, attrName := an, attrOwner := ao } with
        | .ok l => "ok" ++ String.join (l.map (fun n => s!" {n}"))
        | .crash => "crash"
      | _, _, _, _, _, _ => "bad-op"
    | [] => ""
    | _ => "bad-op"
  | [] => ""

partial def loop (h : IO.FS.Stream) (out : IO.FS.Stream) : IO Unit := do
  let line ← h.getLine
  if line.isEmpty then return ()
  let o := handle line
  if o ≠ "" then out.putStrLn o
  loop h out

def main : IO Unit := do
  let out ← IO.getStdout
  loop (← IO.getStdin) out
  out.flush

import StepModel.PyAgg
import StepModel.PyAggSpec
/-! Line-protocol driver for the Python-aggregate model and for `Spec.Aggregate` (same protocol as
harness/h_pyagg.py).  `m_c19 model` answers with the model of the code, `m_c19 spec` with the EXPRESS specification
(the property's oracle). -/
open StepModel.PyAgg
open StepModel.Spec

def showLogical : Logical → String
  | .t => "logical T" | .f => "logical F" | .u => "logical U"

def showAns : Ans → String
  | .ok => "ok" | .val x => s!"val {x.ty} {x.v}" | .unset => "unset" | .refused => "refused"
  | .int n => s!"int {n}" | .indet => "indet" | .logical l => showLogical l

def parseKind : String → Option Kind
  | "ARRAY" => some .array | "LIST" => some .list | "BAG" => some .bag | "SET" => some .set | _ => none

def parseFlag : String → Option Bool
  | "0" => some false | "1" => some true | _ => none

def parseHi (s : String) : Option (Option Int) :=
  if s = "?" then some none else s.toInt?.map some

def parseOp : List String → Option Op
  | ["set", i, t, v] => do
    let i ← i.toInt?; let t ← t.toNat?; let v ← v.toNat?
    if t < 3 then pure (.set i ⟨t, v⟩) else none
  | ["get", i] => do let i ← i.toInt?; pure (.get i)
  | ["add", t, v] => do
    let t ← t.toNat?; let v ← v.toNat?
    if t < 3 then pure (.add ⟨t, v⟩) else none
  | ["size"] => some .size | ["hiindex"] => some .hiindex | ["loindex"] => some .loindex
  | ["hibound"] => some .hibound | ["lobound"] => some .lobound | ["unique"] => some .unique
  | _ => none

def parseDecl : List String → Option Decl
  | [k, lo, hi, base, u, o, n] => do
    let k ← parseKind k; let lo ← lo.toInt?; let hi ← parseHi hi; let base ← base.toNat?
    let u ← parseFlag u; let o ← parseFlag o; let _ ← parseFlag n
    if base < 3 then pure { kind := k, lo, hi, base, unique := u, optional := o } else none
  | _ => none

inductive St
  | none
  | model (a : Agg)
  | spec (d : Decl) (v : Aggregate.Value)

def handle (useSpec : Bool) (s : St) (line : String) : St × String :=
  match (line.trimAscii.toString.splitOn " ").filter (· ≠ "") with
  | [] => (s, "")
  | "new" :: rest =>
    match parseDecl rest with
    | Option.none => (.none, "bad-op")
    | some d =>
      if useSpec then
        if Aggregate.legal d then (.spec d (Aggregate.initial d), "ok") else (.none, "refused")
      else
        match Agg.new d with
        | .ok a => (.model a, "ok")
        | .error _ => (.none, "refused")
  | ws =>
    match parseOp ws with
    | Option.none => (s, "bad-op")
    | some op =>
      match s with
      | .none => (s, "no-aggregate")
      | .model a => let (a', r) := a.step op; (.model a', showAns r.obs)
      | .spec d v => let (v', r) := Aggregate.step d v op; (.spec d v', showAns r)

partial def loop (useSpec : Bool) (h : IO.FS.Stream) (out : IO.FS.Stream) (s : St) : IO Unit := do
  let line ← h.getLine
  if line.isEmpty then return ()
  let (s', o) := handle useSpec s line
  if o ≠ "" then out.putStrLn o
  loop useSpec h out s'

def main (args : List String) : IO UInt32 := do
  let out ← IO.getStdout
  match args with
  | ["model"] => loop false (← IO.getStdin) out .none; out.flush; return 0
  | ["spec"] => loop true (← IO.getStdin) out .none; out.flush; return 0
  | _ => IO.eprintln "usage: m_c19 model|spec"; return 2

import StepModel.PyAgg
import StepModel.PyAggSpec
/-! Line-protocol driver for the Python-aggregate model and for `Spec.Aggregate` (same protocol as
harness/h_pyagg.py).  `m_c19 model` answers with the model of the code, `m_c19 spec` with the EXPRESS specification
(the property's oracle).  `reset` forgets all containers, `use i` selects container slot `i`, `new …` creates a
container in the current slot; every slot is an independent state (the model has no state shared between containers). -/
open StepModel.PyAgg
open StepModel.Spec
open StepModel.Generated

def showLogical : Logical → String
  | .t => "logical T" | .f => "logical F" | .u => "logical U"

def kindLetter : Kind → String
  | .array => "A" | .list => "L" | .bag => "B" | .set => "S"

def showTy : Ty → String
  | .simple t => if t ≥ 100 then s!"s{t - 100}" else toString t
  | .agg k b => kindLetter k ++ showTy b

def parseTyChars : List Char → Option Ty
  | [d] => if d.isDigit && d.toNat - '0'.toNat < 9 then some (.simple (d.toNat - '0'.toNat)) else none
  | 's' :: rest => (String.ofList rest).toNat?.bind (fun m => if m < 256 then some (.simple (100 + m)) else none)
  | k :: rest =>
    match k, parseTyChars rest with
    | 'A', some b => some (.agg .array b) | 'L', some b => some (.agg .list b)
    | 'B', some b => some (.agg .bag b) | 'S', some b => some (.agg .set b)
    | _, _ => none
  | [] => none

/-- `0 1 2` simple types; `A0`, `LS2`, `ALS2` … = kind letters (ARRAY/LIST/BAG/SET OF …) down to the simple type -/
def parseTy (s : String) : Option Ty := if s.length ≤ 6 then parseTyChars s.toList else none

def showAns : Ans → String
  | .ok => "ok" | .val x => s!"val {showTy x.ty} {x.v}" | .unset => "unset" | .refused => "refused"
  | .int n => s!"int {n}" | .indet => "indet" | .logical l => showLogical l

def parseKind : String → Option Kind
  | "ARRAY" => some .array | "LIST" => some .list | "BAG" => some .bag | "SET" => some .set | _ => none

def parseFlag : String → Option Bool
  | "0" => some false | "1" => some true | _ => none

def parseHi (s : String) : Option (Option Int) :=
  if s = "?" then some none else s.toInt?.map some

def parseOp : List String → Option Op
  | ["set", i, t, v] => do
    let i ← i.toInt?; let t ← parseTy t; let v ← v.toNat?
    if !plainBase t then none else pure (.set i ⟨t, v⟩)      -- NUMBER and SELECTs have no values of their own
  | ["get", i] => do let i ← i.toInt?; pure (.get i)
  | ["add", t, v] => do
    let t ← parseTy t; let v ← v.toNat?
    if !plainBase t then none else pure (.add ⟨t, v⟩)
  | ["size"] => some .size | ["hiindex"] => some .hiindex | ["loindex"] => some .loindex
  | ["hibound"] => some .hibound | ["lobound"] => some .lobound | ["unique"] => some .unique
  | _ => none

def parseDecl : List String → Option Decl
  | [k, lo, hi, base, u, o, n] => do
    let k ← parseKind k; let lo ← lo.toInt?; let hi ← parseHi hi; let base ← parseTy base
    let u ← parseFlag u; let o ← parseFlag o; let _ ← parseFlag n
    pure { kind := k, lo, hi, base, unique := u, optional := o }
  | _ => none

def parseBFn : String → Option BFn
  | "SIZEOF" => some .sizeof | "HIINDEX" => some .hiindex | "LOINDEX" => some .loindex
  | "HIBOUND" => some .hibound | "LOBOUND" => some .lobound | "VALUE_UNIQUE" => some .valueUnique | _ => none

def parseSpecFn : String → Option Aggregate.BuiltinFn
  | "SIZEOF" => some .sizeof | "HIINDEX" => some .hiindex | "LOINDEX" => some .loindex
  | "HIBOUND" => some .hibound | "LOBOUND" => some .lobound | "VALUE_UNIQUE" => some .valueUnique | _ => none

inductive St
  | none
  | model (a : Agg)
  | spec (d : Decl) (v : Aggregate.Value)

/-- the interpreter: containers by slot, the current slot -/
structure Proc where
  slots : List (Nat × St)
  cur : Nat

def Proc.get (p : Proc) : St := ((p.slots.find? (fun q => q.1 == p.cur)).map (·.2)).getD .none
def Proc.put (p : Proc) (s : St) : Proc := { p with slots := (p.cur, s) :: p.slots.filter (fun q => q.1 != p.cur) }

def handle (useSpec : Bool) (p : Proc) (line : String) : Proc × String :=
  match (line.trimAscii.toString.splitOn " ").filter (· ≠ "") with
  | [] => (p, "")
  | ["reset"] => ({ slots := [], cur := 0 }, "ok")
  | ["use", i] =>
    match i.toNat? with
    | some i => ({ p with cur := i }, "ok")
    | Option.none => (p, "bad-op")
  | "new" :: rest =>
    match parseDecl rest with
    | Option.none => (p.put .none, "bad-op")
    | some d =>
      if useSpec then
        if Aggregate.legal d then (p.put (.spec d (Aggregate.initial d)), "ok") else (p.put .none, "refused")
      else
        match Agg.new d with
        | .ok a => (p.put (.model a), "ok")
        | .error _ => (p.put .none, "refused")
  | ["fits", k, lo, hi, k', lo', hi'] =>      -- may a `K [lo:hi] OF REAL` element stand where `K' [lo':hi'] OF REAL` is declared?
    match parseKind k, lo.toInt?, parseHi hi, parseKind k', lo'.toInt?, parseHi hi' with
    | some k, some lo, some hi, some k', some lo', some hi' =>
      let x : BTy := .agg k lo hi (.simple 2)
      let e : BTy := .agg k' lo' hi' (.simple 2)
      if useSpec then (p, if Aggregate.specializes x e then "ok" else "refused")
      else (p, if elementAccepted x e then "ok" else "refused")
    | _, _, _, _, _, _ => (p, "bad-op")
  | ["accepts", t, base] =>                -- is a value of simple type t accepted where `base` is the declared base type?
    match parseTy t, parseTy base with
    | some t, some b =>
      if useSpec then (p, if Aggregate.assignable t b then "ok" else "refused")
      else (p, if checkType ⟨t, 1⟩ b then "ok" else "refused")
    | _, _ => (p, "bad-op")
  | ["mem", t, v] =>                   -- `value in container` (EXPRESS `IN`)
    match parseTy t, v.toNat?, p.get with
    | _, _, .none => (p, "no-aggregate")
    | some t, some v, .model a =>
      if !plainBase t then (p, "bad-op")
      else if membershipDefined then (p, showLogical (if a.contains ⟨t, v⟩ then .t else .f)) else (p, "unmodelled")
    | some t, some v, .spec d val =>
      if !plainBase t then (p, "bad-op") else (p, showLogical (if Aggregate.member d val ⟨t, v⟩ then .t else .f))
    | _, _, _ => (p, "bad-op")
  | ["bi", f] =>                       -- a built-in function of Builtin.py applied to the current container
    match parseBFn f, parseSpecFn f, p.get with
    | some _, some _, .none => (p, "no-aggregate")
    | some bf, _, .model a => (p, showAns (Builtin.call bf (.container a)).obs)
    | _, some sf, .spec d v => (p, showAns (Aggregate.builtin d v sf))
    | _, _, _ => (p, "bad-op")
  | ["biv", f, t, v] =>                -- … applied to a value that is not an aggregate
    match parseBFn f, parseTy t, v.toNat? with
    | some bf, some (.simple t), some v =>
      (p, if useSpec then "refused" else showAns (Builtin.call bf (.other ⟨.simple t, v⟩)).obs)
    | _, _, _ => (p, "bad-op")
  | ws =>
    match parseOp ws with
    | Option.none => (p, "bad-op")
    | some op =>
      match p.get with
      | .none => (p, "no-aggregate")
      | .model a => let (a', r) := a.step op; (p.put (.model a'), showAns r.obs)
      | .spec d v => let (v', r) := Aggregate.step d v op; (p.put (.spec d v'), showAns r)

partial def loop (useSpec : Bool) (h : IO.FS.Stream) (out : IO.FS.Stream) (p : Proc) : IO Unit := do
  let line ← h.getLine
  if line.isEmpty then return ()
  let (p', o) := handle useSpec p line
  if o ≠ "" then out.putStrLn o
  loop useSpec h out p'

def main (args : List String) : IO UInt32 := do
  let out ← IO.getStdout
  match args with
  | ["model"] => loop false (← IO.getStdin) out { slots := [], cur := 0 }; out.flush; return 0
  | ["spec"] => loop true (← IO.getStdin) out { slots := [], cur := 0 }; out.flush; return 0
  | _ => IO.eprintln "usage: m_c19 model|spec"; return 2

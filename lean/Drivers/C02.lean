import StepModel.GenCxx
import StepModel.RegistryModel
import StepModel.GenCxxRules
import StepModel.AccessorKinds
import StepModel.SelectCanBe
/-! Line-protocol driver for the exp2cxx / dictionary model (C02).  Input: one schema in the AST line protocol
written by vlib/schema_gen_c02.py, terminated by `end`; output: the canonical dump in the format of
harness/h_dict.cc, followed by the mangled names the accessor test needs.  Unknown lines answer `bad-op`. -/
open StepModel.GenCxx

def parseBase : String → Option Base
  | "INTEGER" => some .integer | "REAL" => some .real | "NUMBER" => some .number | "STRING" => some .string
  | "BINARY" => some .binary | "BOOLEAN" => some .boolean | "LOGICAL" => some .logical | _ => none

def baseName : Base → String
  | .integer => "INTEGER" | .real => "REAL" | .number => "NUMBER" | .string => "STRING"
  | .binary => "BINARY" | .boolean => "BOOLEAN" | .logical => "LOGICAL"

def parseKind : String → Option AggKind
  | "ARRAY" => some .array | "LIST" => some .list | "SET" => some .set | "BAG" => some .bag | _ => none

def kindName : AggKind → String
  | .array => "ARRAY" | .list => "LIST" | .set => "SET" | .bag => "BAG"

/-- `B:INTEGER` | `N:name` | `E:name` | `A:KIND:lo:hi:U:O:<elem>` (lo/hi `-` = no bound spec, hi `?`) -/
partial def parseTRef (s : String) : Option TRef :=
  match s.splitOn ":" with
  | ["B", b] => (parseBase b).map .base
  | ["N", n] => some (.named n)
  | ["E", n] => some (.entity n)
  | "A" :: k :: lo :: hi :: u :: o :: rest =>
    match parseKind k, parseTRef (":".intercalate rest) with
    | some k, some el =>
      let bnds : Option (Option (Int × Upper)) :=
        if lo == "-" then some none else
        match lo.toInt?, (if hi == "?" then some Upper.inf else hi.toInt?.map Upper.lit) with
        | some l, some h => some (some (l, h))
        | _, _ => none
      bnds.map (fun b => .aggr k b (u == "1") (o == "1") el)
    | _, _ => none
  | _ => none

def ftName : FT → String
  | .integer => "INTEGER" | .real => "REAL" | .number => "NUMBER" | .string => "STRING" | .binary => "BINARY"
  | .boolean => "BOOLEAN" | .logical => "LOGICAL" | .enumeration => "ENUMERATION" | .select => "SELECT"
  | .array => "ARRAY" | .list => "LIST" | .set => "SET" | .bag => "BAG" | .ref => "REF" | .entity => "ENTITY"

def bnd : Option Int → String
  | none => "-" | some n => toString n

def aggrFacts (k : AggKind) (b1 b2 : Option Int) (u o : Bool) : String :=
  s!"{kindName k}[{bnd b1}:{bnd b2}]" ++ (if u then "U" else "") ++ (if o then "O" else "")

def render : DRef → String
  | .null => "NULL"
  | .base b => baseName b
  | .named n => "@" ++ n
  | .entity n => "#" ++ n
  | .aggr k b1 b2 u o el => aggrFacts k b1 b2 u o ++ "<" ++ kindName k ++ ">OF " ++ render el

def toIdent (s : String) : Ident :=
  s.toList.filterMap (fun c =>
    if c.isLower then some (.letter ⟨(c.toNat - 'a'.toNat) % 26, Nat.mod_lt _ (by decide)⟩)
    else if c.isUpper then some (.letter ⟨(c.toNat - 'A'.toNat) % 26, Nat.mod_lt _ (by decide)⟩)
    else if c.isDigit then some (.digit ⟨(c.toNat - '0'.toNat) % 10, Nat.mod_lt _ (by decide)⟩)
    else if c == '_' then some .us else none)

def outChar : OutChar → Char
  | .lower i => Char.ofNat ('a'.toNat + i.val)
  | .upper i => Char.ofNat ('A'.toNat + i.val)
  | .digit d => Char.ofNat ('0'.toNat + d.val)
  | .us => '_' | .dot => '.' | .colon => ':' | .slash => '/'

def outStr (l : List OutChar) : String := String.ofList (l.map outChar)

def b01 (b : Bool) : String := if b then "1" else "0"

def dkind : DKind → String
  | .E => "E" | .D => "D" | .R => "R"

def insertSorted (x : String × String) : List (String × String) → List (String × String)
  | [] => [x]
  | y :: ys => if x.1 < y.1 then x :: y :: ys else y :: insertSorted x ys

def sortByKey (l : List (String × String)) : List (String × String) := l.foldl (fun acc x => insertSorted x acc) []

def sortStrs (l : List String) : List String := (sortByKey (l.map (fun x => (x, x)))).map (·.1)

def hexDigit (n : Nat) : Char := if n < 10 then Char.ofNat (48 + n) else Char.ofNat (87 + n)

def toHex (s : String) : String :=
  String.ofList (s.toUTF8.toList.flatMap (fun b => [hexDigit (b.toNat / 16), hexDigit (b.toNat % 16)]))

def hexVal (c : Char) : Option Nat :=
  if c.isDigit then some (c.toNat - 48) else if 'a' ≤ c ∧ c ≤ 'f' then some (c.toNat - 87) else none

def fromHexAux : List Char → Option (List UInt8)
  | [] => some []
  | a :: b :: rest => do
    let x ← hexVal a
    let y ← hexVal b
    let r ← fromHexAux rest
    pure (UInt8.ofNat (16 * x + y) :: r)
  | _ => none

def fromHex (s : String) : Option String :=
  (fromHexAux s.toList).bind (fun l => String.fromUTF8? ⟨l.toArray⟩)

/-- ` WR <i> <hex of the rule text>` / ` UR …` (entities), ` TWR …` (types) -/
def dumpRules (tag : String) (l : List String) : List String :=
  l.zipIdx.map (fun (t, i) => s!" {tag} {i} {toHex t}")

def dumpEntity (d : DEntity) : String :=
  let head := s!"ENTITY {d.name} raw={outStr (prettyName (toIdent d.name))} abstract={b01 d.abstract} super={",".intercalate d.supers} sub={",".intercalate (sortStrs d.subs)}"
  let attrs := d.attrs.map (fun a => s!" ATTR {a.name} kind={dkind a.kind} opt={b01 a.opt} owner={a.owner} type={render a.type}")
  let invs := d.invs.map (fun i => s!" INV {i.name} opt={b01 i.opt} owner={i.owner} type={render i.type} for={i.invAttr} of={i.invEntity}")
  "\n".intercalate (head :: attrs ++ invs)

def optFt : Option FT → String
  | some f => ftName f
  | none => "UNKNOWN"

/-- the getters that follow referent links, for a reference `r` -/
def getters (ts : List DType) (r : DRef) : String :=
  let nr := nonRefOf ts r
  let el := if isAggrOf ts r then " elem=" ++ optFt (ftOf ts (elemOf ts r)) ++ " elemtd=" ++ render (elemOf ts r) else ""
  s!" nonref={optFt (ftOf ts nr)} nonreftd={render nr} base={optFt (ftOf ts (baseOf ts r))} isaggr={b01 (isAggrOf ts r)}{el}"

def dumpType (ts : List DType) (t : DType) : String :=
  let a := match t.aggr with
    | some (k, b1, b2, u, o) => " aggr=" ++ aggrFacts k b1 b2 u o
    | none => ""
  let items := match t.items with
    | some is => " items=" ++ ",".intercalate is
    | none => ""
  let mem := match t.members with
    | some ms => " members=" ++ ",".intercalate (ms.map render)
    | none => ""
  s!"TYPE {t.name} raw={outStr (prettyName (toIdent t.name))} ft={ftName t.ft}{a} ref={render t.ref}{getters ts (.named t.name)}{items}{mem}"

def dumpInst (s : Schema) (e : Entity) : Option String :=
  if e.abstract then none else
  match instanceFlags s e.name, instanceAttrs s e.name with
  | some l, some l0 =>
    if l.map (·.1) != l0 then some s!"INST {e.name} flag-model-disagrees-with-order-model" else
    some (s!"INST {e.name} desc={e.name} :" ++ String.join (l.map (fun (a, d, r) =>
      s!" {a.owner}.{a.name}/{dkind a.kind}" ++ (if d then "d" else "") ++ (if r then "r" else ""))))
  | _, _ => some s!"INST {e.name} unmodelled"

def splitDot (s : String) : Option Ident × Ident :=
  match s.splitOn "." with
  | [a, b] => (some (toIdent a), toIdent b)
  | _ => (none, toIdent s)

def accKindName : StepModel.Generated.AccKind → String
  | .integer => "integer" | .real => "real" | .strBin => "strBin" | .logBool => "logBool" | .enumeration => "enumeration"
  | .select => "select" | .entity => "entity" | .aggregate => "aggregate" | .inverseAggr => "inverseAggr"
  | .inverseEntity => "inverseEntity"

def dumpNames (s : Schema) : List String :=
  s.entities.flatMap (fun e =>
    s!"CLASS {e.name} {outStr (className (toIdent e.name))}" ::
    e.attrs.map (fun a =>
      let sup := a.redecl.map toIdent
      let acc := outStr (accessorName sup (toIdent a.name))
      let dv := outStr (marker a.kind a.redecl.isSome) ++ outStr (attrCName sup (toIdent a.name))
      let dn := dictAttrName a
      s!"ACCN {e.name} {dn} {acc} {dv} {match accKindOf s a with | some k => accKindName k | none => "-"}")) ++
  s.types.filterMap (fun t => match t.body with
    | .enum _ => some s!"ENUMC {t.name} {outStr (enumClassName (toIdent t.name))}"
    | _ => some s!"TYPEC {t.name} {outStr (className (toIdent t.name))}")

def dumpAll (s : Schema) : String :=
  let d := dictOf s (s.entities.map (·.name))
  let rulesOfE (n : String) : List String := match s.findE n with
    | some e => (match supertypeStmt e with | some t => [s!" SS - {toHex t}"] | none => []) ++ (entityInits e).map (fun (n, t) => s!" DI {n} {toHex t}") ++ dumpRules "UR" (entityRules e).uniques ++ dumpRules "WR" (entityRules e).wheres
    | none => []
  let rulesOfT (n : String) : List String := match s.findT n with
    | some t => dumpRules "TWR" (typeRules t).wheres
    | none => []
  let ents := sortByKey (d.entities.map (fun e => (e.name, "\n".intercalate (dumpEntity e :: rulesOfE e.name))))
  let tys := sortByKey (d.types.map (fun t => (t.name, "\n".intercalate (dumpType d.types t :: rulesOfT t.name))))
  let insts := sortByKey (s.entities.filterMap (fun e => (dumpInst s e).map (fun l => (e.name, l))))
  let enames := sortStrs (s.entities.map (·.name))
  let canbe := (sortStrs ((s.types.filter (fun t => (selectMembers s t.name).isSome)).map (·.name))).map (fun t =>
    let pick (f : String → Bool) : String := ",".intercalate (enames.filter f)
    s!"CANBE {t} td={pick (canBeTd s (selectFuel s) t)} name={pick (canBeName s (selectFuel s) t)} set={pick (canBeSet s (selectFuel s) t)}")
  let order := emissionOrder s (s.entities.map (·.name))
  "\n".intercalate (
    [s!"SCHEMA {s.name} raw={outStr (prettyName (toIdent s.name))}"] ++ ents.map (·.2) ++ tys.map (·.2) ++ canbe ++ insts.map (·.2) ++
    dumpNames s ++ [s!"ORDER {",".intercalate order}", "END"])

def dash (s : String) : Option String := if s == "-" then none else some s

/-- one input line; `none` = malformed -/
def handle (s : Schema) (line : String) : Option Schema :=
  match (line.trimAscii.toString.splitOn " ").filter (· ≠ "") with
  | ["schema", n] => some { s with name := n }
  | ["type", n, "enum", items] => some { s with types := s.types ++ [{ name := n, body := .enum (items.splitOn ",") }] }
  | ["type", n, "select", ms] =>
    match (ms.splitOn ";").mapM parseTRef with
    | some l => some { s with types := s.types ++ [{ name := n, body := .select l }] }
    | none => none
  | ["type", n, "alias", t] =>
    (parseTRef t).map (fun t => { s with types := s.types ++ [{ name := n, body := .alias t }] })
  | ["entity", n, ab, sups] =>
    let isAbs : Bool := ab == "1"
    let sl : List String := if sups == "-" then [] else sups.splitOn ","
    let e : Entity := { name := n, abstract := isAbs, supers := sl }
    some { s with entities := s.entities ++ [e] }
  | ["attr", n, red, k, opt, inv, t] =>
    match parseTRef t, (match k with | "E" => some AKind.explicit | "D" => some .derived | "I" => some .inverse | _ => none) with
    | some t, some k =>
      match s.entities.reverse with
      | [] => none
      | e :: rest =>
        let a : Attr := { name := n, redecl := dash red, kind := k, optional := opt == "1", type := t,
                          invAttr := (dash inv).getD "" }
        some { s with entities := (({ e with attrs := e.attrs ++ [a] }) :: rest).reverse }
    | _, _ => none
  | ["ainit", hx] =>
    match fromHex hx, s.entities.reverse with
    | some t, e :: rest =>
      match e.attrs.reverse with
      | a :: as => some { s with entities := ({ e with attrs := ({ a with init := t } :: as).reverse } :: rest).reverse }
      | [] => none
    | _, _ => none
  | ["esuper", hx] =>
    match fromHex hx, s.entities.reverse with
    | some t, e :: rest => some { s with entities := ({ e with superExpr := some t } :: rest).reverse }
    | _, _ => none
  | ["twhere", lab, hx] =>
    match fromHex hx, s.types.reverse with
    | some ex, t :: rest => some { s with types := ({ t with wheres := t.wheres ++ [{ label := dash lab, expr := ex }] } :: rest).reverse }
    | _, _ => none
  | ["ewhere", lab, hx] =>
    match fromHex hx, s.entities.reverse with
    | some ex, e :: rest => some { s with entities := ({ e with wheres := e.wheres ++ [{ label := dash lab, expr := ex }] } :: rest).reverse }
    | _, _ => none
  | ["eunique", lab, hxs] =>
    match (hxs.splitOn ";").mapM fromHex, s.entities.reverse with
    | some as, e :: rest => some { s with entities := ({ e with uniques := e.uniques ++ [{ label := dash lab, attrs := as }] } :: rest).reverse }
    | _, _ => none
  | _ => none

/-! registry operation sequences: `reg E a b c`, `reg T …`, `reg S …`, `reg A …` (abstract entities) set the tables in the
    iteration order the harness observed; `reg run <ops>` answers every op (cursors start at the end: the harness has just
    finished its reference walks) -/
open StepModel.Registry in
def parseRegOp (w : String) : Option StepModel.Registry.Op :=
  let arg := (w.drop 3).toString
  match (w.take 2).toString with
  | "RE" => some (.reset .ent) | "RT" => some (.reset .typ) | "RS" => some (.reset .sch)
  | "NE" => some (.next .ent) | "NT" => some (.next .typ) | "NS" => some (.next .sch)
  | "AE" => some (.nextAll .ent) | "AT" => some (.nextAll .typ) | "AS" => some (.nextAll .sch)
  | "CE" => some .entityCnt | "CF" => some .fullEntCnt
  | "FE" => some (.find .ent arg) | "FT" => some (.find .typ arg) | "FS" => some (.find .sch arg)
  | "OC" => some (.objCreate arg)
  | _ => none

def showRes : StepModel.Registry.Res → String
  | .unit => "R unit" | .name n => "R name " ++ n | .null => "R null"
  | .names l => "R names" ++ String.join (l.map (" " ++ ·))
  | .num n => s!"R num {n}" | .found b => "R found " ++ b01 b

def handleReg (rs : StepModel.Registry.State) (ws : List String) : StepModel.Registry.State × List String :=
  match ws with
  | "E" :: l => ({ rs with ents := l }, [])
  | "T" :: l => ({ rs with types := l }, [])
  | "S" :: l => ({ rs with schemas := l }, [])
  | "A" :: l => ({ rs with abstract := l }, [])
  | "run" :: ops =>
    match ops.mapM parseRegOp with
    | none => (rs, ["bad-op"])
    | some os =>
      let st0 := { rs with curE := rs.ents.length, curT := rs.types.length, curS := rs.schemas.length }
      (rs, (StepModel.Registry.run os st0).map showRes ++ ["END"])
  | _ => (rs, ["bad-op"])

partial def loop (h : IO.FS.Stream) (out : IO.FS.Stream) (s : Schema) (rs : StepModel.Registry.State) : IO Unit := do
  let line ← h.getLine
  if line.isEmpty then return ()
  let t := line.trimAscii.toString
  let ws := (t.splitOn " ").filter (· ≠ "")
  if t == "" then loop h out s rs
  else if t == "end" then
    out.putStrLn (dumpAll s)
    loop h out { name := "" } rs
  else if ws.head? == some "reg" then
    let (rs', outl) := handleReg rs ws.tail
    for l in outl do out.putStrLn l
    loop h out s rs'
  else
    match handle s line with
    | some s' => loop h out s' rs
    | none => out.putStrLn "bad-op"; loop h out s rs

def main : IO Unit := do
  let out ← IO.getStdout
  loop (← IO.getStdin) out { name := "" } { ents := [], types := [], schemas := [] }
  out.flush

import StepModel.P21Safe
import StepModel.P21SafeLoops
import StepModel.P21SafeData
import StepModel.P21SafeOwn
import StepModel.Generated.C05Buffers
/-! Line-protocol driver for the C05 model (same requests as `harness/h_p21safe fn`):
    `<idx> <fn> <hex bytes | -> [<int> [<int>]]`   →   `R <idx> <answer>`
Site functions answer `ok` / `overflow <index> <cap>`; loop functions answer `ok <fields…> pos=… eof=… fail=…` or `outOfFuel`.
Capacities, guards and limits are the regenerated ones (`StepModel.Generated.C05`). -/
open StepModel.P21Safe StepModel.Generated

def hexVal (c : Char) : Option Nat :=
  if '0' ≤ c ∧ c ≤ '9' then some (c.toNat - '0'.toNat)
  else if 'a' ≤ c ∧ c ≤ 'f' then some (c.toNat - 'a'.toNat + 10)
  else if 'A' ≤ c ∧ c ≤ 'F' then some (c.toNat - 'A'.toNat + 10)
  else none

def unhex (s : String) : Option (List UInt8) :=
  if s = "-" then some [] else
  let rec go : List Char → List UInt8 → Option (List UInt8)
    | [], acc => some acc.reverse
    | [_], _ => none
    | a :: b :: r, acc =>
      match hexVal a, hexVal b with
      | some x, some y => go r (UInt8.ofNat (x * 16 + y) :: acc)
      | _, _ => none
  go s.toList []

def showOut : Out Unit → String
  | .ok _ => "ok"
  | .overflow i c => s!"overflow {i} {c}"
  | .outOfFuel => "outOfFuel"

def showIS (s : IS) : String :=
  s!"pos={s.pos} eof={if s.eof then 1 else 0} fail={if s.fail then 1 else 0}"

def showLoop (pre : LoopRes → String) : Out LoopRes → String
  | .ok r => s!"ok {pre r}{showIS r.s}"
  | .overflow i c => s!"overflow {i} {c}"
  | .outOfFuel => "outOfFuel"

def word (bytes : List UInt8) (n : Nat) (ch : UInt8) : List UInt8 :=
  if bytes.isEmpty then List.replicate n ch else bytes

def setAt (l : List UInt8) (i : Nat) (v : UInt8) : List UInt8 := l.set i v

def upper (b : UInt8) : UInt8 := if isLower b then b - 32 else b

/-- the dictionary of corpus/C05/c05a.exp as far as the function-level inputs use it -/
def knownC05a (kw : List UInt8) : Bool :=
  let k := kw.map upper
  k == "POINT".toUTF8.toList || k == "KINDS".toUTF8.toList || k == "DPOINT".toUTF8.toList

def showData : Out DataRes → String
  | .ok r => s!"ok cnt={r.count} nc={r.notCreated} {showIS r.s}"
  | .overflow i c => s!"overflow {i} {c}"
  | .outOfFuel => "outOfFuel"

def answer (fn : String) (bytes : List UInt8) (a1 a2 : Option Nat) : String :=
  let n := a1.getD 0
  let fuel := bytes.length + C05.readCommentIters + 16
  match fn with
  | "readreal" => showOut (readReal C05.readRealStorage C05.readRealGuard bytes)
  | "strupper" => showOut (strCopy C05.strToUpperStorage C05.strToUpperGuard (word bytes n 97))
  | "strlower" => showOut (strCopy C05.strToLowerStorage C05.strToLowerGuard (word bytes n 97))
  | "strconst" => showOut (strCopy C05.strToConstantStorage C05.strToConstantGuard (word bytes n 97))
  | "pretty" =>
    let w := List.replicate n (97 : UInt8)
    let w := match a2 with | some u => if u < n then setAt w u 95 else w | none => w
    showOut (pretty C05.prettyCap C05.prettyGuard w)
  | "entnode" => showOut (entNodeCtor C05.entNodeCap C05.entNodeCtorCopy (List.replicate n 65))
  | "subsuper" =>
    match entNmArr C05.entNmArrStorage C05.entNmArrGuard n with
    | .ok _ => showOut (nms C05.nmsStorage C05.nmsLoopGuard C05.entNmArrGuard n)
    | o => showOut o
  | "skipinst" => showLoop (fun r => s!"sev={r.sev} len={r.len} ") (skipInstance C05.skipInstanceSkipsComments C05.readCommentIters fuel (IS.ofBytes bytes))
  | "findstart" => showLoop (fun r => s!"sev={r.sev} len={r.len} ") (findStartOfInstance fuel (IS.ofBytes bytes))
  | "readcomment" =>
    showLoop (fun r => s!"ret={r.sev} len={r.len} ") (readComment C05.skipInstanceSkipsComments C05.readCommentIters fuel (IS.ofBytes bytes))
  | "toksep" => showLoop (fun _ => "") (readTokenSeparator C05.skipInstanceSkipsComments C05.readCommentIters fuel (IS.ofBytes bytes))
  | "findheader" =>
    showLoop (fun r => s!"found={r.sev} ") (findHeaderSectionWith C05.skipInstanceSkipsComments C05.readCommentIters C05.findHeaderGetlineN C05.findHeaderExit fuel (IS.ofBytes bytes))
  | "readdata1" =>
    showData (readData1 ⟨fun _ => false, knownC05a, fun _ => false⟩ C05.imbedAggrStaysInRecord C05.entNmArrGuard C05.skipInstanceSkipsComments false C05.readCommentIters
      C05.maxErrorCount fuel (IS.ofBytes bytes))
  | "readdata2" =>
    -- pass 2 with the `ReadInstance` skeleton; the look-up oracle is the set of ids pass 1 created (bit mask in the first
    -- argument), the entity is the one without attributes (`stepReadNoAttrs`)
    let mask := a1.getD 0
    let cm := C05.skipInstanceSkipsComments
    let it := C05.readCommentIters
    let tok := readTokenSeparator cm it fuel
    let skip := skipInstance cm it fuel
    let rc := readComment cm it fuel
    let sr := stepReadNoAttrs C05.recoveryScanStaysInRecord C05.recoveryScanCountsQuotes C05.recoveryScanPutsBackSemi cm it fuel
    let idOf := fun (s : IS) => (s.pre.takeWhile isDigit).reverse.foldl (fun v d => v * 10 + (d.toNat - 48)) 0
    showData (readData2 (readInstanceSkel (fun s => if mask.testBit (idOf s) then 2 else 0) (rdKw sr tok skip) rc tok skip)
      cm false it C05.maxErrorCount fuel (IS.ofBytes bytes))
  | "getkeyword" =>
    showLoop (fun r => s!"len={r.len} ") (getKeyword ";( /\\".toUTF8.toList fuel (IS.ofBytes bytes))
  | "readheader" =>
    -- header entity keywords of the dictionary are kept out of these inputs: `known` answers false, `rdh` is never called
    showLoop (fun _ => "") (readHeader (fun _ => false) (fun _ s => .ok ⟨s, 0, 0, 0⟩) C05.skipInstanceSkipsComments C05.readCommentIters
      C05.findHeaderGetlineN C05.findHeaderExit fuel (IS.ofBytes bytes))
  | "append1" =>
    -- pass 1 of `AppendFile` (no file name: the second pass cannot open its stream)
    showLoop (fun r => s!"cnt={r.len} ") (appendFile1 ⟨fun _ => false, knownC05a, fun _ => false⟩ (fun _ => false)
      (fun _ s => .ok ⟨s, 0, 0, 0⟩) C05.imbedAggrStaysInRecord C05.entNmArrGuard C05.skipInstanceSkipsComments true C05.readCommentIters
      C05.findHeaderGetlineN C05.findHeaderExit C05.maxErrorCount fuel (IS.ofBytes bytes))
  | "finddata" =>
    showLoop (fun r => s!"found={r.sev} ") (findDataSection C05.skipInstanceSkipsComments C05.readCommentIters fuel (IS.ofBytes bytes))
  | "aggrown" =>
    -- first run of the ownership model that is not ok, over both modes, 0..3 elements and the three ways out
    let cfgs := [("STEPaggregate", C05.aggrDeletes), ("EntityAggregate", C05.entityAggrDeletes), ("SelectAggregate", C05.selectAggrDeletes)]
    let bad := cfgs.filterMap (fun (nm, cfg) =>
      ([true, false].flatMap fun a => [0, 1, 2, 3].flatMap fun k => [AggrExit.closed, .missingClose, .giveUp].filterMap fun e =>
        match aggrRun cfg a true k e with
        | .ok _ => none
        | o => some s!"{nm}: assign={a} elements={k} exit={repr e} -> {repr o}").head?)
    if bad.isEmpty then "ok safe" else "unsafe " ++ String.intercalate "; " bad
  | "subsuperb" =>
    showLoop (fun _ => "") (createSubSuper C05.imbedAggrStaysInRecord C05.entNmArrGuard fuel (IS.ofBytes bytes))
  | "readdata1w" =>
    showData (readData1 ⟨fun _ => false, knownC05a, fun _ => false⟩ C05.imbedAggrStaysInRecord C05.entNmArrGuard C05.skipInstanceSkipsComments true C05.readCommentIters
      C05.maxErrorCount fuel (IS.ofBytes bytes))
  | "recover" =>
    showLoop (fun _ => "") (stepReadNoAttrs C05.recoveryScanStaysInRecord C05.recoveryScanCountsQuotes C05.recoveryScanPutsBackSemi C05.skipInstanceSkipsComments
      C05.readCommentIters fuel (IS.ofBytes bytes))
  | "exportlist" => showLoop (fun _ => "") (exportLoop C05.exportLoopChecksStreamCreate C05.skipInstanceSkipsComments C05.readCommentIters fuel (IS.ofBytes bytes) chComma 0)
  | _ => "bad-op"

def handle (line : String) : String :=
  match (line.trimAscii.toString.splitOn " ").filter (· ≠ "") with
  | idx :: fn :: hex :: rest =>
    match unhex hex with
    | none => s!"R {idx} bad-op"
    | some bytes =>
      let a1 := rest[0]? >>= String.toNat?
      let a2 := rest[1]? >>= String.toNat?
      s!"R {idx} {answer fn bytes a1 a2}"
  | [] => ""
  | _ => "R ? bad-op"

partial def loop (h : IO.FS.Stream) (out : IO.FS.Stream) : IO Unit := do
  let line ← h.getLine
  if line.isEmpty then return ()
  let o := handle line
  if o ≠ "" then out.putStrLn o
  loop h out

def main : IO Unit := do
  let out ← IO.getStdout
  loop (← IO.getStdin) out
  out.flush

import StepModel.P21.Grammar
import StepModel.Generated.P21LexGen
import StepModel.P21.Reader
import StepModel.Generated.P21RWGen
/-! Line-protocol driver for the `IStream`, `FloatOps` and `P21.Lex` models (same protocol as
harness/h_literals.cc and harness/h_stream.cc; see those files for the request formats). -/
open StepModel StepModel.P21
namespace C09Drv

def hexDigit (n : Nat) : Char := if n < 10 then Char.ofNat (48 + n) else Char.ofNat (55 + n)

def toHex (bs : List Byte) : String :=
  if bs.isEmpty then "-" else
  String.ofList (bs.foldr (fun b acc => hexDigit (b / 16 % 16) :: hexDigit (b % 16) :: acc) [])

def hexVal (c : Char) : Option Nat :=
  if '0' ≤ c ∧ c ≤ '9' then some (c.toNat - 48)
  else if 'A' ≤ c ∧ c ≤ 'F' then some (c.toNat - 55)
  else if 'a' ≤ c ∧ c ≤ 'f' then some (c.toNat - 87)
  else none

def unhexL : List Char → Option (List Byte)
  | [] => some []
  | [_] => none
  | a :: b :: r => do
    let x ← hexVal a
    let y ← hexVal b
    let t ← unhexL r
    pure ((x * 16 + y) :: t)

def unhex (s : String) : Option (List Byte) := if s == "-" then some [] else unhexL s.toList

def hex16 (n : Nat) : String :=
  String.ofList ((List.range 16).reverse.map (fun i => hexDigit (n / 16 ^ i % 16)))

def parseHexNat (s : String) : Option Nat :=
  s.toList.foldl (fun acc c => do let a ← acc; let d ← hexVal c; pure (a * 16 + d)) (some 0)

def b2s (b : Bool) : String := if b then "1" else "0"

/-- the enumeration of corpus/C09/lit.exp: `TYPE color = ENUMERATION OF (red, green, blue_1)` in `element_at` order -/
def colorItems : List (List Byte) := [Dbl.ascii "RED", Dbl.ascii "GREEN", Dbl.ascii "BLUE_1"]

/-- the instance manager of harness/h_literals.cc: #1 #5 #12 #123 #2147483647 are `tgt`, #7 is `other` -/
def lookup (id : Int) : RefLookup :=
  if id == 1 || id == 5 || id == 12 || id == 123 || id == 2147483647 then .found else if id == 7 then .wrongType else .missing

def parseKind : String → Option Kind
  | "INTEGER" => some .integer | "REAL" => some .real | "NUMBER" => some .number | "STRING" => some .string
  | "BINARY" => some .binary | "BOOLEAN" => some .boolean | "LOGICAL" => some .logical
  | "ENUM" => some (.enumeration colorItems) | "REF" => some .ref | _ => none

def showVal (k : Kind) : Value Nat → String
  | .unset => "unset"
  | .int v => s!"i:{v}"
  | .real v => "r:" ++ hex16 v
  | .str t => "s:" ++ toHex t
  | .bin t => "b:" ++ toHex t
  | .enum i => "e:" ++ String.ofList ((k.enumKind.table.getD i bUNSET).map Char.ofNat)
  | .ref id => s!"#{id}"

def cfg : LexCfg := StepModel.Generated.lexCfg

/-- the float instance that follows `WriteReal` as the source has it (regenerated switch) -/
def fops : FloatOps Nat := dblOpsOf StepModel.Generated.writeRealRoundTrips

def showRead (k : Kind) (r : Outcome (ReadResult Nat)) : String :=
  match r with
  | .overflow => "R overflow"
  | .ok r =>
    s!"R sev={r.sev.name} val={showVal k r.val} pos={r.s.pos} eof={b2s r.s.eof} fail={b2s r.s.failed} " ++
    s!"w={toHex (attrWrite fops k r.val)} s={toHex (attrAsStr fops cfg k r.val)}"

def showVerdict (k : Kind) : Grammar.Verdict Nat → String
  | .grammar v => "V G " ++ showVal k v
  | .lenient v => "V L " ++ showVal k v
  | .reject => "V X -"

/-! ### IStream scripts (h_stream): one letter per operation -/
def runScript (ops : List Char) (s : IStream) : String := Id.run do
  let mut s := s
  let mut out := ""
  for op in ops do
    let r : String × IStream :=
      match op with
      | 'w' => ("", s.ws)
      | 'p' => let (o, s') := s.peek; (match o with | some c => toString c | none => "-1", s')
      | 'g' => let (o, s') := s.get; (match o with | some c => toString c | none => "x", s')
      | 'c' => let (o, s') := s.getChar; (match o with | some c => toString c | none => "x", s')
      | 'i' => ("", s.ignore1)
      | 'l' => let (o, s') := s.extractLong; (match o with | some v => toString v | none => "x", s')
      | 'n' => let (o, s') := s.extractInt32; (match o with | some v => toString v | none => "x", s')
      | 'd' =>
        let (o, s') := s.extractFloatText
        match o with
        | none => ("x", s')
        | some t =>
          match dblOps.conv t with
          | .ok v => (hex16 v, s')
          | .invalid => ("inv", s'.setFail true)
          | .overflow => ("ovf", s'.setFail true)
      | 'k' => ("", s.clear)
      | 's' => ("", s.setSkipws false)
      | 'S' => ("", s.setSkipws true)
      | 'b' =>   -- putback of the character consumed last (what the code always does)
        match s.left with
        | c :: _ => ("", s.putback c)
        | [] => ("", s.putback 63)
      | 'B' => ("", s.putback 63)    -- putback of a different character ('?')
      | _ => ("?", s)
    s := r.2
    out := out ++ s!" {op}:{r.1}/{s.pos}/{b2s s.eof}{b2s s.fail}{b2s s.bad}"
  return out

/-! ### aggregates of simple kinds: `STEPattribute::STEPread` of a required `LIST OF <kind>` attribute through the reader
model of `P21/Reader.lean` (`attrSTEPread` → `aggrRead` → `elemRead`), the model the aggregate theorems are about -/

def aggLookup : Lookup := fun id =>
  if id == 1 || id == 5 || id == 12 || id == 123 || id == 2147483647 then some ["TGT"] else if id == 7 then some ["OTHER"] else none

def aggEnv : Env Nat :=
  { ops := fops, lex := cfg, cfg := StepModel.Generated.rwCfg, dict := ⟨[], [], []⟩, lookup := aggLookup }

def parseElemTy : String → Option (ElemTy × Kind)
  | "INTEGER" => some (.integer, .integer) | "REAL" => some (.real, .real) | "NUMBER" => some (.number, .number)
  | "STRING" => some (.string, .string) | "BINARY" => some (.binary, .binary) | "BOOLEAN" => some (.boolean, .boolean)
  | "LOGICAL" => some (.logical, .logical) | "ENUM" => some (.enum colorItems, .enumeration colorItems)
  | "REF" => some (.entity "TGT", .ref) | _ => none

def showAtom (k : Kind) : Atom Nat → String
  | .unset => "unset"
  | .int v => s!"i:{v}"
  | .real v => "r:" ++ hex16 v
  | .str t => "s:" ++ toHex t
  | .bin t => "b:" ++ toHex t
  | .enum i => "e:" ++ String.ofList ((k.enumKind.table.getD i bUNSET).map Char.ofNat)
  | .ref id => s!"#{id}"
  | .undef t => "u:" ++ toHex t

def showElem (k : Kind) : Elem Nat → String
  | .atom a => showAtom k a
  | .sel m a => m ++ "/" ++ showAtom k a

def handleAggr (kind h : String) : String :=
  match parseElemTy kind, unhex h with
  | some (ty, k), some bytes =>
    let a : AttrD := { name := "a", ty := .aggr ty, optional := false }
    match attrSTEPread aggEnv true a (IStream.ofBytes bytes) with
    | .ok (sev, v, s) =>
      let vs := match v with
        | .aggr es => "[" ++ ";".intercalate (es.map (showElem k)) ++ "]"
        | .aggrNull => "null"
        | _ => "?"
      s!"A sev={sev.name} val={vs} pos={s.pos} eof={b2s s.eof} fail={b2s s.failed}"
    | .error e => s!"A stop {repr e}"
  | _, _ => "bad-op"

def handle (line : String) : String :=
  match (line.trimAscii.toString.splitOn " ").filter (· ≠ "") with
  | ["rd", kind, opt, _strict, tok, ctx] =>
    match parseKind kind, unhex tok, unhex ctx with
    | some k, some t, some c =>
      let r := attrRead fops cfg lookup k (opt == "1") (IStream.ofBytes (t ++ c))
      showRead k r ++ " | " ++ showVerdict k (Grammar.classify fops lookup k t)
    | _, _, _ => "bad-op"
  | ["sq", kind, opt, first, rest] =>
    match parseKind kind, unhex first, unhex rest with
    | some k, some f, some c =>
      match attrRead fops cfg lookup .string false (IStream.ofBytes (f ++ [44] ++ c)) with
      | .ok r1 =>
        let s2 := r1.s.get.2
        match attrRead fops cfg lookup k (opt == "1") s2 with
        | .ok r =>
          s!"R first={r1.sev.name} sev={r.sev.name} val={showVal k r.val} pos={r.s.pos} eof={b2s r.s.eof} fail={b2s r.s.failed}"
        | .overflow => "R overflow"
      | .overflow => "R overflow"
    | _, _, _ => "bad-op"
  | ["ag", kind, h] => handleAggr kind h
  | ["wr", kind, v] =>
    match parseKind kind with
    | some k =>
      let val : Option (Value Nat) :=
        match k with
        | .integer => v.toInt?.map .int
        | .real | .number => (parseHexNat v).map .real
        | .string => (unhex v).map .str
        | .binary => (unhex v).map .bin
        | .ref => v.toInt?.map .ref
        | _ => (findName k.enumKind.table (v.toList.map Char.toNat)).map .enum
      match val with
      | some val =>
        -- the harness stores the value and asks is_null(): sentinels are written as `$`
        let val : Value Nat := match val with
          | .int i => intValue (some i)
          | .real x => realValue fops (some x)
          | .str t => if t.isEmpty then .unset else .str t
          | .bin t => if t.isEmpty then .unset else .bin t
          | .enum i => enumValue k.enumKind (some i)
          | x => x
        let w := attrWrite fops k val
        s!"W w={toHex w} s={toHex (attrAsStr fops cfg k val)} | " ++
          showRead k (attrRead fops cfg lookup k false (IStream.ofBytes (w ++ [44]))) ++
          " | " ++ showVerdict k (Grammar.classify fops lookup k w)
      | none => "bad-op"
    | none => "bad-op"
  | ["fl", "g15", bits] =>
    match parseHexNat bits with
    | some b => "F " ++ toHex (Dbl.fmtG 15 b)
    | none => "bad-op"
  | ["fl", "g16", bits] =>
    match parseHexNat bits with
    | some b => "F " ++ toHex (Dbl.fmtG 16 b)
    | none => "bad-op"
  | ["fl", "g17", bits] =>
    match parseHexNat bits with
    | some b => "F " ++ toHex (Dbl.fmtG 17 b)
    | none => "bad-op"
  | ["fl", "parse", h] =>
    match unhex h with
    | some t =>
      let (o, s) := (IStream.ofBytes t).extractFloatText
      match o with
      | none => s!"F ok=0 bits={hex16 0} used={s.pos}"
      | some x =>
        match dblOps.conv x with
        | .ok v => s!"F ok=1 bits={hex16 v} used={s.pos}"
        | .invalid => s!"F ok=0 bits={hex16 0} used={s.pos}"
        | .overflow =>
          let neg := x.head? == some 45
          s!"F ok=0 bits={hex16 (if neg then 0xFFEFFFFFFFFFFFFF else 0x7FEFFFFFFFFFFFFF)} used={s.pos}"
    | none => "bad-op"
  | ["st", h, script] =>
    match unhex h with
    | some t => "S" ++ runScript script.toList (IStream.ofBytes t)
    | none => "bad-op"
  | [] => ""
  | _ => "bad-op"

partial def loop (h : IO.FS.Stream) (out : IO.FS.Stream) : IO Unit := do
  let line ← h.getLine
  if line.isEmpty then return ()
  out.putStrLn (handle line)
  loop h out

end C09Drv

def main : IO Unit := do
  let stdin ← IO.getStdin
  let stdout ← IO.getStdout
  C09Drv.loop stdin stdout
  stdout.flush

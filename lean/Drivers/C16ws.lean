import StepModel.WsBytes
import StepModel.Generated.P21RWGen
import StepModel.Generated.P21LexGen
/-! Line-protocol driver for the byte-level working-session layer (`StepModel/WsBytes.lean`); used by checks/c16.py.
    The dictionary protocol is the one of Drivers/C01.lean (copied: that file is the C01 owner's).

    dict begin | E … | A … | S … | C … | dict end                        -> `ok` for each line
    readws <strict 0/1> <hex of the bytes after `DATA;`>                 -> R created=… notcreated=… valid=… invalid=… incomplete=…
                                                                            fileerr=… | <id>/<TYPE>/<state>/<hex text> …
    writews                                                              (after a readws) -> W <hex of what wsWriteInsts emits for the manager read>
-/
open StepModel StepModel.P21

def hexDg (n : Nat) : Char := if n < 10 then Char.ofNat (48 + n) else Char.ofNat (87 + n)
def toHexB (bs : List Byte) : String :=
  if bs.isEmpty then "-" else
  String.ofList (bs.foldr (fun b acc => hexDg (b / 16 % 16) :: hexDg (b % 16) :: acc) [])
def hexValB (c : Char) : Option Nat :=
  if '0' ≤ c ∧ c ≤ '9' then some (c.toNat - 48)
  else if 'A' ≤ c ∧ c ≤ 'F' then some (c.toNat - 55)
  else if 'a' ≤ c ∧ c ≤ 'f' then some (c.toNat - 87)
  else none
def unhexBL : List Char → List Byte → Option (List Byte)
  | [], acc => some acc.reverse
  | [_], _ => none
  | a :: b :: r, acc =>
    match hexValB a, hexValB b with
    | some x, some y => unhexBL r ((x * 16 + y) :: acc)
    | _, _ => none
def unhexB (s : String) : Option (List Byte) := if s == "-" then some [] else unhexBL s.toList []

def parseElemTy (w : String) : Option ElemTy :=
  match w.splitOn ":" with
  | ["int"] => some .integer | ["real"] => some .real | ["num"] => some .number | ["str"] => some .string
  | ["bin"] => some .binary | ["bool"] => some .boolean | ["log"] => some .logical | ["gen"] => some .generic
  | ["enum", items] => some (.enum ((items.splitOn ".").map stringToBytes))
  | ["ent", n] => some (.entity n)
  | ["sel", n] => some (.select n)
  | _ => none

def parseTy (w : String) : Option Ty :=
  match w.splitOn ":" with
  | "one" :: rest => (parseElemTy (":".intercalate rest)).map .one
  | "aggr" :: rest => (parseElemTy (":".intercalate rest)).map .aggr
  | _ => none

def b01 (w : String) : Option Bool := if w == "1" then some true else if w == "0" then some false else none

def addAttr (d : Dict) (a : AttrD) : Option Dict :=
  match d.entities.reverse with
  | e :: es => some { d with entities := (({ e with attrs := e.attrs ++ [a] }) :: es).reverse }
  | [] => none


def lexCfg : LexCfg := StepModel.Generated.rwLexCfg
def rwCfg : RWCfg := StepModel.Generated.rwCfg
def fops : FloatOps Nat := dblOpsOf StepModel.Generated.writeRealRoundTrips

def typeName (i : MInst Nat) : String :=
  if i.complex then "(" ++ "&".intercalate (i.parts.map (·.name)) ++ ")"
  else match i.parts with | p :: _ => p.name | [] => "?"


def doReadWs (d : Dict) (strict : Bool) (bytes : List Byte) : String × Option (Mgr Nat) :=
  match StepModel.WsBytes.wsReadData fops lexCfg rwCfg d strict bytes with
  | .error .outOfFuel => ("X outOfFuel", none)
  | .error .overflow => ("X overflow", none)
  | .error (.unmodelled why) => ("X unmodelled " ++ why, none)
  | .ok (p1, p2) =>
    let head := s!"R created={p1.count} notcreated={p1.notCreated} valid={p2.valid} invalid={p2.invalid} " ++
      s!"incomplete={p2.incomplete} fileerr={p2.fileErr.name} |"
    let insts := p2.mgr.insts.map (fun i =>
      s!" {i.id}/{typeName i}/{i.state.name}/{toHexB (writeInst fops rwCfg d i)}")
    (head ++ String.join insts, some p2.mgr)

structure StW where
  dict : Dict := { entities := [], selects := [], complexSets := [] }
  last : Option (Mgr Nat) := none

def step (st : StW) (line : String) : StW × String :=
  let w := (line.splitOn " ").filter (· ≠ "")
  match w with
  | ["dict", "begin"] => ({ dict := { entities := [], selects := [], complexSets := [] } }, "ok")
  | ["dict", "end"] => (st, "ok")
  | ["E", name, abs, ancs] =>
    match b01 abs with
    | some a =>
      let e : EntityD := { name := name, attrs := [], ancestors := ancs.splitOn ",", abstract := a }
      ({ st with dict := { st.dict with entities := st.dict.entities ++ [e] } }, "ok")
    | none => (st, "bad-op")
  | ["A", name, opt, der, red, own, ty] =>
    match b01 opt, b01 der, b01 red, b01 own, parseTy ty with
    | some o, some dv, some r, some ow, some t =>
      match addAttr st.dict { name := name, ty := t, optional := o, derived := dv, redefining := r, own := ow } with
      | some d => ({ st with dict := d }, "ok")
      | none => (st, "bad-op")
    | _, _, _, _, _ => (st, "bad-op")
  | "S" :: name :: members =>
    let ms := members.map (fun m => match m.splitOn "=" with
      | [n, t] => (parseElemTy t).map (fun ty => ({ name := n, ty := ty } : SelMember))
      | _ => none)
    if ms.all Option.isSome then
      ({ st with dict := { st.dict with selects := st.dict.selects ++ [{ name := name, members := ms.filterMap id }] } }, "ok")
    else (st, "bad-op")
  | "C" :: names => ({ st with dict := { st.dict with complexSets := st.dict.complexSets ++ [sortNames names] } }, "ok")
  | ["readws", strict, hx] =>
    match b01 strict, unhexB hx with
    | some s, some bytes => let (r, m) := doReadWs st.dict s bytes; ({ st with last := m }, r)
    | _, _ => (st, "bad-op")
  | ["writews"] =>
    match st.last with
    | some m => (st, "W " ++ toHexB (StepModel.WsBytes.wsWriteInsts fops rwCfg st.dict m))
    | none => (st, "bad-op")
  | _ => (st, "bad-op")

partial def loop (h : IO.FS.Stream) (out : IO.FS.Stream) (st : StW) : IO Unit := do
  let line ← h.getLine
  if line.isEmpty then return
  let l := line.trimAscii.toString
  if l == "quit" then return
  let (st', reply) := step st l
  out.putStrLn reply
  out.flush
  loop h out st'

def main : IO Unit := do
  let stdin ← IO.getStdin
  let stdout ← IO.getStdout
  loop stdin stdout {}

import StepModel.ExpDecl
import StepModel.ExpDeclSyn
import StepModel.ExpLex
import StepModel.ExpEntitySyn
import StepModel.ExpStmtSyn
import StepModel.ExpTypeDeclSyn
import StepModel.ExpSchemaSyn
/-! Line-protocol driver for the exppp model (property C07).

  pp <linelen> <t:0|1> <c:0|1> SCHEMA…      -> `P <escaped text>` | `parse-error`
  ast <tok>*                                 -> `A <prefix form of joinStr (parse toks)>` | `parse-error`
  toks <tok>*                                -> `T <tokens of the printed parse>`       | `parse-error`
Expressions are given as *source token lists* (`X <n> tok…`); the model parses them with `Express.parse`.
-/
open StepModel.Express

def hexVal (c : Char) : Nat :=
  if c.isDigit then c.toNat - '0'.toNat else if 'a' ≤ c ∧ c ≤ 'f' then c.toNat - 'a'.toNat + 10 else 0

def unhexL : List Char → List Char
  | a :: b :: r => Char.ofNat (hexVal a * 16 + hexVal b) :: unhexL r
  | _ => []
def unhex (s : String) : String := String.ofList (unhexL s.toList)

def hexDigit (n : Nat) : Char := if n < 10 then Char.ofNat ('0'.toNat + n) else Char.ofNat ('a'.toNat + n - 10)
def hexL (s : List Char) : String := String.ofList (s.flatMap fun c => [hexDigit (c.toNat / 16), hexDigit (c.toNat % 16)])
def hex (s : String) : String := hexL s.toList

def opOfName : String → Option BinOp
  | "and" => some .and | "or" => some .or | "xor" => some .xor | "lt" => some .lt | "gt" => some .gt | "eq" => some .eq
  | "le" => some .le | "ge" => some .ge | "ne" => some .ne | "ieq" => some .instEq | "ine" => some .instNe
  | "in" => some .in_ | "like" => some .like | "concat" => some .concat | "exp" => some .exp | "times" => some .times
  | "div" => some .div | "rdiv" => some .realDiv | "mod" => some .mod | "plus" => some .plus | "minus" => some .minus
  | _ => none
def nameOfOp : BinOp → String
  | .and => "and" | .or => "or" | .xor => "xor" | .lt => "lt" | .gt => "gt" | .eq => "eq" | .le => "le" | .ge => "ge"
  | .ne => "ne" | .instEq => "ieq" | .instNe => "ine" | .in_ => "in" | .like => "like" | .concat => "concat"
  | .exp => "exp" | .times => "times" | .div => "div" | .realDiv => "rdiv" | .mod => "mod" | .plus => "plus" | .minus => "minus"

def tokOfWord (w : String) : Option Tok :=
  match w with
  | "(" => some .lp | ")" => some .rp | "[" => some .lb | "]" => some .rb | "," => some .comma | ":" => some .colon
  | "." => some .dot | "\\" => some .bslash | "|" => some .bar | "<*" => some .allIn | "not" => some .not
  | _ =>
    let rest := (w.drop 1).toString
    match w.front with
    | 'd' => some (.id (unhex rest))
    | 'i' => rest.toNat?.map .int
    | 'r' => some (.real (unhexL rest.toList))
    | 's' => some (.str (unhexL rest.toList))
    | 'e' => some (.estr (unhex rest))
    | 'b' => some (.bin (unhex rest))
    | 'k' => some (.kw (unhex rest))
    | 'o' => (opOfName rest).map .op
    | _ => none

def wordOfTok : Tok → String
  | .lp => "(" | .rp => ")" | .lb => "[" | .rb => "]" | .comma => "," | .colon => ":" | .dot => "." | .bslash => "\\"
  | .bar => "|" | .allIn => "<*" | .not => "not"
  | .id s => "d" ++ hex s | .int n => "i" ++ toString n | .real s => "r" ++ hexL s | .str s => "s" ++ hexL s
  | .estr s => "e" ++ hex s | .bin s => "b" ++ hex s | .kw s => "k" ++ hex s | .op o => "o" ++ nameOfOp o

def toksOfWords (ws : List String) : Option (List Tok) := ws.mapM tokOfWord

def litAst : Lit → String
  | .int n => s!"I{n}" | .real g => "R" ++ hexL g | .str s => "S" ++ hexL s | .estr s => "ES" ++ hex s | .bin s => "B" ++ hex s
  | .ltrue => "TRUE" | .lfalse => "FALSE" | .lunknown => "UNKNOWN" | .pi => "PI" | .e => "CONST_E" | .infinity => "?" | .self => "SELF"

def astStr : Expr → String
  | .lit l => litAst l
  | .ident s => "d" ++ hex s
  | .bin o a b => s!"({nameOfOp o} {astStr a} {astStr b})"
  | .neg a => s!"(neg {astStr a})" | .not a => s!"(not {astStr a})"
  | .dot a f => s!"(dot {astStr a} {hex f})" | .group a f => s!"(grp {astStr a} {hex f})"
  | .index a i => s!"(idx {astStr a} {astStr i})" | .range a i j => s!"(rng {astStr a} {astStr i} {astStr j})"
  | .query v s c => s!"(query {hex v} {astStr s} {astStr c})"
  | .call f as => s!"(call {hex f} {astStr as})" | .aggr is => s!"(aggr {astStr is})"
  | .nil => "nil" | .cons e t => s!"(cons {astStr e} {astStr t})" | .rep e c t => s!"(rep {astStr e} {astStr c} {astStr t})"

/-! reader for the schema request -/
abbrev Rd := StateT (List String) Option

def word : Rd String := do
  match (← get) with
  | w :: r => set r; pure w
  | [] => failure
def nat : Rd Nat := do
  let w ← word
  match w.toNat? with
  | some n => pure n
  | none => failure
def flag : Rd Bool := do pure ((← nat) != 0)
def hexw : Rd String := do pure (unhex (← word))
def takeN (n : Nat) : Rd (List String) := do
  let ws ← get
  if ws.length < n then failure
  set (ws.drop n); pure (ws.take n)
def rep {α} (n : Nat) (p : Rd α) : Rd (List α) := (List.range n).mapM fun _ => p

/-- `X <n> tok*n` -/
def rdExpr : Rd Expr := do
  let w ← word
  if w != "X" then failure
  let n ← nat
  let ws ← takeN n
  match toksOfWords ws with
  | some ts => match parse ts with
    | some e => pure e
    | none => failure
  | none => failure

partial def rdType : Rd TypeRef := do
  match (← word) with
  | "TN" => pure (.named (← hexw))
  | "TS" => pure (.simple (← hexw))
  | "TA" =>
    let kind ← hexw
    let hb ← flag
    let bounds ← if hb then do let a ← rdExpr; let b ← rdExpr; pure (some (a, b)) else pure none
    let uq ← flag
    let op ← flag
    let base ← rdType
    pure (.aggr kind bounds uq op base)
  | _ => failure

def rdWhere : Rd WhereRule := do
  if (← word) != "W" then failure
  let l ← word
  let e ← rdExpr
  pure { label := if l = "-" then none else some (unhex l), expr := e }

def rdAttr : Rd Attr := do
  if (← word) != "A" then failure
  let name ← hexw
  let opt ← flag
  let ty ← rdType
  let hi ← flag
  let init ← if hi then do pure (some (← rdExpr)) else pure none
  pure { name, optional := opt, ty, init }

def rdSchema : Rd Schema := do
  if (← word) != "SCHEMA" then failure
  let name ← hexw
  let consts ← rep (← nat) rdAttr
  let types ← rep (← nat) (do
    if (← word) != "TD" then failure
    let nm ← hexw
    let ty ← rdType
    let ws ← rep (← nat) rdWhere
    pure ({ name := nm, ty, wheres := ws } : TypeDecl))
  let ents ← rep (← nat) (do
    if (← word) != "EN" then failure
    let nm ← hexw
    let attrs ← rep (← nat) rdAttr
    let ws ← rep (← nat) rdWhere
    pure ({ name := nm, attrs, wheres := ws } : Entity))
  pure { name, consts, types, entities := ents }

/-! declaration syntax: `ty <type>` and `args <n> {<hexname> <var> <obj> <type>}` -> the tokens of `tyToks` / `argsToks`
type encoding (prefix): `N <hex>` | `S <KW> <prec 0/1> <fixed 0/1>` | `A <KIND> <bounds 0/1> <uq> <op> <type>` | `G <hex|->` | `GA <hex|-> <type>` -/
partial def rdTy : Rd Ty := do
  match (← word) with
  | "N" => pure (.named (← hexw))
  | "S" =>
    let k ← word
    let hp ← flag
    let fx ← flag
    pure (.simple k (if hp then some (.ident "E") else none) fx)
  | "A" =>
    let k ← word
    let hb ← flag
    let uq ← flag
    let op ← flag
    let b ← rdTy
    pure (.aggr k (if hb then some (.ident "E", .ident "E") else none) uq op b)
  | "G" =>
    let l ← word
    pure (.generic (if l = "-" then none else some (unhex l)))
  | "GA" =>
    let l ← word
    let b ← rdTy
    pure (.aggregate (if l = "-" then none else some (unhex l)) b)
  | _ => failure

def dtokStr : DTok → String
  | .kw s => "k:" ++ s | .id s => "i:" ++ s | .sym s => "s:" ++ s | .ex _ => "E"

def rdParam : Rd Param := do
  let name ← hexw
  let var ← flag
  let obj ← nat
  let ty ← rdTy
  pure { name, var, ty, obj }

def rdLocal : Rd Local := do
  let name ← hexw
  let hi ← flag
  let ty ← rdTy
  pure { name, ty, init := if hi then some (.ident "E") else none }

/-! `entity …` : an ENTITY declaration -> the tokens of `entityToks` and whether `parseEntity` reads them back
attribute name: `P <hex>` | `R <hex supertype> <hex attr>`; supertype expression: `E <hex>` | `O <n> items…` | `B <andor 0/1> a b` -/
def rdAttrName : Rd AttrName := do
  match (← word) with
  | "P" => pure (.plain (← hexw))
  | "R" =>
    let s ← hexw
    let a ← hexw
    pure (.redecl s a)
  | _ => failure

partial def rdSup : Rd SupEx := do
  match (← word) with
  | "E" => pure (.ent (← hexw))
  | "O" =>
    let xs ← rep (← nat) rdSup
    pure (.oneof (xs.foldr SupEx.cons .nil))
  | "B" =>
    let o ← flag
    let a ← rdSup
    let b ← rdSup
    pure (.bin o a b)
  | _ => failure

def rdEntity : Rd EntityDecl := do
  let name ← hexw
  let ab ← flag
  let hs ← flag
  let sup ← if hs then do pure (some (← rdSup)) else pure none
  let sub ← rep (← nat) hexw
  let expl ← rep (← nat) (do
    let nm ← rdAttrName
    let op ← flag
    let ty ← rdTy
    pure ({ name := nm, optional := op, ty } : ExplAttr))
  let der ← rep (← nat) (do
    let nm ← rdAttrName
    let ty ← rdTy
    pure ({ name := nm, ty, init := .ident "E" } : DerAttr))
  let inv ← rep (← nat) (do
    let nm ← rdAttrName
    let k ← word
    let hb ← flag
    let en ← hexw
    let fa ← hexw
    pure ({ name := nm, aggr := if k = "-" then none else some (k, if hb then some (.ident "E", .ident "E") else none), ent := en, attr := fa } : InvAttr))
  let uq ← rep (← nat) (do
    let l ← word
    let n ← nat
    pure ({ label := if l = "-" then none else some (unhex l), refs := List.replicate n (.ident "E") } : UniqRule))
  let wh ← rep (← nat) (do
    let l ← word
    pure ({ label := if l = "-" then none else some (unhex l), expr := .ident "E" } : DomRule))
  pure { name, abstract := ab, sup, subOf := sub, expl, der, inv, uniq := uq, dom := wh }

/-! `stmts <n> stmt…` : a statement list -> the tokens of `stmtsToks` and whether `parseStmts` reads them back
stmt: `AS` | `CL <hex> <nargs>` | `RT <0/1>` | `SK` | `ES` | `BG <n> stmt…` | `IF <else 0/1> <n> stmt… <n> stmt…`
| `CS <n> {<nlabels> stmt} <other 0/1> [stmt]` | `LP <incr 0/1> [<hex var>] <while> <until> <n> stmt…` | `AL <hex> <n> stmt…` -/
def exE : Expr := .ident "E"

mutual
partial def rdStmt : Rd Stmt := do
  match (← word) with
  | "AS" => pure (.assign exE exE)
  | "CL" =>
    let f ← hexw
    let n ← nat
    pure (.call f (List.replicate n exE))
  | "RT" => pure (.ret (if (← flag) then some exE else none))
  | "SK" => pure .skip
  | "ES" => pure .escape
  | "BG" => pure (.compound (← rdStmtList))
  | "IF" =>
    let he ← flag
    let th ← rdStmtList
    let el ← rdStmtList
    pure (.cond exE th he el)
  | "CS" =>
    let items ← rep (← nat) (do
      let nl ← nat
      let a ← rdStmt
      pure (Stmt.item (List.replicate nl exE) a))
    let ho ← flag
    let o ← if ho then rdStmt else pure .nil
    pure (.case exE (items.foldr Stmt.cons .nil) ho o)
  | "LP" =>
    let hi ← flag
    let incr ← if hi then do pure (some ((← hexw), exE, exE, exE)) else pure none
    let wh ← flag
    let un ← flag
    let b ← rdStmtList
    pure (.loop incr (if wh then some exE else none) (if un then some exE else none) b)
  | "AL" =>
    let a ← hexw
    let b ← rdStmtList
    pure (.alias a exE b)
  | _ => failure
partial def rdStmtList : Rd Stmt := do
  let xs ← rep (← nat) rdStmt
  pure (xs.foldr Stmt.cons .nil)
end

/-! `schema <hex name> <consts> <decls>` : a whole schema -> the tokens of `schemaToks` and whether `parseSchema` reads them back
consts := `<n> {<hex name> <type>}`;  decls := `<n> decl…`;
decl := `TD <typedecl>` | `EN <entity>` | `FN <hex> <n> {param} <ret 0/1> [<type>] decls consts <nlocals> {local} <stmt list>`
      | `RL <hex> <n> {<hex>} decls consts <nlocals> {local} <stmt list> <n rules> {<label|->}` -/
def rdTypeDecl : Rd TypeDeclS := do
  let name ← hexw
  let body ← (do
    match (← word) with
    | "T" => pure (TyBody.ty (← rdTy))
    | "EN" => pure (TyBody.enum (← rep (← nat) hexw))
    | "SL" => pure (TyBody.select (← rep (← nat) hexw))
    | _ => failure)
  let dom ← rep (← nat) (do
    let l ← word
    pure ({ label := if l = "-" then none else some (unhex l), expr := .ident "E" } : DomRule))
  pure { name, body, dom }

def rdConsts : Rd (List ConstDeclS) := do
  rep (← nat) (do
    let name ← hexw
    let ty ← rdTy
    pure ({ name, ty, init := .ident "E" } : ConstDeclS))

mutual
partial def rdDecl : Rd Decl := do
  match (← word) with
  | "TD" => pure (.typeD (← rdTypeDecl))
  | "EN" => pure (.entityD (← rdEntity))
  | "FN" =>
    let name ← hexw
    let ps ← rep (← nat) rdParam
    let hr ← flag
    let ret ← if hr then do pure (some (← rdTy)) else pure none
    let nested ← rdDecls
    let cs ← rdConsts
    let ls ← rep (← nat) rdLocal
    let b ← rdStmtList
    pure (.alg name ps ret nested cs ls b)
  | "RL" =>
    let name ← hexw
    let ents ← rep (← nat) hexw
    let nested ← rdDecls
    let cs ← rdConsts
    let ls ← rep (← nat) rdLocal
    let b ← rdStmtList
    let dom ← rep (← nat) (do
      let l ← word
      pure ({ label := if l = "-" then none else some (unhex l), expr := .ident "E" } : DomRule))
    pure (.rule name ents nested cs ls b dom)
  | _ => failure
partial def rdDecls : Rd Decl := do
  let xs ← rep (← nat) rdDecl
  pure (xs.foldr Decl.cons .nil)
end

def esc (s : List Char) : String :=
  String.ofList (s.flatMap fun c => if c = '\n' then ['\\', 'n'] else if c = '\\' then ['\\', '\\'] else [c])

def handle (line : String) : String :=
  match (line.trimAscii.toString.splitOn " ").filter (· ≠ "") with
  | "pp" :: w :: t :: c :: rest =>
    match w.toNat?, t.toNat?, c.toNat? with
    | some w, some t, some c =>
      match rdSchema.run rest with
      | some (s, []) => "P " ++ esc (schemaOut { linelen := w, tail := t != 0, wrapConsts := c != 0 } s).text
      | _ => "parse-error"
    | _, _, _ => "bad-op"
  | "ast" :: rest =>
    match toksOfWords rest with
    | some ts => match parse ts with
      | some e => "A " ++ astStr (joinStr e)
      | none => "parse-error"
    | none => "bad-op"
  | "toks" :: rest =>
    match toksOfWords rest with
    | some ts => match parse ts with
      | some e => "T " ++ " ".intercalate ((toks (sharedOf e) e false none).map wordOfTok)
      | none => "parse-error"
    | none => "bad-op"
  | "lex" :: h :: [] =>
    -- the scanner model on a piece of text (hex): the tokens it reads, or lex-error
    match lex (unhexL h.toList) with
    | some ts => "L " ++ " ".intercalate (ts.map wordOfTok)
    | none => "lex-error"
  | "schema" :: rest =>
    let rd : Rd SchemaS := do
      let name ← hexw
      let cs ← rdConsts
      let ds ← rdDecls
      pure { name, consts := cs, decls := ds }
    match rd.run rest with
    | some (s, []) =>
      let ts := schemaToks s
      let back := parseSchema (8 * ts.length + 64) ts
      "D " ++ " ".intercalate (ts.map dtokStr) ++ (if back == some (s.erase, []) then " | roundtrip-ok" else " | roundtrip-differs")
        ++ (if orderedSpine s.decls then " | order-ok" else " | order-differs")
    | _ => "bad-op"
  | "typedecl" :: rest =>
    -- `typedecl <hex name> (T <type> | EN <n> <hex>… | SL <n> <hex>…) <n rules> <label|->…`
    let rd : Rd TypeDeclS := do
      let name ← hexw
      let body ← (do
        match (← word) with
        | "T" => pure (TyBody.ty (← rdTy))
        | "EN" => pure (TyBody.enum (← rep (← nat) hexw))
        | "SL" => pure (TyBody.select (← rep (← nat) hexw))
        | _ => failure)
      let dom ← rep (← nat) (do
        let l ← word
        pure ({ label := if l = "-" then none else some (unhex l), expr := .ident "E" } : DomRule))
      pure { name, body, dom }
    match rd.run rest with
    | some (d, []) =>
      let ts := typeDeclToks d
      let back := parseTypeDecl (8 * ts.length + 64) (ts ++ [.kw "X"])
      "D " ++ " ".intercalate (ts.map dtokStr) ++ (if back == some (d, [.kw "X"]) then " | roundtrip-ok" else " | roundtrip-differs")
    | _ => "bad-op"
  | "consts" :: n :: rest =>
    -- `consts <n> {<hex name> <type>}`
    match n.toNat? with
    | some n =>
      match (rep n (do
          let name ← hexw
          let ty ← rdTy
          pure ({ name, ty, init := .ident "E" } : ConstDeclS))).run rest with
      | some (cs, []) =>
        let ts := constsToks cs
        let back := parseConsts (8 * ts.length + 64) (ts ++ [.kw "X"])
        "D " ++ " ".intercalate (ts.map dtokStr) ++ (if back == some (cs, [.kw "X"]) then " | roundtrip-ok" else " | roundtrip-differs")
      | _ => "bad-op"
    | none => "bad-op"
  | "stmts" :: rest =>
    match rdStmtList.run rest with
    | some (b, []) =>
      let ts := stmtsToks b
      let back := parseStmts (8 * ts.length + 64) (ts ++ [.kw "END_X"])
      "D " ++ " ".intercalate (ts.map dtokStr) ++ (if back == some (b, [.kw "END_X"]) then " | roundtrip-ok" else " | roundtrip-differs")
    | _ => "bad-op"
  | "entity" :: rest =>
    match rdEntity.run rest with
    | some (e, []) =>
      let ts := entityToks e
      let back := (parseEntity (8 * ts.length + 64) (ts ++ [.kw "X"])).map (·.1)
      "D " ++ " ".intercalate (ts.map dtokStr) ++ (if back == some e.norm then " | roundtrip-ok" else " | roundtrip-differs")
    | _ => "bad-op"
  | "ty" :: rest =>
    match rdTy.run rest with
    | some (t, []) => "D " ++ " ".intercalate ((tyToks t).map dtokStr)
    | _ => "bad-op"
  | "locals" :: n :: rest =>
    match n.toNat? with
    | some n =>
      match (rep n rdLocal).run rest with
      | some (ls, []) =>
        let back := (parseLocals (ls.length + 64) (localsToks ls ++ [.kw "X"])).map (·.1)
        "D " ++ " ".intercalate ((localsToks ls).map dtokStr) ++ (if back == some ls then " | roundtrip-ok" else " | roundtrip-differs")
      | _ => "bad-op"
    | none => "bad-op"
  | "args" :: n :: rest =>
    match n.toNat? with
    | some n =>
      match (rep n rdParam).run rest with
      | some (ps, []) =>
        let triples := (parseParams (ps.length + 64) (argsToks ps ++ [.sym ")"])).map (·.1)
        "D " ++ " ".intercalate ((argsToks ps).map dtokStr)
          ++ (if triples == some (ps.map Param.triple) then " | roundtrip-ok" else " | roundtrip-differs")
      | _ => "bad-op"
    | none => "bad-op"
  | [] => ""
  | _ => "bad-op"

partial def loop (h : IO.FS.Stream) (out : IO.FS.Stream) : IO Unit := do
  let line ← h.getLine
  if line.isEmpty then return ()
  let o := handle line
  if o ≠ "" then
    out.putStrLn o
    out.flush
  loop h out

def main : IO Unit := do
  let out ← IO.getStdout
  loop (← IO.getStdin) out
  out.flush

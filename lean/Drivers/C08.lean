import StepModel.ComplexMatch
import StepModel.ComplexBuild
import StepModel.ComplexSafeTop
import StepModel.ComplexInit
/-! Line-protocol driver for the complex-entity models (same request lines as harness/h_complex.cc where they overlap).
Names are numbers (alphabetical rank of the entity name, assigned by the caller).

    tree C[ t ; t ]            -> T C[ ... ]        set the collect (t ::= n | (A t..) | (O t..) | (X t..))
    wf                         -> W 0 | W 1         every head has the shape `C08_no_crash` assumes (`headWF`)
    mult n n ..                -> M k               set the entities that have more than one supertype
    q n n ..                   -> R 0 | R 1 | R crash:<site> | R fuel      Match.supports on the parts in this order
    eval n n ..                -> E 0 | E 1         Complex.evalB (plain meaning of the current collect)
    n n n ..                   -> N n n ..          the EntNode list the constructor builds
    rs n n ..                  -> N n n .. | R crash:<site>   EntNode::sort on the list as it is after renaming
    consts                     -> K nullsafe=<0|1> sortns=<0|1> listend=<n>   regenerated switches the model runs with
    schema <k> {name abs k s.. m t.. expr|-}*       -> S k   set the schema (expr prefix code: e:<n> | o<k> .. | a . . | x . .)
    collect                    -> T C[ ... ] | T none        Build.collectOf of the schema
    legal n n ..               -> L 0 | L 1         Spec.Legal of the schema
    forest                     -> F 0 | F 1         the schema satisfies ForestWF (hypothesis of C08_eval_legal_partial)
    implok                     -> I 0 | I 1         hypothesis ImplicitAgree of C08_head_meaning holds for every entity
-/
open StepModel.Complex StepModel.Complex.Match

partial def showTree : Tree → String
  | .simple n => toString n
  | .and cs => "(A" ++ String.join (cs.map (fun c => " " ++ showTree c)) ++ ")"
  | .or cs => "(O" ++ String.join (cs.map (fun c => " " ++ showTree c)) ++ ")"
  | .andor cs => "(X" ++ String.join (cs.map (fun c => " " ++ showTree c)) ++ ")"

def showCollect (c : Collect) : String :=
  "C[" ++ String.join (c.zipIdx.map (fun (t, i) => (if i = 0 then " " else " ; ") ++ showTree t)) ++ " ]"

/-- parse one tree from a token list -/
def parseTree : Nat → List String → Option (Tree × List String)
  | 0, _ => none
  | _ + 1, [] => none
  | f + 1, "(" :: op :: rest =>
    let rec kids (g : Nat) (toks : List String) (acc : List Tree) : Option (List Tree × List String) :=
      match g with
      | 0 => none
      | g + 1 =>
        match toks with
        | ")" :: rest' => some (acc.reverse, rest')
        | _ => match parseTree f toks with
          | some (t, rest') => kids g rest' (t :: acc)
          | none => none
    match kids (rest.length + 1) rest [] with
    | some (cs, rest') =>
      if op = "A" then some (.and cs, rest') else if op = "O" then some (.or cs, rest')
      else if op = "X" then some (.andor cs, rest') else none
    | none => none
  | _ + 1, t :: rest => t.toNat?.map (fun n => (.simple n, rest))

def parseCollect (toks : List String) : Option Collect :=
  match toks with
  | "C[" :: rest =>
    let rec go (g : Nat) (toks : List String) (acc : List Tree) : Option Collect :=
      match g with
      | 0 => none
      | g + 1 =>
        match toks with
        | ["]"] => some acc.reverse
        | ";" :: rest' => go g rest' acc
        | _ => match parseTree 1000 toks with
          | some (t, rest') => go g rest' (t :: acc)
          | none => none
    go 1000 rest []
  | _ => none

def tokens (line : String) : List String :=
  let padded := ((((line.replace "(" " ( ").replace ")" " ) ").replace "\n" " ").replace "\r" " ").replace "\t" " "
  (padded.splitOn " ").filter (fun s => s ≠ "" && s ≠ "\n" && s ≠ "\r")

def nats (ws : List String) : Option (List Nat) := ws.mapM (fun w => w.toNat?)

def parseExpr : Nat → List String → Option (Expr × List String)
  | 0, _ => none
  | _ + 1, [] => none
  | f + 1, t :: rest =>
    if t.startsWith "e:" then (t.drop 2).toNat?.map (fun n => (.ent n, rest))
    else if t = "a" || t = "x" then
      match parseExpr f rest with
      | some (l, r1) => match parseExpr f r1 with
        | some (r, r2) => some (if t = "a" then .and l r else .andor l r, r2)
        | none => none
      | none => none
    else if t.startsWith "o" then
      match (t.drop 1).toNat? with
      | none => none
      | some k =>
        let rec many (g : Nat) (k : Nat) (toks : List String) (acc : List Expr) : Option (List Expr × List String) :=
          match g, k with
          | _, 0 => some (acc.reverse, toks)
          | 0, _ => none
          | g + 1, k + 1 => match parseExpr f toks with
            | some (e, r) => many g k r (e :: acc)
            | none => none
        (many (k + 1) k rest []).map (fun (es, r) => (.oneof es, r))
    else none

def takeN (k : Nat) (toks : List String) : Option (List Nat × List String) :=
  if toks.length < k then none else (nats (toks.take k)).map (fun ns => (ns, toks.drop k))

def parseEntities : Nat → Nat → List String → List Entity → Option Schema
  | _, 0, [], acc => some acc.reverse
  | _, 0, _ :: _, _ => none
  | 0, _, _, _ => none
  | g + 1, k + 1, nm :: ab :: ns :: rest, acc =>
    match nm.toNat?, ab.toNat?, ns.toNat? with
    | some n, some a, some nsup =>
      match takeN nsup rest with
      | none => none
      | some (sups, rest1) =>
        match rest1 with
        | m :: rest2 =>
          match m.toNat? with
          | none => none
          | some nsub =>
            match takeN nsub rest2 with
            | none => none
            | some (subs, rest3) =>
              match rest3 with
              | "-" :: rest4 =>
                parseEntities g k rest4 ({ name := n, abstract := a = 1, supers := sups, subs := subs, expr := none } :: acc)
              | _ =>
                match parseExpr 1000 rest3 with
                | some (e, rest4) =>
                  parseEntities g k rest4 ({ name := n, abstract := a = 1, supers := sups, subs := subs, expr := some e } :: acc)
                | none => none
        | [] => none
    | _, _, _ => none
  | _, _, _, _ => none

/-- super chain length of an entity (none: longer than the fuel, i.e. a cycle, or an undeclared name) -/
def depthOf (s : Schema) : Nat → Name → Option Nat
  | 0, _ => none
  | f + 1, n => match s.find n with
    | none => none
    | some e => match e.supers with
      | [] => some 0
      | [p] => (depthOf s f p).map (· + 1)
      | _ => none

def nodupB (l : List Name) : Bool := l.eraseDups.length == l.length

/-- Bool rendering of `ForestWF` (hypothesis of C08_eval_legal_partial) -/
def forestOK (s : Schema) : Bool :=
  let names := s.map (·.name)
  nodupB names &&
  s.all (fun e =>
    decide (e.supers.length ≤ 1) && nodupB e.subs &&
    e.subs.all (fun m => s.any (fun e' => e'.name == m && e'.supers == [e.name])) &&
    s.all (fun e' => !(e'.supers == [e.name]) || e.subs.contains e'.name) &&
    e.supers.all (fun p => names.contains p) &&
    (match e.expr with
     | none => true
     | some x => x.ents.all (fun m => e.subs.contains m) && nodupB x.ents) &&
    (!e.abstract || !e.subs.isEmpty) &&
    (depthOf s (s.length + 1) e.name).isSome)

structure DState where
  collect : Collect := []
  mult : List Name := []
  schema : Schema := []

def crashName : Crash → String
  | .firstCandidateNull => "firstCandidateNull" | .unmarkPastEnd => "unmarkPastEnd" | .orChoiceNull => "orChoiceNull"
  | .castSimple => "castSimple" | .emptyList => "emptyList" | .badHead => "badHead"
  | .comboEmpty => "comboEmpty" | .comboOdd => "comboOdd" | .sortNullChunk => "sortNullChunk"

def handle (s : DState) (line : String) : DState × String :=
  match tokens line with
  | [] => (s, "")
  | "tree" :: rest =>
    match parseCollect rest with
    | some c => ({ s with collect := c }, "T " ++ showCollect c)
    | none => (s, "bad-op")
  | ["implok"] =>
    -- hypothesis `ImplicitAgree` of C08_head_meaning, for every entity that has subtypes
    let T := fun n => entTree s.schema 400 n
    let ok := s.schema.all (fun e =>
      e.subs.isEmpty ||
      (match (match e.expr with | none => some [] | some x => exprKids T .superHead x) with
       | none => false
       | some b =>
         let known := match e.expr with | none => [] | some _ => e.name :: leavesL b
         e.subs.filter (fun n => !known.contains n) == e.implicit))
    (s, if ok then "I 1" else "I 0")
  | ["consts"] => (s, s!"K nullsafe={if StepModel.Generated.tryNextNullSafe then 1 else 0} sortns={if StepModel.Generated.sortNonStrict then 1 else 0} listend={StepModel.Generated.listEnd}")
  | "rs" :: rest =>
    match nats rest with
    | some (n :: ns) =>
      match sortNodes (n :: ns) with
      | .ok l => (s, "N" ++ String.join (l.map (fun x => s!" {x}")))
      | .crash c => (s, "R crash:" ++ crashName c)
      | .outOfFuel => (s, "R fuel")
    | _ => (s, "bad-op")
  | ["forest"] => (s, if forestOK s.schema then "F 1" else "F 0")
  | ["wf"] => (s, if s.collect.all headWF then "W 1" else "W 0")
  | "mult" :: rest =>
    match nats rest with
    | some ns => ({ s with mult := ns }, s!"M {ns.length}")
    | none => (s, "bad-op")
  | "q" :: rest =>
    match nats rest with
    | some (n :: ns) =>
      match supports s.collect s.mult (n :: ns) with
      | .ok true => (s, "R 1")
      | .ok false => (s, "R 0")
      | .crash c => (s, "R crash:" ++ crashName c)
      | .outOfFuel => (s, "R fuel")
    | _ => (s, "bad-op")
  | "eval" :: rest =>
    match nats rest with
    | some (n :: ns) => (s, if evalB s.collect s.mult (n :: ns) then "E 1" else "E 0")
    | _ => (s, "bad-op")
  | "n" :: rest =>
    match nats rest with
    | some (n :: ns) => (s, "N" ++ String.join ((mkNames (n :: ns)).map (fun x => s!" {x}")))
    | _ => (s, "bad-op")
  | "schema" :: k :: rest =>
    match k.toNat? with
    | some k =>
      match parseEntities 1000 k rest [] with
      | some sc => ({ s with schema := sc }, s!"S {sc.length}")
      | none => (s, "bad-op")
    | none => (s, "bad-op")
  | ["collect"] =>
    match collectOf s.schema 400 with
    | some c => (s, "T " ++ showCollect c)
    | none => (s, "T none")
  | "legal" :: rest =>
    match nats rest with
    | some (n :: ns) => (s, if Legal s.schema (n :: ns) then "L 1" else "L 0")
    | _ => (s, "bad-op")
  | _ => (s, "bad-op")

partial def loop (h : IO.FS.Stream) (out : IO.FS.Stream) (s : DState) : IO Unit := do
  let line ← h.getLine
  if line.isEmpty then return ()
  let (s', o) := handle s line
  if o ≠ "" then out.putStrLn o
  loop h out s'

def main : IO Unit := do
  let out ← IO.getStdout
  loop (← IO.getStdin) out {}
  out.flush

import StepModel.BuffersCore
import StepModel.Generated.C06Buffers
/-! Line-protocol driver for the C06 buffer models, evaluated on the regenerated configuration.
One request per line, one reply per line; unknown → `bad-op`. -/
open StepModel.Buffers StepModel.Generated.C06

def showO (f : α → String) : Outcome α → String
  | .ok a => "ok " ++ f a
  | .overflow i => s!"overflow {i}"
  | .underflow => "underflow"
  | .reject => "reject"

def prog : RemarkProg := { cap := remarkCap, semicolon := semicolonOps, save := saveCommentOps }

/-- `s<n>` = `; -- remark` whose text from the first '-' has n bytes, `v<n>` = `-- remark` line of n bytes -/
def parseCall (w : String) : Option RemarkCall :=
  let n? := (w.drop 1).toNat?
  match w.front, n? with
  | 's', some n => some (.semicolon (List.replicate n 45))
  | 'v', some n => some (.save (List.replicate n 45))
  | _, _ => none

def parseEv : Char → Option ScopeEv
  | 'P' => some .push
  | 'D' => some .pushDummy
  | 'p' => some .pop
  | _ => none

def toolOf : String → Option Tool
  | "check-express" => some .checkExpress | "exppp" => some .exppp
  | "exp2cxx" => some .exp2cxx | "exp2python" => some .exp2python | _ => none

/-- run reports one by one; reply says after how many reports the process stops itself -/
def errLoop (c : ErrCfg) (m : Msg) : Nat → Nat → ErrState → String
  | 0, k, s => s!"ok used={s.used} count={s.count} reports={k}"
  | fuel + 1, k, s =>
    match errStep c s (.report m) with
    | .ok s' => errLoop c m fuel (k + 1) s'
    | .overflow i => s!"overflow {i} at-report {k + 1}"
    | .underflow => "underflow"
    | .reject => s!"reject at-report {k + 1}"

def handle (line : String) : String :=
  match (line.trimAscii.toString.splitOn " ").filter (· ≠ "") with
  | ["remark", seq] =>
    let ws := seq.splitOn ","
    match ws.mapM parseCall with
    | some calls => showO (fun b => s!"len={b.length} readable={readable b} strlen={(cstr b).length}") (remarkRun prog (remarkInit prog) calls)
    | none => "bad-op"
  | ["scope", evs] =>
    match evs.toList.mapM parseEv with
    | some es => showO toString (scopeRun scopeCfg 0 es)
    | none => "bad-op"
  | ["pushes", n] =>
    match n.toNat? with
    | some n => showO toString (scopeRun scopeCfg 0 (List.replicate n .push))
    | none => "bad-op"
  | ["fmt", which, n] =>
    match n.toNat?, which with
    | some n, "wrap" => showO toString (fmtOut wrapFmt n)
    | some n, "raw" => showO toString (fmtOut rawFmt n)
    | _, _ => "bad-op"
  | ["line", n] =>
    match n.toNat? with
    | some n => showO toString (lineOut lineCfg n)
    | none => "bad-op"
  | ["exprlen", n] =>
    match n.toNat? with
    | some n => showO toString (exprLenOut exprLenCfg (.leaf 0 n 0))
    | none => "bad-op"
  | ["exprlit", n, q] =>
    -- a string literal of n characters, q of them apostrophes, measured by EXPRlength
    match n.toNat?, q.toNat? with
    | some n, some q =>
      let dbl := decide (2 ≤ exprNameWriteFactor)
      showO toString (exprLenOut exprLenCfg (.leaf (if dbl then 2 else 0) n (if dbl then min q n else 0)))
    | _, _ => "bad-op"
  | ["exprrep", n] =>
    -- `[ 0 : <expression that prints n characters> ]` measured by EXPRlength
    match n.toNat? with
    | some n => showO toString (exprLenOut exprLenCfg (.list 2 (.cons 0 (.leaf 1 0 0) (.rep 3 (.leaf 0 n 0) .nil))))
    | none => "bad-op"
  | ["casefn", fn, n] =>
    match n.toNat?, caseFns.lookup fn with
    | some n, some c => showO toString (loopOut c n)
    | _, _ => "bad-op"
  | ["gatedfn", tool, fn, n] =>
    match n.toNat?, caseFns.lookup (tool ++ "." ++ fn), identGates.lookup tool with
    | some n, some c, some (g, _) => showO toString (gatedLoopOut g c n)
    | _, _, _ => "bad-op"
  | ["gate", tool, n] =>
    match n.toNat?, identGates.lookup tool with
    | some n, some (some g, _) => if g < n then "reject" else s!"ok {n}"
    | some n, some (none, _) => s!"ok {n}"
    | _, _ => "bad-op"
  | ["desc", cnt, len] =>
    match cnt.toNat?, len.toNat? with
    | some cnt, some len => showO toString (descRun descCfg 0 (List.replicate cnt len))
    | _, _ => "bad-op"
  | ["nonunique", tool, bits] =>
    match nonUniqueCfgs.lookup tool with
    | some c => showO toString (nonUniqueOut c (bits.toList.map (· == '1')))
    | none => "bad-op"
  | ["recursion", which, shape, n] =>
    match n.toNat? with
    | some n =>
      let mf? : Option Bool := match which with
        | "inheritance" => some inheritanceMarkFirst | "named-attribute" => some namedAttrMarkFirst | _ => none
      let h? : Option Hier := match shape with
        | "cycle" => some (fun i => [(i + 1) % (max n 1)])
        | "chain" => some (fun i => if i + 1 < n then [i + 1] else [])
        | _ => none
      match mf?, h? with
      | some mf, some h =>
        match visit mf h (n + 2) [] 0 with
        | some m => s!"returns marked={m.length}"
        | none => "never-returns"
      | _, _ => "bad-op"
    | none => "bad-op"
  | ["strbuf", chunks] =>
    match (chunks.splitOn ",").mapM (·.toNat?) with
    | some cs => showO (fun s => s!"used={s.used} terminated={s.terminated}") (strBufRun strBufCfg (strBufInit strBufCfg) cs)
    | none => "bad-op"
  | ["selectsearch", n] =>
    match n.toNat? with
    | some n =>
      match visit selectSearchMarkStable (fun i => [(i + 1) % (max n 1)]) (n + 2) [] 0 with
      | some m => s!"returns marked={m.length}"
      | none => "never-returns"
    | none => "bad-op"
  | ["scan", n] =>
    match n.toNat? with
    | some n => showO toString (scanRun scanCfg 0 (List.replicate n .includeFound))
    | none => "bad-op"
  | ["comments", n] =>
    match n.toNat? with
    | some n => showO toString (commentRun commentCfg 0 (List.replicate n .open_))
    | none => "bad-op"
  | ["pathentry", n] =>
    match n.toNat? with
    | some n => showO toString (pathEntryOut schemaFileCfg n)
    | none => "bad-op"
  | ["findschema", leaf, n] =>
    match leaf.toNat?, n.toNat? with
    | some l, some n => showO toString (findSchemaOut schemaFileCfg l n)
    | _, _ => "bad-op"
  | ["escape", len, sp] =>
    match len.toNat?, sp.toNat? with
    | some l, some q => showO toString (escapeOut escapeCfg l q)
    | _, _ => "bad-op"
  | ["pycall", nm, args] =>
    match nm.toNat?, (args.splitOn ",").mapM (·.toNat?) with
    | some nm, some as => showO toString (pyCallOut pyCallCfg nm as)
    | _, _ => "bad-op"
  | ["renamesearch", n] =>
    match n.toNat? with
    | some n =>
      match renameSearch renameSearchPathGuard (fun i => [(i + 1) % (max n 1)]) (n + 2) [] 0 with
      | some _ => "returns"
      | none => "never-returns"
    | none => "bad-op"
  | ["renametail", tail, ring] =>
    -- a name no schema declares, looked up from the head of a tail of `tail` schemas that leads into a ring of `ring` schemas
    match tail.toNat?, ring.toNat? with
    | some t, some r =>
      if r == 0 then "bad-op"
      else match renameSearchG renameSearchGuardKind (tailRing t r) (t + r + 2) none [] 0 with
        | some _ => "returns"
        | none => "never-returns"
    | _, _ => "bad-op"
  | ["nesting", kind, n] =>
    match n.toNat?, nestingLimits.lookup (kind.replace "_" " ") with
    | some n, some lim =>
      let rec chain : Nat → Tree
        | 0 => .node .nil
        | k + 1 => .node (.cons (chain k) .nil)
      if n == 0 then "bad-op" else if (chain (n - 1)).accepted lim 0 then s!"ok {n}" else "reject"
    | _, _ => "bad-op"
  | ["indent", n] =>
    match n.toNat? with
    | some n => showO toString (indentOut pythonIndent n)
    | none => "bad-op"
  | ["filename", n] =>
    match n.toNat? with
    | some n => showO toString (fileNameOut fileNameCfg n)
    | none => "bad-op"
  | ["errheap", cnt, p, b] =>
    match cnt.toNat?, p.toNat?, b.toNat? with
    | some cnt, some p, some b => errLoop errCfg ⟨p, b, false⟩ cnt 0 ⟨0, 0⟩
    | _, _, _ => "bad-op"
  | ["errseq", p, bodies] =>
    match p.toNat?, (bodies.splitOn ",").mapM (·.toNat?) with
    | some p, some bs =>
      let rec go (s : ErrState) (k : Nat) : List Nat → String
        | [] => s!"ok used={s.used} count={s.count} reports={k}"
        | b :: rest =>
          match errStep errCfg s (.report ⟨p, b, false⟩) with
          | .ok s' => go s' (k + 1) rest
          | .overflow i => s!"overflow {i} at-report {k + 1}"
          | .underflow => "underflow"
          | .reject => s!"reject at-report {k + 1}"
      go ⟨0, 0⟩ 0 bs
    | _, _ => "bad-op"
  | ["setwarning", name] =>
    match setWarning setWarningNameGuard name libErrorClasses false with
    | .done f => s!"done found={f}"
    | .nullDeref code => s!"null-deref {code}"
  | ["exit", tool, v] =>
    match toolOf tool with
    | some t =>
      let vd : Option Verdict := match v with
        | "accepted" => some .accepted | "errors" => some .errors | "usage" => some (.usage 0) | _ => none
      match vd with
      | some vd => match exitStatus exitCfg t vd with | some s => s!"status {s}" | none => "no-such-path"
      | none => "bad-op"
    | none => "bad-op"
  | ["exitdisc", b, p1, p2, p3] =>
    -- phases: comma separated tokens, letter W/E/X/D (severity), then s (with symbol) or p (plain), optional f (buffer full); "-" = nothing
    let codeOf (sev : Nat) : Nat :=
      ((List.range exitDiscCfg.sevs.length).find? (fun i => i != 0 && i != exitDiscCfg.subordinate && exitDiscCfg.sevs.getD i 0 == sev)).getD 0
    let evOf (t : String) : Option Ev :=
      match t.toList with
      | l :: m :: rest =>
        let sev := match l with | 'W' => some 0 | 'E' => some exitDiscCfg.sevError | 'X' => some exitDiscCfg.sevExit | 'D' => some exitDiscCfg.sevDump | _ => none
        sev.map (fun sv => ⟨codeOf sv, m == 's', rest == ['f']⟩)
      | _ => none
    let phase (p : String) : List Ev := if p == "-" then [] else (p.splitOn ",").filterMap evOf
    match runMain exitDiscCfg (b == "1") (fun _ => true) (phase p1) (phase p2) (phase p3) with
    | (st, some (.exited n)) => s!"exit {n} printed {st.printed} pending {st.pending} trailer {st.trailer} err {st.errIssued}"
    | (st, some .aborted) => s!"abort printed {st.printed} pending {st.pending}"
    | (_, none) => "no-end"
  | ["renamering", n, closed] =>
    -- n schemas, schema i imports the item from schema i+1 by name (`USE FROM s(i+1) (x)`); closed = the last imports from the first
    match n.toNat? with
    | some k =>
      let g : ImportGraph := ⟨fun _ => [], fun s => if s + 1 < k || closed == "1" then [s] else [], fun r => (r + 1) % k⟩
      match renameResolve renameResolveMarkFirst renameSearchPathGuard g (k * (k + 2) + 1) [] 0 with
      | some m => s!"returns seen={m.length}"
      | none => "never-returns"
    | none => "bad-op"
  | ["dagwalk", which, n] =>
    -- calls of the named walk on a ladder of n + 1 levels (every node names the level below twice)
    match n.toNat? with
    | some k =>
      let memo := (dagWalks.find? (fun p => p.1 == which)).map (·.2)
      match memo with
      | none => "bad-op"
      | some mm =>
        -- without memo the count is 2^(k+1) - 1 (theorem): do not evaluate it for large k
        if !mm && k > 20 then s!"calls 2^{k + 1}-1"
        else match walkSteps mm ladderH (k + 1) [] k with
          | some (_, c) => s!"calls {c}"
          | none => "never-returns"
    | none => "bad-op"
  | ["nodebudget"] => s!"budget {complexNodeBudget}"
  | ["exitsites"] =>
    s!"fallback={usageFallback} sites={exitSites.map (fun x => (x.1, x.2.1, x.2.2))}"
  | ["config"] =>
    s!"remarkCap={remarkCap} scopeCap={scopeCfg.cap} scopeGuard={scopeCfg.guard} maxErrors={errCfg.maxErrors} " ++
    s!"wrapCap={wrapFmt.cap} lineCap={lineCfg.cap} exprCap={exprLenCfg.cap} caseCap={(caseFns.map (·.2.cap))}"
  | [] => ""
  | _ => "bad-op"

partial def loop (i o : IO.FS.Stream) : IO Unit := do
  let line ← i.getLine
  if line.isEmpty then return ()
  o.putStrLn (handle line)
  o.flush
  loop i o

def main : IO Unit := do
  loop (← IO.getStdin) (← IO.getStdout)

import StepModel.GenPy
import StepModel.GenPyBody
import StepModel.GenPyStmt
/-! Driver for the exp2python emission model.  `m_c18 model` prints what exp2python emits (as modelled), `m_c18 spec`
what the property asks for.  Input: schemas as blocks of lines

    schema NAME
    type NAME simple PY | boolean | defined REF | enum I1 I2 … | select M1 M2 … | aggregate KIND LO HI|? [KIND LO HI|? …] BASE
    entity NAME S1,S2|- A1:k[:T],A2:k[:T]|-  (k = e explicit, o optional, d derived, i inverse; T = INTEGER … | BOOLEAN |
                                             @name (defined type or entity) | # (inline aggregate))
    end

one reply line per block (items separated by ` | `, classes and types in input order); anything else: `bad-op`. -/
open StepModel.GenPy

def joinOr (l : List String) (dflt : String) : String := if l.isEmpty then dflt else ",".intercalate l

def parseKindC : String → Option AKind
  | "e" => some .explicit | "o" => some .optional | "d" => some .derived | "i" => some .inverse | _ => none

def parseATy (s : String) : ATy :=
  if s = "BOOLEAN" then .boolean
  else if s = "#" then .aggregate
  else if s.startsWith "@" then .named (s.drop 1).toString
  else .simple s

def parseAttrs (owner : String) (s : String) : Option (List Attr) :=
  if s = "-" then some [] else
  (s.splitOn ",").mapM (fun w => match w.splitOn ":" with
    | [n, k] => (parseKindC k).map (fun k => { owner, name := n, kind := k })
    | [n, k, t] => (parseKindC k).map (fun k => { owner, name := n, kind := k, ty := parseATy t })
    | _ => none)

def showAccess : Access → String
  | .mandatory => "m" | .optional => "o" | .derived => "d" | .inverse => "i"

def showProps (types : List TypeDef) (e : Entity) : String :=
  joinOr (e.attrs.map (fun a =>
    let p := propOf a
    s!"{p.name}:{showAccess p.access}:" ++ (let acc := String.ofList (acceptsProbe types a); if acc.isEmpty then "-" else acc))) "-"

/-- `KIND LO HI|? KIND LO HI … BASE` -/
def parseAgg : List String → Option AggT
  | [k, lo, hi, b] => do
    let lo ← lo.toInt?
    let hi ← if hi = "?" then some none else hi.toInt?.map some
    pure (.agg k lo hi (.leaf b))
  | k :: lo :: hi :: rest => do
    let lo ← lo.toInt?
    let hi ← if hi = "?" then some none else hi.toInt?.map some
    let inner ← parseAgg rest
    pure (.agg k lo hi inner)
  | _ => none

/-- `@` marks the level that carries `scope=` (model mode only) -/
def showAgg (withScope : Bool) : AggT → String
  | .leaf b => b
  | .agg k lo hi (.leaf b) =>
    s!"{k},{lo}," ++ (match hi with | some h => toString h | none => "?") ++ "," ++ (if withScope then "@" else "") ++ b
  | .agg k lo hi i =>
    s!"{k},{lo}," ++ (match hi with | some h => toString h | none => "?") ++ ",[" ++ showAgg withScope i ++ "]"

def parseType : List String → Option TypeDef
  | [n, "simple", py] => some ⟨n, .simple py⟩
  | [n, "boolean"] => some ⟨n, .boolean⟩
  | [n, "defined", r] => some ⟨n, .defined r⟩
  | n :: "enum" :: items => some ⟨n, .enum items⟩
  | n :: "select" :: ms => some ⟨n, .select ms⟩
  | n :: "aggregate" :: rest => (parseAgg rest).map (fun a => ⟨n, .aggregate a⟩)
  | _ => none

def showBody (withScope : Bool) : TBody → String
  | .simple py => s!"simple:{py}"
  | .boolean => "boolean"
  | .defined r => s!"defined:{r}"
  | .enum items => "enum:" ++ joinOr items "-"
  | .select ms => "select:" ++ joinOr ms "-"
  | .aggregate a => "aggregate:" ++ showAgg withScope a

def showClass (c : PyClass) : String :=
  s!"class {c.name} bases={joinOr c.bases "-"} ctor=" ++ (match c.ctor with | some ps => joinOr ps "-" | none => "!")

def render (useSpec : Bool) (s : Schema) : String :=
  if useSpec then
    " | ".intercalate (
      s.entities.map (fun e => s!"class {e.name} bases={joinOr e.supers "-"} ctorattrs={joinOr (Spec.ctorAttrNames s.entities e) "-"}")
      ++ s.types.map (fun t => s!"type {t.name}={showBody false t.body}"))
  else
    let m := moduleOf s
    " | ".intercalate ([s!"pkg={m.package}"] ++ m.classes.map showClass
      ++ (s.entities.map (fun e => s!"attrs {pyName e.name}={joinOr (ctorAttrNames s.entities e) "-"}"))
      ++ (s.entities.map (fun e => s!"props {pyName e.name}={showProps s.types e}"))
      ++ m.types.map (fun t => s!"type {t.name}={showBody true t.body}"))

/-! ### `expr` lines: the body written for a derived attribute / WHERE rule

    expr d|r LABEL|- INTS|- BOOLS|- ENVS|- TOKENS…      (ENVS: `3,0,t;1,2,f`, values in the order INTS then BOOLS;
                                                          TOKENS: prefix form `i N | t | f | a NAME | s NAME | u not|neg X | b OP L R`)
model reply:  ast=<tree Python reads | !syntax> name=<rule method name | - | !syntax> values=v;v;…
spec reply:   values=v;v;…        (a rule: `true` or `!AssertionError`)

`range A B S` lines: reply `values=v,v,…` — model: what `for i in range(A, <stop as written>, S)` runs over; spec: the values
ISO 10303-11 13.9.1 gives the loop variable of `REPEAT i := A TO B BY S` (at most 64). -/
namespace BodyDrv
open StepModel.GenPy.Body

def parseBin : String → Option BinOp
  | "and" => some .and | "or" => some .or | "xor" => some .xor | "beq" => some .beq | "bne" => some .bne
  | "eq" => some .eq | "ne" => some .ne | "lt" => some .lt | "le" => some .le | "gt" => some .gt | "ge" => some .ge
  | "plus" => some .plus | "minus" => some .minus | "times" => some .times | _ => none

/-- prefix tokens → (expression, rest); fuel = number of tokens -/
def parseExpr : Nat → List String → Option (Expr × List String)
  | 0, _ => none
  | _ + 1, "i" :: n :: rest => n.toNat?.map (fun k => (.int k, rest))
  | _ + 1, "t" :: rest => some (.tt, rest)
  | _ + 1, "f" :: rest => some (.ff, rest)
  | _ + 1, "a" :: n :: rest => some (.attr n, rest)
  | _ + 1, "s" :: n :: rest => some (.selfAttr n, rest)
  | f + 1, "u" :: op :: rest => do
    let o ← (match op with | "not" => some UnOp.not | "neg" => some UnOp.neg | _ => none)
    let (x, r) ← parseExpr f rest
    pure (.un o x, r)
  | f + 1, "b" :: op :: rest => do
    let o ← parseBin op
    let (l, r1) ← parseExpr f rest
    let (r, r2) ← parseExpr f r1
    pure (.bin o l r, r2)
  | _, _ => none

def showOp : PyOp → String
  | .and => "and" | .or => "or" | .eq => "eq" | .ne => "ne" | .lt => "lt" | .le => "le" | .gt => "gt" | .ge => "ge"
  | .plus => "plus" | .minus => "minus" | .times => "times"

/-- `tail = true`: the node continues a chained comparison (no parentheses of its own) -/
def dump (tail : Bool) : PyExpr → String
  | .int n => s!"(int {n})"
  | .name s => s!"(name {s})"
  | .attr s => s!"(attr {s})"
  | .un .not x => s!"(un not {dump false x})"
  | .un .neg x => s!"(un neg {dump false x})"
  | .bin op l r => if tail then s!"{dump false l} {showOp op} {dump false r}" else s!"(bin {showOp op} {dump false l} {dump false r})"
  | .chain op l r =>
    if tail then s!"{dump false l} {showOp op} {dump true r}" else s!"(chain {dump false l} {showOp op} {dump true r})"

def showV : V → String
  | .int i => toString i
  | .bool true => "true"
  | .bool false => "false"

def parseV (s : String) : Option V :=
  if s = "t" then some (.bool true) else if s = "f" then some (.bool false) else s.toInt?.map .int

def names (s : String) : List String := if s = "-" then [] else s.splitOn ","

def reply (useSpec : Bool) (kind label ints bools envs : String) (toks : List String) : Option String := do
  let (e, rest) ← parseExpr (toks.length + 1) toks
  if !rest.isEmpty then none
  let attrs := names ints ++ names bools
  let envL ← (if envs = "-" then some [] else (envs.splitOn ";").mapM (fun row => (row.splitOn ",").mapM parseV))
  let envsV ← envL.mapM (fun row => if row.length = attrs.length then some (attrs.zip row) else none)
  let isRule := kind = "r"
  if useSpec then
    let vals := envsV.map (fun env =>
      if isRule then (match StepModel.GenPy.Spec.Body.rule env e with | some true => "true" | some false => "!AssertionError" | none => "?")
      else (match StepModel.GenPy.Spec.Body.eval env e with | some v => showV v | none => "?"))
    pure ("values=" ++ ";".intercalate vals)
  else
    let nm := if isRule then (if label = "-" then "-" else (match ruleNameWith cfg label with | some n => n | none => "!syntax")) else "-"
    match read e with
    | none => pure s!"ast=!syntax name={nm} values=-"
    | some p =>
      let vals := envsV.map (fun env =>
        let inst := instanceOf env
        if isRule then (match ruleRun inst p with | .returns v => showV v | .assertionError => "!AssertionError" | .raises => "!raise")
        else (match pyEval inst p with | some v => showV v | none => "!raise"))
      pure s!"ast={(dump false p).replace " " "_"} name={nm} values={";".intercalate vals}"

/-! ### `func` lines: a FUNCTION body of the statement fragment

    func PARAMS|- ARGS;ARGS;… TOKENS…     (PARAMS `x,y`; ARGS `3,4`; TOKENS: prefix form
                                            nop | seq A B | asg X EXPR | if EXPR A B | rep I EXPR EXPR S OPT OPT BODY | whl OPT OPT BODY | skip | esc | ret EXPR;
                                            OPT = none | some EXPR: the WHILE and the UNTIL control)
reply `values=v;v;…` — model: what the Python statements `Stmt.tr` gives return under `Stmt.pyExec`; spec: `Spec.Stmt.exec`;
`!none` when the run does not end in a RETURN (or is stuck / out of fuel). -/
/-- `none` | `some EXPR` -/
def parseOptExpr (f : Nat) : List String → Option (Option StepModel.GenPy.Body.Expr × List String)
  | "none" :: rest => some (none, rest)
  | "some" :: rest => (parseExpr f rest).map (fun p => (some p.1, p.2))
  | _ => none

open StepModel.GenPy.Stmt in
def parseStmt : Nat → List String → Option (Stmt × List String)
  | 0, _ => none
  | _ + 1, "nop" :: rest => some (.nop, rest)
  | _ + 1, "skip" :: rest => some (.skip, rest)
  | _ + 1, "esc" :: rest => some (.escape, rest)
  | f + 1, "seq" :: rest => do
    let (a, r1) ← parseStmt f rest
    let (b, r2) ← parseStmt f r1
    pure (.seq a b, r2)
  | f + 1, "asg" :: x :: rest => do
    let (e, r) ← parseExpr f rest
    pure (.assign x e, r)
  | f + 1, "ret" :: rest => do
    let (e, r) ← parseExpr f rest
    pure (.ret e, r)
  | f + 1, "if" :: rest => do
    let (c, r1) ← parseExpr f rest
    let (t, r2) ← parseStmt f r1
    let (e, r3) ← parseStmt f r2
    pure (.ite c t e, r3)
  | f + 1, "rep" :: i :: rest => do
    let (a, r1) ← parseExpr f rest
    let (b, r2) ← parseExpr f r1
    match r2 with
    | st :: r3 => do
      let st ← st.toInt?
      let (wh, r4) ← parseOptExpr f r3
      let (un, r5) ← parseOptExpr f r4
      let (body, r6) ← parseStmt f r5
      pure (.repeatInc i a b st wh un body, r6)
    | [] => none
  | f + 1, "whl" :: rest => do
    let (wh, r1) ← parseOptExpr f rest
    let (un, r2) ← parseOptExpr f r1
    let (body, r3) ← parseStmt f r2
    pure (.repeatWhile wh un body, r3)
  | _, _ => none

def funcReply (useSpec : Bool) (params args : String) (toks : List String) : Option String := do
  let (s, rest) ← parseStmt (toks.length + 1) toks
  if !rest.isEmpty then none
  let ps := names params
  let rows ← (args.splitOn ";").mapM (fun row => (if row = "-" then some [] else (row.splitOn ",").mapM parseV))
  let envs ← rows.mapM (fun row => if row.length = ps.length then some (ps.zip row) else none)
  let fuel := 4000
  let show1 := fun (r : Option (StepModel.GenPy.Stmt.Env × StepModel.GenPy.Stmt.Out)) =>
    match r with
    | some (_, .returned v) => showV v
    | _ => "!none"
  let vals := envs.map (fun env =>
    if useSpec then show1 (StepModel.GenPy.Spec.Stmt.exec fuel env s)
    else match StepModel.GenPy.Stmt.tr s with
      | some p => show1 (StepModel.GenPy.Stmt.pyExec fuel (instanceOf env) p)
      | none => "!syntax")
  pure ("values=" ++ ";".intercalate vals)

end BodyDrv

partial def loop (useSpec : Bool) (h : IO.FS.Stream) (out : IO.FS.Stream) (cur : Option Schema) (bad : Bool) : IO Unit := do
  let line ← h.getLine
  if line.isEmpty then return ()
  match (line.trimAscii.toString.splitOn " ").filter (· ≠ "") with
  | [] => loop useSpec h out cur bad
  | ["range", a, b, st] =>
    -- the values `for i in range(a, <stop as written>, s)` runs over (model) / ISO 10303-11 13.9.1 gives the loop variable (spec)
    match a.toInt?, b.toInt?, st.toInt? with
    | some a, some b, some st =>
      let vs := if useSpec then StepModel.GenPy.Spec.Body.repeatValues 64 a b st
                else StepModel.GenPy.Body.pyRange 64 a (StepModel.GenPy.Body.stopWritten b st) st
      out.putStrLn ("values=" ++ ",".intercalate (vs.map toString))
    | _, _, _ => out.putStrLn "bad-op"
    loop useSpec h out cur bad
  | ["logic", op, a, b] =>
    -- LOGICAL operands t / f / u: model = Python's reading of the emitted operator, spec = ISO 10303-11 12.4
    let p3 : String → Option StepModel.GenPy.Body.L3 := fun x => match x with | "t" => some .t | "f" => some .f | "u" => some .u | _ => none
    let sh : StepModel.GenPy.Body.L3 → String := fun x => match x with | .t => "true" | .f => "false" | .u => "unknown"
    match p3 a, p3 b with
    | some a, some b =>
      let r := match op, useSpec with
        | "and", false => some (StepModel.GenPy.Body.pyAnd3 a b) | "and", true => some (StepModel.GenPy.Spec.Body.and3 a b)
        | "or", false => some (StepModel.GenPy.Body.pyOr3 a b) | "or", true => some (StepModel.GenPy.Spec.Body.or3 a b)
        | "xor", false => some (StepModel.GenPy.Body.pyXor3 a b) | "xor", true => some (StepModel.GenPy.Spec.Body.xor3 a b)
        | "not", false => some (StepModel.GenPy.Body.pyNot3 a) | "not", true => some (StepModel.GenPy.Spec.Body.not3 a)
        | _, _ => none
      out.putStrLn (match r with | some v => "value=" ++ sh v | none => "bad-op")
    | _, _ => out.putStrLn "bad-op"
    loop useSpec h out cur bad
  | "func" :: params :: args :: toks =>
    out.putStrLn ((BodyDrv.funcReply useSpec params args toks).getD "bad-op")
    loop useSpec h out cur bad
  | "expr" :: kind :: label :: ints :: bools :: envs :: toks =>
    out.putStrLn ((BodyDrv.reply useSpec kind label ints bools envs toks).getD "bad-op")
    loop useSpec h out cur bad
  | ["schema", n] => loop useSpec h out (some { name := n, types := [], entities := [] }) false
  | ["end"] =>
    match cur, bad with
    | some s, false => out.putStrLn (render useSpec s)
    | _, _ => out.putStrLn "bad-op"
    loop useSpec h out none false
  | "type" :: rest =>
    match cur, parseType rest with
    | some s, some t => loop useSpec h out (some { s with types := s.types ++ [t] }) bad
    | _, _ => loop useSpec h out cur true
  | ["entity", n, sup, attrs] =>
    match cur, parseAttrs n attrs with
    | some s, some as =>
      let supers := if sup = "-" then [] else sup.splitOn ","
      loop useSpec h out (some { s with entities := s.entities ++ [{ name := n, supers, attrs := as }] }) bad
    | _, _ => loop useSpec h out cur true
  | _ => loop useSpec h out cur true

def main (args : List String) : IO UInt32 := do
  let out ← IO.getStdout
  match args with
  | ["model"] => loop false (← IO.getStdin) out none false; out.flush; return 0
  | ["spec"] => loop true (← IO.getStdin) out none false; out.flush; return 0
  | _ => IO.eprintln "usage: m_c18 model|spec"; return 2

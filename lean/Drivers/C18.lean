import StepModel.GenPy
/-! Driver for the exp2python emission model.  `m_c18 model` prints what exp2python emits (as modelled), `m_c18 spec`
what the property asks for.  Input: schemas as blocks of lines

    schema NAME
    type NAME simple PY | boolean | defined REF | enum I1 I2 … | select M1 M2 … | aggregate KIND LO HI|? [KIND LO HI|? …] BASE
    entity NAME S1,S2|- A1:k[:T],A2:k[:T]|-  (k = e explicit, o optional, d derived, i inverse; T = INTEGER … | BOOLEAN |
                                             @name (defined type or entity) | # (inline aggregate))
    end

one reply line per block (items separated by ` | `, classes and types in input order); anything else: `bad-op`. -/
open StepModel.GenPy

def joinOr (l : List String) (dflt : String) : String := if l.isEmpty then dflt else ",".intercalate l

def parseKindC : String → Option AKind
  | "e" => some .explicit | "o" => some .optional | "d" => some .derived | "i" => some .inverse | _ => none

def parseATy (s : String) : ATy :=
  if s = "BOOLEAN" then .boolean
  else if s = "#" then .aggregate
  else if s.startsWith "@" then .named (s.drop 1).toString
  else .simple s

def parseAttrs (owner : String) (s : String) : Option (List Attr) :=
  if s = "-" then some [] else
  (s.splitOn ",").mapM (fun w => match w.splitOn ":" with
    | [n, k] => (parseKindC k).map (fun k => { owner, name := n, kind := k })
    | [n, k, t] => (parseKindC k).map (fun k => { owner, name := n, kind := k, ty := parseATy t })
    | _ => none)

def showAccess : Access → String
  | .mandatory => "m" | .optional => "o" | .derived => "d" | .inverse => "i"

def showProps (types : List TypeDef) (e : Entity) : String :=
  joinOr (e.attrs.map (fun a =>
    let p := propOf a
    s!"{p.name}:{showAccess p.access}:" ++ (let acc := String.ofList (acceptsProbe types a); if acc.isEmpty then "-" else acc))) "-"

/-- `KIND LO HI|? KIND LO HI … BASE` -/
def parseAgg : List String → Option AggT
  | [k, lo, hi, b] => do
    let lo ← lo.toInt?
    let hi ← if hi = "?" then some none else hi.toInt?.map some
    pure (.agg k lo hi (.leaf b))
  | k :: lo :: hi :: rest => do
    let lo ← lo.toInt?
    let hi ← if hi = "?" then some none else hi.toInt?.map some
    let inner ← parseAgg rest
    pure (.agg k lo hi inner)
  | _ => none

/-- `@` marks the level that carries `scope=` (model mode only) -/
def showAgg (withScope : Bool) : AggT → String
  | .leaf b => b
  | .agg k lo hi (.leaf b) =>
    s!"{k},{lo}," ++ (match hi with | some h => toString h | none => "?") ++ "," ++ (if withScope then "@" else "") ++ b
  | .agg k lo hi i =>
    s!"{k},{lo}," ++ (match hi with | some h => toString h | none => "?") ++ ",[" ++ showAgg withScope i ++ "]"

def parseType : List String → Option TypeDef
  | [n, "simple", py] => some ⟨n, .simple py⟩
  | [n, "boolean"] => some ⟨n, .boolean⟩
  | [n, "defined", r] => some ⟨n, .defined r⟩
  | n :: "enum" :: items => some ⟨n, .enum items⟩
  | n :: "select" :: ms => some ⟨n, .select ms⟩
  | n :: "aggregate" :: rest => (parseAgg rest).map (fun a => ⟨n, .aggregate a⟩)
  | _ => none

def showBody (withScope : Bool) : TBody → String
  | .simple py => s!"simple:{py}"
  | .boolean => "boolean"
  | .defined r => s!"defined:{r}"
  | .enum items => "enum:" ++ joinOr items "-"
  | .select ms => "select:" ++ joinOr ms "-"
  | .aggregate a => "aggregate:" ++ showAgg withScope a

def showClass (c : PyClass) : String :=
  s!"class {c.name} bases={joinOr c.bases "-"} ctor=" ++ (match c.ctor with | some ps => joinOr ps "-" | none => "!")

def render (useSpec : Bool) (s : Schema) : String :=
  if useSpec then
    " | ".intercalate (
      s.entities.map (fun e => s!"class {e.name} bases={joinOr e.supers "-"} ctorattrs={joinOr (Spec.ctorAttrNames s.entities e) "-"}")
      ++ s.types.map (fun t => s!"type {t.name}={showBody false t.body}"))
  else
    let m := moduleOf s
    " | ".intercalate ([s!"pkg={m.package}"] ++ m.classes.map showClass
      ++ (s.entities.map (fun e => s!"attrs {pyName e.name}={joinOr (ctorAttrNames s.entities e) "-"}"))
      ++ (s.entities.map (fun e => s!"props {pyName e.name}={showProps s.types e}"))
      ++ m.types.map (fun t => s!"type {t.name}={showBody true t.body}"))

partial def loop (useSpec : Bool) (h : IO.FS.Stream) (out : IO.FS.Stream) (cur : Option Schema) (bad : Bool) : IO Unit := do
  let line ← h.getLine
  if line.isEmpty then return ()
  match (line.trimAscii.toString.splitOn " ").filter (· ≠ "") with
  | [] => loop useSpec h out cur bad
  | ["schema", n] => loop useSpec h out (some { name := n, types := [], entities := [] }) false
  | ["end"] =>
    match cur, bad with
    | some s, false => out.putStrLn (render useSpec s)
    | _, _ => out.putStrLn "bad-op"
    loop useSpec h out none false
  | "type" :: rest =>
    match cur, parseType rest with
    | some s, some t => loop useSpec h out (some { s with types := s.types ++ [t] }) bad
    | _, _ => loop useSpec h out cur true
  | ["entity", n, sup, attrs] =>
    match cur, parseAttrs n attrs with
    | some s, some as =>
      let supers := if sup = "-" then [] else sup.splitOn ","
      loop useSpec h out (some { s with entities := s.entities ++ [{ name := n, supers, attrs := as }] }) bad
    | _, _ => loop useSpec h out cur true
  | _ => loop useSpec h out cur true

def main (args : List String) : IO UInt32 := do
  let out ← IO.getStdout
  match args with
  | ["model"] => loop false (← IO.getStdin) out none false; out.flush; return 0
  | ["spec"] => loop true (← IO.getStdin) out none false; out.flush; return 0
  | _ => IO.eprintln "usage: m_c18 model|spec"; return 2

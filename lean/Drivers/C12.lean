import StepModel.GenDeterm
import StepModel.GenPyModule
/-! Line-protocol driver for the C12 model.

  rule                                              -> R legacy | R literalOnly        (rule regenerated from the tree)
  bound <nr> <var> <cname> <aggr> <shape> <hex text> -> B <hex of the predicted line>  |  B AMBIENT
        shape ∈ lit (text = decimal value) | neglit (text = decimal value of the literal under the minus) | inf | funcall | ident | op | runtime (text = attribute name)
        AMBIENT: under the current rule the line depends on an address (no prediction possible)
  order <key> <key> …                               -> O <keys in DICTdo order>
  section <name> …                                  -> A <names in the order exppp prints one section (types, entities, …) of a scope>
  pymodule o:<key> | f:<key> | r:<key> | t:<key>:<s|e|l|a>:<head|-> | e:<key>:<super,…|-> …  (the schema's symbol table in definition order)
                                                    -> M <names in the order exp2python defines them at module level> | M none
  refout <key>:<supplier>:<hex text> …              -> G <supplier>: item, item | <supplier>: …   (exppp's USE/REFERENCE groups)
-/
open StepModel.GenDeterm StepModel.Generated.GenBound StepModel

def hexVal (c : Char) : Option Nat :=
  if '0' ≤ c ∧ c ≤ '9' then some (c.toNat - '0'.toNat)
  else if 'a' ≤ c ∧ c ≤ 'f' then some (c.toNat - 'a'.toNat + 10)
  else none

def unhex (s : String) : Option String :=
  let rec go : List Char → List UInt8 → Option (List UInt8)
    | [], acc => some acc.reverse
    | [_], _ => none
    | a :: b :: r, acc => match hexVal a, hexVal b with
      | some x, some y => go r (UInt8.ofNat (x * 16 + y) :: acc)
      | _, _ => none
  (go s.toList []).bind fun bs => String.fromUTF8? (ByteArray.mk bs.toArray)

def hexDigit (n : Nat) : Char := if n < 10 then Char.ofNat (48 + n) else Char.ofNat (87 + n)
def hex (s : String) : String :=
  String.ofList (s.toUTF8.toList.flatMap fun b => [hexDigit (b.toNat / 16), hexDigit (b.toNat % 16)])

def amb0 : Ambient := { addr := fun n => 0x55d0a0001000 + 56 * n, cwd := "/a", env := [], locale := "C", earlierRuns := 0 }

def mkBound (shape text : String) : Option BoundExpr :=
  match shape with
  | "lit" => text.toInt?.map .intLit
  | "inf" => some (.intLit 2147483647)
  | "funcall" => some (.funcall text)
  | "ident" => some (.ident 0 text)
  | "op" => some (.op text)
  | "neglit" => text.toInt?.map .negLit
  | "runtime" => some (.runtime text)
  | _ => none

def handle (line : String) : String :=
  match (line.trimAscii.toString.splitOn " ").filter (· ≠ "") with
  | ["rule"] => match currentRule with
    | .legacy => "R legacy" | .literalOnly => "R literalOnly" | .literalOrNegated => "R literalOrNegated"
  | ["bound", nr, var, cname, aggr, shape, htext] =>
    match nr.toNat?, (unhex htext).bind (mkBound shape) with
    | some nr, some b =>
      if safeFor currentRule b then "B " ++ hex (printBound currentRule amb0 var nr cname aggr b) else "B AMBIENT"
    | _, _ => "bad-op"
  | "refout" :: ents =>
    -- each entry: <key>:<supplier>:<hex of printed text>, in definition order
    let parsed := ents.mapM fun x => match x.splitOn ":" with
      | [k, sup, hx] => (unhex hx).map fun t => ({ item := k, supplier := sup, supplierObj := 0, printed := t } : RefEntry)
      | _ => none
    match parsed with
    | some es => "G " ++ " | ".intercalate ((refoutGroups Generated.RefOut.refoutKey amb0 0 es).map fun g =>
                   g.1 ++ ": " ++ ", ".intercalate g.2)
    | none => "bad-op"
  | "section" :: names =>
    "A " ++ " ".intercalate (sectionOrder Generated.RefOut.alphabetizeDefault amb0 0 names)
  | "order" :: keys => "O " ++ " ".intercalate ((ExpressHash.dictOrder (keys.map fun k => (k, ()))).map (·.1))
  | [] => ""
  | cmd :: decls =>
    -- `^name` = the original is a type of ANOTHER schema: already written when that schema was printed before this one
    -- (`pymodule`: treated as no original to wait for), still unwritten otherwise (`pymodule-late`: waits in vain, written by the second loop)
    if cmd != "pymodule" && cmd != "pymodule-late" then "bad-op" else
    let late := cmd == "pymodule-late"
    let parsed := decls.map fun d => (d.splitOn ":")
    let keyed : List (String × List String) := parsed.filterMap fun p => match p with
      | _ :: k :: _ => some (k, p)
      | _ => none
    let ordered := (ExpressHash.dictOrder keyed).map (·.2)
    let types : List PyModule.T := ordered.filterMap fun p => match p with
      | ["t", k, kind, h] => some { name := k, head := if h == "-" || (h.startsWith "^" && !late) then none else some h,
                                    kind := if kind == "e" then .enum else if kind == "l" then .select else if kind == "a" then .aggregate else .simple }
      | _ => none
    let ents : List GenPy.Entity := ordered.filterMap fun p => match p with
      | ["e", k, sup] => some { name := k, supers := if sup == "-" then [] else (sup.splitOn ",").filter (· ≠ ""), attrs := [] }
      | _ => none
    let named (c : String) : List String := ordered.filterMap fun p => match p with
      | [c', k] => if c' == c then some k else none
      | _ => none
    match PyModule.order types ents (ents.map (·.name)) (ents.length + 2) (named "f") (named "r") with
    | some l => "M " ++ " ".intercalate l
    | none => "M none"

partial def loop (h : IO.FS.Stream) (out : IO.FS.Stream) : IO Unit := do
  let line ← h.getLine
  if line.isEmpty then return ()
  out.putStrLn (handle line)
  loop h out

def main : IO Unit := do
  let stdin ← IO.getStdin
  let stdout ← IO.getStdout
  loop stdin stdout
  stdout.flush

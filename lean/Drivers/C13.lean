import StepModel.InstMgr
/-! Line-protocol driver for the `InstMgr` model (same protocol as harness/h_instmgr.cc). -/
open StepModel.InstMgr

def stName : St → String
  | .noState => "noStateSE" | .complete => "completeSE" | .incomplete => "incompleteSE"
  | .delete => "deleteSE" | .new => "newSE"

def parseSt : String → Option St
  | "noStateSE" => some .noState | "completeSE" => some .complete | "incompleteSE" => some .incomplete
  | "deleteSE" => some .delete | "newSE" => some .new | _ => none

def showR : R → String
  | .unit => "R unit" | .null => "R null" | .node i id => s!"R node {i} {id}"
  | .skipped => "R skipped" | .crash => "R crash"
  | .found (some h) => s!"R found {h}" | .found none => "R found -"

def nNames : Nat := 3

def intRange (lo hi : Int) : List Int :=
  (List.range (hi - lo + 1).toNat).map (fun (i : Nat) => lo + Int.ofNat i)

def dump (s : State) : String := Id.run do
  let n := count s
  let mut out := s!"D cnt={n} max={s.maxFileId} |"
  for nd in s.nodes do
    let id := match idOf s nd.inst with | some v => toString v | none => "!"
    let nm := match nameOf s nd.inst with | some v => toString v | none => "!"
    out := out ++ s!" {nd.inst}/{id}/{nm}/{stName nd.state}/{nd.arrayIndex}"
  out := out ++ " | find"
  for k in intRange (-2) (s.maxFileId + 2) do
    match findFileId s k with
    | .none => pure ()
    | .node nd => out := out ++ s!" {k}>{nd.inst}"
    | .dangling => out := out ++ s!" {k}>!"
  out := out ++ " | kw"
  for a in List.range nNames do
    out := out ++ s!" {keywordCount s a}"
  -- keywords that name no entity (proper prefixes of names, a name with a suffix, the empty keyword): tags outside 0..nNames
  out := out ++ " | none"
  for a in List.range 5 do
    let c := keywordCount s (nNames + a)
    let f := match byName s (nNames + a) 0 with | some _ => "X" | none => "-"
    out := out ++ s!" {c}{f}"
  out := out ++ " | by"
  for a in List.range nNames do
    for st in List.range (n + 1) do
      match byName s a st with
      | some h => out := out ++ s!" {h}"
      | none => out := out ++ " -"
    out := out ++ ";"
  out := out ++ " | above"
  for k in List.range 3 do
    let a := match instAt s (n + k) with | some _ => "X" | none => "-"
    let b := match indexAt s (n + k) with | some _ => "X" | none => "-"
    out := out ++ s!" {a}{b}"
  return out

def handle (s : State) (line : String) : State × String :=
  match (line.trimAscii.toString.splitOn " ").filter (· ≠ "") with
  | ["reset", _] => (init, "R reset")
  | ["new", h, id, nm] =>
    match h.toNat?, id.toInt?, nm.toNat? with
    | some h, some id, some nm =>
      if nm < nNames then let (s', r) := step s (.newInst h id nm); (s', showR r) else (s, "R bad-op")
    | _, _, _ => (s, "R bad-op")
  | ["append", h, st] =>
    match h.toNat?, parseSt st with
    | some h, some st => let (s', r) := step s (.append h st); (s', showR r)
    | _, _ => (s, "R bad-op")
  | ["delnode", i] =>
    match i.toNat? with
    | some i => let (s', r) := step s (.deleteNode i); (s', showR r)
    | none => (s, "R bad-op")
  | ["delinst", h] =>
    match h.toNat? with
    | some h => let (s', r) := step s (.deleteInst h); (s', showR r)
    | none => (s, "R bad-op")
  | ["state", i, st] =>
    match i.toNat?, parseSt st with
    | some i, some st => let (s', r) := step s (.changeState i st); (s', showR r)
    | _, _ => (s, "R bad-op")
  | ["clear"] => let (s', r) := step s .clear; (s', showR r)
  | ["deleteall"] => let (s', r) := step s .deleteAll; (s', showR r)
  | ["peek", i] =>
    match i.toNat? with
    | some i => let (s', r) := step s (.lookup i); (s', showR r)
    | none => (s, "R bad-op")
  | ["dump"] => (s, dump s)
  | [] => (s, "")
  | _ => (s, "R bad-op")

partial def loop (h : IO.FS.Stream) (out : IO.FS.Stream) (s : State) : IO Unit := do
  let line ← h.getLine
  if line.isEmpty then return ()
  let (s', o) := handle s line
  if o ≠ "" then out.putStrLn o
  loop h out s'

def main : IO Unit := do
  let out ← IO.getStdout
  loop (← IO.getStdin) out init
  out.flush

import StepModel.AttrNull
import StepModel.ModeGlue
/-! Line-protocol driver for the C15 model.
    request : `read <strict 0|1> | <inst> | <inst> …`
              inst  := `S <part>` | `X <part> ; <part> ; …`      (parts of a complex instance in the writer's order)
              part  := (RD | <KIND>:<optional 0|1>:<derived 0|1>:<Type() is REFERENCE_TYPE 0|1>:<redeclared position 0|1>:<tok>)*
                                                             RD = a redefining attribute of the C++ attribute list (no value in the file)
                                                             tok := M1 (`$`) | M0 (nothing) | ST (`*`) | L<SEV>
    reply   : `F sev=<file severity> exit=<p21read exit> | <instance severity>/<state>/<part>.<pos>=<value words>,… | …`
              (values are listed for the positions whose token was M0/M1)
    request : `args <argv[1]> <argv[2]> …`   (p21read's command line, program name left out; `%` stands for an empty list)
    reply   : `O strict=<0|1> usage=<0|1> version=<0|1> files=<number of arguments left>`
    anything else → `bad-op` -/
open StepModel StepModel.AttrNull StepModel.P21 StepModel.Generated

def stName : NodeState → String
  | .noState => "noStateSE" | .complete => "completeSE" | .incomplete => "incompleteSE"
  | .delete => "deleteSE" | .new => "newSE"

def parseTok (s : String) : Option Tok :=
  if s = "M1" then some (.missing true) else if s = "M0" then some (.missing false)
  else if s = "ST" then some .star
  else match s.toList with
    | 'L' :: r => (Sev.ofShort (String.ofList r)).map (fun sv => Tok.lit (.tok "") sv)
    | _ => none

def parseSlot (w : String) : Option (AttrD × Tok) :=
  match w.splitOn ":" with
  | [k, o, d, r, f, t] => do
    let b := fun (x : String) => if x = "1" then some true else if x = "0" then some false else none
    let k ← Kind.ofName k
    let o ← b o
    let d ← b d
    let r ← b r
    let f ← b f
    let t ← parseTok t
    pure (⟨k, o, d, r, f⟩, t)
  | _ => none

def parsePart (ws : List String) : Option (List AttrD × List Tok) := do
  let slots ← (ws.filter (· ≠ "RD")).mapM parseSlot
  pure (slots.map (·.1), slots.map (·.2))

/-- the C++ attribute list of an internally mapped instance: `RD` words stand for redefining attributes -/
def parseSlots (ws : List String) : Option (List Slot × List Tok) := do
  let xs ← ws.mapM (fun w => if w = "RD" then some (none : Option (AttrD × Tok)) else (parseSlot w).map some)
  pure (xs.map (fun x => match x with | some (a, _) => Slot.attr a | none => Slot.redefining),
        xs.filterMap (fun x => x.map (·.2)))

/-- the same with the pre-technical-corrigendum encoding: a redefining attribute carries a token of its own, `RD:<TOK>` -/
def parseSlotsPre (ws : List String) : Option (List Slot × List Tok) := do
  -- a token `-` = the parameter list ended before this entry (trailing entries only)
  let xs ← ws.mapM (fun w => match w.splitOn ":" with
    | ["RD", "-"] => some (Slot.redefining, (none : Option Tok))
    | ["RD", t] => (parseTok t).map (fun t => (Slot.redefining, some t))
    | [k, o, d, r, f, "-"] => (parseSlot (":".intercalate [k, o, d, r, f, "ST"])).map (fun (a, _) => (Slot.attr a, none))
    | _ => (parseSlot w).map (fun (a, t) => (Slot.attr a, some t)))
  pure (xs.map (·.1), xs.filterMap (·.2))

def splitOnWord (sep : String) (ws : List String) : List (List String) :=
  let rec go : List String → List String → List (List String) → List (List String)
    | [], cur, acc => (cur.reverse :: acc).reverse
    | w :: r, cur, acc => if w = sep then go r [] (cur.reverse :: acc) else go r (w :: cur) acc
  go ws [] []

structure PInst where
  complex : Bool
  parts : List (List AttrD × List Tok)
  slots : List Slot := []

def parseInst (ws : List String) : Option PInst :=
  match ws with
  | "S" :: r => do
    let p ← parsePart r
    let (es, _) ← parseSlots r
    pure ⟨false, [p], es⟩
  | "X" :: r => do let ps ← (splitOnWord ";" r).mapM parsePart; pure ⟨true, ps, []⟩
  | _ => none

def missingVals (parts : List (List AttrD × List Tok)) (vals : List (List Val)) : String :=
  let items := (parts.zip vals).zipIdx.flatMap (fun ((p, vs), pi) =>
    (p.2.zip vs).zipIdx.filterMap (fun ((t, v), ai) =>
      match t with
      | .missing _ => some s!"{pi}.{ai}={"_".intercalate (encodeVal v)}"
      | _ => none))
  ",".intercalate items

def handle (line : String) : String :=
  let ws := (line.trimAscii.toString.splitOn " ").filter (· ≠ "")
  match ws with
  | [] => ""
  | "args" :: rest =>
    let argv := if rest = ["%"] then [] else rest
    let (o, files) := StepModel.ModeGlue.parseArgs StepModel.ModeGlue.initial argv
    let b := fun (x : Bool) => if x then "1" else "0"
    s!"O strict={b o.strict} usage={b o.usage} version={b o.version} files={files.length}"
  | "readpre" :: st :: "|" :: rest =>
    -- internally mapped instances only: `S <slot>…` with `RD:<TOK>` words
    match (if st = "1" then some true else if st = "0" then some false else none),
          (splitOnWord "|" rest).mapM (fun g => match g with | "S" :: r => parseSlotsPre r | _ => none) with
    | some strict, some insts =>
      let results := insts.map (fun (es, ts) =>
        let (s, vs) := loopReadTC false (fileStrictFor false strict) es ts
        ((⟨s, false⟩ : InstResult), vs))
      let e := fileSev (results.map (·.1))
      let per := results.map (fun (r, vs) => s!"{r.sev.short}/{stName (nodeState r)}/" ++
        String.join (vs.map (fun v => match v with | Val.null => "0" | _ => "1")))
      s!"F sev={e.short} exit={p21readExit e} | " ++ " | ".intercalate per
    | _, _ => "bad-op"
  | "readx" :: tc :: st :: "|" :: rest =>
    -- complex instances whose parts may carry redefining entries: `X part ; part …`; tc = 1: `RD` words, tc = 0: `RD:<TOK>` words
    let b := fun (x : String) => if x = "1" then some true else if x = "0" then some false else none
    match b tc, b st with
    | some tc, some strict =>
      let parseI := fun (g : List String) => match g with
        | "X" :: r => (splitOnWord ";" r).mapM (fun ws => if tc then parseSlots ws else parseSlotsPre ws)
        | _ => none
      match (splitOnWord "|" rest).mapM parseI with
      | some insts =>
        let results := insts.map (fun ps =>
          let (s, vs) := complexReadLS codeShape tc (fileStrictFor true strict) ps
          ((⟨s, true⟩ : InstResult), vs))
        let e := fileSev (results.map (·.1))
        let per := results.map (fun (r, vs) => s!"{r.sev.short}/{stName (nodeState r)}/" ++
          ",".intercalate (vs.map (fun v => String.join (v.map (fun x => match x with | Val.null => "0" | _ => "1")))))
        s!"F sev={e.short} exit={p21readExit e} | " ++ " | ".intercalate per
      | none => "bad-op"
    | _, _ => "bad-op"
  | "read" :: st :: "|" :: rest =>
    match (if st = "1" then some true else if st = "0" then some false else none),
          (splitOnWord "|" rest).mapM parseInst with
    | some strict, some insts =>
      let results := insts.map (fun i =>
        if i.complex then
          let (s, vs) := complexRead (fileStrictFor true strict) i.parts
          ((⟨s, true⟩ : InstResult), vs)
        else match i.parts with
          | [p] => let (s, vs) := loopRead (fileStrictFor false strict) i.slots p.2; ((⟨s, false⟩ : InstResult), [vs])
          | _ => ((⟨.max, false⟩ : InstResult), []))
      let e := fileSev (results.map (·.1))
      let per := (insts.zip results).map (fun (i, (r, vs)) =>
        s!"{r.sev.short}/{stName (nodeState r)}/{missingVals i.parts vs}")
      s!"F sev={e.short} exit={p21readExit e} | " ++ " | ".intercalate per
    | _, _ => "bad-op"
  | _ => "bad-op"

partial def loop (h : IO.FS.Stream) (out : IO.FS.Stream) : IO Unit := do
  let line ← h.getLine
  if line.isEmpty then return ()
  let o := handle line
  if o ≠ "" then out.putStrLn o
  loop h out

def main : IO Unit := do
  let out ← IO.getStdout
  loop (← IO.getStdin) out
  out.flush

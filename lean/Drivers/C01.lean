import StepModel.P21.Writer
import StepModel.Generated.P21RWGen
import StepModel.Generated.P21LexGen
/-! Line-protocol driver for the Part 21 reader/writer model (`P21.Reader`, `P21.Writer`); used by checks/c01.py and
checks/c03.py.  One request per line, one reply per line.

    dict begin | E <NAME> <abstract 0/1> <ANC,ANC,…> | A <name> <opt> <derived> <redef> <own> <ty> | S <NAME> <MEMBER=elemty> …
    | C <NAME> <NAME> … | dict end                                  -> `ok` for each line (attributes belong to the last E)
    cfg                                                              -> the compiled-in behaviour switches
    read <strict 0/1> <skipws 0/1> <hex of the bytes after `DATA;`>  -> R sev=… ret=… exit=… created=… notcreated=… valid=…
                                                                        invalid=… incomplete=… | <id>/<TYPE>/<state>/<hex text> …
    ty     := one:<elemty> | aggr:<elemty>
    elemty := int | real | num | str | bin | bool | log | enum:<ITEM.ITEM…> | ent:<NAME> | sel:<NAME> | gen
-/
open StepModel StepModel.P21

def hexDg (n : Nat) : Char := if n < 10 then Char.ofNat (48 + n) else Char.ofNat (87 + n)
def toHexB (bs : List Byte) : String :=
  if bs.isEmpty then "-" else
  String.ofList (bs.foldr (fun b acc => hexDg (b / 16 % 16) :: hexDg (b % 16) :: acc) [])
def hexValB (c : Char) : Option Nat :=
  if '0' ≤ c ∧ c ≤ '9' then some (c.toNat - 48)
  else if 'A' ≤ c ∧ c ≤ 'F' then some (c.toNat - 55)
  else if 'a' ≤ c ∧ c ≤ 'f' then some (c.toNat - 87)
  else none
def unhexBL : List Char → List Byte → Option (List Byte)
  | [], acc => some acc.reverse
  | [_], _ => none
  | a :: b :: r, acc =>
    match hexValB a, hexValB b with
    | some x, some y => unhexBL r ((x * 16 + y) :: acc)
    | _, _ => none
def unhexB (s : String) : Option (List Byte) := if s == "-" then some [] else unhexBL s.toList []

def parseElemTy (w : String) : Option ElemTy :=
  match w.splitOn ":" with
  | ["int"] => some .integer | ["real"] => some .real | ["num"] => some .number | ["str"] => some .string
  | ["bin"] => some .binary | ["bool"] => some .boolean | ["log"] => some .logical | ["gen"] => some .generic
  | ["enum", items] => some (.enum ((items.splitOn ".").map stringToBytes))
  | ["ent", n] => some (.entity n)
  | ["sel", n] => some (.select n)
  | _ => none

def parseTy (w : String) : Option Ty :=
  match w.splitOn ":" with
  | "one" :: rest => (parseElemTy (":".intercalate rest)).map .one
  | "aggr" :: rest => (parseElemTy (":".intercalate rest)).map .aggr
  | _ => none

def b01 (w : String) : Option Bool := if w == "1" then some true else if w == "0" then some false else none

structure St where
  dict : Dict := { entities := [], selects := [], complexSets := [] }
  building : Bool := false

def addAttr (d : Dict) (a : AttrD) : Option Dict :=
  match d.entities.reverse with
  | e :: es => some { d with entities := (({ e with attrs := e.attrs ++ [a] }) :: es).reverse }
  | [] => none

def lexCfg : LexCfg := StepModel.Generated.rwLexCfg
def rwCfg : RWCfg := StepModel.Generated.rwCfg

/-- the float operations that follow the source's `WriteReal` (C09's regenerated `writeRealRoundTrips`: 15 significant
    digits, raised to 16 / 17 until the text converts back) -/
def fops : FloatOps Nat := dblOpsOf StepModel.Generated.writeRealRoundTrips

def showCfg : String :=
  let b (x : Bool) := if x then "1" else "0"
  s!"cfg stringNodeAppends={b rwCfg.stringNodeAppends} criSkipsComments={b lexCfg.criSkipsComments} " ++
  s!"aggrSkipsComments={b rwCfg.aggrSkipsComments} complexMergesParts={b rwCfg.complexMergesParts} complexMergesAttrErrors={b rwCfg.complexMergesAttrErrors} " ++
  s!"complexPartStrict={match rwCfg.complexPartStrict with | none => "fwd" | some x => b x} " ++
  s!"recoveryKeepsSemicolon={b rwCfg.recoveryKeepsSemicolon} commentsOfAnyLength={b rwCfg.commentsOfAnyLength} recoveryStopsAtSemicolon={b rwCfg.recoveryStopsAtSemicolon} recoveryCountsQuotes={b rwCfg.recoveryCountsQuotes} missingCheckEverySecond={b rwCfg.missingCheckEverySecond} rawValueStaysInRecord={b rwCfg.rawValueStaysInRecord} complexReportsError={b rwCfg.complexReportsError} " ++
  s!"skipInstanceSkipsComments={b rwCfg.skipInstanceSkipsComments} missingSemicolonReported={b rwCfg.missingSemicolonReported} fillerOnlyForDollar={b rwCfg.fillerOnlyForDollar} fillerKeepsError={b rwCfg.fillerKeepsError} errorResyncsFromStart={b rwCfg.errorResyncsFromStart} numberElemReadsNumber={b rwCfg.numberElemReadsNumber} aggrReportsMissingElement={b rwCfg.aggrReportsMissingElement} pcdEatsNextChar={b StepModel.Generated.pcdEatsNextChar} " ++
  s!"intReportsFail={b lexCfg.intReportsFail} realReportsFail={b lexCfg.realReportsFail} " ++
  s!"numberReportsFail={b lexCfg.numberReportsFail} logicalRejectsUnset={b lexCfg.logicalRejectsUnset} " ++
  s!"binaryRejectsEmpty={b lexCfg.binaryRejectsEmpty} dollarKeepsError={b lexCfg.dollarKeepsError} intNullReported={b lexCfg.intNullReported} realNullReported={b lexCfg.realNullReported} numberNullReported={b lexCfg.numberNullReported} criStopsAtSemicolon={b lexCfg.criStopsAtSemicolon}"

def typeName (i : MInst Nat) : String :=
  if i.complex then "(" ++ "&".intercalate (i.parts.map (·.name)) ++ ")"
  else match i.parts with | p :: _ => p.name | [] => "?"

def doRead (d : Dict) (strict skipws : Bool) (bytes : List Byte) : String :=
  match readDataSection fops lexCfg rwCfg d strict skipws bytes with
  | .error .outOfFuel => "X outOfFuel"
  | .error .overflow => "X overflow"
  | .error (.unmodelled why) => "X unmodelled " ++ why
  | .ok r =>
    let head := s!"R sev={r.sev.name} ret={r.ret.name} exit={exitStatus r.sev} created={r.created} " ++
      s!"notcreated={r.notCreated} valid={r.valid} invalid={r.invalid} incomplete={r.incomplete} |"
    let insts := r.mgr.insts.map (fun i =>
      s!" {i.id}/{typeName i}/{i.state.name}/{toHexB (writeInst fops rwCfg d i)}")
    head ++ String.join insts

def step (st : St) (line : String) : St × String :=
  let w := (line.splitOn " ").filter (· ≠ "")
  match w with
  | ["dict", "begin"] => ({ dict := { entities := [], selects := [], complexSets := [] }, building := true }, "ok")
  | ["dict", "end"] => ({ st with building := false }, "ok")
  | ["E", name, abs, ancs] =>
    match b01 abs with
    | some a =>
      let e : EntityD := { name := name, attrs := [], ancestors := ancs.splitOn ",", abstract := a }
      ({ st with dict := { st.dict with entities := st.dict.entities ++ [e] } }, "ok")
    | none => (st, "bad-op")
  | ["A", name, opt, der, red, own, ty] =>
    match b01 opt, b01 der, b01 red, b01 own, parseTy ty with
    | some o, some dv, some r, some ow, some t =>
      match addAttr st.dict { name := name, ty := t, optional := o, derived := dv, redefining := r, own := ow } with
      | some d => ({ st with dict := d }, "ok")
      | none => (st, "bad-op")
    | _, _, _, _, _ => (st, "bad-op")
  | "S" :: name :: members =>
    let ms := members.map (fun m => match m.splitOn "=" with
      | [n, t] => (parseElemTy t).map (fun ty => ({ name := n, ty := ty } : SelMember))
      | _ => none)
    if ms.all Option.isSome then
      ({ st with dict := { st.dict with selects := st.dict.selects ++ [{ name := name, members := ms.filterMap id }] } }, "ok")
    else (st, "bad-op")
  | "C" :: names => ({ st with dict := { st.dict with complexSets := st.dict.complexSets ++ [sortNames names] } }, "ok")
  | ["cfg"] => (st, showCfg)
  | ["read", strict, skipws, hx] =>
    match b01 strict, b01 skipws, unhexB hx with
    | some s, some k, some bytes => (st, doRead st.dict s k bytes)
    | _, _, _ => (st, "bad-op")
  | _ => (st, "bad-op")

partial def loop (h : IO.FS.Stream) (out : IO.FS.Stream) (st : St) : IO Unit := do
  let line ← h.getLine
  if line.isEmpty then return
  let l := line.trimAscii.toString
  if l == "quit" then return
  let (st', reply) := step st l
  out.putStrLn reply
  out.flush
  loop h out st'

def main : IO Unit := do
  let stdin ← IO.getStdin
  let stdout ← IO.getStdout
  loop stdin stdout {}

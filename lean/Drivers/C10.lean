import StepModel.Lazy
/-! Line-protocol driver for the `Lazy` model (C10).
  `scan <hex of the bytes after DATA;>`           → `COUNT n|SECTION ok/bad|KW kw ids..|FWD id refs..|REV id ids..|DEP id ids..`
  `load <inv> <hex> id id ...`  (inv = `KW:KW1,KW2;...` candidate-referrer keywords per keyword, or `-`)                          → `LOAD id 0/1 n|...|CACHE id:r=b,r=b ...`  (n = cache size after the call)
  anything else → `bad-op`. -/
open StepModel.Lazy StepModel.Generated

def hexVal (c : Char) : Option Nat :=
  if '0' ≤ c && c ≤ '9' then some (c.toNat - '0'.toNat)
  else if 'a' ≤ c && c ≤ 'f' then some (c.toNat - 'a'.toNat + 10)
  else if 'A' ≤ c && c ≤ 'F' then some (c.toNat - 'A'.toNat + 10)
  else none

def unhex : List Char → Option (List Char)
  | [] => some []
  | a :: b :: r => do
    let x ← hexVal a
    let y ← hexVal b
    let t ← unhex r
    pure (Char.ofNat (16 * x + y) :: t)
  | _ => none

def joinNats (l : List Nat) : String := String.intercalate " " (l.map toString)

def insertSorted (x : Nat) : List Nat → List Nat
  | [] => [x]
  | y :: t => if x ≤ y then x :: y :: t else y :: insertSorted x t
def sortNats (l : List Nat) : List Nat := l.foldr insertSorted []
def dedup (l : List Nat) : List Nat := l.foldr (fun x acc => if acc.contains x then acc else x :: acc) []

def outcomeTag {α} : Outcome α → String
  | .ok _ => "ok" | .fail => "fail" | .crash => "crash" | .outOfFuel => "out-of-fuel"

def scanReply (bytes : List Char) : String :=
  match scan bytes with
  | .ok (es, secOk) =>
    let ix := build es
    let kws := (es.map (·.kw)).foldr (fun k acc => if acc.contains k then acc else k :: acc) []
    let kwLines := kws.map (fun k =>
      "KW " ++ (if k.isEmpty then "-" else String.ofList k) ++ " " ++ joinNats (sortNats (ix.instancesOf k)))
    let fwdLines := ix.fwd.map (fun p => s!"FWD {p.1} " ++ joinNats p.2)
    let revLines := ix.rev.map (fun p => s!"REV {p.1} " ++ joinNats p.2)
    let ids := dedup (es.map (·.id))
    let depLines := ids.filterMap (fun i =>
      match deps ix i with
      | .ok [] => none
      | .ok d => some (s!"DEP {i} " ++ joinNats (sortNats d))
      | o => some (s!"DEP {i} " ++ outcomeTag o))
    String.intercalate "|" ([s!"COUNT {es.length}", "SECTION " ++ (if secOk then "ok" else "bad")]
      ++ kwLines ++ fwdLines ++ revLines ++ depLines)
  | o => "SCAN " ++ outcomeTag o

def showObj (o : Obj) : String :=
  match o.resolved with
  | none => s!"{o.id}:?"
  | some r => s!"{o.id}:" ++ String.intercalate "," (r.map (fun p => s!"{p.1}={if p.2 then 1 else 0}"))

/-- `inv` table of the request: `KW:KW1,KW2;KW:KW3` (keywords whose instances are candidate referrers of an instance of `KW`), `-` = none -/
def parseInv (t : String) : List Char → List (List Char) :=
  if t == "-" then fun _ => [] else
  let rows := (t.splitOn ";").filterMap (fun r =>
    match r.splitOn ":" with
    | [k, vs] => some (k.toList, (vs.splitOn ",").map String.toList)
    | _ => none)
  fun k => match rows.find? (fun r => r.1 == k) with | some r => r.2 | none => []

def loadReply (inv : List Char → List (List Char)) (bytes : List Char) (ids : List Nat) : String :=
  match scan bytes with
  | .ok (es, _) =>
    let fuel := es.length + 2
    let cands := candsOf es inv
    let rec go (st : TopState) (l : List Nat) (acc : List String) : List String × Option Cache :=
      match l with
      | [] => (acc.reverse, some st.1)
      | id :: t =>
        match loadTop es cands (fun l => l) fuel st id with
        | .ok (st1, b) => go st1 t (s!"LOAD {id} {if b then 1 else 0} {st1.1.length}" :: acc)
        | o => ((s!"LOAD {id} {outcomeTag o}" :: acc).reverse, none)
    let (lines, c) := go ([], []) ids []
    match c with
    | some c => String.intercalate "|" (lines ++ ["CACHE " ++ String.intercalate " " (c.map showObj)])
    | none => String.intercalate "|" lines
  | o => "SCAN " ++ outcomeTag o

def handle (line : String) : String :=
  match (line.trimAscii.toString.splitOn " ").filter (· ≠ "") with
  | ["scan", h] => match unhex h.toList with | some b => scanReply b | none => "bad-op"
  | "load" :: iv :: h :: ids =>
    match unhex h.toList, ids.mapM String.toNat? with
    | some b, some ids => loadReply (parseInv iv) b ids
    | _, _ => "bad-op"
  | [] => ""
  | _ => "bad-op"

partial def loop (h : IO.FS.Stream) (out : IO.FS.Stream) : IO Unit := do
  let line ← h.getLine
  if line.isEmpty then return ()
  let o := handle line
  if o ≠ "" then out.putStrLn o
  loop h out

def main : IO Unit := do
  let out ← IO.getStdout
  loop (← IO.getStdin) out
  out.flush

import StepModel.GenFiles
import StepModel.GenCxxPass
import StepModel.GenCollect
import StepModel.GenSelectOrder
/-! Line-protocol driver for the scanner / exp2cxx file-set model (C17; also used by C12 for orders and text).

  reset                                   -> ok
  file <hex path>                         -> ok
  schema <name>                           -> ok      (schemas and declarations in *textual* order = insertion order)
  ent <name> <foreign 0|1>                -> ok
  type <name> <kind> <head 0|1> <foreign 0|1> -> ok
  other <name>                            -> ok
  order                                   -> O <schema>: key key … | <schema>: …      (DICTdo orders)
  scan                                    -> S <stdout short names …> | <dir> <hex CMakeLists.txt> | …   (final file system)
  listed                                  -> L <schema> f f … | <schema> f f …
  passes                                  -> P <schema>=<k,…>;…  |  P unmodelled
  pschema <name> / pobj T|E|S <key> <qname> <isEnum> <isSelect> <renameOf|-> <items|-> <entAttrTypes|-> <descendants|-> <supers|->
  printfile                               -> F <schema>=<suffix,…>;…  (SCHEMAprint calls predicted by Pass.printFile) | F hung | F unfinished
  cl <entity name> <dependent 0|1>       -> ok     (a ComplexList, in the order the constructor inserts them)
  collect                                 -> K name name …  (the `// ComplexList with supertype` lines of compstructs.cc, Collect.build) | K hung
  selorder                                -> Q <schema>=c:<qname>,t:<qname>,…;…   (per schema in DICTdo order: TYPEPrint calls `c:` and typedef blocks `t:` of the select loop, SelOrder.visitAll)
  cxx auto | cxx <schema>=<k,k,…>;…       -> C f f …  |  C refused (identifier longer than MAX_IDENT_LEN: exit 1) | C unmodelled
-/
open StepModel.GenFiles StepModel.Generated.Scanner StepModel

structure St where
  path : String := ""
  schemas : List (String × List Decl) := []     -- textual order, decls in textual order (reversed while reading)
  pschemas : List (String × List (Char × String × Pass.Obj)) := []
  cls : List Collect.CL := []      -- reversed   -- pass-model objects: (class T/E/S, dictionary key, object)

def hexVal (c : Char) : Option Nat :=
  if '0' ≤ c ∧ c ≤ '9' then some (c.toNat - '0'.toNat)
  else if 'a' ≤ c ∧ c ≤ 'f' then some (c.toNat - 'a'.toNat + 10)
  else none

def unhex (s : String) : Option String :=
  let rec go : List Char → List UInt8 → Option (List UInt8)
    | [], acc => some acc.reverse
    | [_], _ => none
    | a :: b :: r, acc => match hexVal a, hexVal b with
      | some x, some y => go r (UInt8.ofNat (x * 16 + y) :: acc)
      | _, _ => none
  (go s.toList []).bind fun bs => String.fromUTF8? (ByteArray.mk bs.toArray)

def hexDigit (n : Nat) : Char := if n < 10 then Char.ofNat (48 + n) else Char.ofNat (87 + n)
def hex (s : String) : String :=
  String.ofList (s.toUTF8.toList.flatMap fun b => [hexDigit (b.toNat / 16), hexDigit (b.toNat % 16)])

def parseKind (s : String) : Option TypeKind := allKinds.find? (fun k => kindName k == s)
def parseBool : String → Option Bool | "0" => some false | "1" => some true | _ => none

def declKey : Decl → String := Cxx.declName

/-- the file as both programs see it: schemas and declarations in DICTdo order -/
def St.file (st : St) : SchemaFile :=
  let schemasTextual := st.schemas.reverse.map fun (n, ds) => (n, ds.reverse)
  let ordered := ExpressHash.dictOrder schemasTextual
  { path := st.path,
    schemas := ordered.map fun (n, ds) =>
      { name := n, decls := (ExpressHash.dictOrder (ds.map fun d => (declKey d, d))).map (·.2) } }

def addDecl (st : St) (d : Decl) : Option St :=
  match st.schemas with
  | [] => none
  | (n, ds) :: r => some { st with schemas := (n, d :: ds) :: r }

def parseSufs (f : SchemaFile) (spec : String) : Option (Schema → List Nat) :=
  let items := (spec.splitOn ";").filter (· ≠ "")
  let parsed := items.mapM fun it =>
    match it.splitOn "=" with
    | [n, ks] => (((ks.splitOn ",").filter (· ≠ "")).mapM String.toNat?).map fun l => (n, l)
    | _ => none
  parsed.bind fun tbl =>
    if f.schemas.all (fun s => tbl.any (·.1 == s.name)) then
      some fun s => ((tbl.find? (·.1 == s.name)).map (·.2)).getD []
    else none

def handle (st : St) (line : String) : St × String :=
  match (line.trimAscii.toString.splitOn " ").filter (· ≠ "") with
  | ["reset"] => ({}, "ok")
  | ["file", h] => match unhex h with
    | some p => ({ st with path := p }, "ok")
    | none => (st, "bad-op")
  | ["schema", n] => ({ st with schemas := (n, []) :: st.schemas }, "ok")
  | ["ent", n, f] => match parseBool f with
    | some f => match addDecl st (.entity { name := n, foreign := f }) with
      | some st' => (st', "ok") | none => (st, "bad-op")
    | none => (st, "bad-op")
  | ["type", n, k, h, f] => match parseKind k, parseBool h, parseBool f with
    | some k, some h, some f => match addDecl st (.type { name := n, kind := k, hasHead := h, foreign := f }) with
      | some st' => (st', "ok") | none => (st, "bad-op")
    | _, _, _ => (st, "bad-op")
  | ["other", n] => match addDecl st (.other n) with
    | some st' => (st', "ok") | none => (st, "bad-op")
  | ["pschema", n] => ({ st with pschemas := (n, []) :: st.pschemas }, "ok")
  | ["pobj", cls, key, qn, ise, iss, ren, items, eattrs, descs, sups] =>
    let csv (x : String) : List String := if x == "-" then [] else (x.splitOn ",").filter (· ≠ "")
    match cls.toList, parseBool ise, parseBool iss, st.pschemas with
    | [c], some ise, some iss, (n, os) :: r =>
      if c == 'T' || c == 'E' || c == 'S' then
        let o : Pass.Obj := { name := qn, isEnum := ise, isSelect := iss, renameOf := if ren == "-" then none else some ren,
                              items := csv items, entAttrTypes := csv eattrs, descendants := csv descs, supers := csv sups,
                              foreign := c == 'S' }
        ({ st with pschemas := (n, (c, key, o) :: os) :: r }, "ok")
      else (st, "bad-op")
    | _, _, _, _ => (st, "bad-op")
  | ["cl", n, d] => match parseBool d with
    | some d => ({ st with cls := { id := st.cls.length, name := n, dependent := d } :: st.cls }, "ok")
    | none => (st, "bad-op")
  | ["collect"] =>
    let cs := st.cls.reverse
    match Collect.build (fun a b => decide (a < b)) Generated.CxxCollect.removeScan (cs.length + 1) cs with
    | some l => (st, "K " ++ " ".intercalate (Collect.written l))
    | none => (st, "K hung")
  | ["selorder"] =>
    let f := st.file
    let all : List (Char × String × Pass.Obj) := (st.pschemas.reverse.map fun (_, os) => os.reverse).flatten
    let isSel (q : String) : Bool := all.any fun (_, _, o) => o.name == q && o.isSelect
    let G (q : String) : Option SelOrder.Sel :=
      match all.find? (fun (c, _, o) => c == 'T' && o.name == q && o.isSelect) with
      | some (_, _, o) => match o.renameOf with
        | some r => some (.renamed r)
        | none => some (.items (o.items.filter isSel))
      | none => none
    let n := (all.filter fun (c, _, _) => c == 'T').length
    -- the schemas in the order in which they are PRINTED (a deferred schema comes after its suppliers), then the unprinted ones
    let textualP := st.pschemas.reverse.map fun (n, os) => (n, os.reverse)
    let orderedP := (ExpressHash.dictOrder textualP).map fun (n, os) =>
      let own := (ExpressHash.dictOrder ((os.filter (fun x => x.1 != 'S')).map fun (c, k, o) => (k, (c, o)))).map (·.2)
      ({ name := n, types := (own.filter (·.1 == 'T')).map (·.2), ents := (own.filter (·.1 == 'E')).map (·.2),
         stubs := (os.filter (fun x => x.1 == 'S')).map (·.2.2) } : Pass.PSchema)
    let printedNames := ((Pass.printFile Generated.CxxPass.sweepLoop Generated.CxxPass.enumLastCase orderedP 60).printed.map (·.1)).eraseDups
    let inPrintOrder := (printedNames.filterMap fun n => f.schemas.find? (·.name == n)) ++ f.schemas.filter (fun s => !printedNames.contains s.name)
    let res := inPrintOrder.foldl (fun (acc : List String × List String) s =>
        let roots := (s.decls.filterMap fun d => match d with
          | .type t => some (s.name ++ "." ++ t.name)
          | _ => none).filter isSel
        let r := SelOrder.visitAll G (n + 1) roots { tagged := acc.1, out := [] }
        (r.tagged, acc.2 ++ [s.name ++ "=" ++ ",".intercalate (r.out.map fun e => match e with
          | .cls t => "c:" ++ t
          | .typedefs t => "t:" ++ t)])) ([], [])
    (st, "Q " ++ ";".intercalate res.2)
  | ["printfile"] =>
    -- schemas in DICTdo order of their names, types and entities in DICTdo order of the schema's symbol table
    let textual := st.pschemas.reverse.map fun (n, os) => (n, os.reverse)
    let ordered := (ExpressHash.dictOrder textual).map fun (n, os) =>
      let own := (ExpressHash.dictOrder ((os.filter (fun x => x.1 != 'S')).map fun (c, k, o) => (k, (c, o)))).map (·.2)
      ({ name := n, types := (own.filter (·.1 == 'T')).map (·.2), ents := (own.filter (·.1 == 'E')).map (·.2),
         stubs := (os.filter (fun x => x.1 == 'S')).map (·.2.2) } : Pass.PSchema)
    let fs := Pass.printFile Generated.CxxPass.sweepLoop Generated.CxxPass.enumLastCase ordered 60
    if fs.hung then (st, "F hung")
    else if ordered.any (fun p => fs.unprocessed p.name) then (st, "F unfinished")
    else (st, "F " ++ ";".intercalate (ordered.map fun p =>
      p.name ++ "=" ++ ",".intercalate ((fs.printed.filter (·.1 == p.name)).map fun x => toString x.2)))
  | ["order"] =>
    let f := st.file
    (st, "O " ++ " | ".intercalate (f.schemas.map fun s => s.name ++ ": " ++ " ".intercalate (s.decls.map declKey)))
  | ["scan"] =>
    let (final, out) := Scanner.run st.file
    (st, "S " ++ " ".intercalate out ++ " | " ++ " | ".intercalate (final.map fun (d, c) => d ++ " " ++ hex c.text))
  | ["listed"] =>
    let f := st.file
    (st, "L " ++ " | ".intercalate (f.schemas.map fun s => s.name ++ " " ++ " ".intercalate (Scanner.cmake f.path s).listed))
  | ["passes"] =>
    let f := st.file
    match Cxx.passes f with
    | some pf => (st, "P " ++ ";".intercalate (f.schemas.map fun s => s.name ++ "=" ++ ",".intercalate ((pf s).map toString)))
    | none => (st, "P unmodelled")
  | ["cxx", spec] =>
    let f := st.file
    let sufs : Option (Schema → List Nat) :=
      if spec == "auto" then Cxx.passes f else parseSufs f spec
    match sufs with
    | none => (st, if spec == "auto" then "C unmodelled" else "bad-op")
    | some sf => match Cxx.created f sf with
      | some l => (st, "C " ++ " ".intercalate l)
      | none => (st, "C refused")
  | [] => (st, "")
  | _ => (st, "bad-op")

partial def loop (h : IO.FS.Stream) (out : IO.FS.Stream) (st : St) : IO Unit := do
  let line ← h.getLine
  if line.isEmpty then return ()
  let (st', o) := handle st line
  out.putStrLn o
  loop h out st'

def main : IO Unit := do
  let stdin ← IO.getStdin
  let stdout ← IO.getStdout
  loop stdin stdout {}
  stdout.flush

import StepModel.GenNodeList
/-! Line-protocol driver for the state-list model (`GenNodeList.lean`); same protocol as harness/h_gennodelist.cc. -/
open StepModel.GenNodeList

def nn : Nat := 8

def showWalk : Option (List Nat) → String
  | some l => String.join (l.map fun x => s!" {x}")
  | none => " !"

/-- backward walk that prints what it saw before a null pointer / overlong walk, like the harness -/
def dumpW (w : World) : String := Id.run do
  let f0 := walk w.heap 0 (4 * nn + 1) 0
  let r0 := walkBack w.heap 0 (4 * nn + 1) 0
  let f1 := walk w.heap 1 (4 * nn + 1) 1
  let r1 := walkBack w.heap 1 (4 * nn + 1) 1
  let mut u := ""
  for i in List.range nn do
    let c := w.heap (i + 2)
    if c.next.isNone && c.prev.isNone then u := u ++ s!" {i + 2}"
    else if c.next.isNone || c.prev.isNone then u := u ++ s!" half{i + 2}"
  return s!"F0:{showWalk f0} | R0:{showWalk r0} | F1:{showWalk f1} | R1:{showWalk r1} | U:{u}"

/-- re-tabulate the heap after every operation (the model's heap is a function; a chain of update closures would make
    every look-up cost grow with the history).  Extensionally the same heap on every address the protocol can name
    (0 .. nn+1); no store of the model writes an address outside that range. -/
def tab (w : World) : World :=
  let arr := ((List.range (nn + 2)).map w.heap).toArray
  { w with heap := fun x => arr.getD x Cell.unlinked }

def handle (w : World) (line : String) : World × String :=
  match (line.trimAscii.toString.splitOn " ").filter (· ≠ "") with
  | ["reset"] => (World.init 0 1, "ok")
  | ["a", l, n] =>
    match l.toNat?, n.toNat? with
    | some l, some n =>
      if l > 1 || n < 2 || n ≥ nn + 2 then (w, "bad-op") else
      match step w (.append (l == 1) n) with
      | some w' => let w' := tab w'; (w', dumpW w')
      | none => (w, "CRASH")
    | _, _ => (w, "bad-op")
  | ["c", l] =>
    match l.toNat? with
    | some l =>
      if l > 1 then (w, "bad-op") else
      match clearEntriesLoop w.heap (if l == 1 then w.headB else w.headA) (nn + 2) with
      | some h' => let w' := tab { w with heap := h' }; (w', dumpW w')
      | none => (w, "CRASH")
    | none => (w, "bad-op")
  | ["r", n] =>
    match n.toNat? with
    | some n =>
      if n < 2 || n ≥ nn + 2 then (w, "bad-op") else
      match step w (.remove n) with
      | some w' => let w' := tab w'; (w', dumpW w')
      | none => (w, "CRASH")
    | none => (w, "bad-op")
  | _ => (w, "bad-op")

partial def loop (h : IO.FS.Stream) (w : World) : IO Unit := do
  let line ← h.getLine
  if line.isEmpty then return ()
  let (w', out) := handle w line
  IO.println out
  loop h w'

def main : IO Unit := do loop (← IO.getStdin) (World.init 0 1)

import StepModel.LazyScan
/-!
# The byte scanner on whole data sections

`RInst` = one instance as it is written: white space, `#`, white space, digits, white space, `=`, white space, keyword
(empty for an externally mapped instance), blanks, `(` tokens `)`, white space, `;`.
-/
namespace StepModel.Lazy
open StepModel.Generated

structure RInst where
  ws0 : Bytes
  ws1 : Bytes
  ds : Bytes
  ws2 : Bytes
  ws3 : Bytes
  kw : Bytes
  sp : Nat
  ts : List Tok
  ws4 : Bytes

def blanks (n : Nat) : List Tok := List.replicate n (Tok.other ' ')

/-- the bytes of the instance followed by `rest` -/
def RInst.render (i : RInst) (rest : Bytes) : Bytes :=
  i.ws0 ++ ('#' :: (i.ws1 ++ (i.ds ++ (i.ws2 ++ ('=' :: (i.ws3 ++ (i.kw ++
    (renderToks (blanks i.sp ++ Tok.popen :: i.ts) ++ (')' :: (i.ws4 ++ (';' :: rest)))))))))))

structure RInst.Ok (i : RInst) : Prop where
  w0 : i.ws0.all isSpace = true
  w1 : i.ws1.all isSpace = true
  w2 : i.ws2.all isSpace = true
  w3 : i.ws3.all isSpace = true
  w4 : i.ws4.all isSpace = true
  dne : i.ds ≠ []
  dd : i.ds.all isDigit = true
  dlen : idLen i.ds ≤ instanceIdDigits
  dpos : 0 < digitsVal i.ds
  dmax : digitsVal i.ds ≤ instanceIdMax
  kwc : i.kw.all isKwChar = true
  kwsp : i.kw = [] → i.sp = 0
  tok : ∀ t ∈ i.ts, t.ok = true
  seq : seqOk i.ts = true
  inner : innerOk 1 i.ts = true
  depth : depthAfter 1 i.ts = 1

def RInst.entry (i : RInst) : Entry := { id := digitsVal i.ds, kw := i.kw, refs := refsOfToks i.ts }

theorem skipWS_ws (ws : Bytes) (hws : ws.all isSpace = true) (c : Char) (hc : isSpace c = false) (r : Bytes) :
    skipWS (ws ++ c :: r) = c :: r := by
  induction ws with
  | nil => exact skipWS_nonspace c r hc
  | cons w t ih =>
    simp only [List.all_cons, Bool.and_eq_true] at hws
    simp [skipWS, hws.1, ih hws.2]

theorem betweenTokens_ws (f : Nat) (ws : Bytes) (hws : ws.all isSpace = true) (c : Char) (hc : isSpace c = false)
    (hc2 : c ≠ '/') (r : Bytes) : betweenTokens (f + 1) (ws ++ c :: r) = .ok (c :: r) := by
  have hsk := skipWS_ws ws hws c hc r
  unfold betweenTokens
  split
  · simp only [skipWSC, hsk]
    split
    · rename_i h; injection h with h1 _; exact absurd h1 hc2
    · rfl
  · rw [hsk]

theorem skipWSC_ws (f : Nat) (ws : Bytes) (hws : ws.all isSpace = true) (c : Char) (hc : isSpace c = false)
    (hc2 : c ≠ '/') (r : Bytes) : skipWSC (f + 1) (ws ++ c :: r) = .ok (c :: r) := by
  have hsk := skipWS_ws ws hws c hc r
  simp only [skipWSC, hsk]
  split
  · rename_i h; injection h with h1 _; exact absurd h1 hc2
  · rfl

/-- before `#` (either shape of the code): white space is skipped, the stream stands at the next byte -/
theorem beforeHash_ws (f : Nat) (ws : Bytes) (hws : ws.all isSpace = true) (c : Char) (hc : isSpace c = false)
    (hc2 : c ≠ '/') (r : Bytes) : beforeHash (f + 1) (ws ++ c :: r) = .ok (c :: r) := by
  unfold beforeHash
  split
  · exact skipWSC_ws f ws hws c hc hc2 r
  · rw [skipWS_ws ws hws c hc r]
    unfold leadComment
    split
    · rename_i h; injection h with h1 _; exact absurd h1 hc2
    · rfl

theorem kwLoop_kw (kw : Bytes) (hk : kw.all isKwChar = true) (tail : Bytes) (c : Char) (t : Bytes) (ht : tail = c :: t)
    (hc : isKwChar c = false) (hb : c ≠ '!') (hs : c ≠ '/') :
    ∀ (f : Nat) (acc : Bytes), kw.length + 1 ≤ f → kwLoop f acc (kw ++ tail) = .ok (acc.reverse ++ kw, tail) := by
  induction kw with
  | nil =>
    intro f acc hf
    obtain ⟨f0, rfl⟩ : ∃ j, f = j + 1 := ⟨f - 1, by simp at hf; omega⟩
    subst ht
    have h1 : (c == '!') = false := by simp; exact hb
    have h2 : (c == '/') = false := by simp; exact hs
    simp [kwLoop, hc, h1, h2]
  | cons k ks ih =>
    intro f acc hf
    obtain ⟨f0, rfl⟩ : ∃ j, f = j + 1 := ⟨f - 1, by simp at hf; omega⟩
    simp only [List.all_cons, Bool.and_eq_true] at hk
    simp only [List.cons_append, kwLoop, hk.1, Bool.true_or, ↓reduceIte]
    rw [ih hk.2 f0 (k :: acc) (by simp at hf; omega)]
    simp

/-! ### the body, from depth 0 -/

theorem seekEnd_body0 (ts : List Tok) (hall : ∀ t ∈ ts, t.ok = true) (hseq : seqOk ts = true)
    (hin : innerOk 0 ts = true) (hd : depthAfter 0 ts = 1)
    (ws : Bytes) (hws : ws.all isSpace = true) (rest : Bytes) (f : Nat)
    (hf : (renderToks ts).length + 3 ≤ f) :
    seekEnd f 0 [] (renderToks ts ++ ')' :: (ws ++ ';' :: rest)) = .ok (refsOfToks ts, rest) := by
  obtain ⟨f', hk, he⟩ := seekEnd_toks 3 (by omega) ts hall hseq 0 [] (')' :: (ws ++ ';' :: rest)) f hin
    (fun c hc => by simp at hc; subst hc; decide) (by simp) hf
  obtain ⟨f2, rfl⟩ : ∃ j, f' = j + 2 := ⟨f' - 2, by omega⟩
  rw [he, hd]
  have hbt := betweenTokens_ws f2 ws hws ';' (by decide) (by decide) rest
  simp (config := { decide := true }) [seekEnd, hbt]

theorem blanks_facts (n : Nat) (ts : List Tok) :
    (∀ d, innerOk d (blanks n ++ Tok.popen :: ts) = innerOk (d + 1) ts) ∧
    (∀ d, depthAfter d (blanks n ++ Tok.popen :: ts) = depthAfter (d + 1) ts) ∧
    refsOfToks (blanks n ++ Tok.popen :: ts) = refsOfToks ts ∧
    seqOk (blanks n ++ Tok.popen :: ts) = seqOk ts ∧
    (renderToks (blanks n ++ Tok.popen :: ts)).length = n + 1 + (renderToks ts).length := by
  induction n with
  | zero =>
    refine ⟨fun d => by simp [blanks, innerOk], fun d => by simp [blanks, depthAfter], by simp [blanks, refsOfToks], ?_,
      by simp [blanks, renderToks, Tok.render]; omega⟩
    cases ts with
    | nil => simp [blanks, seqOk]
    | cons x xs => simp [blanks, seqOk]
  | succ n ih =>
    have e : blanks (n + 1) ++ Tok.popen :: ts = Tok.other ' ' :: (blanks n ++ Tok.popen :: ts) := by
      simp [blanks, List.replicate_succ]
    rw [e]
    refine ⟨fun d => by simp [innerOk, ih.1], fun d => by simp [depthAfter, ih.2.1], by simp [refsOfToks, ih.2.2.1], ?_,
      by simp [renderToks, Tok.render] at ih ⊢; omega⟩
    rw [← ih.2.2.2.1]
    cases h : (blanks n ++ Tok.popen :: ts) with
    | nil => simp [seqOk]
    | cons x xs => simp [seqOk]

/-! ### `#` digits `=` -/

theorem readInstanceNumber_ok (ws0 ws1 ds ws2 : Bytes) (h0 : ws0.all isSpace = true) (h1 : ws1.all isSpace = true)
    (h2 : ws2.all isSpace = true) (dne : ds ≠ []) (dd : ds.all isDigit = true) (dlen : idLen ds ≤ instanceIdDigits)
    (dpos : 0 < digitsVal ds) (dmax : digitsVal ds ≤ instanceIdMax) (u : Bytes) (f : Nat) :
    readInstanceNumber (f + 1) (ws0 ++ ('#' :: (ws1 ++ (ds ++ (ws2 ++ ('=' :: u)))))) = .ok (digitsVal ds, u) := by
  obtain ⟨d0, dt, rfl⟩ : ∃ d0 dt, ds = d0 :: dt := by
    cases ds with
    | nil => exact absurd rfl dne
    | cons a b => exact ⟨a, b, rfl⟩
  have hd0 : isDigit d0 = true := by simp at dd; exact dd.1
  have s0 := skipWS_ws ws0 h0 '#' (by decide) (ws1 ++ ((d0 :: dt) ++ (ws2 ++ ('=' :: u))))
  have s00 : skipWS ('#' :: (ws1 ++ ((d0 :: dt) ++ (ws2 ++ ('=' :: u))))) = '#' :: (ws1 ++ ((d0 :: dt) ++ (ws2 ++ ('=' :: u)))) :=
    skipWS_nonspace _ _ (by decide)
  have s1 : skipWS (ws1 ++ ((d0 :: dt) ++ (ws2 ++ ('=' :: u)))) = (d0 :: dt) ++ (ws2 ++ ('=' :: u)) :=
    skipWS_ws ws1 h1 d0 (isDigit_not_space d0 hd0) (dt ++ (ws2 ++ ('=' :: u)))
  have htd : takeDigits ((d0 :: dt) ++ (ws2 ++ ('=' :: u))) = (d0 :: dt, ws2 ++ ('=' :: u)) :=
    takeDigits_append (d0 :: dt) dd _ (by
      intro c hc
      cases ws2 with
      | nil => simp at hc; subst hc; decide
      | cons w t =>
        have hcw : w = c := by simpa using hc
        rw [← hcw]
        simp only [List.all_cons, Bool.and_eq_true] at h2
        cases hdg : isDigit w with
        | false => rfl
        | true => have := isDigit_not_space w hdg; rw [h2.1] at this; cases this)
  have hbt := betweenTokens_ws f ws2 h2 '=' (by decide) (by decide) u
  have hl : ¬ idLen (d0 :: dt) > instanceIdDigits := by omega
  have hz : ((d0 :: dt).length == 0) = false := by simp
  have hv : (digitsVal (d0 :: dt) == 0) = false := by simp; omega
  have hbh := beforeHash_ws f ws0 h0 '#' (by decide) (by decide) (ws1 ++ ((d0 :: dt) ++ (ws2 ++ ('=' :: u))))
  simp only [readInstanceNumber, hbh, s00, s1, htd, hbt, hl, hz, hv, ↓reduceIte, Bool.false_eq_true, Nat.min_eq_left dmax]

/-! ### the keyword -/

theorem getDelimitedKeyword_ok (ws3 kw : Bytes) (h3 : ws3.all isSpace = true) (hk : kw.all isKwChar = true)
    (c : Char) (t : Bytes) (hc : c = '(' ∨ (c = ' ' ∧ kw ≠ [])) (f : Nat) (hf : kw.length + 1 ≤ f) :
    getDelimitedKeyword f keywordDelims (skipWS (ws3 ++ (kw ++ c :: t))) = .ok (kw, c :: t) := by
  have hcp : isKwChar c = false ∧ c ≠ '!' ∧ c ≠ '/' ∧ keywordDelims.contains c = true := by
    rcases hc with h | h
    · subst h; decide
    · rw [h.1]; decide
  have hsk : skipWS (ws3 ++ (kw ++ c :: t)) = kw ++ c :: t := by
    cases kw with
    | nil =>
      rcases hc with h | h
      · subst h; exact skipWS_ws ws3 h3 '(' (by decide) t
      · exact absurd rfl h.2
    | cons k ks =>
      simp only [List.all_cons, Bool.and_eq_true] at hk
      have hks : isSpace k = false := by
        have := hk.1
        unfold isKwChar at this
        cases hsp : isSpace k with
        | false => rfl
        | true =>
          unfold isSpace at hsp
          simp only [Bool.or_eq_true, beq_iff_eq] at hsp
          rcases hsp with ((((h | h) | h) | h) | h) | h <;> (subst h; revert this; decide)
      exact skipWS_ws ws3 h3 k hks (ks ++ c :: t)
  have hsk2 : skipWS (kw ++ c :: t) = kw ++ c :: t := by rw [← hsk]; exact (by
    rw [hsk]
    cases kw with
    | nil =>
      rcases hc with h | h
      · subst h; exact skipWS_nonspace _ _ (by decide)
      · exact absurd rfl h.2
    | cons k ks =>
      have := hsk
      -- first byte of a keyword is not white space (see above)
      simp only [List.all_cons, Bool.and_eq_true] at hk
      have hks : isSpace k = false := by
        have := hk.1
        unfold isKwChar at this
        cases hsp : isSpace k with
        | false => rfl
        | true =>
          unfold isSpace at hsp
          simp only [Bool.or_eq_true, beq_iff_eq] at hsp
          rcases hsp with ((((h | h) | h) | h) | h) | h <;> (subst h; revert this; decide)
      exact skipWS_nonspace _ _ hks)
  unfold getDelimitedKeyword
  rw [hsk, hsk2, kwLoop_kw kw hk (c :: t) c t rfl hcp.1 hcp.2.1 hcp.2.2.1 f [] hf]
  have hmem : c ∈ keywordDelims := by simpa using hcp.2.2.2
  simp [hmem]

/-! ### one instance, the loop, the section -/

theorem render_length (i : RInst) (rest : Bytes) : (i.render rest).length = (i.render []).length + rest.length := by
  simp [RInst.render, renderToks]; omega

theorem nextInstance_ok (i : RInst) (h : i.Ok) (rest : Bytes) (f : Nat) (hf : (i.render []).length + 3 ≤ f) :
    nextInstance f (i.render rest) = .ok (some (i.entry, rest)) := by
  obtain ⟨f0, rfl⟩ : ∃ j, f = j + 1 := ⟨f - 1, by omega⟩
  have hb := blanks_facts i.sp i.ts
  have hlen : i.kw.length + (renderToks (blanks i.sp ++ Tok.popen :: i.ts)).length + 3 ≤ (i.render []).length := by
    simp [RInst.render]; omega
  have hrn := readInstanceNumber_ok i.ws0 i.ws1 i.ds i.ws2 h.w0 h.w1 h.w2 h.dne h.dd h.dlen h.dpos h.dmax
    (i.ws3 ++ (i.kw ++ (renderToks (blanks i.sp ++ Tok.popen :: i.ts) ++ (')' :: (i.ws4 ++ (';' :: rest)))))) f0
  -- the byte after the keyword
  obtain ⟨c, t, htl, hc⟩ : ∃ c t, renderToks (blanks i.sp ++ Tok.popen :: i.ts) = c :: t ∧ (c = '(' ∨ (c = ' ' ∧ i.kw ≠ [])) := by
    cases hsp : i.sp with
    | zero => exact ⟨'(', renderToks i.ts, by simp [blanks, renderToks, Tok.render], Or.inl rfl⟩
    | succ n =>
      refine ⟨' ', renderToks (blanks n ++ Tok.popen :: i.ts), by simp [blanks, renderToks, Tok.render, List.replicate_succ], Or.inr ⟨rfl, ?_⟩⟩
      intro hk; have := h.kwsp hk; omega
  have hkw := getDelimitedKeyword_ok i.ws3 i.kw h.w3 h.kwc c (t ++ (')' :: (i.ws4 ++ (';' :: rest)))) hc (f0 + 1) (by omega)
  have hall : ∀ x ∈ blanks i.sp ++ Tok.popen :: i.ts, x.ok = true := by
    intro x hx
    rcases List.mem_append.mp hx with h1 | h1
    · have : x = Tok.other ' ' := by simp [blanks] at h1; exact h1.2
      subst this; decide
    · rcases List.mem_cons.mp h1 with h2 | h2
      · subst h2; rfl
      · exact h.tok x h2
  have hse := seekEnd_body0 (blanks i.sp ++ Tok.popen :: i.ts) hall (by rw [hb.2.2.2.1]; exact h.seq)
    (by rw [hb.1]; exact h.inner) (by rw [hb.2.1]; exact h.depth) i.ws4 h.w4 rest (f0 + 1) (by omega)
  have hid : (digitsVal i.ds == 0) = false := by simp; have := h.dpos; omega
  unfold nextInstance
  rw [show i.render rest = i.ws0 ++ ('#' :: (i.ws1 ++ (i.ds ++ (i.ws2 ++ ('=' :: (i.ws3 ++ (i.kw ++
    (renderToks (blanks i.sp ++ Tok.popen :: i.ts) ++ (')' :: (i.ws4 ++ (';' :: rest))))))))))) from rfl, hrn]
  simp only [hid, Bool.false_eq_true, ↓reduceIte]
  rw [htl] at hse ⊢
  rw [List.cons_append] at hse ⊢
  simp only [hkw, hse, hb.2.2.1]
  rfl

def renderAll : List RInst → Bytes → Bytes
  | [], r => r
  | i :: t, r => i.render (renderAll t r)

theorem renderAll_length (is : List RInst) (r : Bytes) :
    (renderAll is r).length = ((is.map (fun i => (i.render []).length)).sum) + r.length := by
  induction is with
  | nil => simp [renderAll]
  | cons i t ih =>
    simp only [renderAll, List.map_cons, List.sum_cons]
    rw [render_length, ih]; omega

theorem scanLoop_ok (fuel : Nat) (tail : Bytes) (htail : nextInstance fuel tail = .ok none) :
    ∀ (is : List RInst), (∀ i ∈ is, i.Ok) → (∀ i ∈ is, (i.render []).length + 3 ≤ fuel) →
    ∀ (n : Nat), is.length < n → ∀ acc : List Entry,
      scanLoop n fuel (renderAll is tail) acc = .ok (acc.reverse ++ is.map RInst.entry, sectionEnd fuel tail) := by
  intro is
  induction is with
  | nil =>
    intro _ _ n hn acc
    obtain ⟨n0, rfl⟩ : ∃ j, n = j + 1 := ⟨n - 1, by simp at hn; omega⟩
    simp [scanLoop, renderAll, htail]
  | cons i t ih =>
    intro hok hfu n hn acc
    obtain ⟨n0, rfl⟩ : ∃ j, n = j + 1 := ⟨n - 1, by simp at hn; omega⟩
    have h1 := nextInstance_ok i (hok i (by simp)) (renderAll t tail) fuel (hfu i (by simp))
    simp only [scanLoop, renderAll, h1]
    rw [ih (fun j hj => hok j (List.mem_cons_of_mem _ hj)) (fun j hj => hfu j (List.mem_cons_of_mem _ hj)) n0
      (by simp at hn; omega) (i.entry :: acc)]
    simp

/-- the end of the section: white space, `ENDSEC`, white space, `;` -/
def endsec (ws ws' rest : Bytes) : Bytes := ws ++ ('E' :: 'N' :: 'D' :: 'S' :: 'E' :: 'C' :: (ws' ++ (';' :: rest)))

theorem nextInstance_endsec (ws ws' rest : Bytes) (hws : ws.all isSpace = true) (f : Nat) :
    nextInstance (f + 1) (endsec ws ws' rest) = .ok none := by
  have hbh := beforeHash_ws f ws hws 'E' (by decide) (by decide) ('N' :: 'D' :: 'S' :: 'E' :: 'C' :: (ws' ++ (';' :: rest)))
  have s1 : skipWS ('E' :: 'N' :: 'D' :: 'S' :: 'E' :: 'C' :: (ws' ++ (';' :: rest))) =
      'E' :: 'N' :: 'D' :: 'S' :: 'E' :: 'C' :: (ws' ++ (';' :: rest)) := skipWS_nonspace _ _ (by decide)
  have hrn : readInstanceNumber (f + 1) (endsec ws ws' rest) = .ok (0, 'E' :: 'N' :: 'D' :: 'S' :: 'E' :: 'C' :: (ws' ++ (';' :: rest))) := by
    unfold readInstanceNumber endsec
    rw [hbh]
    simp only [s1]
    split
    · rename_i h; injection h with h1 _; exact absurd h1 (by decide)
    · rfl
  unfold nextInstance
  rw [hrn]
  simp

theorem sectionEnd_endsec (ws ws' rest : Bytes) (hws : ws.all isSpace = true) (hws' : ws'.all isSpace = true) (f : Nat) :
    sectionEnd (f + 1) (endsec ws ws' rest) = true := by
  have hbt := betweenTokens_ws f ws hws 'E' (by decide) (by decide) ('N' :: 'D' :: 'S' :: 'E' :: 'C' :: (ws' ++ (';' :: rest)))
  have s1 := skipWS_ws ws' hws' ';' (by decide) rest
  unfold sectionEnd endsec
  rw [hbt]
  simp [s1]

end StepModel.Lazy

import StepModel.GenCxxCalls
/-! `dedupList` that carries the "derived by" mark over to the entry it keeps (fix C02-11), and the closed form of the
`MakeDerived` call list that follows from it — for every supertype graph, without any hypothesis on attribute names. -/
namespace StepModel.GenCxx
open StepModel.Generated

/-- the (name, creator) pairs of the entries marked derived -/
def dkeys (l : List OA) : List (String × String) := (l.filter (·.deriver)).map keyOA

theorem mem_dkeys {l : List OA} {k : String × String} : k ∈ dkeys l ↔ ∃ o ∈ l, keyOA o = k ∧ o.deriver = true := by
  unfold dkeys
  simp only [List.mem_map, List.mem_filter]
  constructor
  · rintro ⟨o, ⟨h1, h2⟩, h3⟩; exact ⟨o, h1, h3, h2⟩
  · rintro ⟨o, h1, h3, h2⟩; exact ⟨o, ⟨h1, h2⟩, h3⟩

theorem dedupOAM_nil (m : Bool) (acc : List OA) : dedupOAM m acc [] = acc := rfl

theorem dedupOAM_cons (m : Bool) (acc : List OA) (x : OA) (xs : List OA) :
    dedupOAM m acc (x :: xs) =
      if acc.any (fun y => y.name == x.name && y.creator == x.creator) then
        dedupOAM m (if m && x.deriver then
          acc.map (fun y => if y.name == x.name && y.creator == x.creator then { y with deriver := true } else y) else acc) xs
      else dedupOAM m (acc ++ [x]) xs := rfl

/-- with the mark carried over: a pair is in the call list iff SOME entry with that name and creator is marked -/
theorem dkeys_dedup_merge (L : List OA) : ∀ (acc : List OA) (k : String × String),
    k ∈ dkeys (dedupOAM true acc L) ↔ k ∈ dkeys acc ∨ ∃ o ∈ L, keyOA o = k ∧ o.deriver = true := by
  induction L with
  | nil => intro acc k; simp [dedupOAM_nil]
  | cons x xs ih =>
    intro acc k
    rw [dedupOAM_cons]
    by_cases hx : acc.any (fun y => y.name == x.name && y.creator == x.creator) = true
    · simp only [hx, if_true, Bool.true_and]
      rw [ih]
      by_cases hd : x.deriver = true
      · simp only [hd, if_true]
        -- marking the entries with x's key
        have hmark : k ∈ dkeys (acc.map (fun y => if y.name == x.name && y.creator == x.creator then { y with deriver := true } else y)) ↔
            k ∈ dkeys acc ∨ keyOA x = k := by
          rw [mem_dkeys, mem_dkeys]
          constructor
          · rintro ⟨o, ho, hk, hdo⟩
            obtain ⟨y, hy, rfl⟩ := List.mem_map.1 ho
            by_cases hyk : (y.name == x.name && y.creator == x.creator) = true
            · simp only [hyk, if_true] at hk
              have : y.name = x.name ∧ y.creator = x.creator := by simpa using hyk
              right
              rw [← hk]; simp [keyOA, this.1, this.2]
            · simp only [hyk] at hk hdo
              exact Or.inl ⟨y, hy, hk, hdo⟩
          · rintro (⟨o, ho, hk, hdo⟩ | hk)
            · refine ⟨_, List.mem_map.2 ⟨o, ho, rfl⟩, ?_, ?_⟩
              · by_cases hyk : (o.name == x.name && o.creator == x.creator) = true
                · simp only [hyk, if_true]; exact hk
                · simp only [hyk]; exact hk
              · by_cases hyk : (o.name == x.name && o.creator == x.creator) = true
                · simp only [hyk, if_true]
                · simp only [hyk]; exact hdo
            · obtain ⟨y, hy, hyk⟩ := List.any_eq_true.1 hx
              refine ⟨_, List.mem_map.2 ⟨y, hy, rfl⟩, ?_, ?_⟩
              · simp only [hyk, if_true]
                have : y.name = x.name ∧ y.creator = x.creator := by simpa using hyk
                rw [← hk]; simp [keyOA, this.1, this.2]
              · simp only [hyk, if_true]
        rw [hmark]
        constructor
        · rintro ((h | h) | ⟨o, ho, h1, h2⟩)
          · exact Or.inl h
          · exact Or.inr ⟨x, by simp, h, hd⟩
          · exact Or.inr ⟨o, by simp [ho], h1, h2⟩
        · rintro (h | ⟨o, ho, h1, h2⟩)
          · exact Or.inl (Or.inl h)
          · rcases List.mem_cons.1 ho with rfl | ho
            · exact Or.inl (Or.inr h1)
            · exact Or.inr ⟨o, ho, h1, h2⟩
      · simp only [hd]
        constructor
        · rintro (h | ⟨o, ho, h1, h2⟩)
          · exact Or.inl h
          · exact Or.inr ⟨o, by simp [ho], h1, h2⟩
        · rintro (h | ⟨o, ho, h1, h2⟩)
          · exact Or.inl h
          · rcases List.mem_cons.1 ho with rfl | ho
            · exact absurd h2 hd
            · exact Or.inr ⟨o, ho, h1, h2⟩
    · have hx' : acc.any (fun y => y.name == x.name && y.creator == x.creator) = false := by simpa using hx
      simp only [hx', Bool.false_eq_true, if_false]
      rw [ih]
      have happ : k ∈ dkeys (acc ++ [x]) ↔ k ∈ dkeys acc ∨ (keyOA x = k ∧ x.deriver = true) := by
        rw [mem_dkeys, mem_dkeys]
        constructor
        · rintro ⟨o, ho, h1, h2⟩
          rcases List.mem_append.1 ho with ho | ho
          · exact Or.inl ⟨o, ho, h1, h2⟩
          · simp only [List.mem_singleton] at ho; subst ho; exact Or.inr ⟨h1, h2⟩
        · rintro (⟨o, ho, h1, h2⟩ | ⟨h1, h2⟩)
          · exact ⟨o, List.mem_append_left _ ho, h1, h2⟩
          · exact ⟨x, by simp, h1, h2⟩
      rw [happ]
      constructor
      · rintro ((h | ⟨h1, h2⟩) | ⟨o, ho, h1, h2⟩)
        · exact Or.inl h
        · exact Or.inr ⟨x, by simp, h1, h2⟩
        · exact Or.inr ⟨o, by simp [ho], h1, h2⟩
      · rintro (h | ⟨o, ho, h1, h2⟩)
        · exact Or.inl (Or.inl h)
        · rcases List.mem_cons.1 ho with rfl | ho
          · exact Or.inl (Or.inr ⟨h1, h2⟩)
          · exact Or.inr ⟨o, ho, h1, h2⟩

/-! ## what one own attribute does to the marked entries -/

theorem markFirst_split {nm : String} : ∀ {l l' : List OA}, markFirst nm l = some l' →
    ∃ pre y post, l = pre ++ y :: post ∧ l' = pre ++ { y with deriver := true } :: post ∧ y.name = nm ∧ ∀ p ∈ pre, p.name ≠ nm
  | [], _, h => by simp [markFirst] at h
  | x :: xs, l', h => by
    simp only [markFirst] at h
    by_cases hx : (x.name == nm) = true
    · simp only [hx, if_true, Option.some.injEq] at h
      exact ⟨[], x, xs, rfl, h.symm, by simpa using hx, by simp⟩
    · simp only [hx, Bool.false_eq_true, if_false] at h
      cases hm : markFirst nm xs with
      | none => simp [hm] at h
      | some r =>
        simp only [hm, Option.map_some, Option.some.injEq] at h
        obtain ⟨pre, y, post, e1, e2, hy, hp⟩ := markFirst_split hm
        refine ⟨x :: pre, y, post, by rw [e1]; rfl, by rw [← h, e2]; rfl, hy, ?_⟩
        intro p hp'
        rcases List.mem_cons.1 hp' with rfl | hp'
        · simpa using hx
        · exact hp p hp'

/-- a marked entry after the step was marked before, or it is the first entry of its name -/
theorem popStep_dkeys_new (acc : List OA) (p : String × Attr) (k : String × String) (h : k ∈ dkeys (popStep acc p)) :
    k ∈ dkeys acc ∨ firstNamed k.1 (popStep acc p) = some (k.2, true) := by
  rw [popStep_def] at h ⊢
  cases hm : markFirst p.2.name acc with
  | none =>
    simp only [hm] at h ⊢
    obtain ⟨o, ho, hk, hd⟩ := mem_dkeys.1 h
    rcases List.mem_append.1 ho with ho | ho
    · exact Or.inl (mem_dkeys.2 ⟨o, ho, hk, hd⟩)
    · simp only [List.mem_singleton] at ho
      subst ho
      right
      have hnot := markFirst_none.1 hm
      rw [firstNamed_append, ← hk]
      have : firstNamed (keyOA (newOA p)).1 acc = none := (firstNamed_none_iff _ _).2 (by simpa [keyOA, newOA] using hnot)
      rw [this]
      simp [firstNamed, keyOA, newOA] at hd ⊢
      exact hd
  | some acc' =>
    simp only [hm] at h ⊢
    by_cases hk' : marksDerived p.2 = true
    · simp only [hk', if_true] at h ⊢
      obtain ⟨pre, y, post, e1, e2, hy, hp⟩ := markFirst_split hm
      obtain ⟨o, ho, hk, hd⟩ := mem_dkeys.1 h
      rw [e2] at ho
      rcases List.mem_append.1 ho with ho | ho
      · exact Or.inl (mem_dkeys.2 ⟨o, by rw [e1]; exact List.mem_append_left _ ho, hk, hd⟩)
      · rcases List.mem_cons.1 ho with rfl | ho
        · right
          rw [e2, ← hk]
          have := firstNamed_split p.2.name pre post ({ y with deriver := true }) hy hp
          simpa [keyOA, hy] using this
        · exact Or.inl (mem_dkeys.2 ⟨o, by rw [e1]; simp [ho], hk, hd⟩)
    · simp only [hk'] at h ⊢
      exact Or.inl h

/-- marked entries stay marked -/
theorem popStep_dkeys_mono (acc : List OA) (p : String × Attr) (k : String × String) (h : k ∈ dkeys acc) :
    k ∈ dkeys (popStep acc p) := by
  rw [popStep_def]
  cases hm : markFirst p.2.name acc with
  | none =>
    simp only
    obtain ⟨o, ho, hk, hd⟩ := mem_dkeys.1 h
    exact mem_dkeys.2 ⟨o, List.mem_append_left _ ho, hk, hd⟩
  | some acc' =>
    simp only
    split
    · obtain ⟨pre, y, post, e1, e2, hy, hp⟩ := markFirst_split hm
      obtain ⟨o, ho, hk, hd⟩ := mem_dkeys.1 h
      rw [e1] at ho
      rw [e2]
      rcases List.mem_append.1 ho with ho | ho
      · exact mem_dkeys.2 ⟨o, List.mem_append_left _ ho, hk, hd⟩
      · rcases List.mem_cons.1 ho with rfl | ho
        · exact mem_dkeys.2 ⟨{ o with deriver := true }, by simp, hk, rfl⟩
        · exact mem_dkeys.2 ⟨o, by simp [ho], hk, hd⟩
    · exact h

theorem infoStep_true (n x : String) (c : String) (a : Attr) : infoStep n x (some (c, true)) a = some (c, true) := by
  unfold infoStep
  by_cases h : (a.name == x) = true
  · simp [h]
  · simp [h]

theorem fold_firstNamed (n x : String) (attrs : List Attr) : ∀ (acc : List OA),
    firstNamed x ((attrs.map (fun a => (n, a))).foldl popStep acc) = attrs.foldl (infoStep n x) (firstNamed x acc) := by
  induction attrs with
  | nil => intro acc; rfl
  | cons a as iha =>
    intro acc
    simp only [List.map_cons, List.foldl_cons]
    rw [iha, firstNamed_popStep]

theorem fold_infoStep_true (n x c : String) (attrs : List Attr) : attrs.foldl (infoStep n x) (some (c, true)) = some (c, true) := by
  induction attrs with
  | nil => rfl
  | cons a as ih => simp only [List.foldl_cons, infoStep_true, ih]

/-- the marked entries after the own attributes of `n`: those marked before, and the first entry of a name when it ends up marked -/
theorem fold_dkeys (n : String) (attrs : List Attr) : ∀ (acc : List OA) (k : String × String),
    k ∈ dkeys ((attrs.map (fun a => (n, a))).foldl popStep acc) ↔
      k ∈ dkeys acc ∨ firstNamed k.1 ((attrs.map (fun a => (n, a))).foldl popStep acc) = some (k.2, true) := by
  induction attrs with
  | nil =>
    intro acc k
    simp only [List.map_nil, List.foldl_nil]
    constructor
    · exact Or.inl
    · rintro (h | h)
      · exact h
      · obtain ⟨pre, o, post, e, h1, h2, h3, _⟩ := firstNamed_some k.1 acc k.2 true h
        exact mem_dkeys.2 ⟨o, by rw [e]; simp, by simp [keyOA, h1, h2], h3⟩
  | cons a as ih =>
    intro acc k
    simp only [List.map_cons, List.foldl_cons]
    rw [ih]
    constructor
    · rintro (h | h)
      · rcases popStep_dkeys_new acc (n, a) k h with h' | h'
        · exact Or.inl h'
        · right
          rw [fold_firstNamed, h', fold_infoStep_true]
      · exact Or.inr h
    · rintro (h | h)
      · exact Or.inl (popStep_dkeys_mono acc (n, a) k h)
      · exact Or.inr h

/-! ## the closed form -/

/-- is `(x, cr)` marked in the list of `n`?  A supertype's list says so, or the first entry named `x` in `n`'s list has creator `cr`
    and ends up marked (`callInfo`: the first supertype that knows `x` and the own attributes of `n` named `x`) -/
def derivedIn (s : Schema) : Nat → String → String → String → Bool
  | 0, _, _, _ => false
  | f + 1, n, x, cr =>
    match s.findE n with
    | none => false
    | some e => e.supers.any (fun q => derivedIn s f q x cr) || callInfo s (f + 1) n x == some (cr, true)

theorem dkeys_flatMap {L : List String} {g : String → List OA} {k : String × String} :
    k ∈ dkeys (L.flatMap g) ↔ ∃ q ∈ L, k ∈ dkeys (g q) := by
  simp only [mem_dkeys, List.mem_flatMap]
  constructor
  · rintro ⟨o, ⟨q, hq, ho⟩, h1, h2⟩; exact ⟨q, hq, o, ho, h1, h2⟩
  · rintro ⟨q, hq, o, ho, h1, h2⟩; exact ⟨o, ⟨q, hq, ho⟩, h1, h2⟩

theorem dkeys_seg (s : Schema) : ∀ (f : Nat) (n : String) (k : String × String),
    k ∈ dkeys (seg s f n) ↔ derivedIn s f n k.1 k.2 = true := by
  intro f
  induction f with
  | zero => intro n k; simp [seg, dkeys, derivedIn]
  | succ f ih =>
    intro n k
    have hc := firstNamed_seg s k.1 (f + 1) n
    unfold derivedIn
    unfold seg at hc ⊢
    cases hE : s.findE n with
    | none => simp [dkeys]
    | some e =>
      simp only [hE] at hc ⊢
      rw [fold_dkeys, hc, dkeys_flatMap, Bool.or_eq_true, List.any_eq_true, beq_iff_eq]
      constructor
      · rintro (⟨q, hq, h⟩ | h)
        · exact Or.inl ⟨q, hq, (ih q k).1 h⟩
        · exact Or.inr h
      · rintro (⟨q, hq, h⟩ | h)
        · exact Or.inl ⟨q, hq, (ih q k).2 h⟩
        · exact Or.inr h

/-- **closed form of the call list, any supertype graph, no hypothesis on names**: `MakeDerived( x, cr )` is emitted for `n` iff
    `derivedIn` says so.  `hm`: `dedupList` carries the mark over (regenerated constant). -/
theorem derivedCallsN_closed (hm : dedupMergesDeriver = true) (s : Schema) (n x cr : String) :
    (x, cr) ∈ derivedCallsN s n ↔ derivedIn s (fuelOf s) n x cr = true := by
  have h0 : derivedCallsN s n = dkeys (dedupOAM dedupMergesDeriver [] (populateN s (fuelOf s) n [])) := rfl
  rw [h0, hm, dkeys_dedup_merge, populate_ctx, List.nil_append]
  have h1 : (x, cr) ∈ dkeys ([] : List OA) ↔ False := by simp [dkeys]
  rw [h1, false_or, ← mem_dkeys, dkeys_seg]

end StepModel.GenCxx

import StepModel.Lazy
/-!
# The byte scanner on rendered parameter lists

A parameter list is rendered from tokens; `seekEnd` (the model of `sectionReader::seekInstanceEnd`) must find the
terminating `)` ws `;` and collect exactly the `#n` tokens — whatever strings and comments contain.
-/
namespace StepModel.Lazy
open StepModel.Generated

/-- an item of a string literal's body: an ordinary byte (anything but an apostrophe — backslashes and whole control
    directives `\\X\\hh`, `\\P.\\`, `\\X2\\..\\X0\\`, `\\\\` are sequences of these), an apostrophe (written doubled), or the
    directive `\\S\\` followed by an apostrophe (the one place where a single apostrophe stands inside a string) -/
inductive SChar
  | plain (c : Char)
  | quote
  | sect
  deriving Repr, DecidableEq

def SChar.render : SChar → Bytes
  | .plain c => [c]
  | .quote => ['\'', '\'']
  | .sect => ['\\', 'S', '\\', '\'']

/-- well-formedness of a body, read with `acc` = the bytes of the literal so far (newest first): plain bytes are not
    apostrophes, and neither an apostrophe pair nor the closing apostrophe directly follows the three bytes `\\S\\`
    (there `GetLiteralStr`'s rule — and the grammar — read the apostrophe as the directive's character) -/
def strOkAux : Bytes → List SChar → Bool
  | acc, [] => !endsSBS acc
  | acc, .plain c :: t => c != '\'' && strOkAux (c :: acc) t
  | acc, .quote :: t => !endsSBS acc && strOkAux ('\'' :: '\'' :: acc) t
  | acc, .sect :: t => strOkAux ('\'' :: '\\' :: 'S' :: '\\' :: acc) t

def strOk (b : List SChar) : Bool := strOkAux ['\''] b

def renderStr (b : List SChar) : Bytes := b.flatMap SChar.render

inductive Tok
  | ref (ds : Bytes)          -- `#` digits
  | str (body : List SChar)   -- 'body'
  | cmt (body : Bytes)        -- /*body*/ followed by a blank
  | popen                     -- (
  | pclose                    -- )
  | other (c : Char)          -- anything else: letters, digits, `,` `$` `*` `.` blanks ...
  deriving Repr, DecidableEq

def cmtCharOk (c : Char) : Bool := c != '*' && c != '/' && c != '\''

/-- no `*/` in the bytes that follow a byte `p` -/
def noCloseFrom : Char → Bytes → Bool
  | _, [] => true
  | p, c :: r => !(p == '*' && c == '/') && noCloseFrom c r

/-- the comment bodies the scanner skips correctly (regenerated shape): with the raw skipper every body without `*/` — apostrophes,
    `/*`, `*`, `/`, `#`, `(`, `)`, `;`, `=` included; with the old general search only bodies without `*`, `/`, `'` -/
def cmtOk (b : Bytes) : Bool := if commentsRaw then noCloseFrom '\x00' b else b.all cmtCharOk

def Tok.render : Tok → Bytes
  | .ref ds => '#' :: ds
  | .str b => '\'' :: renderStr b ++ ['\'']
  | .cmt b => '/' :: '*' :: b ++ ['*', '/', ' ']
  | .popen => ['(']
  | .pclose => [')']
  | .other c => [c]

def renderToks (ts : List Tok) : Bytes := ts.flatMap Tok.render

/-- token-local well-formedness -/
def Tok.ok : Tok → Bool
  | .ref ds => !ds.isEmpty && ds.all isDigit && digitsVal ds ≤ instanceIdMax
  | .str b => strOk b
  | .cmt b => cmtOk b
  | .popen => true
  | .pclose => true
  | .other c => c != '(' && c != ')' && c != '/' && c != '\'' && c != '=' && c != '#'

/-- a digit may not directly follow a reference, an apostrophe may not directly follow a string -/
def seqOk : List Tok → Bool
  | [] => true
  | [_] => true
  | .ref _ :: .other c :: t => !isDigit c && seqOk (.other c :: t)
  | .str _ :: .str b :: t => false && seqOk (.str b :: t)
  | _ :: b :: t => seqOk (b :: t)

/-- every `)` inside leaves the depth above zero -/
def innerOk : Int → List Tok → Bool
  | _, [] => true
  | d, .popen :: t => innerOk (d + 1) t
  | d, .pclose :: t => (d - 1 != 0) && innerOk (d - 1) t
  | d, _ :: t => innerOk d t

def depthAfter : Int → List Tok → Int
  | d, [] => d
  | d, .popen :: t => depthAfter (d + 1) t
  | d, .pclose :: t => depthAfter (d - 1) t
  | d, _ :: t => depthAfter d t

/-- the references a token list mentions, in order -/
def refsOfToks : List Tok → List Nat
  | [] => []
  | .ref ds :: t => digitsVal ds :: refsOfToks t
  | _ :: t => refsOfToks t

/-! ### strings -/

theorem strLoop_body (rest : Bytes) (hr : rest.head? ≠ some '\'') :
    ∀ (b : List SChar) (acc : Bytes), strOkAux acc b = true →
      strLoop acc true (renderStr b ++ '\'' :: rest) = rest := by
  intro b
  induction b with
  | nil =>
    intro acc hb
    have hs : endsSBS acc = false := by simpa [strOkAux] using hb
    simp only [renderStr, List.flatMap_nil, List.nil_append, strLoop, hs]
    cases rest with
    | nil => simp [strLoop]
    | cons c r =>
      have : (c == '\'') = false := by
        simp at hr; simp; exact hr
      simp [strLoop, this]
  | cons s t ih =>
    intro acc hb
    cases s with
    | plain c =>
      simp only [strOkAux, Bool.and_eq_true, bne_iff_ne, ne_eq] at hb
      have h1 : (c == '\'') = false := by simp; exact hb.1
      simp only [renderStr, List.flatMap_cons, SChar.render, List.cons_append, List.nil_append, strLoop, h1]
      simp only [Bool.false_eq_true, ↓reduceIte, Bool.not_true]
      exact ih (c :: acc) hb.2
    | quote =>
      simp only [strOkAux, Bool.and_eq_true, Bool.not_eq_true'] at hb
      have hs := hb.1
      simp only [renderStr, List.flatMap_cons, SChar.render, List.cons_append, List.nil_append, strLoop, hs]
      simp only [beq_self_eq_true, ↓reduceIte, Bool.false_eq_true, Bool.not_true]
      have hs2 : endsSBS ('\'' :: acc) = false := by
        unfold endsSBS; split
        · rename_i heq; injection heq with h1 _; exact absurd h1 (by decide)
        · rfl
      simp only [hs2, Bool.false_eq_true, ↓reduceIte, Bool.not_false]
      exact ih ('\'' :: '\'' :: acc) hb.2
    | sect =>
      simp only [strOkAux] at hb
      have e1 : ('\\' == '\'') = false := by decide
      have e2 : ('S' == '\'') = false := by decide
      have hs3 : endsSBS ('\\' :: 'S' :: '\\' :: acc) = true := rfl
      simp only [renderStr, List.flatMap_cons, SChar.render, List.cons_append, List.nil_append, strLoop, e1, e2, hs3,
        beq_self_eq_true, Bool.false_eq_true, ↓reduceIte, Bool.not_true]
      exact ih ('\'' :: '\\' :: 'S' :: '\\' :: acc) hb

theorem strRest_render (b : List SChar) (hb : strOk b = true) (rest : Bytes)
    (hr : rest.head? ≠ some '\'') :
    strRest ('\'' :: (renderStr b ++ '\'' :: rest)) = rest := by
  unfold strRest
  exact strLoop_body rest hr b ['\''] hb

/-! ### comments -/

theorem skipWS_nonspace (c : Char) (r : Bytes) (h : isSpace c = false) : skipWS (c :: r) = c :: r := by
  simp [skipWS, h]

theorem findStar_space (f : Nat) (nt : Bytes) (c : Char) (s : Bytes) (hc : isSpace c = true) :
    findStar (f + 1) 0 nt (c :: s) = findStar (f + 1) 0 nt s := by
  simp [findStar, skipWS, hc]

theorem findStar_body (b : Bytes) (hb : b.all cmtCharOk = true) (rest : Bytes) (hr : rest.head? ≠ some '*') :
    ∀ (f : Nat) (nt : Bytes), b.length + 3 ≤ f →
      findStar f 0 nt (b ++ '*' :: '/' :: rest) = .ok rest := by
  induction b with
  | nil =>
    intro f nt hf
    obtain ⟨f1, rfl⟩ : ∃ k, f = k + 3 := ⟨f - 3, by simp at hf; omega⟩
    have h1 : skipWS ('*' :: '/' :: rest) = '*' :: '/' :: rest := skipWS_nonspace _ _ (by decide)
    have h2 : skipWS ('/' :: rest) = '/' :: rest := skipWS_nonspace _ _ (by decide)
    have h3 : (rest.head? == some '*') = false := by
      cases h : rest.head? with
      | none => rfl
      | some x => rw [h] at hr; simp at hr ⊢; exact fun h' => hr (h' ▸ rfl)
    simp only [List.nil_append]
    simp (config := { decide := true }) [findStar, h1, h2, h3]
  | cons c t ih =>
    intro f nt hf
    simp only [List.all_cons, Bool.and_eq_true] at hb
    obtain ⟨f1, rfl⟩ : ∃ k, f = k + 1 := ⟨f - 1, by simp at hf; omega⟩
    have hf1 : t.length + 3 ≤ f1 := by simp at hf; omega
    by_cases hs : isSpace c = true
    · rw [List.cons_append, findStar_space _ _ _ _ hs]
      exact ih hb.2 (f1 + 1) nt (by omega)
    · have hs' : isSpace c = false := by simpa using hs
      have hc := hb.1
      simp only [cmtCharOk, Bool.and_eq_true, bne_iff_ne, ne_eq] at hc
      have h1 : skipWS (c :: (t ++ '*' :: '/' :: rest)) = c :: (t ++ '*' :: '/' :: rest) := skipWS_nonspace _ _ hs'
      rw [List.cons_append, findStar]
      simp only [h1]
      have q1 : (c == '\'') = false := by simp; exact hc.2
      have q2 : (c == '/') = false := by simp; exact hc.1.2
      have q3 : ('*' == c) = false := by simp; exact fun h => hc.1.1 h.symm
      simp (config := { decide := true }) only [q1, q2, q3, Bool.false_and, Bool.false_eq_true, ↓reduceIte, ge_iff_le]
      exact ih hb.2 f1 nt hf1

/-! ### digits -/

theorem takeDigits_append (ds : Bytes) (hd : ds.all isDigit = true) (r : Bytes)
    (hr : ∀ c, r.head? = some c → isDigit c = false) : takeDigits (ds ++ r) = (ds, r) := by
  induction ds with
  | nil =>
    cases r with
    | nil => rfl
    | cons c t => simp [takeDigits, hr c rfl]
  | cons d t ih =>
    simp only [List.all_cons, Bool.and_eq_true] at hd
    simp [takeDigits, hd.1, ih hd.2]

theorem skipWS_body_head (b : Bytes) (hb : b.all cmtCharOk = true) (rest : Bytes) :
    ∃ c r, skipWS (b ++ '*' :: '/' :: rest) = c :: r ∧ c ≠ '/' ∧ c ≠ '\'' := by
  induction b with
  | nil => exact ⟨'*', '/' :: rest, skipWS_nonspace _ _ (by decide), by decide, by decide⟩
  | cons c t ih =>
    simp only [List.all_cons, Bool.and_eq_true] at hb
    by_cases hs : isSpace c = true
    · obtain ⟨c', r, h, h1, h2⟩ := ih hb.2
      exact ⟨c', r, by simp [skipWS, hs, h], h1, h2⟩
    · have hs' : isSpace c = false := by simpa using hs
      have hc := hb.1
      simp only [cmtCharOk, Bool.and_eq_true, bne_iff_ne, ne_eq] at hc
      exact ⟨c, _, skipWS_nonspace _ _ hs', hc.1.2, hc.2⟩

theorem rawLoop_body (rest : Bytes) : ∀ (b : Bytes) (p : Char), noCloseFrom p b = true →
    rawLoop p (b ++ '*' :: '/' :: rest) = .ok rest := by
  intro b
  induction b with
  | nil =>
    intro p _
    have e : ('*' == '/') = false := by decide
    simp [rawLoop, e]
  | cons c t ih =>
    intro p h
    simp only [noCloseFrom, Bool.and_eq_true, Bool.not_eq_true'] at h
    simp only [List.cons_append, rawLoop, h.1, Bool.false_eq_true, ↓reduceIte]
    exact ih c h.2

/-- a rendered comment is skipped entirely, whatever `#`, `(`, `)`, `;`, `=` (and, with the raw skipper, `'`, `/*`, `*`, `/`) it
    contains — for either shape of the code -/
theorem skipComment_render (b : Bytes) (hb : cmtOk b = true) (rest : Bytes) (hr : rest.head? ≠ some '*')
    (f : Nat) (hf : b.length + 5 ≤ f) :
    skipComment f ('*' :: (b ++ '*' :: '/' :: rest)) = .ok rest := by
  unfold skipComment
  unfold cmtOk at hb
  split
  · rename_i hraw
    simp only [hraw, ↓reduceIte] at hb
    exact rawLoop_body rest b _ hb
  · rename_i hraw
    have hraw' : commentsRaw = false := by simpa using hraw
    simp only [hraw', Bool.false_eq_true, ↓reduceIte] at hb
    obtain ⟨f2, rfl⟩ : ∃ k, f = k + 2 := ⟨f - 2, by omega⟩
    have h1 : skipWS ('*' :: (b ++ '*' :: '/' :: rest)) = '*' :: (b ++ '*' :: '/' :: rest) :=
      skipWS_nonspace _ _ (by decide)
    have e1 : ('*' == '/') = false := by decide
    have e2 : ('*' == '\'') = false := by decide
    rw [findStar]
    simp (config := { decide := true }) only [h1, e1, e2, ge_iff_le, ↓reduceIte, Bool.false_and, Bool.false_eq_true,
      beq_self_eq_true]
    obtain ⟨c, r, h2, n1, n2⟩ := skipWS_body_head b hb rest
    rw [findStar]
    simp only [h2]
    have q1 : (c == '\'') = false := by simp; exact n2
    have q2 : (c == '/') = false := by simp; exact n1
    have q3 : ('/' == c) = false := by simp; exact fun h => n1 h.symm
    simp (config := { decide := true }) only [q1, q2, q3, ge_iff_le, ↓reduceIte, Bool.false_and, Bool.false_eq_true]
    exact findStar_body b hb rest hr f2 _ (by omega)

theorem isDigit_not_space (c : Char) (h : isDigit c = true) : isSpace c = false := by
  unfold isDigit Char.isDigit at h
  unfold isSpace
  simp only [Bool.and_eq_true, decide_eq_true_eq] at h
  have h1 : 48 ≤ c.val := h.1
  have : c ≠ ' ' ∧ c ≠ '\t' ∧ c ≠ '\n' ∧ c ≠ '\x0b' ∧ c ≠ '\x0c' ∧ c ≠ '\r' := by
    refine ⟨?_, ?_, ?_, ?_, ?_, ?_⟩ <;> (intro hc; subst hc; revert h1; decide)
  simp [this.1, this.2.1, this.2.2.1, this.2.2.2.1, this.2.2.2.2.1, this.2.2.2.2.2]

/-- the first byte after a token list (or of what follows it) -/
def headOk (p : Char → Bool) (ts : List Tok) (rest : Bytes) : Prop :=
  ∀ c, (renderToks ts ++ rest).head? = some c → p c = true

theorem head_after_ref (c : Char) (t : List Tok) (rest : Bytes) (hs : seqOk (.ref ds :: t) = true)
    (hall : ∀ x ∈ t, x.ok = true)
    (hrest : ∀ c, rest.head? = some c → isDigit c = false)
    (h : (renderToks t ++ rest).head? = some c) : isDigit c = false := by
  cases t with
  | nil => exact hrest c (by simpa [renderToks] using h)
  | cons x xs =>
    cases x with
    | other c' =>
      simp [renderToks, Tok.render] at h; subst h
      cases xs <;> simp_all [seqOk]
    | ref ds' => simp [renderToks, Tok.render] at h; subst h; decide
    | str b => simp [renderToks, Tok.render] at h; subst h; decide
    | cmt b => simp [renderToks, Tok.render] at h; subst h; decide
    | popen => simp [renderToks, Tok.render] at h; subst h; decide
    | pclose => simp [renderToks, Tok.render] at h; subst h; decide

theorem head_after_str (t : List Tok) (rest : Bytes) (hs : seqOk (.str b :: t) = true)
    (hall : ∀ x ∈ t, x.ok = true) (hrest : rest.head? ≠ some '\'') :
    (renderToks t ++ rest).head? ≠ some '\'' := by
  cases t with
  | nil => simpa [renderToks] using hrest
  | cons x xs =>
    cases x with
    | other c' =>
      have := hall (.other c') (by simp)
      simp only [Tok.ok, Bool.and_eq_true, bne_iff_ne, ne_eq] at this
      simp [renderToks, Tok.render]; exact this.1.1.2
    | ref ds' => simp [renderToks, Tok.render]
    | str b' => simp [seqOk] at hs
    | cmt b' => simp [renderToks, Tok.render]
    | popen => simp [renderToks, Tok.render]
    | pclose => simp [renderToks, Tok.render]

theorem seqOk_tail (x : Tok) (t : List Tok) (h : seqOk (x :: t) = true) : seqOk t = true := by
  cases t with
  | nil => rfl
  | cons y ys =>
    cases x <;> cases y <;> simp_all [seqOk]

/-- **`seekInstanceEnd` on a rendered token list**: it walks over the whole list — strings and comments are skipped
    as units whatever they contain — collects exactly the `#n` tokens in order and tracks the parenthesis depth. -/
theorem seekEnd_toks (k : Nat) (hk1 : 1 ≤ k) : ∀ (ts : List Tok), (∀ t ∈ ts, t.ok = true) → seqOk ts = true →
    ∀ (d : Int) (refs : List Nat) (rest : Bytes) (f : Nat), innerOk d ts = true →
      (∀ c, rest.head? = some c → isDigit c = false) → rest.head? ≠ some '\'' →
      (renderToks ts).length + k ≤ f →
      ∃ f', k ≤ f' ∧ seekEnd f d refs (renderToks ts ++ rest) =
        seekEnd f' (depthAfter d ts) ((refsOfToks ts).reverse ++ refs) rest := by
  intro ts
  induction ts with
  | nil => intro _ _ d refs rest f _ _ _ hf; exact ⟨f, by simpa [renderToks] using hf, by simp [renderToks, depthAfter, refsOfToks]⟩
  | cons x t ih =>
    intro hall hseq d refs rest f hin hr1 hr2 hf
    have hall' : ∀ y ∈ t, y.ok = true := fun y hy => hall y (List.mem_cons_of_mem _ hy)
    have hseq' := seqOk_tail x t hseq
    have hx := hall x (by simp)
    have hlen : (renderToks (x :: t)).length = x.render.length + (renderToks t).length := by
      simp [renderToks]
    cases x with
    | other c =>
      simp only [Tok.ok, Bool.and_eq_true, bne_iff_ne, ne_eq] at hx
      obtain ⟨f0, rfl⟩ : ∃ j, f = j + 1 := ⟨f - 1, by simp [hlen, Tok.render] at hf; omega⟩
      have q : (c == '(') = false ∧ (c == '/') = false ∧ (c == '\'') = false ∧ (c == '=') = false ∧
          (c == '#') = false ∧ (c == ')') = false := by
        simp only [beq_eq_false_iff_ne, ne_eq]
        exact ⟨hx.1.1.1.1.1, hx.1.1.1.2, hx.1.1.2, hx.1.2, hx.2, hx.1.1.1.1.2⟩
      obtain ⟨f', hk, he⟩ := ih hall' hseq' d refs rest f0 (by simpa [innerOk] using hin) hr1 hr2
        (by simp [hlen, Tok.render] at hf; omega)
      refine ⟨f', hk, ?_⟩
      simp only [renderToks, List.flatMap_cons, Tok.render, List.cons_append, List.nil_append, seekEnd,
        q.1, q.2.1, q.2.2.1, q.2.2.2.1, q.2.2.2.2.1, q.2.2.2.2.2, Bool.false_eq_true, ↓reduceIte]
      simpa [renderToks, depthAfter, refsOfToks] using he
    | popen =>
      obtain ⟨f0, rfl⟩ : ∃ j, f = j + 1 := ⟨f - 1, by simp [hlen, Tok.render] at hf; omega⟩
      obtain ⟨f', hk, he⟩ := ih hall' hseq' (d + 1) refs rest f0 (by simpa [innerOk] using hin) hr1 hr2
        (by simp [hlen, Tok.render] at hf; omega)
      refine ⟨f', hk, ?_⟩
      simp only [renderToks, List.flatMap_cons, Tok.render, List.cons_append, List.nil_append, seekEnd,
        beq_self_eq_true, ↓reduceIte]
      simpa [renderToks, depthAfter, refsOfToks] using he
    | pclose =>
      obtain ⟨f0, rfl⟩ : ∃ j, f = j + 1 := ⟨f - 1, by simp [hlen, Tok.render] at hf; omega⟩
      simp only [innerOk, Bool.and_eq_true, bne_iff_ne, ne_eq] at hin
      obtain ⟨f', hk, he⟩ := ih hall' hseq' (d - 1) refs rest f0 hin.2 hr1 hr2
        (by simp [hlen, Tok.render] at hf; omega)
      refine ⟨f', hk, ?_⟩
      have hd : (d - 1 == 0) = false := by simp; exact hin.1
      simp (config := { decide := true }) only [renderToks, List.flatMap_cons, Tok.render, List.cons_append,
        List.nil_append, seekEnd, hd, Bool.false_eq_true, ↓reduceIte]
      simpa [renderToks, depthAfter, refsOfToks] using he
    | ref ds =>
      simp only [Tok.ok, Bool.and_eq_true, Bool.not_eq_true', decide_eq_true_eq] at hx
      obtain ⟨f0, rfl⟩ : ∃ j, f = j + 1 := ⟨f - 1, by simp [hlen, Tok.render] at hf; omega⟩
      obtain ⟨f', hk, he⟩ := ih hall' hseq' d (digitsVal ds :: refs) rest f0 (by simpa [innerOk] using hin) hr1 hr2
        (by simp [hlen, Tok.render] at hf; omega)
      refine ⟨f', hk, ?_⟩
      have htd : takeDigits (ds ++ (renderToks t ++ rest)) = (ds, renderToks t ++ rest) :=
        takeDigits_append ds hx.1.2 _ (fun c hc => head_after_ref c t rest hseq hall' hr1 hc)
      obtain ⟨d0, dt, hds⟩ : ∃ d0 dt, ds = d0 :: dt := by
        cases ds with
        | nil => simp at hx
        | cons a b => exact ⟨a, b, rfl⟩
      have hd0 : isDigit d0 = true := by
        have := hx.1.2; rw [hds] at this; simp at this; exact this.1
      have hsk : skipWS (ds ++ (renderToks t ++ rest)) = ds ++ (renderToks t ++ rest) := by
        rw [hds]; exact skipWS_nonspace _ _ (isDigit_not_space d0 hd0)
      have hgt : ¬ digitsVal ds > instanceIdMax := by omega
      simp (config := { decide := true }) only [renderToks, List.flatMap_cons, Tok.render, List.cons_append,
        List.append_assoc, seekEnd, Bool.false_eq_true, ↓reduceIte]
      rw [show List.flatMap Tok.render t = renderToks t from rfl, hsk]
      rw [hds] at htd ⊢
      simp only [List.cons_append, hd0, ↓reduceIte]
      rw [← List.cons_append, htd]
      simp only [← hds, hgt, ↓reduceIte]
      simpa [renderToks, depthAfter, refsOfToks, hds] using he
    | str b =>
      simp only [Tok.ok] at hx
      obtain ⟨f0, rfl⟩ : ∃ j, f = j + 1 := ⟨f - 1, by simp [hlen, Tok.render] at hf; omega⟩
      obtain ⟨f', hk, he⟩ := ih hall' hseq' d refs rest f0 (by simpa [innerOk] using hin) hr1 hr2
        (by simp [hlen, Tok.render] at hf; omega)
      refine ⟨f', hk, ?_⟩
      have hsr := strRest_render b hx (renderToks t ++ rest) (head_after_str t rest hseq hall' hr2)
      simp (config := { decide := true }) only [renderToks, List.flatMap_cons, Tok.render, List.cons_append,
        List.append_assoc, List.nil_append, seekEnd, Bool.false_eq_true, ↓reduceIte]
      rw [show List.flatMap Tok.render t = renderToks t from rfl, hsr]
      simpa [renderToks, depthAfter, refsOfToks] using he
    | cmt b =>
      simp only [Tok.ok] at hx
      obtain ⟨f0, rfl⟩ : ∃ j, f = j + 1 := ⟨f - 1, by simp [hlen, Tok.render] at hf; omega⟩
      have hlen2 : (Tok.cmt b).render.length = b.length + 5 := by simp [Tok.render]
      obtain ⟨f1, rfl⟩ : ∃ j, f0 = j + 1 := ⟨f0 - 1, by rw [hlen, hlen2] at hf; omega⟩
      obtain ⟨f', hk, he⟩ := ih hall' hseq' d refs rest f1 (by simpa [innerOk] using hin) hr1 hr2
        (by rw [hlen, hlen2] at hf; omega)
      refine ⟨f', hk, ?_⟩
      have hsc := skipComment_render b hx (' ' :: (renderToks t ++ rest)) (by simp) (f1 + 1)
        (by rw [hlen, hlen2] at hf; omega)
      simp (config := { decide := true }) only [renderToks, List.flatMap_cons, Tok.render, List.cons_append,
        List.append_assoc, List.nil_append, seekEnd, Bool.false_eq_true, ↓reduceIte, List.head?_cons]
      rw [show List.flatMap Tok.render t = renderToks t from rfl, hsc]
      simp (config := { decide := true }) only [seekEnd, Bool.false_eq_true, ↓reduceIte]
      simpa [renderToks, depthAfter, refsOfToks] using he

end StepModel.Lazy

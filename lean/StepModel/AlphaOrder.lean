/-!
# exppp's alphabetical section order (`SCOPEadd_inorder`, src/exppp/pretty_scope.c)

With `exppp_alphabetize` (the default) every section of a scope — types, entities, rules, functions, procedures — is
collected by walking the scope's dictionary (`DICTdo`, a hash order) and inserting each object into a list *before the first
element whose name is greater* (`0 > strcmp( name(s), name(x) )`), then printed in list order.
The model is generic in the element type and the comparison (`lt a b` = `strcmp(a, b) < 0`).
-/
namespace StepModel.AlphaOrder

/-- `SCOPEadd_inorder( list, s )` -/
def addInorder {α : Type} (lt : α → α → Bool) : List α → α → List α
  | [], s => [s]
  | x :: r, s => if lt s x then s :: x :: r else x :: addInorder lt r s

/-- the list a section is printed from, given the order in which `DICTdo` delivered its objects -/
def alphaOrder {α : Type} (lt : α → α → Bool) (walked : List α) : List α := walked.foldl (addInorder lt) []

/-- what `strcmp(a, b) < 0` is assumed to be: a strict total order -/
structure StrictTotal {α : Type} (lt : α → α → Bool) : Prop where
  irrefl : ∀ a, lt a a = false
  trans : ∀ a b c, lt a b = true → lt b c = true → lt a c = true
  total : ∀ a b, a ≠ b → lt a b = true ∨ lt b a = true

/-- strictly increasing -/
def Sorted {α : Type} (lt : α → α → Bool) (l : List α) : Prop := l.Pairwise (fun a b => lt a b = true)

/-- `strcmp( a, b ) < 0` on NUL-free byte strings: the first differing byte decides (compared as unsigned char), a proper prefix
    is smaller -/
def strcmpLt : List UInt8 → List UInt8 → Bool
  | [], [] => false
  | [], _ :: _ => true
  | _ :: _, [] => false
  | a :: r, b :: s => if a < b then true else if b < a then false else strcmpLt r s

/-- the same comparison on identifiers (`String`s) through their UTF-8 bytes, which is what `strcmp` sees -/
def nameStrcmpLt (a b : String) : Bool := strcmpLt a.toByteArray.data.toList b.toByteArray.data.toList

end StepModel.AlphaOrder

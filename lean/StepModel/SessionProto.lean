import StepModel.Session
import StepModel.AttrNull
import StepModel.HeaderIds
/-! Line protocol shared by the C14 and C16 drivers (same commands as harness/h_p21.cc where they overlap).

    attrs <full|own> <ENTITY> (<KIND>:<optional 0|1>[:<typeRef 0|1>])*      attribute table of an entity (full = inherited + own, Part 21
                                                          order; own = what a part of a complex instance carries)   -> R ok
    reset <strict 0|1>                                      fresh session                                          -> R reset
    read | append  <inst> | <inst> …                        ReadExchangeFile / AppendExchangeFile                   -> R incr=<k> n=<count> max=<maxFileId>
    readwork <L><inst> | …   (L = state letter word or `-`) ReadWorkingFile                                        -> R incr=… n=… max=…
    setstate <index> <state>                                                                                       -> R ok | R bad-index
    dump                                                    -> D n=<count> max=<maxFileId> | <id>/<TYPE>/<state> …
    insts                                                   -> X <inst> | <inst> …
    writework [<writeComments 0|1>]                         -> W <L> <inst> | …          (what WriteWorkingData emits; default 1)
    fileheader <hex>*                                       header entities of the file the next read / readwork stands for -> R ok
    header                                                  -> H <hex>*                  (header instances the STEPfile holds = what a save writes)
    appendwork                                              AppendWorkingFile, empty DATA section only (header instances)   -> R incr=… n=… max=…
    hids                                                    -> H <id>/<NAME> …           (file ids of the header instances held, list order; as `hdr` of the harness)
    hwrite                                                  -> H <hex>*                  (the header instances `WriteHeader` writes, by the id model)
    anything else -> R bad-op -/
namespace StepModel.SessionProto
open StepModel StepModel.P21 StepModel.Generated StepModel.Session StepModel.AttrNull

structure St where
  sess : Sess := cleared
  header : List String := []          -- header instances the STEPfile holds
  nextHeader : List String := []      -- header of the file the next read/readwork command stands for
  hst : HeaderIds.HState := {}        -- `_headerId` and the header instances with their file ids
  strict : Bool := false
  full : List (String × List AttrD) := []
  own : List (String × List AttrD) := []

def stName : NodeState → String
  | .noState => "noStateSE" | .complete => "completeSE" | .incomplete => "incompleteSE"
  | .delete => "deleteSE" | .new => "newSE"
def parseSt : String → Option NodeState
  | "noStateSE" => some .noState | "completeSE" => some .complete | "incompleteSE" => some .incomplete
  | "deleteSE" => some .delete | "newSE" => some .new | _ => none

def typeName (i : Inst) : String :=
  match i.parts with
  | [p] => p.name
  | ps => "(" ++ "&".intercalate (ps.map (·.name)) ++ ")"

def splitOnWord (sep : String) (ws : List String) : List (List String) :=
  let rec go : List String → List String → List (List String) → List (List String)
    | [], cur, acc => (cur.reverse :: acc).reverse
    | w :: r, cur, acc => if w = sep then go r [] (cur.reverse :: acc) else go r (w :: cur) acc
  go ws [] []

def parseAttr (w : String) : Option AttrD :=
  match w.splitOn ":" with
  | [k, o] => do
    let k ← Kind.ofName k
    let o ← if o = "1" then some true else if o = "0" then some false else none
    pure ⟨k, o, false, false, false⟩
  | [k, o, r] => do     -- r: `Type()` is REFERENCE_TYPE
    let k ← Kind.ofName k
    let o ← if o = "1" then some true else if o = "0" then some false else none
    let r ← if r = "1" then some true else if r = "0" then some false else none
    pure ⟨k, o, false, r, false⟩
  | _ => none

/-- the lenient-mode substitution of `STEPattribute::STEPread` applied to the top-level values of one part -/
def fillVals (strict : Bool) : List AttrD → List Val → List Val
  | a :: as, v :: vs =>
    (match v with
     | .null => (attrRead strict a (.missing true)).2
     | v => v) :: fillVals strict as vs
  | _, vs => vs

def fillInst (st : St) (i : Inst) : Option Inst :=
  match i.parts with
  | [p] => do
    let as ← (st.full.find? (·.1 == p.name)).map (·.2)
    pure { i with parts := [{ p with vals := fillVals (attrStrict (fileStrictFor false st.strict)) as p.vals }] }
  | ps => do
    let ps' ← ps.mapM (fun p => do
      let as ← (st.own.find? (·.1 == p.name)).map (·.2)
      pure { p with vals := fillVals (attrStrict (partStrict (fileStrictFor true st.strict))) as p.vals })
    pure { i with parts := ps' }

def knows (st : St) (i : Inst) : Bool := (fillInst st i).isSome
def fillFn (st : St) (i : Inst) : Inst := (fillInst st i).getD i

def toksOf (vs : List Val) : List Tok :=
  vs.map (fun v => match v with | .null => Tok.missing true | .derived => Tok.star | v => Tok.lit v .null)

/-- severity `SDAI_Application_instance::STEPread` / `STEPcomplex::STEPread` report for the top-level values (C15 model) -/
def asevFn (st : St) (i : Inst) : Sev :=
  match i.parts with
  | [p] =>
    match st.full.find? (·.1 == p.name) with
    | some (_, as) => (instRead (fileStrictFor false st.strict) as (toksOf p.vals)).1
    | none => .max
  | ps =>
    (complexRead (fileStrictFor true st.strict)
      (ps.map (fun p => (((st.own.find? (·.1 == p.name)).map (·.2)).getD [], toksOf p.vals)))).1

def parseInsts (ws : List String) : Option (List Inst) :=
  if ws.isEmpty then some [] else
  (splitOnWord "|" ws).mapM (fun g => match decodeInst g with | some (i, []) => some i | _ => none)

def parseEntries (ws : List String) : Option (List Entry) :=
  if ws.isEmpty then some [] else
  (splitOnWord "|" ws).mapM (fun g =>
    match g with
    | l :: rest =>
      match decodeInst rest with
      | some (i, []) =>
        if l = "-" then some ⟨none, i⟩ else match l.toList with | [c] => some ⟨some c, i⟩ | _ => none
      | _ => none
    | [] => none)

/-- header entity text `KEYWORD(…);` -> keyword (upper case) and text -/
def hentOf (t : String) : HeaderIds.HEnt := ⟨((t.splitOn "(").headD "").trimAscii.toString.toUpper, t⟩

def readReply (k : Int) (s : Sess) : String := s!"R incr={k} n={s.nodes.length} max={s.maxId}"

def handle (st : St) (line : String) : St × String :=
  let ws := (line.trimAscii.toString.splitOn " ").filter (· ≠ "")
  match ws with
  | [] => (st, "")
  | "attrs" :: which :: nm :: rest =>
    match rest.mapM parseAttr with
    | some as =>
      if which = "full" then ({ st with full := (nm, as) :: st.full }, "R ok")
      else if which = "own" then ({ st with own := (nm, as) :: st.own }, "R ok")
      else (st, "R bad-op")
    | none => (st, "R bad-op")
  | ["reset", s] =>
    if s = "0" ∨ s = "1" then ({ st with sess := cleared, strict := s = "1", header := [], nextHeader := [], hst := {} }, "R reset")
    else (st, "R bad-op")
  | "read" :: rest =>
    match parseInsts rest with
    | some f =>
      if f.all (knows st) then
        let s' := readExchange (fillFn st) (asevFn st) f
        ({ st with sess := s', header := st.nextHeader,
                   hst := HeaderIds.readFileH .readExchange st.hst (st.nextHeader.map hentOf) }, readReply (fileIdIncrOf cleared.maxId) s')
      else (st, "R bad-schema")
    | none => (st, "R bad-op")
  | "append" :: rest =>
    match parseInsts rest with
    | some f =>
      if f.all (knows st) then
        let s' := appendExchange (fillFn st) (asevFn st) st.sess f
        ({ st with sess := s', hst := HeaderIds.readFileH .appendExchange st.hst (st.nextHeader.map hentOf) },
          readReply (fileIdIncrOf st.sess.maxId) s')
      else (st, "R bad-schema")
    | none => (st, "R bad-op")
  | "readwork" :: rest =>
    match parseEntries rest with
    | some es =>
      if es.all (fun e => knows st e.inst) then
        let fs := readWorkingFile (fillFn st) (asevFn st) ⟨st.sess, st.header⟩ ⟨st.nextHeader, es⟩
        ({ st with sess := fs.sess, header := fs.header,
                   hst := HeaderIds.readFileH .readWorking st.hst (st.nextHeader.map hentOf) }, readReply (fileIdIncrOf cleared.maxId) fs.sess)
      else (st, "R bad-schema")
    | none => (st, "R bad-op")
  | ["appendwork"] =>    -- AppendWorkingFile of a file with an empty DATA section: only the header instances change
    ({ st with hst := HeaderIds.readFileH .appendWorking st.hst (st.nextHeader.map hentOf) },
      readReply (fileIdIncrOf st.sess.maxId) st.sess)
  | ["setstate", i, s] =>
    match i.toNat?, parseSt s with
    | some i, some ns =>
      if i < st.sess.nodes.length then
        ({ st with sess := { st.sess with nodes := st.sess.nodes.zipIdx.map (fun (n, j) => if j = i then { n with state := ns } else n) } }, "R ok")
      else (st, "R bad-index")
    | _, _ => (st, "R bad-op")
  | ["dump"] =>
    (st, s!"D n={st.sess.nodes.length} max={st.sess.maxId} |" ++
      String.join (st.sess.nodes.map (fun n => s!" {n.inst.id}/{typeName n.inst}/{stName n.state}")))
  | ["insts"] => (st, "X " ++ " | ".intercalate (st.sess.nodes.map (fun n => encodeInst n.inst)))
  | "writework" :: rest =>
    match (match rest with | [] => some true | ["1"] => some true | ["0"] => some false | _ => none) with
    | some wc =>
      (st, "W " ++ " | ".intercalate ((writeWorkingFile wc ⟨st.sess, st.header⟩).entries.map (fun e =>
        (match e.letter with | some c => c.toString | none => "-") ++ " " ++ encodeInst e.inst)))
    | none => (st, "R bad-op")
  | "fileheader" :: rest =>
    match rest.mapM unhex with
    | some hs => ({ st with nextHeader := hs }, "R ok")
    | none => (st, "R bad-op")
  | ["header"] => (st, "H " ++ " ".intercalate (st.header.map hexOf))
  | ["hids"] => (st, "H" ++ String.join (st.hst.mgr.nodes.map (fun x => s!" {x.1}/{x.2.name}")))
  | ["hwrite"] => (st, "H " ++ " ".intercalate ((HeaderIds.writeHeader st.hst.mgr).map (fun e => hexOf e.text)))
  | _ => (st, "R bad-op")

partial def loop (h : IO.FS.Stream) (out : IO.FS.Stream) (st : St) : IO Unit := do
  let line ← h.getLine
  if line.isEmpty then return ()
  let (st', o) := handle st line
  if o ≠ "" then
    out.putStrLn o
    out.flush        -- the checks talk to the driver interactively
  loop h out st'

def run : IO Unit := do
  let out ← IO.getStdout
  loop (← IO.getStdin) out {}
  out.flush

end StepModel.SessionProto

import StepModel.GenCxxMirror
/-! Reading a declaration back from its dictionary entry: an independent statement of "the descriptor mirrors the declared type"
(not the graph of `refOf`): what can be recovered, and exactly what cannot. -/
namespace StepModel.GenCxx
open StepModel.Generated

/-- the type expression a descriptor reference stands for, as far as the dictionary tells: an upper bound equal to the generator's
    "unbounded" constant reads as `?`; a descriptor without both bounds reads as "no bound specification" -/
def declOf : DRef → Option TRef
  | .null => none
  | .base b => some (.base b)
  | .named n => some (.named n)
  | .entity n => some (.entity n)
  | .aggr k b1 b2 u o el =>
    match declOf el with
    | none => none
    | some el' =>
      (match b1, b2 with
       | some lo, some hi => some (.aggr k (some (lo, if hi = literalInfinity then .inf else .lit hi)) u o el')
       | none, none => some (.aggr k none u o el')
       | _, _ => none)

/-- what the dictionary cannot tell apart: OPTIONAL is kept for ARRAY only, and a literal upper bound equal to the generator's
    "unbounded" constant is the same as `?` -/
def normDecl : TRef → TRef
  | .base b => .base b
  | .named n => .named n
  | .entity n => .entity n
  | .aggr k bnds u o el =>
    .aggr k (bnds.map (fun b => (b.1, match b.2 with
        | .inf => Upper.inf
        | .lit n => if n = literalInfinity then Upper.inf else Upper.lit n))) u (o && k == .array) (normDecl el)

/-- the declared type can be read back from the descriptor the generator registers for it, up to `normDecl` -/
theorem declOf_refOf (t : TRef) : declOf (refOf t) = some (normDecl t) := by
  induction t with
  | base b => rfl
  | named n => rfl
  | entity n => rfl
  | aggr k bnds u o el ih =>
    unfold refOf declOf normDecl
    rw [ih]
    cases bnds with
    | none => rfl
    | some b =>
      obtain ⟨lo, up⟩ := b
      cases up with
      | inf => simp [upperVal]
      | lit n =>
        by_cases h : n = literalInfinity
        · simp [upperVal, h]
        · simp [upperVal, h]

/-- consequently two declared types get the same descriptor only when they are the same up to `normDecl` -/
theorem refOf_faithful (t t' : TRef) (h : refOf t = refOf t') : normDecl t = normDecl t' := by
  have := declOf_refOf t
  rw [h, declOf_refOf t'] at this
  exact (Option.some.inj this).symm

/-- … and for ANY descriptor that mirrors a declared type in the sense of `Spec.MirrorRef` (not only the one `refOf` builds) -/
theorem mirrorRef_readback {t : TRef} {d : DRef} (h : Spec.MirrorRef t d) : declOf d = some (normDecl t) := by
  induction h with
  | base b => rfl
  | named n => rfl
  | entity n => rfl
  | aggrNoBounds k u o el el' _ ih => unfold declOf normDecl; rw [ih]; rfl
  | aggrLit k lo hi u o el el' _ ih =>
    unfold declOf normDecl; rw [ih]
    by_cases hh : hi = literalInfinity
    · simp [hh]
    · simp [hh]
  | aggrInf k lo u o el el' _ ih => unfold declOf normDecl; rw [ih]; simp

/-- element-wise consequence for two lists related by `Forall2` -/
theorem forall2_imp {α β : Type} {R Q : α → β → Prop} (hi : ∀ a b, R a b → Q a b) :
    ∀ {l : List α} {l' : List β}, Spec.Forall2 R l l' → Spec.Forall2 Q l l'
  | _, _, .nil => .nil
  | _, _, .cons h t => .cons (hi _ _ h) (forall2_imp hi t)

end StepModel.GenCxx

import StepModel.Sev
/-! Statements about the severity model (`StepModel/Sev.lean`). -/
namespace StepModel
namespace Sev

/-- the model's numbering is the header's numbering (re-checked whenever the header changes) -/
theorem table_eq_generated : table = Generated.severityEnum := by decide

theorem greater_null_right (e : Sev) : greater e .null = e := by cases e <;> rfl
theorem greater_null_left (s : Sev) : greater .null s = s := by cases s <;> rfl

end Sev
end StepModel

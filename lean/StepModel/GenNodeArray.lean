import StepModel.Generated.InstMgrGen
/-!
# Buffer-level model of `GenNodeArray` (src/clutils/gennodearray.cc) as `MgrNodeArray`/`InstMgr` use it

`InstMgr.lean` keeps the master array as a `List Node` plus a capacity; this file models the C++ one level lower —
the heap block `_buf` of `_bufsize` slots (a slot is `none` = null pointer or `some p`), `_count`, and the three
routines that touch it (`Check`, `Insert`, `Remove`, `ClearEntries`, `DeleteEntries`, `operator[]`) with `memset`/`memmove` spelled out — and proves that the list
view used by `InstMgr.lean` is what the buffer holds, that no store or `memmove` leaves the block, and that the
slots at and above `_count` are always null (which `GetMgrNode(index ≥ count)` relies on to return 0).

A store outside the block is an explicit `none` result; `C13_buf_*` in `Props/C13.lean` show it cannot happen.
-/
namespace StepModel.GenNodeArray
open StepModel.Generated

structure Arr where
  buf : List (Option Nat)     -- `_buf[0 .. _bufsize)`
  count : Nat                 -- `_count`
  deriving Repr

/-- `GenNodeArray( defaultSize )`: `new GenericNode*[_bufsize]`, `memset 0` -/
def mk (size : Nat) : Arr := ⟨List.replicate size none, 0⟩

def init : Arr := mk arrayDefaultSize

/-- `GenNodeArray::Check( index )`: when `index ≥ _bufsize` allocate `growTo index` zeroed slots (the expression is regenerated from the source) and
`memmove` the first `_count` pointers over -/
def check (a : Arr) (index : Nat) : Arr :=
  if index ≥ a.buf.length then
    let n := growTo index
    { a with buf := a.buf.take a.count ++ List.replicate (n - a.count) none }
  else a

/-- a single pointer store `_buf[i] = v`; `none` when `i` is outside the block -/
def store (buf : List (Option Nat)) (i : Nat) (v : Option Nat) : Option (List (Option Nat)) :=
  if i < buf.length then some (buf.set i v) else none

/-- `GenNodeArray::Insert( gn, index )` for `index ≥ _count` (the only way `InstMgr` calls it: `Append` = `Insert(gn,_count)`):
`Check(index); _buf[index] = gn; ++_count` -/
def insertAtEnd (a : Arr) (gn : Nat) : Option Arr :=
  let a1 := check a a.count
  (store a1.buf a.count (some gn)).map (fun b => { buf := b, count := a.count + 1 })

/-- `GenNodeArray::Remove( index )`: `--_count; memmove( spot, spot+1, (_count-index) ptrs ); _buf[_count] = 0` -/
def remove (a : Arr) (index : Nat) : Option Arr :=
  if index < a.count then
    let c := a.count - 1
    -- memmove reads `_buf[index+1 .. index+1+(c-index))` and writes `_buf[index .. index+(c-index))`
    if index + 1 + (c - index) ≤ a.buf.length then
      let moved := a.buf.take index ++ (a.buf.drop (index + 1)).take (c - index) ++ a.buf.drop c
      (if removeNullsVacated then store moved c none else some moved).map (fun b => { buf := b, count := c })
    else none
  else some a

/-- the common shape of `ClearEntries` / `DeleteEntries`: a loop over the first `_count` slots, then `_count = 0`;
`nulls` says whether the loop body stores 0 in the slot (regenerated per routine) -/
def dropAll (nulls : Bool) (a : Arr) : Arr :=
  { buf := if nulls then List.replicate a.count none ++ a.buf.drop a.count else a.buf, count := 0 }

/-- `MgrNodeArray::ClearEntries` -/
def clear (a : Arr) : Arr := dropAll clearEntriesNullsSlots a

/-- `MgrNodeArray::DeleteEntries` (the nodes are deleted; what is left in the slots is what matters here) -/
def deleteEntries (a : Arr) : Arr := dropAll deleteEntriesNullsSlots a

/-- `GenNodeArray::operator[]( index )` as `GetMgrNode`/`GetApplication_instance( index )` use it: `Check( index )`, then
the slot's content; there is no test against `_count`, so "no instance at this index" must be a null slot -/
def slotAt (a : Arr) (index : Nat) : Option Nat := ((check a index).buf[index]?).join

/-- the list `InstMgr.lean` works with: the first `_count` slots -/
def view (a : Arr) : List (Option Nat) := a.buf.take a.count

/-- well-formed buffer: `_count ≤ _bufsize`, live slots non-null, everything above null -/
structure Wf (a : Arr) : Prop where
  le : a.count ≤ a.buf.length
  live : ∀ x ∈ a.buf.take a.count, x ≠ none
  rest : ∀ x ∈ a.buf.drop a.count, x = none

end StepModel.GenNodeArray

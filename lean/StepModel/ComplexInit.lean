import StepModel.ComplexMatch
/-!
# `STEPcomplex::Initialize`: the name path (src/clstepcore/STEPcomplex.cc:58) and `EntNode::sort` (entnode.cc:149)

`Initialize` builds the request list from the part names as written (`EntNode( const char ** )`: ascending, duplicates
dropped, compared case-insensitively), looks every name up in the registry, splices out the names that are no entity,
replaces a name by the entity's original name when the part used a USE/REFERENCE … AS alias, re-sorts with
`EntNode::sort` when a name changed, and asks `ComplexCollect::supports`.

`sortNodes` renders `EntNode::sort` with `lastSmaller` on the linked list as segments: the nodes up to `this` (an
ascending prefix) and the nodes behind it; a node smaller than its predecessor is moved, together with the run that
follows it and still fits, to its place in the prefix.  `lastSmaller` compares strictly or not according to the *regenerated* `sortNonStrict`;
with strict comparisons equal names (two parts that resolve to the same entity) can make the second `lastSmaller`
answer NULL, which `sort` dereferences: `Outcome.crash sortNullChunk`.
-/
namespace StepModel.Complex.Match
open StepModel.Generated StepModel.Complex

/-- the condition under which `EntNode::lastSmaller` steps from a node `p` to its successor `e` (bound `v`) -/
def lsCond (ns : Bool) (p e v : Name) : Bool :=
  if ns then (!decide (e < p) && !decide (e > v)) else (decide (e > p) && decide (e < v))

/-- the nodes `lastSmaller` walks over after a node `p`, and what is left of the list -/
def chainSplit (ns : Bool) (v : Name) : Name → List Name → List Name × List Name
  | _, [] => ([], [])
  | p, e :: es =>
    if lsCond ns p e v then
      let r := chainSplit ns v e es
      (e :: r.1, r.2)
    else ([], e :: es)

/-- `l.head->lastSmaller( v )` on the linked list `l`: `none` = NULL, otherwise the nodes up to and including the
answer, and the nodes behind it -/
def lastSmallerL (ns : Bool) (l : List Name) (v : Name) : Option (List Name × List Name) :=
  match l with
  | [] => none
  | h :: t => if h > v then none else
      let r := chainSplit ns v h t
      some (h :: r.1, r.2)

/-- `EntNode::sort( &first )`: `P` = the nodes from `*first` up to and including `this`, `R` = the nodes behind `this`.
While the next node is smaller than `this`, it is moved — with the run `lastSmaller` finds behind it — to its place
among the earlier nodes; then `sort` continues with the next node. -/
def sortSeg (ns : Bool) : Nat → List Name → List Name → Outcome (List Name)
  | 0, _, _ => .outOfFuel
  | _ + 1, P, [] => .ok P
  | f + 1, P, n :: R' =>
    match P.getLast? with
    | none => .crash .sortNullChunk
    | some x =>
      if x > n then
        match lastSmallerL ns (P ++ n :: R') n with
        | none =>
          -- `*first > *next`: the run goes to the front
          match P with
          | [] => .crash .sortNullChunk
          | f0 :: _ =>
            match lastSmallerL ns (n :: R') f0 with
            | none => .crash .sortNullChunk
            | some (C, R'') => sortSeg ns f (C ++ P) R''
        | some (A, B') =>
          match B' with
          | [] => .crash .sortNullChunk
          | t :: _ =>
            match lastSmallerL ns (n :: R') t with
            | none => .crash .sortNullChunk
            | some (C, R'') => sortSeg ns f (A ++ C ++ P.drop A.length) R''
      else sortSeg ns f (P ++ [n]) R'

def sortNodesWith (ns : Bool) (L : List Name) : Outcome (List Name) :=
  match L with
  | [] => .ok []
  | h :: t => sortSeg ns (t.length + 1) [h] t

/-- `ents->sort( &ents )` as the source has it now -/
def sortNodes (L : List Name) : Outcome (List Name) := sortNodesWith sortNonStrict L

/-- a part as written: the name used in the file and what the registry makes of it (`none` = no such entity; the
original name differs from the written one for USE/REFERENCE … AS aliases) -/
structure Part where
  written : Name
  resolved : Option Name
  deriving Repr

inductive InitResult | noLegalName | refused (invalid : Bool) | created (invalid : Bool)
  deriving Repr, DecidableEq

/-- `STEPcomplex::Initialize` up to the verdict: names are ranks in one common alphabetical order of written and
original names; `mult` = the entities with more than one supertype -/
def initializeParts (c : Collect) (mult : List Name) (parts : List Part) : Outcome InitResult :=
  let written := mkNames (parts.map (·.written))
  let look := fun (w : Name) => match parts.find? (fun p => p.written == w) with
    | some p => p.resolved
    | none => none
  let invalid := written.any (fun w => (look w).isNone)
  let names := written.filterMap look
  let outOfOrder := written.any (fun w => match look w with | some o => o != w | none => false)
  if names.isEmpty then (if invalid then .ok .noLegalName else .ok (.refused false))
  else do
    let sorted ← if outOfOrder then sortNodes names else pure names
    let ents : Ents := sorted.map (fun n => { name := n, mark := .no, mult := mult.contains n })
    let ok ← supportsEnts (defaultFuel c) c ents
    pure (if ok then .created invalid else .refused invalid)


end StepModel.Complex.Match

import StepModel.ComplexMatch
/-!
# `STEPcomplex::Initialize`: the name path (src/clstepcore/STEPcomplex.cc:58) and `EntNode::sort` (entnode.cc:149)

`Initialize` builds the request list from the part names as written (`EntNode( const char ** )`: ascending, duplicates
dropped, compared case-insensitively), looks every name up in the registry, splices out the names that are no entity,
replaces a name by the entity's original name when the part used a USE/REFERENCE … AS alias, re-sorts with
`EntNode::sort` when a name changed, and asks `ComplexCollect::supports`.

`sortNodes` renders `EntNode::sort` with `lastSmaller`: the list is an ascending prefix followed by not yet ordered
nodes; a node smaller than its predecessor is moved, together with the ascending run that follows it and still fits,
to its place in the prefix.  `lastSmaller` compares strictly or not according to the *regenerated* `sortNonStrict`;
with strict comparisons equal names (two parts that resolve to the same entity) can make the second `lastSmaller`
answer NULL, which `sort` dereferences: `Outcome.crash sortNullChunk`.
-/
namespace StepModel.Complex.Match
open StepModel.Generated StepModel.Complex

/-- the walk of `EntNode::lastSmaller` from position `k` with bound `v` -/
def lsWalk (ns : Bool) (L : List Name) (v : Name) : Nat → Nat → Nat
  | 0, k => k
  | f + 1, k =>
    match L[k]?, L[k + 1]? with
    | some p, some e =>
      if (if ns then (!decide (e < p) && !decide (e > v)) else (decide (e > p) && decide (e < v))) then lsWalk ns L v f (k + 1)
      else k
    | _, _ => k

/-- `L[j]->lastSmaller( v )`: `none` = NULL -/
def lastSmallerFrom (ns : Bool) (L : List Name) (j : Nat) (v : Name) : Option Nat :=
  match L[j]? with
  | none => none
  | some a => if a > v then none else some (lsWalk ns L v L.length j)

/-- one pass of the `while( next && *this > *next )` loop of `EntNode::sort` for `this = L[i]`; returns the new list and
the new position of `this` -/
def sortSwitch (ns : Bool) (L : List Name) (i : Nat) (v : Name) : Outcome (List Name × Nat) :=
  match lastSmallerFrom ns L 0 v with
  | some a1 =>
    match L[a1 + 1]? with
    | none => .crash .sortNullChunk
    | some t =>
      match lastSmallerFrom ns L (i + 1) t with
      | none => .crash .sortNullChunk
      | some b =>
        let chunk := (L.drop (i + 1)).take (b - i)
        .ok (L.take (a1 + 1) ++ chunk ++ (L.drop (a1 + 1)).take (i - a1) ++ L.drop (b + 1), i + chunk.length)
  | none =>
    match L[0]? with
    | none => .crash .sortNullChunk
    | some f0 =>
      match lastSmallerFrom ns L (i + 1) f0 with
      | none => .crash .sortNullChunk
      | some b =>
        let chunk := (L.drop (i + 1)).take (b - i)
        .ok (chunk ++ L.take (i + 1) ++ L.drop (b + 1), i + chunk.length)

/-- `EntNode::sort( &first )` called on the first node -/
def sortFrom (ns : Bool) : Nat → List Name → Nat → Outcome (List Name)
  | 0, _, _ => .outOfFuel
  | f + 1, L, i =>
    match L[i]?, L[i + 1]? with
    | some a, some v =>
      if a > v then
        match sortSwitch ns L i v with
        | .ok (L', i') => sortFrom ns f L' i'
        | .crash c => .crash c
        | .outOfFuel => .outOfFuel
      else sortFrom ns f L (i + 1)
    | _, _ => .ok L

def sortNodesWith (ns : Bool) (L : List Name) : Outcome (List Name) := sortFrom ns (2 * L.length * L.length + 8) L 0

/-- `ents->sort( &ents )` as the source has it now -/
def sortNodes (L : List Name) : Outcome (List Name) := sortNodesWith sortNonStrict L

/-- a part as written: the name used in the file and what the registry makes of it (`none` = no such entity; the
original name differs from the written one for USE/REFERENCE … AS aliases) -/
structure Part where
  written : Name
  resolved : Option Name
  deriving Repr

inductive InitResult | noLegalName | refused (invalid : Bool) | created (invalid : Bool)
  deriving Repr, DecidableEq

/-- `STEPcomplex::Initialize` up to the verdict: names are ranks in one common alphabetical order of written and
original names; `mult` = the entities with more than one supertype -/
def initializeParts (c : Collect) (mult : List Name) (parts : List Part) : Outcome InitResult :=
  let written := mkNames (parts.map (·.written))
  let look := fun (w : Name) => match parts.find? (fun p => p.written == w) with
    | some p => p.resolved
    | none => none
  let invalid := written.any (fun w => (look w).isNone)
  let names := written.filterMap look
  let outOfOrder := written.any (fun w => match look w with | some o => o != w | none => false)
  if names.isEmpty then (if invalid then .ok .noLegalName else .ok (.refused false))
  else do
    let sorted ← if outOfOrder then sortNodes names else pure names
    let ents : Ents := sorted.map (fun n => { name := n, mark := .no, mult := mult.contains n })
    let ok ← supportsEnts (defaultFuel c) c ents
    pure (if ok then .created invalid else .refused invalid)


end StepModel.Complex.Match

import StepModel.ComplexForest3
/-! On a forest, `addImplicitSubs` finds exactly the subtypes the expression does not mention (`AgreeAll`):
the leaves of an entity's tree are descendants of the entity, and a direct subtype is no proper descendant of a sibling. -/
namespace StepModel.Complex

theorem leavesL_append (a b : List Tree) : leavesL (a ++ b) = leavesL a ++ leavesL b := by
  induction a with
  | nil => simp [leavesL]
  | cons t a ih => simp [leavesL, ih]

mutual
  theorem leaves_exprKids (T : Name → Option Tree) : ∀ (x : Expr) (p : Parent) (ts : List Tree),
      exprKids T p x = some ts →
      (∀ y ∈ leavesL ts, ∃ m ∈ x.ents, ∃ t, T m = some t ∧ y ∈ leaves t) ∧
      (∀ m ∈ x.ents, ∀ t, T m = some t → ∀ y ∈ leaves t, y ∈ leavesL ts)
    | .ent n, p, ts, h => by
      simp only [exprKids, Option.map_eq_some_iff] at h
      obtain ⟨t, ht, rfl⟩ := h
      simp only [leavesL, List.append_nil, Expr.ents, List.mem_singleton]
      exact ⟨fun y hy => ⟨n, rfl, t, ht, hy⟩, fun m hm t' ht' y hy => by subst hm; rw [ht] at ht'; cases ht'; exact hy⟩
    | .and a b, p, ts, h => by
      simp only [exprKids] at h
      cases ha : exprKids T .andL a with
      | none => rw [ha] at h; simp at h
      | some l =>
        cases hb : exprKids T .andL b with
        | none => rw [ha, hb] at h; simp at h
        | some r =>
          rw [ha, hb] at h
          obtain ⟨a1, a2⟩ := leaves_exprKids T a .andL l ha
          obtain ⟨b1, b2⟩ := leaves_exprKids T b .andL r hb
          have hts : leavesL ts = leavesL l ++ leavesL r := by
            simp only at h
            split at h <;> cases h <;> simp [leavesL, leaves, leavesL_append]
          rw [hts]
          simp only [Expr.ents, List.mem_append]
          refine ⟨fun y hy => ?_, fun m hm t ht y hy => ?_⟩
          · rcases hy with h1 | h1
            · obtain ⟨m, hm, r'⟩ := a1 y h1; exact ⟨m, Or.inl hm, r'⟩
            · obtain ⟨m, hm, r'⟩ := b1 y h1; exact ⟨m, Or.inr hm, r'⟩
          · rcases hm with h1 | h1
            · exact Or.inl (a2 m h1 t ht y hy)
            · exact Or.inr (b2 m h1 t ht y hy)
    | .andor a b, p, ts, h => by
      simp only [exprKids] at h
      cases ha : exprKids T .andorL a with
      | none => rw [ha] at h; simp at h
      | some l =>
        cases hb : exprKids T .andorL b with
        | none => rw [ha, hb] at h; simp at h
        | some r =>
          rw [ha, hb] at h
          obtain ⟨a1, a2⟩ := leaves_exprKids T a .andorL l ha
          obtain ⟨b1, b2⟩ := leaves_exprKids T b .andorL r hb
          have hts : leavesL ts = leavesL l ++ leavesL r := by
            simp only at h
            split at h <;> cases h <;> simp [leavesL, leaves, leavesL_append]
          rw [hts]
          simp only [Expr.ents, List.mem_append]
          refine ⟨fun y hy => ?_, fun m hm t ht y hy => ?_⟩
          · rcases hy with h1 | h1
            · obtain ⟨m, hm, r'⟩ := a1 y h1; exact ⟨m, Or.inl hm, r'⟩
            · obtain ⟨m, hm, r'⟩ := b1 y h1; exact ⟨m, Or.inr hm, r'⟩
          · rcases hm with h1 | h1
            · exact Or.inl (a2 m h1 t ht y hy)
            · exact Or.inr (b2 m h1 t ht y hy)
    | .oneof es, p, ts, h => by
      simp only [exprKids, Option.map_eq_some_iff] at h
      obtain ⟨cs, hcs, rfl⟩ := h
      simp only [leavesL, leaves, List.append_nil, Expr.ents]
      exact leaves_exprKidsL T es cs hcs
  theorem leaves_exprKidsL (T : Name → Option Tree) : ∀ (es : List Expr) (ts : List Tree),
      exprKidsL T es = some ts →
      (∀ y ∈ leavesL ts, ∃ m ∈ Expr.entsL es, ∃ t, T m = some t ∧ y ∈ leaves t) ∧
      (∀ m ∈ Expr.entsL es, ∀ t, T m = some t → ∀ y ∈ leaves t, y ∈ leavesL ts)
    | [], ts, h => by
      simp only [exprKidsL] at h; cases h
      exact ⟨fun y hy => by simp [leavesL] at hy, fun m hm => by simp [Expr.entsL] at hm⟩
    | x :: xs, ts, h => by
      simp only [exprKidsL] at h
      cases hx : exprKids T .orL x with
      | none => rw [hx] at h; simp at h
      | some l =>
        cases hxs : exprKidsL T xs with
        | none => rw [hx, hxs] at h; simp at h
        | some r =>
          rw [hx, hxs] at h; cases h
          obtain ⟨a1, a2⟩ := leaves_exprKids T x .orL l hx
          obtain ⟨b1, b2⟩ := leaves_exprKidsL T xs r hxs
          rw [leavesL_append]
          simp only [Expr.entsL, List.mem_append]
          refine ⟨fun y hy => ?_, fun m hm t ht y hy => ?_⟩
          · rcases hy with h1 | h1
            · obtain ⟨m, hm, r'⟩ := a1 y h1; exact ⟨m, Or.inl hm, r'⟩
            · obtain ⟨m, hm, r'⟩ := b1 y h1; exact ⟨m, Or.inr hm, r'⟩
          · rcases hm with h1 | h1
            · exact Or.inl (a2 m h1 t ht y hy)
            · exact Or.inr (b2 m h1 t ht y hy)
end

theorem leaves_mapOpt (T : Name → Option Tree) : ∀ (I : List Name) (ts : List Tree), mapOpt T I = some ts →
    ∀ y ∈ leavesL ts, ∃ m ∈ I, ∃ t, T m = some t ∧ y ∈ leaves t
  | [], ts, h, y, hy => by simp only [mapOpt] at h; cases h; simp [leavesL] at hy
  | m :: I, ts, h, y, hy => by
    simp only [mapOpt] at h
    cases hm : T m with
    | none => rw [hm] at h; simp at h
    | some t =>
      cases hI : mapOpt T I with
      | none => rw [hm, hI] at h; simp at h
      | some ts' =>
        rw [hm, hI] at h; cases h
        simp only [leavesL, List.mem_append] at hy
        rcases hy with h1 | h1
        · exact ⟨m, by simp, t, hm, h1⟩
        · obtain ⟨m', hm', r⟩ := leaves_mapOpt T I ts' hI y h1
          exact ⟨m', List.mem_cons_of_mem _ hm', r⟩

theorem headOf_shape (s : Schema) (f : Nat) (e : Entity) (h : Tree) (hh : headOf s f e = some h) :
    ∃ rest, h = .and (.simple e.name :: rest) := by
  cases f with
  | zero => simp [headOf] at hh
  | succ f' =>
    simp only [headOf] at hh
    cases hexpr : e.expr with
    | none =>
      rw [hexpr] at hh
      simp only [List.nil_append] at hh
      split at hh
      · simp only [Option.some.injEq] at hh; exact ⟨_, hh.symm⟩
      · cases hm : mapOpt (fun n => entTree s f' n) (e.subs.filter fun n => !([] : List Name).contains n) with
        | none => rw [hm] at hh; simp at hh
        | some ts => rw [hm] at hh; simp only [Option.some.injEq] at hh; exact ⟨_, hh.symm⟩
    | some x =>
      rw [hexpr] at hh
      simp only at hh
      cases hb : exprKids (fun n => entTree s f' n) .superHead x with
      | none => rw [hb] at hh; simp at hh
      | some b =>
        rw [hb] at hh
        simp only at hh
        split at hh
        · simp only [Option.some.injEq] at hh; exact ⟨_, hh.symm⟩
        · cases hm : mapOpt (fun n => entTree s f' n) (e.subs.filter fun n => !(e.name :: leavesL b).contains n) with
          | none => rw [hm] at hh; simp at hh
          | some ts => rw [hm] at hh; simp only [Option.some.injEq] at hh; exact ⟨_, hh.symm⟩

section
variable {s : Schema} {lvl : Name → Nat} (W : ForestWF s lvl)
include W

/-- the leaves of an entity's tree are the entity and descendants of it -/
theorem tree_leaves_reach : ∀ (f : Nat),
    (∀ n t, entTree s f n = some t → n ∈ leaves t ∧ ∀ y ∈ leaves t, Reach s n y) ∧
    (∀ e h, e ∈ s → headOf s f e = some h → ∀ y ∈ leaves h, Reach s e.name y) := by
  intro f
  induction f using Nat.strongRecOn with
  | _ f ih =>
    constructor
    · intro n t ht
      cases f with
      | zero => simp [entTree] at ht
      | succ f' =>
        simp only [entTree] at ht
        cases hfe : s.find n with
        | none => rw [hfe] at ht; simp at ht
        | some e =>
          rw [hfe] at ht
          obtain ⟨he, hen⟩ := find_some hfe
          simp only at ht
          split at ht
          · cases ht
            simp only [leaves, List.mem_singleton]
            exact ⟨trivial, fun y hy => by rw [hy]; exact Reach.refl _⟩
          · cases hh : headOf s f' e with
            | none => rw [hh] at ht; simp at ht
            | some h =>
              rw [hh] at ht
              have hlv := (ih f' (Nat.lt_succ_self _)).2 e h he hh
              rw [hen] at hlv
              have hnh : n ∈ leaves h := by
                obtain ⟨rest, hr⟩ := headOf_shape s f' e h hh
                rw [hr, ← hen]; simp [leaves, leavesL]
              simp only at ht
              split at ht
              · cases ht; exact ⟨hnh, hlv⟩
              · cases ht
                simp only [leaves, leavesL, List.append_nil, List.mem_append, List.mem_singleton]
                exact ⟨Or.inl trivial, fun y hy => by
                  rcases hy with h1 | h1
                  · rw [h1]; exact Reach.refl _
                  · exact hlv y h1⟩
    · intro e h he hh
      cases f with
      | zero => simp [headOf] at hh
      | succ f' =>
        have hfe : s.find e.name = some e := find_of_mem W.nodup he
        have hkid : ∀ m ∈ e.subs, ∀ t, entTree s f' m = some t → ∀ y ∈ leaves t, Reach s e.name y := by
          intro m hm t ht y hy
          exact Reach.step ⟨e, hfe, hm⟩ (((ih f' (Nat.lt_succ_self _)).1 m t ht).2 y hy)
        simp only [headOf] at hh
        cases hexpr : e.expr with
        | none =>
          rw [hexpr] at hh
          simp only [List.nil_append] at hh
          split at hh
          · cases hh
            intro y hy; simp [leaves, leavesL] at hy; rw [hy]; exact Reach.refl _
          · split at hh
            · cases hh
            · rename_i ts hts
              cases hh
              intro y hy
              simp only [leaves, leavesL, List.append_nil, List.mem_append, List.mem_singleton] at hy
              rcases hy with h1 | h1
              · rw [h1]; exact Reach.refl _
              · obtain ⟨m, hm, t, ht, hyt⟩ := leaves_mapOpt _ _ ts hts y h1
                exact hkid m (List.mem_filter.mp hm).1 t ht y hyt
        | some x =>
          rw [hexpr] at hh
          obtain ⟨hxs, _⟩ := W.expr_ok e he x hexpr
          simp only at hh
          cases hb : exprKids (fun n => entTree s f' n) .superHead x with
          | none => rw [hb] at hh; simp at hh
          | some b =>
            rw [hb] at hh
            obtain ⟨b1, _⟩ := leaves_exprKids _ x .superHead b hb
            have hbl : ∀ y ∈ leavesL b, Reach s e.name y := by
              intro y hy
              obtain ⟨m, hm, t, ht, hyt⟩ := b1 y hy
              exact hkid m (hxs m hm) t ht y hyt
            simp only at hh
            split at hh
            · cases hh
              intro y hy
              simp only [leaves, leavesL, List.mem_append, List.mem_singleton] at hy
              rcases hy with h1 | h1
              · rw [h1]; exact Reach.refl _
              · exact hbl y h1
            · split at hh
              · cases hh
              · rename_i ts hts
                cases hh
                intro y hy
                simp only [leaves, leavesL, List.append_nil, List.mem_append, List.mem_singleton, leavesL_append] at hy
                rcases hy with h1 | h1 | h1
                · rw [h1]; exact Reach.refl _
                · exact hbl y h1
                · obtain ⟨m, hm, t, ht, hyt⟩ := leaves_mapOpt _ _ ts hts y h1
                  exact hkid m (List.mem_filter.mp hm).1 t ht y hyt

/-- on a forest `addImplicitSubs` and the declarations agree on the implicit subtypes -/
theorem agree_of_forest : AgreeAll s := by
  intro e he f b hb
  unfold ImplicitAgree
  cases hexpr : e.expr with
  | none => simp [Entity.implicit, hexpr]
  | some x =>
    rw [hexpr] at hb
    simp only at hb
    obtain ⟨hxs, _⟩ := W.expr_ok e he x hexpr
    obtain ⟨b1, b2⟩ := leaves_exprKids _ x .superHead b hb
    have hfe : s.find e.name = some e := find_of_mem W.nodup he
    unfold Entity.implicit
    simp only [hexpr]
    apply List.filter_congr
    intro m hm
    have hms : IsSub s e.name m := ⟨e, hfe, hm⟩
    have hiff : m ∈ e.name :: leavesL b ↔ m ∈ x.ents := by
      constructor
      · intro h
        rcases List.mem_cons.mp h with h1 | h1
        · have := IsSub.lvlLt W hms; rw [h1] at this; omega
        · obtain ⟨m', hm', t, ht, hmt⟩ := b1 m h1
          have hr := ((tree_leaves_reach W f).1 m' t ht).2 m hmt
          have := sub_below_sub W ⟨e, hfe, hxs m' hm'⟩ hms hr
          rw [this]; exact hm'
      · intro h
        obtain ⟨t, ht⟩ := exprKids_defined _ x .superHead b hb m h
        exact List.mem_cons_of_mem _ (b2 m h t ht m ((tree_leaves_reach W f).1 m t ht).1)
    by_cases h1 : m ∈ x.ents
    · have h2 := hiff.mpr h1; simp [h1, h2]
    · have h2 : m ∉ e.name :: leavesL b := fun h' => h1 (hiff.mp h'); simp [h1, h2]

end

end StepModel.Complex

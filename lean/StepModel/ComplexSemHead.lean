import StepModel.ComplexSem
/-!
# Meaning of a ComplexList head and of an entity's tree, in terms of `Entity.admits` (the local rule of `Spec.Legal`)

`head_meaning`: the list `headOf` builds for entity `e` derives exactly: `e` itself together with a set of direct subtypes
that `e.admits` allows (expression ANDOR implicit subtypes) and one derivation of each of them.
`entTree_meaning`: a subtype without subtypes is itself; an ABSTRACT one is its list; a non-abstract one is itself alone or its list.

Hypothesis `ImplicitAgree`: the subtypes `addImplicitSubs` finds missing among the leaves of the list are the subtypes
the expression does not mention (decidable; checked for every generated schema by `m_c08 implok`; it fails exactly for
redundant inheritance, where a direct subtype is also a deeper descendant).
-/
namespace StepModel.Complex

theorem Der_single_name (n : Name) (Y : List Name) : Der [[n]] Y ↔ SameSet [n] Y := by
  simp only [Der, List.mem_singleton]
  constructor
  · rintro ⟨Z, rfl, h⟩; exact h
  · intro h; exact ⟨[n], rfl, h⟩

theorem Der_prodD_pair (d1 d2 : List (List Name)) (Y : List Name) :
    Der (prodD [d1, d2]) Y ↔ PAnd (Der d1) (Der d2) Y := by
  rw [Der_prodD_cons]
  exact PAnd.congr (fun _ => Iff.rfl) (fun Z => Der_prodD_single d2 Z) Y

theorem exprKids_superHead_single (T : Name → Option Tree) (x : Expr) (b : List Tree)
    (h : exprKids T .superHead x = some b) : ∃ t0, b = [t0] := by
  cases x with
  | ent n =>
    simp only [exprKids, Option.map_eq_some_iff] at h
    obtain ⟨t, _, rfl⟩ := h; exact ⟨t, rfl⟩
  | oneof es =>
    simp only [exprKids, Option.map_eq_some_iff] at h
    obtain ⟨cs, _, rfl⟩ := h; exact ⟨_, rfl⟩
  | and a b' =>
    simp only [exprKids] at h
    split at h
    · simp at h; exact ⟨_, h.symm⟩
    · cases h
  | andor a b' =>
    simp only [exprKids] at h
    split at h
    · simp at h; exact ⟨_, h.symm⟩
    · cases h

theorem AdmFam_selD_cons (T : Name → Option Tree) (A : List (List Name)) (As : List (List (List Name))) (Y : List Name) :
    AdmFam T (selD (A :: As)) Y ↔ PSel (AdmFam T A) (AdmFam T (selD As)) Y := by
  simp only [selD]
  rw [AdmFam_append, AdmFam_append, AdmFam_pair]
  unfold PSel
  constructor
  · rintro ((h | h) | h)
    · exact Or.inr (Or.inl h)
    · exact Or.inl h
    · exact Or.inr (Or.inr h)
  · rintro (h | h | h)
    · exact Or.inl (Or.inr h)
    · exact Or.inl (Or.inl h)
    · exact Or.inr h

theorem AdmFam_nil (T : Name → Option Tree) (Y : List Name) : AdmFam T [] Y ↔ False := by
  constructor
  · rintro ⟨S, hS, _⟩; cases hS
  · exact False.elim

theorem AdmFam_single (T : Name → Option Tree) (m : Name) (t : Tree) (ht : T m = some t) (Y : List Name) :
    AdmFam T [[m]] Y ↔ Der (denote t) Y := by
  have := sem_admits T (.ent m) Y
  simp only [Sem, Expr.admits] at this
  rw [← this]
  constructor
  · rintro ⟨t', ht', hd⟩; rw [ht] at ht'; cases ht'; exact hd
  · intro hd; exact ⟨t, ht, hd⟩

/-- the implicit subtypes, ANDOR-ed: a non-empty selection of them, one derivation each -/
theorem implicit_meaning (T : Name → Option Tree) : ∀ (I : List Name) (ts : List Tree), mapOpt T I = some ts →
    ∀ Y, Der (selD (denoteL ts)) Y ↔ AdmFam T (selD (I.map fun n => [[n]])) Y
  | [], ts, h, Y => by
    simp only [mapOpt] at h; cases h
    simp only [denoteL, List.map_nil, selD]
    rw [Der_nil, AdmFam_nil]
  | m :: I, ts, h, Y => by
    simp only [mapOpt] at h
    cases hm : T m with
    | none => rw [hm] at h; simp at h
    | some t =>
      cases hI : mapOpt T I with
      | none => rw [hm, hI] at h; simp at h
      | some ts' =>
        rw [hm, hI] at h; cases h
        simp only [denoteL, List.map_cons]
        rw [Der_selD_cons, AdmFam_selD_cons]
        exact PSel.congr (fun Z => (AdmFam_single T m t hm Z).symm) (implicit_meaning T I ts' hI) Y

/-- `addImplicitSubs` and `Spec.Legal` agree on which subtypes of `e` are implicit, given the leaves of the
expression's children `b` -/
def ImplicitAgree (e : Entity) (b : List Tree) : Prop :=
  e.subs.filter (fun n => !(match e.expr with | none => [] | some _ => e.name :: leavesL b).contains n) = e.implicit

/-- **Meaning of the list built for entity `e`** (`ComplexList::ComplexList`): `e` plus an admitted set of direct
subtypes (expression ANDOR implicit subtypes, exactly `Entity.admits`), each with one derivation of its own tree. -/
theorem head_meaning (s : Schema) (f : Nat) (e : Entity) (h : Tree) (hh : headOf s (f + 1) e = some h)
    (hsub : e.subs ≠ [])
    (hagree : ∀ b, (match e.expr with | none => some [] | some x => exprKids (fun n => entTree s f n) .superHead x) = some b →
      ImplicitAgree e b) (X : List Name) :
    Der (denote h) X ↔ PAnd (SameSet [e.name]) (AdmFam (fun n => entTree s f n) e.admits) X := by
  simp only [headOf] at hh
  cases hexpr : e.expr with
  | none =>
    rw [hexpr] at hh
    have hag := hagree [] (by rw [hexpr])
    simp only [ImplicitAgree, hexpr] at hag
    simp only [List.nil_append] at hh
    rw [hag] at hh
    have himp : e.implicit = e.subs := by
      simp [Entity.implicit, hexpr]
    have hne : e.implicit.isEmpty = false := by
      rw [himp]; cases hs : e.subs with
      | nil => exact absurd hs hsub
      | cons => rfl
    simp only [hne, Bool.false_eq_true, if_false] at hh
    cases hm : mapOpt (fun n => entTree s f n) e.implicit with
    | none => rw [hm] at hh; simp at hh
    | some ts =>
      rw [hm] at hh; cases hh
      simp only [denote, denoteL]
      rw [Der_prodD_pair]
      refine PAnd.congr (fun Z => Der_single_name e.name Z) (fun Z => ?_) X
      rw [implicit_meaning _ e.implicit ts hm Z]
      simp [Entity.admits, hexpr]
  | some x =>
    rw [hexpr] at hh
    simp only at hh
    cases hb : exprKids (fun n => entTree s f n) .superHead x with
    | none => rw [hb] at hh; simp at hh
    | some b =>
      rw [hb] at hh
      have hag := hagree b (by rw [hexpr]; exact hb)
      simp only [ImplicitAgree, hexpr] at hag
      simp only at hh
      rw [hag] at hh
      obtain ⟨t0, rfl⟩ := exprKids_superHead_single _ x b hb
      have hx : ∀ Z, Der (denote t0) Z ↔ AdmFam (fun n => entTree s f n) x.admits Z := by
        intro Z
        have := expr_meaning _ x .superHead [t0] hb Z
        simp only [denoteL] at this
        rw [CtxDer_single] at this
        rw [this, sem_admits]
      split at hh
      · rename_i hemp
        cases hh
        have himp : e.implicit = [] := by
          cases hi : e.implicit with
          | nil => rfl
          | cons => rw [hi] at hemp; simp at hemp
        simp only [denote, denoteL]
        rw [Der_prodD_pair]
        refine PAnd.congr (fun Z => Der_single_name e.name Z) (fun Z => ?_) X
        rw [hx Z]
        simp [Entity.admits, hexpr, himp, selD_single]
      · cases hm : mapOpt (fun n => entTree s f n) e.implicit with
        | none => rw [hm] at hh; simp at hh
        | some ts =>
          rw [hm] at hh; cases hh
          simp only [denote, denoteL, List.cons_append, List.nil_append]
          rw [Der_prodD_pair]
          refine PAnd.congr (fun Z => Der_single_name e.name Z) (fun Z => ?_) X
          rw [Der_selD_cons]
          simp only [Entity.admits, hexpr, List.cons_append, List.nil_append]
          rw [AdmFam_selD_cons]
          exact PSel.congr hx (implicit_meaning _ e.implicit ts hm) Z

/-- **Meaning of an entity reference** (`MultList::addSimpleAndSubs`) -/
theorem entTree_meaning (s : Schema) (f : Nat) (n : Name) (t : Tree) (ht : entTree s (f + 1) n = some t) (X : List Name) :
    ∃ e, s.find n = some e ∧
      (Der (denote t) X ↔
        if e.subs.isEmpty then SameSet [n] X
        else ∃ h, headOf s f e = some h ∧ ((e.abstract = false ∧ SameSet [n] X) ∨ Der (denote h) X)) := by
  simp only [entTree] at ht
  cases he : s.find n with
  | none => rw [he] at ht; simp at ht
  | some e =>
    rw [he] at ht
    refine ⟨e, rfl, ?_⟩
    simp only at ht
    split at ht
    · rename_i hemp
      cases ht
      simp only [hemp, if_true, denote]
      exact Der_single_name n X
    · rename_i hemp
      simp only [hemp, Bool.false_eq_true, if_false]
      cases hh : headOf s f e with
      | none => rw [hh] at ht; simp at ht
      | some h =>
        rw [hh] at ht
        simp only at ht
        split at ht
        · rename_i habs
          cases ht
          constructor
          · intro hd; exact ⟨t, rfl, Or.inr hd⟩
          · rintro ⟨h', hh', hor⟩
            cases hh'
            rcases hor with ⟨hna, _⟩ | hd
            · rw [habs] at hna; cases hna
            · exact hd
        · rename_i habs
          cases ht
          simp only [denote, denoteL, List.flatten_cons, List.flatten_nil, List.append_nil]
          rw [Der_append, Der_single_name]
          constructor
          · rintro (h1 | h1)
            · exact ⟨h, rfl, Or.inl ⟨by simpa using habs, h1⟩⟩
            · exact ⟨h, rfl, Or.inr h1⟩
          · rintro ⟨h', hh', hor⟩
            cases hh'
            rcases hor with ⟨_, h1⟩ | h1
            · exact Or.inl h1
            · exact Or.inr h1

end StepModel.Complex

import StepModel.GenPyModuleEntityLemmas
import StepModel.GenSelectOrderLemmas
/-!
# The entity walk of a Python module returns (`GenPy.EntityOrder.dfs` / `order`)

Counting argument: every nested call pushes an entity of the scope that was neither in the list nor on the stack, so with one level
of recursion per such entity, and one to spare, the fuel never runs out (`dfs_returns`); `|entities| + 1` levels suffice for the
whole walk (`order_returns`).  (The two counting lemmas on filtered lists are those of `GenSelectOrderLemmas.lean`.)
-/
namespace StepModel.GenPy.EntityOrder
open StepModel.SelOrder (filter_length_mono filter_length_lt)

/-- the entities of the scope that are neither in the list nor on the stack -/
def unmarked (es : List Entity) (stack out : List String) : Nat :=
  ((es.map (·.name)).filter (fun x => decide (x ∉ out ∧ x ∉ stack))).length

theorem unmarked_mono (es : List Entity) (stack out out' : List String) (h : ∀ x ∈ out, x ∈ out') :
    unmarked es stack out' ≤ unmarked es stack out := by
  unfold unmarked
  apply filter_length_mono
  intro x hx
  simp only [decide_eq_true_eq] at hx ⊢
  exact ⟨fun a => hx.1 (h x a), hx.2⟩

theorem unmarked_push (es : List Entity) (stack out : List String) (n : String) (hd : n ∈ es.map (·.name))
    (h1 : n ∉ out) (h2 : n ∉ stack) : unmarked es (n :: stack) out + 1 ≤ unmarked es stack out := by
  unfold unmarked
  apply filter_length_lt _ _ _ _ n hd
  · simp [h1, h2]
  · simp
  · intro x hx
    simp only [decide_eq_true_eq] at hx ⊢
    exact ⟨hx.1, fun a => hx.2 (List.mem_cons_of_mem _ a)⟩

/-- with one level of recursion per entity of the scope that is not marked yet, and one to spare, the walk returns -/
theorem dfs_returns (es : List Entity) : ∀ (f : Nat) (stack out : List String) (n : String),
    unmarked es stack out ≤ f → ∃ out', dfs es (f + 1) stack out n = some out' := by
  intro f
  induction f with
  | zero =>
    intro stack out n hu
    unfold dfs
    by_cases hm : n ∈ out ∨ n ∈ stack
    · exact ⟨out, by rw [if_pos hm]⟩
    · rw [if_neg hm]
      cases hf : find es n with
      | none => exact ⟨out, rfl⟩
      | some e =>
        exfalso
        have hd := find_some_mem es n (by rw [hf]; rfl)
        have := unmarked_push es stack out n hd (fun a => hm (Or.inl a)) (fun a => hm (Or.inr a))
        omega
  | succ f ih =>
    intro stack out n hu
    unfold dfs
    by_cases hm : n ∈ out ∨ n ∈ stack
    · exact ⟨out, by rw [if_pos hm]⟩
    · rw [if_neg hm]
      cases hf : find es n with
      | none => exact ⟨out, rfl⟩
      | some e =>
        have hd := find_some_mem es n (by rw [hf]; rfl)
        have hpush := unmarked_push es stack out n hd (fun a => hm (Or.inl a)) (fun a => hm (Or.inr a))
        -- every child call returns: the list only grows
        have hfold : ∀ (l : List String) (o : List String), unmarked es (n :: stack) o ≤ f →
            ∃ o', l.foldlM (fun o p => dfs es (f + 1) (n :: stack) o p) o = some o' := by
          intro l
          induction l with
          | nil => intro o _; exact ⟨o, by simp [List.foldlM]⟩
          | cons a r ihl =>
            intro o ho
            obtain ⟨o1, h1⟩ := ih (n :: stack) o a ho
            obtain ⟨new, e1, _, _⟩ := dfs_spec es (f + 1) (n :: stack) o a o1 h1
            have hmono : unmarked es (n :: stack) o1 ≤ f :=
              Nat.le_trans (unmarked_mono es (n :: stack) o o1 (fun x hx => by rw [e1]; exact List.mem_append_left _ hx)) ho
            obtain ⟨o2, h2⟩ := ihl o1 hmono
            exact ⟨o2, by simp only [List.foldlM_cons, h1]; exact h2⟩
        obtain ⟨o, ho⟩ := hfold e.supers out (by omega)
        exact ⟨o ++ [n], by simp only [ho]; rfl⟩

/-- `SCOPEget_entities_superclass_order` returns with `|entities| + 1` levels of recursion -/
theorem order_returns (es : List Entity) (roots : List String) : ∃ out, order es (es.length + 1) roots = some out := by
  unfold order
  have hU : ∀ o : List String, unmarked es [] o ≤ es.length := by
    intro o
    unfold unmarked
    exact Nat.le_trans (List.length_filter_le _ _) (by simp)
  have loop : ∀ (rs : List String) (o : List String), ∃ o', rs.foldlM (fun o r => dfs es (es.length + 1) [] o r) o = some o' := by
    intro rs
    induction rs with
    | nil => intro o; exact ⟨o, by simp [List.foldlM]⟩
    | cons a r ih =>
      intro o
      obtain ⟨o1, h1⟩ := dfs_returns es es.length [] o a (hU o)
      obtain ⟨o2, h2⟩ := ih o1
      exact ⟨o2, by simp only [List.foldlM_cons, h1]; exact h2⟩
  exact loop roots []

end StepModel.GenPy.EntityOrder

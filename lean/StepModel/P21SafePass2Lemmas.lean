import StepModel.P21SafeHeaderLemmas
/-! Pass 2 with the `ReadInstance` skeleton (helper file for Props/C05). -/
namespace StepModel.P21Safe

theorem pot_diff {R : Nat} {a b : IS} (h : a.m ≤ b.m) : pot R b ≤ pot R a + 4 * (b.m - a.m) + R := by
  unfold pot; split <;> split <;> omega

theorem pot_diff_alive {R : Nat} {a b : IS} (ha : 1 ≤ a.m) (h : a.m ≤ b.m) : pot R b ≤ pot R a + 4 * (b.m - a.m) := by
  rw [pot_pos ha, pot_pos (by omega)]; omega

theorem skipws_m (s : IS) (k : Bool) : ({ s with skipws := k } : IS).m = s.m := rfl

/-- a bound in the plain potential is a bound in the instance loop's potential -/
theorem dataPot_close {D R : Nat} {s x : IS} {st c : Nat} (hm : x.m ≤ s.m) (h : st + pot R x ≤ pot R s + c) :
    st + dataPot D R x ≤ dataPot D R s + c := by
  have := mul_mono' D hm
  simp only [dataPot, bigPot]
  omega

theorem skipSpaces_head (pre rest : List Byte) (x : Byte) (r : List Byte) (h : (IS.skipSpaces pre rest).2 = x :: r) :
    isSpace x = false := by
  fun_induction IS.skipSpaces pre rest <;> simp_all

/-- `ReadComment` on any stream is a stage with constant 1 (a character that does not start a comment is put back) -/
theorem readComment_stage (R : Nat) (cm : Bool) (iters : Nat) (hR : iters ≤ R) (F : Nat) (t : IS) (h : t.m + 1 ≤ F) :
    ∃ r, readComment cm iters F t = .ok r ∧ r.s.m ≤ t.m ∧ r.steps + pot R r.s ≤ pot R t + 1 := by
  have hs : SkipOk R (skipInstance cm iters F) (F - 1) := by
    intro s' hs'
    obtain ⟨r, a, b, c⟩ := scanUntil_pot R chSemi false cm iters hR F s' 0 0 0 (by omega)
    exact ⟨r, a, b, by omega⟩
  have h0 : ¬ ((0 : Byte) = chSlash) := by decide
  unfold readComment
  obtain ⟨pre, rest, eof, fail, sk⟩ := t
  by_cases hg : (eof = false ∧ fail = false)
  · obtain ⟨rfl, rfl⟩ := hg
    have hlen := skipSpaces_len pre rest
    generalize hsp : IS.skipSpaces pre rest = sp at hlen
    obtain ⟨p, r⟩ := sp
    simp only [] at hlen
    have htm : (⟨pre, rest, false, false, sk⟩ : IS).m = rest.length + 1 := by simp [IS.m]
    cases r with
    | nil =>
      refine ⟨⟨⟨p, [], false, true, sk⟩, 0, 0, 0⟩, ?_, by simp [IS.m], by simp [IS.m, pot]⟩
      cases sk <;> simp [readCommentWith, IS.ws, IS.good, hsp, IS.extract, IS.skipSpaces, IS.putback, h0]
    | cons x r' =>
      have hx : isSpace x = false := skipSpaces_head pre rest x r' (by rw [hsp])
      simp at hlen
      by_cases hsl : x = chSlash
      · subst hsl
        have e : readCommentWith (skipInstance cm iters F) iters ⟨pre, rest, false, false, sk⟩ =
            readCommentWith (skipInstance cm iters F) iters ⟨p, chSlash :: r', false, false, sk⟩ := by
          simp [readCommentWith, IS.ws, IS.good, hsp, IS.skipSpaces, hx]
        rw [e]
        obtain ⟨r, a, b, c⟩ := readCommentWith_slash_pot R (skipInstance cm iters F) iters hR
          (s := ⟨p, chSlash :: r', false, false, sk⟩) (r0 := r') rfl rfl rfl
          (fun s' hs' => hs s' (by rw [htm] at h; omega))
        refine ⟨r, a, by rw [htm]; omega, ?_⟩
        rw [pot_pos (a := (⟨pre, rest, false, false, sk⟩ : IS)) (by rw [htm]; omega), htm]
        omega
      · refine ⟨⟨⟨p, x :: r', false, false, sk⟩, 0, 0, 0⟩, ?_, by simp [IS.m]; omega, ?_⟩
        · cases sk <;> simp [readCommentWith, IS.ws, IS.good, hsp, IS.extract, IS.skipSpaces, hx, hsl, IS.putback]
        · simp only []
          have : (⟨p, x :: r', false, false, sk⟩ : IS).m ≤ (⟨pre, rest, false, false, sk⟩ : IS).m := by simp [IS.m]; omega
          have := pot_mono (R := R) this
          omega
  · refine ⟨⟨⟨pre, rest, false, true, sk⟩, 0, 0, 0⟩, ?_, by simp [IS.m], by simp [IS.m, pot]⟩
    cases eof <;> cases fail <;> simp at hg <;>
      cases sk <;> simp [readCommentWith, IS.ws, IS.good, IS.extract, IS.putback, h0]

/-- `ReadInstance` (skeleton) for a record reader `rd` that is a stage with constant `K` and **stays in the record** — it
never goes beyond the place where `SkipInstance`, started at the beginning of the record, ends it: the instance is read with
steps paid by the instance loop's potential up to `K + 8` — and the comment reserve `R` once more when the stream is dead
afterwards (the second scan of an instance that runs to the end of the input).  (After a mis-read the record is scanned a
second time from its start; that is paid by the bytes of the record because of the second hypothesis, and only because of it.) -/
theorem readInstanceSkel_ok {R B K D : Nat} {lookup : IS → Nat} {rd rc tok skip : IS → Out LoopRes}
    (hrc : StageOk R rc 1 B) (ht : StageOk R tok 1 B) (hs : StageOk R skip 1 B) (hrd : StageOk R rd K B)
    (hstay : ∀ s r rs sk, s.m ≤ B → rd s = .ok r → skip { s with skipws := sk } = .ok rs → rs.s.m ≤ r.s.m) :
    ∀ s, s.m ≤ B → ∃ r, readInstanceSkel lookup rd rc tok skip s = .ok r ∧ r.s.m ≤ s.m ∧
      r.steps + dataPot D R r.s ≤ dataPot D R s + (K + 8) + (if r.s.m = 0 then R else 0) := by
  intro s hB
  have fin : ∀ (st : Nat) (x : IS), x.m ≤ s.m → st + pot R x ≤ pot R s + (K + 8) →
      st + dataPot D R x ≤ dataPot D R s + (K + 8) + (if x.m = 0 then R else 0) := by
    intro st x hm h
    have := dataPot_close (D := D) hm h
    omega
  unfold readInstanceSkel
  obtain ⟨r0, a0, b0, c0⟩ := hrc s hB
  rw [a0]
  simp only []
  have hx := extractInt_m r0.s
  have hpx := pot_mono (R := R) hx
  split
  · obtain ⟨r, a, b, c⟩ := hs r0.s.extractInt (by omega)
    rw [a]
    exact ⟨_, rfl, by simp only []; omega, fin _ _ (by simp only []; omega) (by simp only []; omega)⟩
  · obtain ⟨r1, a1, b1, c1⟩ := ht r0.s.extractInt (by omega)
    rw [a1]
    simp only []
    have hg := get_m_le r1.s
    have hpg := pot_mono (R := R) hg
    split
    · obtain ⟨r, a, b, c⟩ := hs (r1.s.get).1 (by omega)
      rw [a]
      exact ⟨_, rfl, by simp only []; omega, fin _ _ (by simp only []; omega) (by simp only []; omega)⟩
    · obtain ⟨r2, a2, b2, c2⟩ := ht (r1.s.get).1 (by omega)
      rw [a2]
      simp only []
      obtain ⟨r3, a3, b3, c3⟩ := hrd r2.s (by omega)
      rw [a3]
      simp only []
      split
      · exact ⟨_, rfl, by simp only []; omega, fin _ _ (by simp only []; omega) (by simp only []; omega)⟩
      · split
        · -- a value was mis-read: the record is scanned again from its start
          have hmk := skipws_m r2.s r3.s.skipws
          obtain ⟨r, a, b, c⟩ := hs { r2.s with skipws := r3.s.skipws } (by rw [hmk]; omega)
          rw [a]
          simp only []
          have hst := hstay r2.s r3 r r3.s.skipws (by omega) a3 a
          have hpk : pot R ({ r2.s with skipws := r3.s.skipws } : IS) = pot R r2.s := by simp [pot, hmk]
          rw [hpk] at c
          rw [hmk] at b
          have hDm := mul_mono' D (show r.s.m ≤ s.m by omega)
          refine ⟨_, rfl, by simp only []; omega, ?_⟩
          simp only [dataPot, bigPot]
          by_cases h3 : r3.s.m = 0
          · have hd := pot_diff (R := R) b3
            have hr0 : r.s.m = 0 := by omega
            rw [if_pos hr0]
            omega
          · have hd := pot_diff_alive (R := R) (show 1 ≤ r3.s.m by omega) b3
            have : 0 ≤ (if r.s.m = 0 then R else 0) := Nat.zero_le _
            omega
        · have hpk := peek_m r3.s
          have hpp := pot_mono (R := R) hpk
          split
          · have hex := extract_m (r3.s.peek).1
            have hxm : ((r3.s.peek).1.extract).1.m ≤ r3.s.m := by rcases hex with hh | hh <;> omega
            have hpe := pot_mono (R := R) hxm
            exact ⟨_, rfl, by simp only []; omega, fin _ _ (by simp only []; omega) (by simp only []; omega)⟩
          · exact ⟨_, rfl, by simp only []; omega, fin _ _ (by simp only []; omega) (by simp only []; omega)⟩

/-- The one-record slip as a bound.  When the record reader may go beyond the end of its record but never beyond the end of
the **next** one (`SkipInstance` applied twice from the record's start) — what the repaired scans guarantee even when the
character `STEPread` gave up on was the record's own `;` — one `ReadInstance` costs at most its own record twice and the
next record once: the loop's potential pays it up to `K + 8`, plus `4·|next record|`, plus the reserve `R` once when the
input ends there. -/
theorem readInstanceSkel_slip {R B K D : Nat} {lookup : IS → Nat} {rd rc tok skip : IS → Out LoopRes}
    (hrc : StageOk R rc 1 B) (ht : StageOk R tok 1 B) (hs : StageOk R skip 1 B) (hrd : StageOk R rd K B)
    (hstay2 : ∀ s r rs rs2 sk, s.m ≤ B → rd s = .ok r → skip { s with skipws := sk } = .ok rs → skip rs.s = .ok rs2 →
      rs2.s.m ≤ r.s.m) :
    ∀ s, s.m ≤ B → ∃ r, readInstanceSkel lookup rd rc tok skip s = .ok r ∧ r.s.m ≤ s.m ∧
      ∀ nx, skip r.s = .ok nx →
        r.steps + dataPot D R r.s ≤ dataPot D R s + (K + 8) + 4 * (r.s.m - nx.s.m) + (if nx.s.m = 0 then R else 0) := by
  intro s hB
  have fin : ∀ (st : Nat) (x : IS), x.m ≤ s.m → st + pot R x ≤ pot R s + (K + 8) →
      ∀ nx : LoopRes, st + dataPot D R x ≤ dataPot D R s + (K + 8) + 4 * (x.m - nx.s.m) + (if nx.s.m = 0 then R else 0) := by
    intro st x hm h nx
    have := dataPot_close (D := D) hm h
    omega
  unfold readInstanceSkel
  obtain ⟨r0, a0, b0, c0⟩ := hrc s hB
  rw [a0]
  simp only []
  have hx := extractInt_m r0.s
  have hpx := pot_mono (R := R) hx
  split
  · obtain ⟨r, a, b, c⟩ := hs r0.s.extractInt (by omega)
    rw [a]
    exact ⟨_, rfl, by simp only []; omega, fun nx _ => fin _ _ (by simp only []; omega) (by simp only []; omega) nx⟩
  · obtain ⟨r1, a1, b1, c1⟩ := ht r0.s.extractInt (by omega)
    rw [a1]
    simp only []
    have hg := get_m_le r1.s
    have hpg := pot_mono (R := R) hg
    split
    · obtain ⟨r, a, b, c⟩ := hs (r1.s.get).1 (by omega)
      rw [a]
      exact ⟨_, rfl, by simp only []; omega, fun nx _ => fin _ _ (by simp only []; omega) (by simp only []; omega) nx⟩
    · obtain ⟨r2, a2, b2, c2⟩ := ht (r1.s.get).1 (by omega)
      rw [a2]
      simp only []
      obtain ⟨r3, a3, b3, c3⟩ := hrd r2.s (by omega)
      rw [a3]
      simp only []
      split
      · exact ⟨_, rfl, by simp only []; omega, fun nx _ => fin _ _ (by simp only []; omega) (by simp only []; omega) nx⟩
      · split
        · -- a value was mis-read: the record is scanned again from its start
          have hmk := skipws_m r2.s r3.s.skipws
          obtain ⟨r, a, b, c⟩ := hs { r2.s with skipws := r3.s.skipws } (by rw [hmk]; omega)
          rw [a]
          simp only []
          have hpk : pot R ({ r2.s with skipws := r3.s.skipws } : IS) = pot R r2.s := by simp [pot, hmk]
          rw [hpk] at c
          rw [hmk] at b
          have hDm := mul_mono' D (show r.s.m ≤ s.m by omega)
          refine ⟨_, rfl, by simp only []; omega, ?_⟩
          intro nx hnx
          obtain ⟨nx', anx, bnx, _⟩ := hs r.s (by omega)
          have hnx' : skip r.s = .ok nx := hnx
          rw [anx] at hnx'
          cases hnx'
          have hst := hstay2 r2.s r3 r nx r3.s.skipws (by omega) a3 a anx
          simp only [dataPot, bigPot]
          by_cases h3 : r3.s.m = 0
          · have hd := pot_diff (R := R) b3
            have hn0 : nx.s.m = 0 := by omega
            rw [if_pos hn0]
            omega
          · have hd := pot_diff_alive (R := R) (show 1 ≤ r3.s.m by omega) b3
            have : 0 ≤ (if nx.s.m = 0 then R else 0) := Nat.zero_le _
            omega
        · have hpk := peek_m r3.s
          have hpp := pot_mono (R := R) hpk
          split
          · have hex := extract_m (r3.s.peek).1
            have hxm : ((r3.s.peek).1.extract).1.m ≤ r3.s.m := by rcases hex with hh | hh <;> omega
            have hpe := pot_mono (R := R) hxm
            exact ⟨_, rfl, by simp only []; omega, fun nx _ => fin _ _ (by simp only []; omega) (by simp only []; omega) nx⟩
          · exact ⟨_, rfl, by simp only []; omega, fun nx _ => fin _ _ (by simp only []; omega) (by simp only []; omega) nx⟩

theorem instOrSkip_okD {D R B K E : Nat} {rd skip : IS → Out LoopRes}
    (hrd : ∀ s, s.m ≤ B → ∃ r, rd s = .ok r ∧ r.s.m ≤ s.m ∧
      r.steps + dataPot D R r.s ≤ dataPot D R s + K + (if r.s.m = 0 then E else 0))
    (hs : StageOk R skip 1 B) (hK : 1 ≤ K) : InstOkD D R (instOrSkip rd skip) K E B := by
  intro d s h
  unfold instOrSkip
  split
  · obtain ⟨r, a, b, c⟩ := hs s h
    rw [a]
    have := dataPot_close (D := D) (R := R) (st := r.steps) (c := K) b (by omega)
    exact ⟨_, rfl, b, by simp only []; omega⟩
  · exact hrd s h

/-- pass 2 (`ReadData2`) around the `ReadInstance` skeleton, for any fuel above the stream measure -/
theorem readData2_skel_okF (lookup : IS → Nat) (rd : IS → Out LoopRes) (K : Nat) (cm wsMode : Bool) (iters maxErr : Nat) (s : IS) (F : Nat)
    (hm : s.m + 1 ≤ F) (hrd : StageOk iters rd K (F - 1))
    (hstay : ∀ x r rs sk, x.m ≤ F - 1 → rd x = .ok r → skipInstance cm iters F { x with skipws := sk } = .ok rs → rs.s.m ≤ r.s.m) :
    ∃ r, readData2 (readInstanceSkel lookup rd (readComment cm iters F) (readTokenSeparator cm iters F) (skipInstance cm iters F))
        cm wsMode iters maxErr F s = .ok r ∧ r.s.m ≤ s.m ∧
      r.steps + dataPot (K + 15) iters r.s ≤ dataPot (K + 15) iters s + (K + iters + 16) ∧
      r.notCreated ≤ maxErr + 1 ∧ (r.aborted = true ↔ r.notCreated = maxErr + 1) := by
  obtain ⟨ht, hs, hrec⟩ := stages cm iters F (by omega)
  have hrc : StageOk iters (readComment cm iters F) 1 (F - 1) := by
    intro t htB
    exact readComment_stage iters cm iters (Nat.le_refl _) F t (by omega)
  have hri := readInstanceSkel_ok (D := K + 15) (lookup := lookup) hrc ht hs hrd hstay
  have hinst := instOrSkip_okD hri hs (by omega)
  unfold readData2
  have hfe := foundEndSecKywd_m s
  generalize foundEndSecKywd s = fe at hfe ⊢
  obtain ⟨s0, e⟩ := fe
  simp only [] at hfe ⊢
  obtain ⟨r, a, b, c, _, d, f⟩ := dataLoop_okD (D := K + 15) (maxErr := maxErr) wsMode true hrec hinst ht (Nat.le_refl _)
    F s0 e 0 false 0 0 0 (by omega) (by omega) (Nat.zero_le _)
  refine ⟨r, a, by omega, ?_, d, f⟩
  have h1 := pot_mono (R := iters) hfe
  have h2 := mul_mono' (K + 15) hfe
  simp only [dataPot, bigPot] at c ⊢
  omega

end StepModel.P21Safe

import StepModel.LazyDict
import StepModel.GenCxx
/-!
# The resolver's dictionary against the registry the generated schema init code builds

`StepModel.GenCxx` (the C02 model) describes the registry after the generated `SchemaInit` / `InitSchemasAndEnts` code has run: each
entity descriptor with its supertype list **and its subtype list as `AddSubtype` built it** (`DEntity.subs`).  The resolver model
(`LazyDict`) names entities by numbers and *computes* subtype lists from the supertype lists (`subsOf`).  This file states what it
means for a resolver dictionary to have the hierarchy of a registry (`SameHierarchy`) and gives the registry's own subtype lists
(`regSubs`), so that "the subtype lists are the inverse of the supertype lists" can be derived from C02's `Mirror` instead of assumed.
-/
namespace StepModel.LazyRefs
open StepModel.GenCxx

/-- the resolver dictionary `d` lists the registry's entities in order, each with its supertype list, under the naming `num` -/
def SameHierarchy (num : String → Nat) (gd : List DEntity) (d : Dict) : Prop :=
  d.map (fun e => (e.name, e.sups)) = gd.map (fun de => (num de.name, de.supers.map num))

/-- `EntityDescriptor::_subtypes` of the entity named `n`, as registered -/
def regSubs (num : String → Nat) (gd : List DEntity) (n : Nat) : List Nat :=
  match gd.find? (fun de => num de.name == n) with
  | some de => de.subs.map num
  | none => []

/-- the acyclicity measure of the schema (`WF.supers`) read through the naming -/
def regRank (num : String → Nat) (gd : List DEntity) (rank : String → Nat) (n : Nat) : Nat :=
  match gd.find? (fun de => num de.name == n) with
  | some de => rank de.name
  | none => 0

/-- is the attribute's domain an (unnamed) aggregate -/
def drefAggr : DRef → Bool
  | .aggr .. => true
  | _ => false

/-- `x` of a registered name `sup.x` (a redeclared attribute), the name itself otherwise -/
def baseAttrName (n : String) : String := ((n.splitOn ".").getLast?).getD n

/-- **the resolver's dictionary read off the registry the generated schema init code builds** (C02's `DEntity`): entity and supertype
    names through the numbering `num`; the explicit attributes (kind `E`) with their aggregate flag; the names of the attributes the
    entity redeclares (kind `R`, registered as `sup.x`); the inverse attributes with inverted entity and inverted attribute
    (`inverted_entity_id_`, `inverted_attr_id_`), keyed by `entity.name` -/
def ofGenEntity (num : String → Nat) (de : DEntity) : EntityD :=
  { name := num de.name,
    sups := de.supers.map num,
    attrs := (de.attrs.filter (fun a => a.kind == .E)).map (fun a => (num a.name, drefAggr a.type)),
    redecl := (de.attrs.filter (fun a => a.kind == .R)).map (fun a => num (baseAttrName a.name)),
    invs := de.invs.map (fun i =>
      { key := num (de.name ++ "." ++ i.name), aggr := drefAggr i.type, over := num i.invEntity, attrName := num i.invAttr }) }

def ofGen (num : String → Nat) (gd : List DEntity) : Dict := gd.map (ofGenEntity num)

end StepModel.LazyRefs

import StepModel.LazyDict
import StepModel.GenCxx
/-!
# The resolver's dictionary against the registry the generated schema init code builds

`StepModel.GenCxx` (the C02 model) describes the registry after the generated `SchemaInit` / `InitSchemasAndEnts` code has run: each
entity descriptor with its supertype list **and its subtype list as `AddSubtype` built it** (`DEntity.subs`).  The resolver model
(`LazyDict`) names entities by numbers and *computes* subtype lists from the supertype lists (`subsOf`).  This file states what it
means for a resolver dictionary to have the hierarchy of a registry (`SameHierarchy`) and gives the registry's own subtype lists
(`regSubs`), so that "the subtype lists are the inverse of the supertype lists" can be derived from C02's `Mirror` instead of assumed.
-/
namespace StepModel.LazyRefs
open StepModel.GenCxx

/-- the resolver dictionary `d` lists the registry's entities in order, each with its supertype list, under the naming `num` -/
def SameHierarchy (num : String → Nat) (gd : List DEntity) (d : Dict) : Prop :=
  d.map (fun e => (e.name, e.sups)) = gd.map (fun de => (num de.name, de.supers.map num))

/-- `EntityDescriptor::_subtypes` of the entity named `n`, as registered -/
def regSubs (num : String → Nat) (gd : List DEntity) (n : Nat) : List Nat :=
  match gd.find? (fun de => num de.name == n) with
  | some de => de.subs.map num
  | none => []

/-- the acyclicity measure of the schema (`WF.supers`) read through the naming -/
def regRank (num : String → Nat) (gd : List DEntity) (rank : String → Nat) (n : Nat) : Nat :=
  match gd.find? (fun de => num de.name == n) with
  | some de => rank de.name
  | none => 0

end StepModel.LazyRefs

import StepModel.Generated.LazyGen
/-!
# Model of the lazy loader's scanner, index and loader (src/cllazyfile)

* `skipWS`, `strRest` (`GetLiteralStr`, clutils/Str.cc), `findStar` (`sectionReader::findNormalString("*/")`),
  `readInstanceNumber`, `getDelimitedKeyword`, `seekEnd` (`sectionReader::seekInstanceEnd`),
  `nextInstance`, `scanLoop` + `sectionEnd` (`lazyP21DataSectionReader` constructor) — sectionReader.cc,
  lazyP21DataSectionReader.cc.  The stream is the list of bytes still to be read; `seekg(tellg()-1)` is "keep the
  character"; the one place that seeks further back (`findNormalString`'s `nextTry`) carries the saved suffix.
* `MM` / `addLazy` (`lazyInstMgr::addLazyInstance` on the two `judyL2Array` multimaps, whose `insert` appends).
* `depsLoop` / `deps` (`lazyInstMgr::instanceDependencies`: queue + checked set).
* `load` (`lazyInstMgr::loadInstance` → `sectionReader::getRealInstance` → `STEPread` → `instMgrAdapter::FindFileId`
  → `loadInstance`): a memoising recursion.  Where the instance enters the cache is taken from the source
  (`Generated.cacheBeforeRead`): before its attributes are read, or after `getRealInstance` has returned.

Outcomes the C++ reaches through `abort()`/`assert` are `Outcome.crash`; `-1`/"stream not good" is `Outcome.fail`;
unbounded recursion shows as `Outcome.outOfFuel` for every fuel.
Chars are bytes (`Char.ofNat b`); the `isspace/isupper/isdigit` used by the code are the "C" locale ones.
-/
namespace StepModel.Lazy
open StepModel.Generated

abbrev Bytes := List Char

inductive Outcome (α : Type) where
  | ok (a : α)
  | fail
  | crash
  | outOfFuel
  deriving Repr, DecidableEq

def isSpace (c : Char) : Bool :=
  c == ' ' || c == '\t' || c == '\n' || c == '\x0b' || c == '\x0c' || c == '\r'
def isDigit (c : Char) : Bool := c.isDigit
def isUpperC (c : Char) : Bool := c.isUpper

/-- `sectionReader::skipWS` -/
def skipWS : Bytes → Bytes
  | [] => []
  | c :: r => if isSpace c then skipWS r else c :: r

/-- `acc` is the string read so far, newest first: does it end with `\S\` ? -/
def endsSBS : Bytes → Bool
  | '\\' :: 'S' :: '\\' :: _ => true
  | _ => false

/-- the loop of `GetLiteralStr` after the opening quote; returns what is left in the stream -/
def strLoop : Bytes → Bool → Bytes → Bytes
  | _, _, [] => []
  | acc, esc, c :: r =>
    if c == '\'' then strLoop (c :: acc) (if endsSBS acc then esc else !esc) r
    else if !esc then c :: r
    else strLoop (c :: acc) esc r

/-- `GetLiteralStr(in)` called with the stream at a quote: the rest of the stream after the literal -/
def strRest : Bytes → Bytes
  | '\'' :: r => strLoop ['\''] true r
  | s => s

/-- `findNormalString("*/")` : `i` = characters of `*/` matched so far, `nt` = `nextTry`.
    Returns the stream after the terminator, `none` when the stream ends first (returns -1, stream not good). -/
def findStar : Nat → Nat → Bytes → Bytes → Outcome Bytes
  | 0, _, _, _ => .outOfFuel
  | f + 1, i, nt, s =>
    if i ≥ 2 then .ok s else
    match skipWS s with
    | [] => .fail
    | c :: r =>
      let r1 := if c == '\'' then strRest (c :: r) else r
      let nested : Outcome Bytes :=
        if c == '/' && r1.head? == some '*' then findStar f 0 r1 r1 else .ok r1
      match nested with
      | .ok r2 =>
        if (if i == 0 then '*' else '/') == c then
          (if i == 0 then findStar f 1 r2 r2 else .ok r2)
        else if i ≥ 1 then findStar f 0 nt nt else findStar f 0 nt r2
      | .fail => .fail
      | .crash => .crash
      | .outOfFuel => .outOfFuel

/-- `sectionReader::skipComment` (repaired shape): raw text up to and including the first `*/`; `p` = the previous byte -/
def rawLoop : Char → Bytes → Outcome Bytes
  | _, [] => .fail
  | p, c :: r => if p == '*' && c == '/' then .ok r else rawLoop c r

/-- skip a comment; the stream is at the `*` of `/*` (the `/` has been read, the `*` only peeked).  Regenerated shape: the comment is
    skipped as raw text (`commentsRaw`), or — old code — with the general search `findNormalString("*/")`, which interprets
    apostrophes and `/*` inside the comment -/
def skipComment (fuel : Nat) (s : Bytes) : Outcome Bytes :=
  if commentsRaw then (match s with | _ :: r => rawLoop '\x00' r | [] => .fail) else findStar fuel 0 s s

/-- `sectionReader::skipWSandComments`: white space, then any number of comments -/
def skipWSC : Nat → Bytes → Outcome Bytes
  | 0, _ => .outOfFuel
  | f + 1, s =>
    match skipWS s with
    | '/' :: '*' :: r =>
      (match skipComment f ('*' :: r) with
       | .ok r' => skipWSC f r'
       | .fail => .ok []
       | .crash => .crash
       | .outOfFuel => .outOfFuel)
    | s' => .ok s'

/-- what the scanner skips between two tokens where Part 21 allows comments (`)` `;`, id `=`, before `ENDSEC`):
    white space only in the old code, white space and comments in the repaired one (regenerated flag) -/
def betweenTokens (fuel : Nat) (s : Bytes) : Outcome Bytes :=
  if tokenComments then skipWSC fuel s else .ok (skipWS s)

/-- decimal value of a digit string (what `strtoull` / `operator>>` compute, before range checks) -/
def digitsVal (ds : Bytes) : Nat := ds.foldl (fun n c => 10 * n + (c.toNat - '0'.toNat)) 0

/-- how many digits of an instance name count towards the limit of `readInstanceNumber`'s buffer: all of them, or (repaired
    shape, regenerated) all but the zero padding -/
def idLen (ds : Bytes) : Nat :=
  if idZeroPad then (if ds.isEmpty then 0 else max 1 (ds.dropWhile (· == '0')).length) else ds.length

def takeDigits : Bytes → Bytes × Bytes
  | [] => ([], [])
  | c :: r => if isDigit c then let (d, t) := takeDigits r; (c :: d, t) else ([], c :: r)

/-- the one comment `readInstanceNumber` accepts before `#` -/
def leadComment (fuel : Nat) (s0 : Bytes) : Outcome Bytes :=
  match s0 with
  | '/' :: '*' :: r => skipComment fuel ('*' :: r)
  | _ => .ok s0

/-- what `readInstanceNumber` skips before `#` (regenerated shape) -/
def beforeHash (fuel : Nat) (s : Bytes) : Outcome Bytes :=
  if leadGap then skipWSC fuel s else leadComment fuel (skipWS s)

/-- `sectionReader::readInstanceNumber`; `.ok (0, _)` is the "no instance here" answer -/
def readInstanceNumber (fuel : Nat) (s : Bytes) : Outcome (Nat × Bytes) :=
  match beforeHash fuel s with
  | .ok s1 =>
    match skipWS s1 with
    | '#' :: r =>
      let (ds, t) := takeDigits (skipWS r)
      if idLen ds > instanceIdDigits then .ok (0, t)
      else match betweenTokens fuel t with
        | .ok ('=' :: u) =>
          if ds.length == 0 then .ok (0, u)
          else if digitsVal ds == 0 then .crash            -- assert( id > 0 )
          else .ok (min (digitsVal ds) instanceIdMax, u)   -- strtoull saturates
        | .ok u => .ok (0, u)
        | .fail => .ok (0, [])
        | .crash => .crash
        | .outOfFuel => .outOfFuel
    | r => .ok (0, r)
  | .fail => .ok (0, [])
  | .crash => .crash
  | .outOfFuel => .outOfFuel

def isKwChar (c : Char) : Bool := c == '-' || c == '_' || isUpperC c || isDigit c

/-- the character loop of `getDelimitedKeyword` (`acc` newest first) -/
def kwLoop : Nat → Bytes → Bytes → Outcome (Bytes × Bytes)
  | 0, _, _ => .outOfFuel
  | _ + 1, acc, [] => .ok (acc.reverse, [])
  | f + 1, acc, c :: r =>
    if isKwChar c || (c == '!' && acc.isEmpty) then kwLoop f (c :: acc) r
    else if c == '/' && r.head? == some '*' && acc.isEmpty then
      match skipComment f r with
      | .ok r' => kwLoop f acc (skipWS r')
      | .fail => .ok (acc.reverse, [])
      | .crash => .crash
      | .outOfFuel => .outOfFuel
    else .ok (acc.reverse, c :: r)

/-- `sectionReader::getDelimitedKeyword(delims)`: `abort()` when the keyword is not followed by a delimiter -/
def getDelimitedKeyword (fuel : Nat) (delims : Bytes) (s : Bytes) : Outcome (Bytes × Bytes) :=
  match kwLoop fuel [] (skipWS s) with
  | .ok (kw, r) =>
    match r with
    | c :: _ => if delims.contains c || (kwSpaceDelim && isSpace c) then .ok (kw, r) else .crash
    | [] => .crash
  | .fail => .fail
  | .crash => .crash
  | .outOfFuel => .outOfFuel

/-- `sectionReader::findNormalString( str )` for a one-character `str` (`"("`, `"="`): white space, string literals and comments are
    skipped, the stream is left after the first `needle` outside them; `.fail` = the stream ends first (returns -1) -/
def findOne (needle : Char) : Nat → Bytes → Outcome Bytes
  | 0, _ => .outOfFuel
  | f + 1, s =>
    match skipWS s with
    | [] => .fail
    | c :: r =>
      let r1 := if c == '\'' then strRest (c :: r) else r
      let r2 : Outcome Bytes := if c == '/' && r1.head? == some '*' then skipComment f r1 else .ok r1
      match r2 with
      | .ok r3 => if c == needle then .ok r3 else findOne needle f r3
      | .fail => .fail
      | .crash => .crash
      | .outOfFuel => .outOfFuel

/-- how `sectionReader::getRealInstance` positions the stream for `STEPread`: `seekg( begin ); findNormalString( "(" );` and one
    character back.  The argument is the file from the recorded offset `begin`; the result is what `STEPread` is handed -/
def stepReadInput (fuel : Nat) (atBegin : Bytes) : Outcome Bytes :=
  match findOne '(' fuel atBegin with
  | .ok r => .ok ('(' :: r)
  | .fail => .fail
  | .crash => .crash
  | .outOfFuel => .outOfFuel

/-- `sectionReader::seekInstanceEnd`: `depth` = `parenDepth`, `refs` newest first -/
def seekEnd : Nat → Int → List Nat → Bytes → Outcome (List Nat × Bytes)
  | 0, _, _, _ => .outOfFuel
  | _ + 1, _, _, [] => .fail
  | f + 1, d, refs, c :: r =>
    if c == '(' then seekEnd f (d + 1) refs r
    else if c == '/' then
      (if r.head? == some '*' then
        match skipComment f r with
        | .ok r' => seekEnd f d refs r'
        | .fail => .fail
        | .crash => .crash
        | .outOfFuel => .outOfFuel
       else .fail)
    else if c == '\'' then seekEnd f d refs (strRest (c :: r))
    else if c == '=' then .fail
    else if c == '#' then
      let r1 := skipWS r
      match r1 with
      | c1 :: _ =>
        if isDigit c1 then
          let (ds, t) := takeDigits r1
          if digitsVal ds > instanceIdMax then .fail else seekEnd f d (digitsVal ds :: refs) t
        else .fail
      | [] => .fail
    else if c == ')' then
      (if d - 1 == 0 then
        match betweenTokens f r with
        | .ok (';' :: t) => .ok (refs.reverse, t)
        | .ok [] => .fail
        | .ok r1 => seekEnd f (d - 1) refs r1
        | .fail => .fail
        | .crash => .crash
        | .outOfFuel => .outOfFuel
       else seekEnd f (d - 1) refs r)
    else seekEnd f d refs r

/-- one entry of the index, as `addLazyInstance` receives it -/
structure Entry where
  id : Nat
  kw : Bytes
  refs : List Nat
  deriving Repr, DecidableEq

/-- `lazyP21DataSectionReader::nextInstance`; `.ok none` = "invalid instance" (stream reset to where it was) -/
def nextInstance (fuel : Nat) (s : Bytes) : Outcome (Option (Entry × Bytes)) :=
  match readInstanceNumber fuel s with
  | .ok (id, r) =>
    if id == 0 then .ok none else
    match getDelimitedKeyword fuel keywordDelims (skipWS r) with
    | .ok (kw, r1) =>
      match seekEnd fuel 0 [] r1 with
      | .ok (refs, r2) => .ok (some ({ id := id, kw := kw, refs := refs }, r2))
      | .fail => .ok none
      | .crash => .crash
      | .outOfFuel => .outOfFuel
    | .fail => .ok none
    | .crash => .crash
    | .outOfFuel => .outOfFuel
  | .fail => .ok none
  | .crash => .crash
  | .outOfFuel => .outOfFuel

/-- after the last instance: `ENDSEC` ws `;` -/
def sectionEnd (fuel : Nat) (s : Bytes) : Bool :=
  match betweenTokens fuel s with
  | .ok ('E' :: 'N' :: 'D' :: 'S' :: 'E' :: 'C' :: r) =>
    (match skipWS r with | ';' :: _ => true | _ => false)
  | _ => false

/-- the constructor loop of `lazyP21DataSectionReader`: entries in file order and whether the section was accepted -/
def scanLoop : Nat → Nat → Bytes → List Entry → Outcome (List Entry × Bool)
  | 0, _, _, _ => .outOfFuel
  | n + 1, fuel, s, acc =>
    match nextInstance fuel s with
    | .ok (some (e, r)) => scanLoop n fuel r (e :: acc)
    | .ok none => .ok (acc.reverse, sectionEnd fuel s)
    | .fail => .fail
    | .crash => .crash
    | .outOfFuel => .outOfFuel

/-- the same loop, recording what `nextInstance` stores as `inst.loc.begin` (`_file.tellg()` before `readInstanceNumber`): for every
    indexed instance the offset, counted from the start of the data section, at which its scan started — the start of the layout in front
    of its `#`.  `pos` = offset of `s` -/
def scanBeginsLoop : Nat → Nat → Nat → Bytes → List Nat → Outcome (List Nat)
  | 0, _, _, _, _ => .outOfFuel
  | n + 1, fuel, pos, s, acc =>
    match nextInstance fuel s with
    | .ok (some (_, r)) => scanBeginsLoop n fuel (pos + (s.length - r.length)) r (pos :: acc)
    | .ok none => .ok acc.reverse
    | .fail => .fail
    | .crash => .crash
    | .outOfFuel => .outOfFuel

/-- the recorded offsets of a data section, in file order (one per entry of `scan`) -/
def scanBegins (s : Bytes) : Outcome (List Nat) :=
  scanBeginsLoop (s.length + 1) (4 * s.length + 16) 0 s []

/-- `lazyFileReader::needKW`: compares byte by byte and CONSUMES what it compared, the mismatching byte included -/
def needKW : Bytes → Bytes → Bool × Bytes
  | [], s => (true, s)
  | _ :: _, [] => (false, [])
  | k :: ks, c :: r => if k == c then needKW ks r else (false, r)

/-- `lazyFileReader::initP21` after a data section has been read: `none` = no further section is read (end of file, or
    "Corrupted file"), `some s` = a section reader is started on `s` -/
def nextSection (s : Bytes) : Option Bytes :=
  match needKW "END-ISO-10303-21;".toList (skipWS s) with
  | (true, _) => none
  | (false, r) =>
    match needKW "DATA".toList r with
    | (true, r2) => some r2
    | (false, _) => none

/-- scan a data section (the bytes after `DATA;`) -/
def scan (s : Bytes) : Outcome (List Entry × Bool) :=
  scanLoop (s.length + 1) (4 * s.length + 16) s []

/-! ### the index: `addLazyInstance` -/

/-- `judyL2Array<K, V>`: key ↦ vector, `insert` appends -/
abbrev MM := List (Nat × List Nat)

def MM.find (m : MM) (k : Nat) : List Nat :=
  match m with
  | [] => []
  | (k', v) :: t => if k' == k then v else MM.find t k

def MM.insert (m : MM) (k : Nat) (vs : List Nat) : MM :=
  match m with
  | [] => [(k, vs)]
  | (k', v) :: t => if k' == k then (k', v ++ vs) :: t else (k', v) :: MM.insert t k vs

structure Index where
  entries : List Entry := []      -- `_instanceStreamPos` / `_instanceTypes`, in file order
  fwd : MM := []
  rev : MM := []
  deriving Repr

def revInserts (rev : MM) (id : Nat) : List Nat → MM
  | [] => rev
  | r :: t => revInserts (rev.insert r [id]) id t

/-- `lazyInstMgr::addLazyInstance` -/
def addLazy (ix : Index) (e : Entry) : Index :=
  { entries := ix.entries ++ [e],
    fwd := if e.refs.isEmpty then ix.fwd else ix.fwd.insert e.id e.refs,
    rev := revInserts ix.rev e.id e.refs }

def build (es : List Entry) : Index := es.foldl addLazy {}

/-- `getInstances(kw)` -/
def Index.instancesOf (ix : Index) (kw : Bytes) : List Nat :=
  (ix.entries.filter (fun e => e.kw == kw)).map (·.id)

def Index.has (ix : Index) (id : Nat) : Bool := ix.entries.any (fun e => e.id == id)

/-! ### `instanceDependencies` -/

/-- the `while( curPos < dependencies.size() )` loop: `queue` = the part of `dependencies` not yet visited -/
def depsLoop (fwd : Nat → List Nat) : Nat → List Nat → List Nat → Outcome (List Nat)
  | _, [], checked => .ok checked
  | 0, _ :: _, _ => .outOfFuel
  | f + 1, q :: rest, checked =>
    if checked.contains q then depsLoop fwd f rest checked
    else depsLoop fwd f (rest ++ fwd q) (q :: checked)

def edgeCount (m : MM) : Nat := (m.map (fun p => p.2.length)).sum

/-- `lazyInstMgr::instanceDependencies(id)` (the result is a `std::set`; here: the members, newest first) -/
def depsFuel (m : MM) (id : Nat) : Nat :=
  (m.find id).length + (m.map (fun p => (m.find p.1).length)).sum

def deps (ix : Index) (id : Nat) : Outcome (List Nat) :=
  depsLoop ix.fwd.find (depsFuel ix.fwd id) (ix.fwd.find id) []

/-! ### `loadInstance` -/

/-- what is known about a loaded object: for each reference of the instance, in file order, whether the
    pointer it got is non-null.  `none` while the attributes are still being read. -/
structure Obj where
  id : Nat
  resolved : Option (List (Nat × Bool))
  deriving Repr, DecidableEq

abbrev Cache := List Obj

def Cache.has (c : Cache) (id : Nat) : Bool := c.any (fun o => o.id == id)

def Cache.set (c : Cache) (id : Nat) (r : List (Nat × Bool)) : Cache :=
  c.map (fun o => if o.id == id then { o with resolved := some r } else o)

def refsOf (es : List Entry) (id : Nat) : Option (List Nat) :=
  (es.find? (fun e => e.id == id)).map (·.refs)

/-- `STEPread` of one instance: every `#n` goes through `instMgrAdapter::FindFileId(n)->GetSTEPentity()`, i.e. `rec` -/
def loadRefsWith (rec : Cache → Nat → Outcome (Cache × Bool)) :
    Cache → List Nat → List (Nat × Bool) → Outcome (Cache × List (Nat × Bool))
  | c, [], acc => .ok (c, acc.reverse)
  | c, r :: t, acc =>
    match rec c r with
    | .ok (c1, b) => loadRefsWith rec c1 t ((r, b) :: acc)
    | .fail => .fail
    | .crash => .crash
    | .outOfFuel => .outOfFuel

/-- `lazyInstMgr::loadInstance(id)`: returns the cache and whether a non-null instance came back.
    `early` = the instance is entered in `_instancesLoaded` before `STEPread` runs.  Fuel = recursion depth. -/
def load (early : Bool) (es : List Entry) : Nat → Cache → Nat → Outcome (Cache × Bool)
  | 0, _, _ => .outOfFuel
  | f + 1, c, id =>
    if c.has id then .ok (c, true) else
    match refsOf es id with
    | none => .ok (c, false)
    | some refs =>
      let c0 := if early then c ++ [{ id := id, resolved := none }] else c
      match loadRefsWith (load early es f) c0 refs [] with
      | .ok (c1, res) =>
        if early then .ok (c1.set id res, true)
        else .ok (c1 ++ [{ id := id, resolved := some res }], true)
      | .fail => .fail
      | .crash => .crash
      | .outOfFuel => .outOfFuel

/-- a history of `loadInstance` calls -/
def loadAll (early : Bool) (es : List Entry) (fuel : Nat) : Cache → List Nat → Outcome (Cache × List Bool)
  | c, [] => .ok (c, [])
  | c, id :: t =>
    match load early es fuel c id with
    | .ok (c1, b) =>
      (match loadAll early es fuel c1 t with
       | .ok (c2, bs) => .ok (c2, b :: bs)
       | .fail => .fail | .crash => .crash | .outOfFuel => .outOfFuel)
    | .fail => .fail
    | .crash => .crash
    | .outOfFuel => .outOfFuel

/-! ## `loadInstance` at load depth 0: the inverse-attribute step (`_inverseRefsPending`, `lazyRefs`)

`load` above is the recursion `loadInstance → getRealInstance → STEPread → FindFileId → loadInstance`.  Every instance that comes back
non-null is also pushed on `_inverseRefsPending`, and when no instance is half-read (`_loadDepth == 0`; regenerated: `refsDeferred`)
`loadInstance` drains that list: for each pending instance `p` it constructs `lazyRefs lr( this, p )`, which calls `loadInstance( r )`
for **every candidate referrer** `r` of `p` — the reverse references of `p` whose keyword is the inverted entity, or a subtype, of
one of `p`'s inverse attributes (`checkAnInvAttr` / `potentialReferentInsts` / `loadInstIFFreferent`) — and never unloads one
(`//TODO _lim->unload`), whether it turns out to refer to `p` through the inverted attribute or not.  Those calls are again at depth 0,
so each drains the list itself before it returns. -/

/-- the candidate referrers `lazyRefs` loads for instance `x`: the instances that mention `x` (reverse table, each once — `candidates`
    is a `std::set`) and whose keyword is among `inv k`, `k` the keyword of `x`.  `inv k` = the keywords of the inverted entities of
    the inverse attributes (own and inherited) of the entity `k`, with all their subtypes: dictionary data, handed in by the check -/
def candsOf (es : List Entry) (inv : Bytes → List Bytes) (x : Nat) : List Nat :=
  match es.find? (fun e => e.id == x) with
  | none => []
  | some ex => ((es.filter (fun e => e.refs.contains x && (inv ex.kw).contains e.kw)).map (·.id)).eraseDups

/-- the ids cached in `c'` but not in `c`: the instances one `getRealInstance` recursion pushed on `_inverseRefsPending` -/
def newIds (c c' : Cache) : List Nat := (c'.filter (fun o => !c.has o.id)).map (·.id)

/-- cache and `_inverseRefsPending` -/
abbrev TopState := Cache × List Nat

/-- `lazyRefs lr( this, p )`: `loadInstance( r )` for every candidate `r`, the state threaded through -/
def candLoop (rec : TopState → Nat → Outcome (TopState × Bool)) : TopState → List Nat → Outcome TopState
  | st, [] => .ok st
  | st, r :: t =>
    match rec st r with
    | .ok (st1, _) => candLoop rec st1 t
    | .fail => .fail
    | .crash => .crash
    | .outOfFuel => .outOfFuel

/-- `while( _loadDepth == 0 && !_inverseRefsPending.empty() )`: pop the back, construct `lazyRefs` for it.  `n` bounds the iterations
    (each one takes an element off the list or finds it emptied by a nested call; `loadTop` passes the length of the list + 1) -/
def drainLoop (cands : Nat → List Nat) (rec : TopState → Nat → Outcome (TopState × Bool)) : Nat → TopState → Outcome TopState
  | 0, _ => .outOfFuel
  | n + 1, (c, pend) =>
    match pend.reverse with
    | [] => .ok (c, [])
    | p :: rest =>
      match candLoop rec (c, rest.reverse) (cands p) with
      | .ok st1 => drainLoop cands rec n st1
      | .fail => .fail
      | .crash => .crash
      | .outOfFuel => .outOfFuel

/-- `lazyInstMgr::loadInstance( id )` called at load depth 0 (by the user, or by `lazyRefs`): cache test, `getRealInstance` with its
    nested loads (`load`; fuel = number of instances + 1 always suffices: `load_spec`), the new instances pushed on the pending list —
    in an order given by `ord` (the code pushes in completion order; nothing observable depends on it, and the theorems hold for every
    `ord` that keeps the elements) —, then the drain loop.  Fuel = nesting depth of depth-0 calls. -/
def loadTop (es : List Entry) (cands : Nat → List Nat) (ord : List Nat → List Nat) : Nat → TopState → Nat → Outcome (TopState × Bool)
  | 0, _, _ => .outOfFuel
  | f + 1, (c, pend), id =>
    if c.has id then .ok ((c, pend), true) else
    match load cacheBeforeRead es (es.length + 1) c id with
    | .ok (c1, b) =>
      let pend1 := pend ++ ord (newIds c c1)
      (match drainLoop cands (loadTop es cands ord f) (pend1.length + 1) (c1, pend1) with
       | .ok st2 => .ok (st2, b)
       | .fail => .fail
       | .crash => .crash
       | .outOfFuel => .outOfFuel)
    | .fail => .fail
    | .crash => .crash
    | .outOfFuel => .outOfFuel

/-- a history of `loadInstance` calls by the user -/
def loadHist (es : List Entry) (cands : Nat → List Nat) (ord : List Nat → List Nat) (fuel : Nat) :
    TopState → List Nat → Outcome (TopState × List Bool)
  | st, [] => .ok (st, [])
  | st, id :: t =>
    match loadTop es cands ord fuel st id with
    | .ok (st1, b) =>
      (match loadHist es cands ord fuel st1 t with
       | .ok (st2, bs) => .ok (st2, b :: bs)
       | .fail => .fail | .crash => .crash | .outOfFuel => .outOfFuel)
    | .fail => .fail
    | .crash => .crash
    | .outOfFuel => .outOfFuel

end StepModel.Lazy

import StepModel.GenPy
/-!
# `Gen.Py.Body` — the bodies exp2python writes: derived-attribute getters and WHERE-rule methods

`ATTRIBUTE_INITIALIZER__out` / `ATTRIBUTE_INITIALIZERop__out` / `ATTRIBUTE_INITIALIZERop2__out` / `…op1_out` and
`WHEREPrint` (src/exp2python/src/classes_python.c) print an EXPRESS expression as Python text; Python then reads that
text.  The model is the composition — the Python expression tree that results (`read`), or `none` when the text is not
Python — for the fragment

    integer literals, TRUE, FALSE, attribute references (`a`, `SELF.a`), NOT, unary minus,
    + - * on INTEGER, = <> < <= > >= on INTEGER, AND OR XOR = <> on BOOLEAN

What decides the tree:

* every operator with two operands is written `(l op r)` — **unless** the node is an XOR that is the right operand of an
  XOR and the printer hands `previous_op` down for XOR (regenerated `xorSkipsParentheses`): then the parentheses are
  left out, `p XOR (q XOR r)` becomes `(p != q != r)`, and Python reads one *chained* comparison `p != q and q != r`;
* an attribute reference is written `self.<name>`; the property the class defines for the attribute is called
  `pyName name`; the reference is escaped in the same way only with the regenerated `bodyEscapesKeywords`
  (otherwise `self.class` — not Python);
* a WHERE rule is written as a method `def <label>(self)`; the label is escaped only with `bodyEscapesKeywords`.

`pyEval` is Python's evaluation of the tree on an instance (attribute values by property name; `bool` is a subclass of
`int`, `and` / `or` return an operand, `not` takes truthiness), `none` = an exception.  `Spec.eval` is the value ISO 10303-11
gives the EXPRESS expression when every attribute has a value of its declared type.
-/
namespace StepModel.GenPy.Body
open StepModel.Generated StepModel.GenPy

inductive BinOp | and | or | xor | beq | bne | eq | ne | lt | le | gt | ge | plus | minus | times
  deriving DecidableEq, Repr

inductive UnOp | not | neg
  deriving DecidableEq, Repr

inductive Expr
  | int (n : Nat)
  | tt
  | ff
  | attr (n : String)          -- the attribute by its identifier
  | selfAttr (n : String)      -- `SELF.n`
  | un (op : UnOp) (x : Expr)
  | bin (op : BinOp) (l r : Expr)
  deriving DecidableEq, Repr

inductive PyOp | and | or | eq | ne | lt | le | gt | ge | plus | minus | times
  deriving DecidableEq, Repr

/-- the operator text `ATTRIBUTE_INITIALIZERop__out` writes, as Python's operator -/
def BinOp.py : BinOp → PyOp
  | .and => .and | .or => .or | .xor => .ne | .beq => .eq | .bne => .ne | .eq => .eq | .ne => .ne
  | .lt => .lt | .le => .le | .gt => .gt | .ge => .ge | .plus => .plus | .minus => .minus | .times => .times

inductive PyExpr
  | int (n : Nat)
  | name (s : String)                      -- `TRUE`, `FALSE`: names the runtime defines (Builtin.py)
  | attr (s : String)                      -- `self.s`
  | un (op : UnOp) (x : PyExpr)
  | bin (op : PyOp) (l r : PyExpr)         -- BoolOp / BinOp / Compare with one comparator
  | chain (op : PyOp) (l r : PyExpr)       -- `l op <r without parentheses>`, r a comparison: one chained comparison
  deriving DecidableEq, Repr

structure Cfg where
  xorSkips : Bool        -- XOR under the right operand of XOR is written without parentheses
  escapes : Bool         -- attribute references and rule labels get the keyword underscore
  deriving DecidableEq, Repr

/-- the tree as exp2python is built (regenerated flags) -/
def cfg : Cfg := { xorSkips := xorSkipsParentheses, escapes := bodyEscapesKeywords }

def isXor : Expr → Bool
  | .bin .xor _ _ => true
  | _ => false

/-- `self.<name>` as written; `none`: the text is not Python (`self.class`) -/
def readAttr (c : Cfg) (n : String) : Option PyExpr :=
  if c.escapes then some (.attr (pyName n))
  else if n ∈ Spec.pyKeywords then none else some (.attr n)

/-- what Python reads in the text written for `e` -/
def readWith (c : Cfg) : Expr → Option PyExpr
  | .int n => some (.int n)
  | .tt => some (.name "TRUE")
  | .ff => some (.name "FALSE")
  | .attr n => readAttr c n
  | .selfAttr n => readAttr c n
  | .un op x => (readWith c x).map (.un op)
  | .bin op l r =>
    match readWith c l, readWith c r with
    | some pl, some pr => some (if op = .xor ∧ c.xorSkips = true ∧ isXor r = true then .chain .ne pl pr else .bin op.py pl pr)
    | _, _ => none

def read : Expr → Option PyExpr := readWith cfg

/-- the method name written for a WHERE rule with this label; `none`: `def pass(self)` is not Python -/
def ruleNameWith (c : Cfg) (label : String) : Option String :=
  if c.escapes then some (pyName label)
  else if label ∈ Spec.pyKeywords then none else some label

/-! ## values and Python's evaluation -/

inductive V | int (i : Int) | bool (b : Bool)
  deriving DecidableEq, Repr

def V.toInt : V → Int
  | .int i => i
  | .bool b => if b then 1 else 0

def V.truthy : V → Bool
  | .int i => i != 0
  | .bool b => b

def lookup : List (String × V) → String → Option V
  | [], _ => none
  | (k, v) :: rest, n => if k = n then some v else lookup rest n

def cmpOp (op : PyOp) (a b : Int) : Bool :=
  match op with
  | .eq => a == b | .ne => a != b | .lt => a < b | .le => a ≤ b | .gt => a > b | .ge => a ≥ b
  | _ => false

def applyBin (op : PyOp) (a b : V) : V :=
  match op with
  | .and => if a.truthy then b else a
  | .or => if a.truthy then a else b
  | .plus => .int (a.toInt + b.toInt)
  | .minus => .int (a.toInt - b.toInt)
  | .times => .int (a.toInt * b.toInt)
  | op => .bool (cmpOp op a.toInt b.toInt)

def applyUn (op : UnOp) (a : V) : V :=
  match op with
  | .not => .bool (!a.truthy)
  | .neg => .int (-a.toInt)

/-- Python's evaluation of the tree on an instance (`inst`: value by property name): the value of the leftmost operand
(what a chained comparison to the left compares with; the node's own value when it has no operands) and the value of the
node; `none`: an exception (no such attribute, no such name) -/
def pyEvalF (inst : List (String × V)) : PyExpr → Option (V × V)
  | .int n => some (.int n, .int n)
  | .name s => if s = "TRUE" then some (.bool true, .bool true) else if s = "FALSE" then some (.bool false, .bool false) else none
  | .attr s => (lookup inst s).map (fun v => (v, v))
  | .un op x => (pyEvalF inst x).map (fun p => (applyUn op p.2, applyUn op p.2))
  | .bin op l r =>
    match pyEvalF inst l, pyEvalF inst r with
    | some a, some b => some (a.2, applyBin op a.2 b.2)
    | _, _ => none
  | .chain op l r =>
    -- `l op m op' …` = `(l op m) and (m op' …)`, m evaluated once (the operands have no effects)
    match pyEvalF inst l, pyEvalF inst r with
    | some a, some b => some (a.2, if cmpOp op a.2.toInt b.1.toInt then b.2 else .bool false)
    | _, _ => none

def pyEval (inst : List (String × V)) (p : PyExpr) : Option V := (pyEvalF inst p).map (·.2)

/-- the instance the emitted constructor builds: one property per attribute, under the escaped name -/
def instanceOf (env : List (String × V)) : List (String × V) := env.map (fun p => (pyName p.1, p.2))

inductive Outcome | returns (v : V) | assertionError | raises
  deriving DecidableEq, Repr

/-- the emitted rule method: `eval_x = <expr>; if not eval_x: raise AssertionError(…) else: return eval_x` -/
def ruleRun (inst : List (String × V)) (p : PyExpr) : Outcome :=
  match pyEval inst p with
  | some v => if v.truthy then .returns v else .assertionError
  | none => .raises

/-! ## LOGICAL operands that may be UNKNOWN

`AND OR NOT XOR` are written `and or not !=`; the runtime's UNKNOWN is `Unknown = LOGICAL()`, a plain object: truthy, equal
only to itself.  Python's reading of the four operators on `True`, `False` and that object: -/

inductive L3 | t | f | u
  deriving DecidableEq, Repr

/-- `a and b`: `b` when `a` is truthy (True, Unknown), else `a` -/
def pyAnd3 (a b : L3) : L3 := match a with | .f => .f | _ => b
/-- `a or b`: `a` when `a` is truthy, else `b` -/
def pyOr3 (a b : L3) : L3 := match a with | .f => b | _ => a
/-- `not a`: False for a truthy operand -/
def pyNot3 (a : L3) : L3 := match a with | .f => .t | _ => .f
/-- `a != b` (how XOR is written): identity for the Unknown object, value for the booleans -/
def pyXor3 (a b : L3) : L3 := if a = b then .f else .t

/-! ## REPEAT with an increment control (`LOOPpyout`): `for i in range(a, <stop>, s)` -/

/-- the stop value `LOOPpyout` writes for `REPEAT i := a TO b BY s`: the bound itself, or — regenerated
`repeatBoundInclusive` (fixes/C18-20) — `(b) + (1 if (s) > 0 else -1)` -/
def stopWritten (b s : Int) : Int := if repeatBoundInclusive then b + (if s > 0 then 1 else -1) else b

/-- Python's `range(start, stop, step)` as the values it yields, in order: `start, start + step, …` while the value is
below `stop` (step > 0) / above `stop` (step < 0); at most `fuel` values -/
def pyRange : Nat → Int → Int → Int → List Int
  | 0, _, _, _ => []
  | f + 1, i, stop, step =>
    if (step > 0 ∧ i < stop) ∨ (step < 0 ∧ i > stop) then i :: pyRange f (i + step) stop step else []

end StepModel.GenPy.Body

namespace StepModel.GenPy.Spec.Body
open StepModel.GenPy.Body

/-- ISO 10303-11 12.4.1–12.4.4: the three-valued tables -/
def not3 : L3 → L3 | .t => .f | .f => .t | .u => .u
def and3 (a b : L3) : L3 := if a = .f ∨ b = .f then .f else if a = .u ∨ b = .u then .u else .t
def or3 (a b : L3) : L3 := if a = .t ∨ b = .t then .t else if a = .u ∨ b = .u then .u else .f
def xor3 (a b : L3) : L3 := if a = .u ∨ b = .u then .u else if a = b then .f else .t

/-- ISO 10303-11 13.9.1: the values the loop variable of `REPEAT i := a TO b BY s` takes, in order: the loop ends as soon
as the variable is above the bound (s > 0) / below it (s < 0); at most `fuel` values -/
def repeatValues : Nat → Int → Int → Int → List Int
  | 0, _, _, _ => []
  | f + 1, i, bound, step =>
    if (step > 0 ∧ i > bound) ∨ (step < 0 ∧ i < bound) then [] else i :: repeatValues f (i + step) bound step

end StepModel.GenPy.Spec.Body

namespace StepModel.GenPy.Spec.Body
open StepModel.GenPy.Body

/-- ISO 10303-11 clause 12: NOT on BOOLEAN, unary minus on INTEGER -/
def unSpec : UnOp → V → Option V
  | .not, .bool b => some (.bool (!b))
  | .neg, .int i => some (.int (-i))
  | _, _ => none

/-- ISO 10303-11 clause 12: arithmetic and value comparison on INTEGER operands, AND OR XOR = <> on BOOLEAN operands -/
def binSpec (op : BinOp) : V → V → Option V
  | .int a, .int b =>
    (match op with
     | .plus => some (.int (a + b)) | .minus => some (.int (a - b)) | .times => some (.int (a * b))
     | .eq => some (.bool (a == b)) | .ne => some (.bool (a != b)) | .lt => some (.bool (a < b))
     | .le => some (.bool (a ≤ b)) | .gt => some (.bool (a > b)) | .ge => some (.bool (a ≥ b))
     | _ => none)
  | .bool a, .bool b =>
    (match op with
     | .and => some (.bool (a && b)) | .or => some (.bool (a || b)) | .xor => some (.bool (a != b))
     | .beq => some (.bool (a == b)) | .bne => some (.bool (a != b))
     | _ => none)
  | _, _ => none

/-- the value of the expression when every attribute has a value of its declared type; `none`: ill-typed or no such
attribute -/
def eval (env : List (String × V)) : Expr → Option V
  | .int n => some (.int n)
  | .tt => some (.bool true)
  | .ff => some (.bool false)
  | .attr n => lookup env n
  | .selfAttr n => lookup env n
  | .un op x => (eval env x).bind (unSpec op)
  | .bin op l r =>
    match eval env l, eval env r with
    | some a, some b => binSpec op a b
    | _, _ => none

/-- a WHERE rule holds / is violated -/
def rule (env : List (String × V)) (e : Expr) : Option Bool :=
  match eval env e with
  | some (.bool b) => some b
  | _ => none

end StepModel.GenPy.Spec.Body

import StepModel.ComplexOrFree2
import StepModel.ComplexAccept
/-! OR-free collects: what `ComplexList::matches` and `ComplexCollect::supports` answer, in terms of `satT`/`covT`. -/
namespace StepModel.Complex.Match
open StepModel.Generated StepModel.Complex

theorem containsWalk_complete : ∀ (ours theirs : List Name), ours.Pairwise (· < ·) → theirs.Pairwise (· < ·) →
    (∀ x ∈ theirs, x ∈ ours) → containsWalk ours theirs = true
  | _, [], _, _, _ => by simp [containsWalk]
  | [], t :: _, _, _, h => by have := h t (by simp); cases this
  | o :: ours, t :: theirs, ho, ht, h => by
    have hop := List.pairwise_cons.mp ho
    have htp := List.pairwise_cons.mp ht
    simp only [containsWalk]
    by_cases h1 : o < t
    · simp only [h1, if_true]
      refine containsWalk_complete ours (t :: theirs) hop.2 ht ?_
      intro x hx
      rcases List.mem_cons.mp (h x hx) with e | e
      · -- x = o < t ≤ x
        exfalso
        rcases List.mem_cons.mp hx with e' | e'
        · rw [← e, e'] at h1; exact Nat.lt_irrefl _ h1
        · have := htp.1 x e'; rw [e] at this; exact Nat.lt_asymm h1 this
      · exact e
    · simp only [h1, if_false]
      have hto : ¬ t < o := by
        intro hlt
        rcases List.mem_cons.mp (h t (by simp)) with e | e
        · rw [e] at hlt; exact Nat.lt_irrefl _ hlt
        · exact Nat.lt_asymm hlt (hop.1 t e)
      simp only [hto, if_false]
      have hot : o = t := Nat.le_antisymm (Nat.not_lt.mp hto) (Nat.not_lt.mp h1)
      refine containsWalk_complete ours theirs hop.2 htp.2 ?_
      intro x hx
      rcases List.mem_cons.mp (h x (List.mem_cons_of_mem _ hx)) with e | e
      · have := htp.1 x hx; rw [e, hot] at this; exact absurd this (Nat.lt_irrefl _)
      · exact e

theorem mkEnts_ok (parts : List Name) : EntsOK (mkEnts [] parts) ∧ names (mkEnts [] parts) = mkNames parts ∧
    ∀ x, ¬ Mk (mkEnts [] parts) x := by
  have hn : names (mkEnts [] parts) = mkNames parts := by
    simp [names, mkEnts, List.map_map, Function.comp_def]
  refine ⟨⟨by rw [hn]; exact sorted_mkNames parts, fun e he => ?_⟩, hn, ?_⟩
  · simp only [mkEnts, List.mem_map] at he
    obtain ⟨_, _, rfl⟩ := he; exact Or.inl rfl
  · rintro x ⟨e, he, _, hm⟩
    simp only [mkEnts, List.mem_map] at he
    obtain ⟨_, _, rfl⟩ := he; exact hm rfl

/-- the lists of the OR-free fragment -/
def orFreeHead (h : Tree) : Prop := orFree h = true ∧ treeWF h = true ∧ (leaves h).Nodup ∧ ∃ r rest, h = .and (.simple r :: rest)

/-- what `ComplexList::matches` answers on an OR-free list -/
theorem matches_orfree (fuel : Nat) (combo : Bool) (h : Tree) (hh : orFreeHead h) (parts : List Name) (b : Bool)
    (hm : matchesList fuel combo h (mkEnts [] parts) = .ok b) :
    b = true ↔ satT (mkNames parts) h = true ∧ ∀ n ∈ mkNames parts, n ∈ covT (mkNames parts) h := by
  obtain ⟨hof, hwf, hnd, r, rest, rfl⟩ := hh
  obtain ⟨hok, hN, hno⟩ := mkEnts_ok parts
  generalize hes : mkEnts [] parts = es at *
  generalize hNN : mkNames parts = N at *
  simp only [matchesList, buildList] at hm
  split at hm
  · -- some part is not mentioned by the list
    rename_i hcw
    cases hm
    simp only [Bool.false_eq_true, false_iff, not_and]
    intro hs hall
    have hsub : ∀ x ∈ es.map (·.name), x ∈ (leavesL rest).foldl (fun acc x => ins x acc) [r] := by
      intro x hx
      have hxN : x ∈ N := by rw [← hN]; exact hx
      have := cov_sub_leaves N _ x (hall x hxN)
      have hmem := (mem_insAll (leavesL rest) [r] x).mpr (by
        simp only [leaves, leavesL, List.mem_append, List.mem_singleton] at this
        rcases this with e | e
        · exact Or.inl (by simp [e])
        · exact Or.inr e)
      exact hmem
    have := containsWalk_complete _ _ (sorted_insAll (leavesL rest) [r] (by simp)) hok.sorted hsub
    simp only [insAll] at this
    have hcw' : containsWalk (List.foldl (fun acc x => ins x acc) [r] (leavesL rest)) (List.map (fun x => x.name) es) = false := by
      simpa using hcw
    have this' : containsWalk (List.foldl (fun acc x => ins x acc) [r] (leavesL rest)) (List.map (fun x => x.name) es) = true := this
    rw [this'] at hcw'; cases hcw'
  · obtain ⟨⟨h1, es1, r1⟩, hn1, hn2⟩ := bind_ok' hm
    have P := (nonors_orfree N fuel).1 _ es _ hn1 hof hwf hnd hok hN (fun x _ => hno x)
    simp only at hn2
    have hcovmk : (∀ n ∈ N, n ∈ covT N (.and (.simple r :: rest))) → r1 ≠ .unsat → allMarked es1 = true := by
      intro hall hru
      obtain ⟨q1, _, _⟩ := P.sat hru
      apply (allMarked_iff (names_nodup P.ok)).mpr
      intro n hn
      rw [P.nm, hN] at hn
      exact (P.mks n).mpr (Or.inr ((q1 n).mpr (hall n hn)))
    by_cases hall : r1 = .all
    · simp only [hall, if_true] at hn2; cases hn2
      have hru : r1 ≠ .unsat := by rw [hall]; simp
      obtain ⟨q1, _, q3⟩ := P.sat hru
      simp only [true_iff]
      refine ⟨?_, fun n hn => ?_⟩
      · cases hs : satT N (.and (.simple r :: rest)) with
        | true => rfl
        | false => exact absurd (P.uns.mpr hs) hru
      · have := (allMarked_iff (names_nodup P.ok)).mp (q3.mp hall) n (by rw [P.nm, hN]; exact hn)
        rcases (P.mks n).mp this with e | e
        · exact absurd e (hno n)
        · exact (q1 n).mp e
    · have hk := P.known
      simp only [hall, if_false, hk, ne_eq, not_false_eq_true, if_true] at hn2
      cases hn2
      simp only [Bool.false_eq_true, false_iff, not_and]
      intro hs hcov
      have hru : r1 ≠ .unsat := by
        intro h'; have := P.uns.mp h'; rw [hs] at this; cases this
      exact hall ((P.sat hru).2.2.mpr (hcovmk hcov hru))

theorem foldlM_false {c : Collect} {f : Tree → Outcome Bool} :
    ∀ (acc : Bool), c.foldlM (fun a h => if a = true then pure true else f h) acc = .ok false →
      acc = false ∧ ∀ h ∈ c, f h = .ok false := by
  induction c with
  | nil => intro acc h; simp only [List.foldlM] at h; cases h; exact ⟨rfl, fun _ h => by cases h⟩
  | cons a c ih =>
    intro acc h
    simp only [List.foldlM_cons] at h
    cases acc with
    | true =>
      simp only [if_true] at h
      obtain ⟨b, hb, hrest⟩ := bind_ok' h
      cases hb
      exact absurd (ih true hrest).1 (by simp)
    | false =>
      simp only [Bool.false_eq_true, if_false] at h
      obtain ⟨b, hb, hrest⟩ := bind_ok' h
      obtain ⟨h1, h2⟩ := ih b hrest
      subst h1
      exact ⟨rfl, fun x hx => by
        rcases List.mem_cons.mp hx with e | e
        · rw [e]; exact hb
        · exact h2 x e⟩

/-- what `ComplexCollect::supports` answers on a collect of OR-free lists, request without multiply-inheriting members -/
theorem supports_orfree (c : Collect) (hc : ∀ h ∈ c, orFreeHead h) (parts : List Name) (b : Bool)
    (hs : supports c [] parts = .ok b) :
    b = true ↔ ∃ h ∈ c, satT (mkNames parts) h = true ∧ ∀ n ∈ mkNames parts, n ∈ covT (mkNames parts) h := by
  unfold supports supportsEnts at hs
  have hnm : (mkEnts [] parts).any (fun e => e.mult) = false := by simp [mkEnts]
  simp only [hnm, Bool.false_eq_true, if_false] at hs
  cases b with
  | true =>
    simp only [true_iff]
    rcases foldlM_true false hs with h1 | ⟨h, hh, hm⟩
    · cases h1
    · exact ⟨h, hh, (matches_orfree _ false h (hc h hh) parts true hm).mp rfl⟩
  | false =>
    simp only [Bool.false_eq_true, false_iff, not_exists, not_and]
    intro h hh hsat hcov
    have hm := (foldlM_false false hs).2 h hh
    have := (matches_orfree _ false h (hc h hh) parts false hm).mpr ⟨hsat, hcov⟩
    cases this

end StepModel.Complex.Match

import StepModel.GenCxxAgree
import StepModel.GenCxxDedup
import StepModel.GenCxxFrame
/-! Which attributes of a fresh instance are flagged `_derive`, for ANY supertype graph (several supertypes, shared ancestors,
parts of parts): exactly those named by the closed form `derivedIn` of the instance's entity. -/
namespace StepModel.GenCxx
open StepModel.Generated Spec

/-! ## fuel independence of the closed forms -/

theorem findSome?_congr' {α β : Type} {F G : α → Option β} : ∀ (L : List α), (∀ q ∈ L, F q = G q) → L.findSome? F = L.findSome? G
  | [], _ => rfl
  | q :: qs, h => by
    rw [List.findSome?_cons, List.findSome?_cons, h q (by simp), findSome?_congr' qs (fun r hr => h r (by simp [hr]))]

theorem any_congr' {α : Type} {F G : α → Bool} : ∀ (L : List α), (∀ q ∈ L, F q = G q) → L.any F = L.any G
  | [], _ => rfl
  | q :: qs, h => by
    rw [List.any_cons, List.any_cons, h q (by simp), any_congr' qs (fun r hr => h r (by simp [hr]))]

theorem callInfo_succ (s : Schema) (f : Nat) (n x : String) :
    callInfo s (f + 1) n x = match s.findE n with
      | none => none
      | some e => e.attrs.foldl (infoStep n x) (e.supers.findSome? (fun sup => callInfo s f sup x)) := rfl

theorem callInfo_fuel {s : Schema} {rank : String → Nat} (wf : WF s rank) (x : String) :
    ∀ (f g : Nat) (m : String), rank m < f → rank m < g → callInfo s f m x = callInfo s g m x := by
  intro f
  induction f with
  | zero => intro g m h; omega
  | succ f ih =>
    intro g m hf hg
    cases g with
    | zero => omega
    | succ g =>
      rw [callInfo_succ, callInfo_succ]
      cases hE : s.findE m with
      | none => rfl
      | some e =>
        simp only
        rw [findSome?_congr' e.supers (fun q hq => ih g q (by have := (wf.supers m e hE q hq).2; omega)
          (by have := (wf.supers m e hE q hq).2; omega))]

theorem derivedIn_succ (s : Schema) (f : Nat) (n x cr : String) :
    derivedIn s (f + 1) n x cr = match s.findE n with
      | none => false
      | some e => e.supers.any (fun q => derivedIn s f q x cr) || callInfo s (f + 1) n x == some (cr, true) := rfl

theorem derivedIn_fuel {s : Schema} {rank : String → Nat} (wf : WF s rank) (x cr : String) :
    ∀ (f g : Nat) (m : String), rank m < f → rank m < g → derivedIn s f m x cr = derivedIn s g m x cr := by
  intro f
  induction f with
  | zero => intro g m h; omega
  | succ f ih =>
    intro g m hf hg
    cases g with
    | zero => omega
    | succ g =>
      rw [derivedIn_succ, derivedIn_succ]
      cases hE : s.findE m with
      | none => rfl
      | some e =>
        simp only
        rw [any_congr' e.supers (fun q hq => ih g q (by have := (wf.supers m e hE q hq).2; omega)
          (by have := (wf.supers m e hE q hq).2; omega)), callInfo_fuel wf x (f + 1) (g + 1) m hf hg]

/-- what a supertype's list has marked, the subtype's closed form has too -/
theorem derivedIn_super {s : Schema} {rank : String → Nat} (wf : WF s rank) {m : String} {e : Entity} (hE : s.findE m = some e)
    {q : String} (hq : q ∈ e.supers) (x cr : String) (h : derivedIn s (fuelOf s) q x cr = true) :
    derivedIn s (fuelOf s) m x cr = true := by
  have hb := wf.bound m e hE
  have hrq := (wf.supers m e hE q hq).2
  have hF : fuelOf s = (fuelOf s - 1) + 1 := by omega
  rw [hF, derivedIn_succ, hE]
  simp only [Bool.or_eq_true]
  refine Or.inl (List.any_eq_true.2 ⟨q, hq, ?_⟩)
  rw [derivedIn_fuel wf x cr (fuelOf s - 1) (fuelOf s) q (by omega) (by omega)]
  exact h

/-! ## no constructor step sets `_derive` except `MakeDerived` -/

/-- `st'` has at least the objects of `st`, with the same descriptors, and no `_derive` flag that `st` does not have -/
def NoNewD (st st' : IState) : Prop :=
  st.objs.length ≤ st'.objs.length ∧ (∀ j, j < st.objs.length → saAt st' j = saAt st j) ∧ ∀ j, dAt st' j = true → dAt st j = true

theorem NoNewD.refl (st : IState) : NoNewD st st := ⟨Nat.le_refl _, fun _ _ => rfl, fun _ h => h⟩

theorem dAt_lt {st : IState} {j : Nat} (h : dAt st j = true) : j < st.objs.length := by
  unfold dAt at h
  cases hj : st.objs[j]? with
  | none => simp [hj] at h
  | some o => exact Nat.lt_of_not_le (fun hl => by rw [List.getElem?_eq_none hl] at hj; cases hj)

theorem NoNewD.trans {x y z : IState} (h1 : NoNewD x y) (h2 : NoNewD y z) : NoNewD x z :=
  ⟨Nat.le_trans h1.1 h2.1,
   fun j hj => (h2.2.1 j (Nat.lt_of_lt_of_le hj h1.1)).trans (h1.2.1 j hj),
   fun j h => h1.2.2 j (h2.2.2 j h)⟩

theorem noNewD_setRedef (st : IState) (i : Nat) : NoNewD st (setRedef st i) :=
  ⟨by simp [setRedef, modAt_length], fun j _ => saAt_setRedef st i j, fun j h => by rw [dAt_setRedef] at h; exact h⟩

theorem noNewD_newObj (st : IState) (sa : SA) (hd : List Nat) :
    NoNewD st { objs := st.objs ++ [{ sa := sa }], head := hd } := by
  refine ⟨by simp, fun j hj => ?_, fun j h => ?_⟩
  · show ((st.objs ++ [({ sa := sa } : Obj)])[j]?).map (·.sa) = saAt st j
    unfold saAt; rw [List.getElem?_append_left hj]
  · have hlt := dAt_lt h
    simp only [List.length_append, List.length_singleton] at hlt
    by_cases hj : j < st.objs.length
    · unfold dAt at h ⊢
      simp only at h
      rw [List.getElem?_append_left hj] at h
      exact h
    · have : j = st.objs.length := by omega
      subst this
      unfold dAt at h
      simp at h

theorem ownStep_noNewD (ro : Attr → Option String) (e : Entity) (st : IState) (c : Option (List Nat)) (a : Attr) :
    NoNewD st (ownStep ro e (st, c) a).1 := by
  let sa : SA := { owner := e.name, name := dictAttrName a, kind := attrDKind a }
  let st1 : IState := { st with objs := st.objs ++ [{ sa := sa }] }
  let st2 : IState := { st1 with head := pushId st1 st1.head st.objs.length }
  have h12 : NoNewD st st2 := noNewD_newObj st sa _
  cases c with
  | none =>
    have hres : (ownStep ro e (st, none) a).1 =
        (if a.redecl.isSome then
          (match findAttr st2 st2.head a.name (ro a) with | some j => setRedef st2 j | none => st2) else st2) := rfl
    rw [hres]
    by_cases hr : a.redecl.isSome = true
    · simp only [hr, ↓reduceIte]
      cases findAttr st2 st2.head a.name (ro a) with
      | none => exact h12
      | some j => exact h12.trans (noNewD_setRedef st2 j)
    · simp only [hr]; exact h12
  | some l =>
    let l' := pushId st1 l st.objs.length
    have hres : (ownStep ro e (st, some l) a).1 =
        (if a.redecl.isSome then
          (match findAttr st2 l' a.name (ro a) with | some j => setRedef st2 j | none => st2) else st2) := rfl
    rw [hres]
    by_cases hr : a.redecl.isSome = true
    · simp only [hr, ↓reduceIte]
      cases findAttr st2 l' a.name (ro a) with
      | none => exact h12
      | some j => exact h12.trans (noNewD_setRedef st2 j)
    · simp only [hr]; exact h12

theorem ownLoop_noNewD (ro : Attr → Option String) (e : Entity) (st : IState) (c : Option (List Nat)) :
    NoNewD st (ownLoop ro e st c).1 := by
  unfold ownLoop
  generalize e.attrs.filter (fun a => a.kind == .explicit) = as
  induction as generalizing st c with
  | nil => exact NoNewD.refl st
  | cons a as ih =>
    simp only [List.foldl_cons]
    have h1 := ownStep_noNewD ro e st c a
    have hpair : ownStep ro e (st, c) a = ((ownStep ro e (st, c) a).1, (ownStep ro e (st, c) a).2) := rfl
    rw [hpair]
    exact h1.trans (ih _ _)

/-- `MakeDerived` calls on any list: the descriptors stay, and an object flagged afterwards was flagged or is named by a call -/
theorem applyDerived_sound (calls : List (String × String)) (l : List Nat) : ∀ (st : IState),
    (applyDerived st l calls).objs.length = st.objs.length ∧ (∀ j, saAt (applyDerived st l calls) j = saAt st j) ∧
    ∀ j, dAt (applyDerived st l calls) j = true → dAt st j = true ∨ ∃ a, saAt st j = some a ∧ (a.name, a.owner) ∈ calls := by
  unfold applyDerived
  induction calls with
  | nil => intro st; exact ⟨rfl, fun _ => rfl, fun _ h => Or.inl h⟩
  | cons c cs ih =>
    intro st
    simp only [List.foldl_cons]
    cases hf : findAttr st l c.1 (some c.2) with
    | none =>
      simp only
      obtain ⟨i1, i2, i3⟩ := ih st
      refine ⟨i1, i2, fun j h => ?_⟩
      rcases i3 j h with h' | ⟨a, ha, hm⟩
      · exact Or.inl h'
      · exact Or.inr ⟨a, ha, by simp [hm]⟩
    | some i =>
      simp only
      obtain ⟨i1, i2, i3⟩ := ih (setDerive st i)
      refine ⟨by rw [i1]; simp [setDerive, modAt_length], fun j => by rw [i2, saAt_setDerive], fun j h => ?_⟩
      rcases i3 j h with h' | ⟨a, ha, hm⟩
      · rw [dAt_setDerive] at h'
        simp only [Bool.or_eq_true, Bool.and_eq_true, beq_iff_eq, decide_eq_true_eq] at h'
        rcases h' with h' | ⟨hji, _⟩
        · exact Or.inl h'
        · -- the object the call found: its name and owner are the call's
          subst hji
          unfold findAttr at hf
          have hp := List.find?_some hf
          cases hs : saAt st j with
          | none => simp [hs] at hp
          | some a =>
            simp only [hs, Bool.and_eq_true, beq_iff_eq] at hp
            exact Or.inr ⟨a, rfl, by rw [hp.1, ← hp.2]; simp⟩
      · rw [saAt_setDerive] at ha
        exact Or.inr ⟨a, ha, by simp [hm]⟩

/-! ## the invariant -/

/-- every object flagged `_derive` is named by the closed form of `n0` -/
def DerInv (s : Schema) (n0 : String) (st : IState) : Prop :=
  ∀ j a, saAt st j = some a → dAt st j = true → derivedIn s (fuelOf s) n0 a.name a.owner = true

/-- what `m`'s lists have marked, `n0`'s closed form has too (`m` is `n0` or one of its supertypes) -/
def Up (s : Schema) (n0 m : String) : Prop :=
  ∀ x cr, derivedIn s (fuelOf s) m x cr = true → derivedIn s (fuelOf s) n0 x cr = true

theorem DerInv.noNew {s : Schema} {n0 : String} {st st' : IState} (h : DerInv s n0 st) (hn : NoNewD st st') : DerInv s n0 st' := by
  intro j a hs hd
  have hd0 := hn.2.2 j hd
  have hlt := dAt_lt hd0
  exact h j a (by rw [← hn.2.1 j hlt]; exact hs) hd0

theorem DerInv.applyDerived {s : Schema} {n0 : String} {st : IState} (h : DerInv s n0 st) (l : List Nat) (calls : List (String × String))
    (hc : ∀ c ∈ calls, derivedIn s (fuelOf s) n0 c.1 c.2 = true) : DerInv s n0 (applyDerived st l calls) := by
  intro j a hs hd
  obtain ⟨_, i2, i3⟩ := applyDerived_sound calls l st
  rw [i2] at hs
  rcases i3 j hd with h' | ⟨b, hb, hm⟩
  · exact h j a hs h'
  · rw [hs] at hb
    cases hb
    exact hc _ hm

variable {s : Schema} {rank : String → Nat}

/-- the calls of `m`'s constructors are in `n0`'s closed form -/
theorem calls_up (wf : WF s rank) (rr : RedeclResolves s) (r1 : RedeclNamesOneLine s) (hm : dedupMergesDeriver = true)
    {n0 m : String} (hu : Up s n0 m) : ∀ c ∈ derivedCalls s m, derivedIn s (fuelOf s) n0 c.1 c.2 = true := by
  intro c hc
  apply hu
  rw [derivedCalls_agree wf rr r1 m] at hc
  exact (derivedCallsN_closed hm s m c.1 c.2).1 hc

theorem up_super (wf : WF s rank) {n0 m : String} {e : Entity} (hE : s.findE m = some e) (hu : Up s n0 m) {q : String}
    (hq : q ∈ e.supers) : Up s n0 q :=
  fun x cr h => hu x cr (derivedIn_super wf hE hq x cr h)

/-- the constructor with arguments (a part, or a C++ base of a part) keeps the invariant -/
theorem ctorWF_dinv (wf : WF s rank) (rr : RedeclResolves s) (r1 : RedeclNamesOneLine s) (hm : dedupMergesDeriver = true) (n0 : String) :
    ∀ (f : Nat) (m : String) (st : IState) (cur : List Nat), Up s n0 m → DerInv s n0 st → DerInv s n0 (ctorWF s f m st cur).1 := by
  intro f
  induction f with
  | zero => intro m st cur _ h; exact h
  | succ f ih =>
    intro m st cur hu h
    rw [ctorWF_succ]
    cases hE : s.findE m with
    | none => exact h
    | some e =>
      simp only
      have hfold : ∀ (L : List String), (∀ q ∈ L, q ∈ e.supers) → ∀ st' : IState, DerInv s n0 st' →
          DerInv s n0 (L.foldl (fun st q => (ctorWF s f q st []).1) st') := by
        intro L
        induction L with
        | nil => intro _ st' h'; exact h'
        | cons q qs ihq =>
          intro hmem st' h'
          simp only [List.foldl_cons]
          exact ihq (fun r hr => hmem r (by simp [hr])) _ (ih q st' [] (up_super wf hE hu (hmem q (by simp))) h')
      have body : ∀ (p1 : IState × List Nat) (tail : List String), (∀ q ∈ tail, q ∈ e.supers) → DerInv s n0 p1.1 →
          DerInv s n0 (applyDerived (ownLoop (redefOwner s) e (tail.foldl (fun st q => (ctorWF s f q st []).1) p1.1) (some p1.2)).1
              ((ownLoop (redefOwner s) e (tail.foldl (fun st q => (ctorWF s f q st []).1) p1.1) (some p1.2)).2.getD []) (derivedCalls s m)) := by
        intro p1 tail ht hp1
        have h2 := hfold tail ht p1.1 hp1
        exact (h2.noNew (ownLoop_noNewD _ e _ _)).applyDerived _ _ (calls_up wf rr r1 hm hu)
      cases hs : e.supers with
      | nil => exact body (st, cur) [] (by simp) h
      | cons p ps =>
        have hp : p ∈ e.supers := by rw [hs]; simp
        exact body (ctorWF s f p st cur) ps (fun q hq => by rw [hs]; simp [hq]) (ih p st cur (up_super wf hE hu hp) h)

/-- … and so does the constructor without arguments (the instance itself and its C++ bases) -/
theorem ctorNF_dinv (wf : WF s rank) (rr : RedeclResolves s) (r1 : RedeclNamesOneLine s) (hm : dedupMergesDeriver = true) (n0 : String) :
    ∀ (f : Nat) (m : String) (st : IState), Up s n0 m → DerInv s n0 st → DerInv s n0 (ctorNF s f m st) := by
  intro f
  induction f with
  | zero => intro m st _ h; exact h
  | succ f ih =>
    intro m st hu h
    rw [ctorNF_succ]
    cases hE : s.findE m with
    | none => exact h
    | some e =>
      simp only
      have hfold : ∀ (L : List String), (∀ q ∈ L, q ∈ e.supers) → ∀ st' : IState, DerInv s n0 st' →
          DerInv s n0 (L.foldl (fun st q => (ctorWF s f q st []).1) st') := by
        intro L
        induction L with
        | nil => intro _ st' h'; exact h'
        | cons q qs ihq =>
          intro hmem st' h'
          simp only [List.foldl_cons]
          exact ihq (fun r hr => hmem r (by simp [hr])) _
            (ctorWF_dinv wf rr r1 hm n0 f q st' [] (up_super wf hE hu (hmem q (by simp))) h')
      have body : ∀ (st1 : IState) (tail : List String), (∀ q ∈ tail, q ∈ e.supers) → DerInv s n0 st1 →
          DerInv s n0 (applyDerived (ownLoop (redefOwner s) e (tail.foldl (fun st q => (ctorWF s f q st []).1) st1) none).1
              (ownLoop (redefOwner s) e (tail.foldl (fun st q => (ctorWF s f q st []).1) st1) none).1.head (derivedCalls s m)) := by
        intro st1 tail ht hp1
        have h2 := hfold tail ht st1 hp1
        exact (h2.noNew (ownLoop_noNewD _ e _ _)).applyDerived _ _ (calls_up wf rr r1 hm hu)
      cases hs : e.supers with
      | nil => exact body st [] (by simp) h
      | cons p ps =>
        have hp : p ∈ e.supers := by rw [hs]; simp
        exact body (ctorNF s f p st) ps (fun q hq => by rw [hs]; simp [hq]) (ih p st (up_super wf hE hu hp) h)

/-- **soundness**: whatever a fresh instance of `n` has flagged `_derive` is named by the closed form of `n` -/
theorem flags_derive_sound (wf : WF s rank) (rr : RedeclResolves s) (r1 : RedeclNamesOneLine s) (hm : dedupMergesDeriver = true)
    (n : String) (f : Nat) : DerInv s n (ctorNF s f n {}) :=
  ctorNF_dinv wf rr r1 hm n f n {} (fun _ _ h => h) (fun j a hs _ => by simp [saAt] at hs)

/-- **which attributes of a fresh instance are flagged `_derive`, for any supertype graph**: exactly those the closed form of the
    instance's entity names.  `hk`: the head's attributes are told apart by (owner, registered name). -/
theorem flags_derive_full (wf : WF s rank) (rr : RedeclResolves s) (r1 : RedeclNamesOneLine s) (hm : dedupMergesDeriver = true)
    (f : Nat) (n : String) (e : Entity) (hE : s.findE n = some e) (hk : HeadKeyInj (ctorNF s (f + 1) n {}))
    (j : Nat) (hjh : j ∈ (ctorNF s (f + 1) n {}).head) (a : SA) (hj : saAt (ctorNF s (f + 1) n {}) j = some a) :
    dAt (ctorNF s (f + 1) n {}) j = true ↔ derivedIn s (fuelOf s) n a.name a.owner = true := by
  constructor
  · exact flags_derive_sound wf rr r1 hm n (f + 1) j a hj
  · intro hd
    have hcall : (a.name, a.owner) ∈ derivedCalls s n := by
      rw [derivedCalls_agree wf rr r1 n]
      exact (derivedCallsN_closed hm s n a.name a.owner).2 hd
    -- the last thing the constructor does: its own MakeDerived calls on the head
    have hunf : ∃ mid : IState, ctorNF s (f + 1) n {} = applyDerived mid mid.head (derivedCalls s n) := by
      rw [ctorNF_succ, hE]
      exact ⟨_, rfl⟩
    obtain ⟨mid, hmid⟩ := hunf
    obtain ⟨q1, _, q3⟩ := applyDerived_projR (derivedCalls s n) mid mid.head
    have hsaeq : ∀ i, saAt (applyDerived mid mid.head (derivedCalls s n)) i = saAt mid i := by
      intro i
      simp only [saAt]
      have := congrArg (fun l => l[i]?) q3
      simpa using this
    rw [hmid] at hk hjh hj ⊢
    have hkm : HeadKeyInj mid := by
      intro i1 h1 j1 h2 x y hx hy hxy
      exact hk i1 (by rw [q1]; exact h1) j1 (by rw [q1]; exact h2) x y (by rw [hsaeq]; exact hx) (by rw [hsaeq]; exact hy) hxy
    have := (applyDerived_on_head (derivedCalls s n) mid hkm).2.2 j (by rw [← q1]; exact hjh) a (by rw [← hsaeq]; exact hj)
    rw [this]
    exact Or.inr hcall

end StepModel.GenCxx

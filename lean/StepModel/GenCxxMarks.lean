import StepModel.Generated.CxxMarksGen
/-!
# SCOPEPrint's entity loop and the marks it relies on (src/exp2cxx/classes_wrapper.cc, multpass.c)

The pass logic (`checkTypes`, `checkEnts`; `GenCxxPass.lean`) leaves a mark in `search_id` of every type and entity of the schema;
`SCOPEPrint` then walks the entities in dictionary order: `if( e->search_id == CANPROCESS ) { ENTITYPrint( e, … ); e->search_id = PROCESSED; }`.
`search_id` is also libexpress' "visited" stamp: any libexpress search (`ENTITYfind_inherited_attribute`, `SCOPEfind`, …) run while
an entity is printed overwrites the marks of the scopes it visits.  `clobber e` = the entities whose mark printing `e` overwrites that way.
Which functions linked into exp2cxx call such a libexpress function is regenerated (`Generated.CxxMarks.foreignMarkWriters`).
-/
namespace StepModel.Marks

inductive Mark
  | notknown | cantprocess | canprocess | processed
  | stamp (n : Nat)        -- a value of libexpress' `__SCOPE_search_id`
  deriving DecidableEq, Repr

structure PrintSt where
  marks : String → Mark
  printed : List String     -- ENTITYPrint calls, in order (each creates entity/Sdai<E>.h and .cc)

/-- one round of the entity loop -/
def printStep (clobber : String → List String) (st : PrintSt) (e : String) : PrintSt :=
  if st.marks e = .canprocess then
    { marks := fun x => if x = e then .processed else if x ∈ clobber e then .stamp 0 else st.marks x
      printed := st.printed ++ [e] }
  else st

/-- the entity loop of `SCOPEPrint` over the entities in dictionary order -/
def entityLoop (clobber : String → List String) (ents : List String) (st : PrintSt) : PrintSt :=
  ents.foldl (printStep clobber) st

/-- the marks are the pass machinery's own while a schema is printed: nothing linked into exp2cxx calls a libexpress function
    that stamps `search_id`, and `search_id` is assigned only by the pass machinery (multpass.c, SCOPEPrint) and by the
    ComplexCollect constructor, which runs before the marks are initialised -/
def marksPrivate : Bool :=
  Generated.CxxMarks.foreignMarkWriters.isEmpty &&
  Generated.CxxMarks.ownMarkWriters.all fun (f, _) => f == "multpass.c" || f == "classes_wrapper.cc" || f == "expressbuild.cc"

theorem entityLoop_private (ents : List String) (hnd : ents.Nodup) (st : PrintSt) :
    (entityLoop (fun _ => []) ents st).printed = st.printed ++ ents.filter (fun e => st.marks e = .canprocess) ∧
    ∀ x, x ∉ ents → (entityLoop (fun _ => []) ents st).marks x = st.marks x := by
  induction ents generalizing st with
  | nil => simp [entityLoop]
  | cons e r ih =>
    have hn := List.nodup_cons.mp hnd
    simp only [entityLoop, List.foldl_cons]
    have ih' := ih hn.2 (printStep (fun _ => []) st e)
    simp only [entityLoop] at ih'
    have hm : ∀ x, x ≠ e → (printStep (fun _ => []) st e).marks x = st.marks x := by
      intro x hx
      unfold printStep
      split <;> simp [hx]
    have hf : r.filter (fun x => (printStep (fun _ => []) st e).marks x = .canprocess) = r.filter (fun x => st.marks x = .canprocess) := by
      apply List.filter_congr
      intro x hx
      rw [hm x (by intro e'; subst e'; exact hn.1 hx)]
    refine ⟨?_, ?_⟩
    · rw [ih'.1, hf]
      unfold printStep
      by_cases hc : st.marks e = .canprocess
      · simp [hc]
      · simp [hc]
    · intro x hx
      have hx' : x ≠ e ∧ x ∉ r := by simpa using hx
      rw [ih'.2 x hx'.2, hm x hx'.1]

end StepModel.Marks

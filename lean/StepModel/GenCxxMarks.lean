import StepModel.Generated.CxxMarksGen
/-!
# SCOPEPrint's entity loop and the marks it relies on (src/exp2cxx/classes_wrapper.cc, multpass.c)

The pass logic (`checkTypes`, `checkEnts`; `GenCxxPass.lean`) leaves a mark in `search_id` of every type and entity of the schema;
`SCOPEPrint` then walks the entities in dictionary order: `if( e->search_id == CANPROCESS ) { ENTITYPrint( e, … ); e->search_id = PROCESSED; }`.
`search_id` is also libexpress' "visited" stamp: any libexpress search (`ENTITYfind_inherited_attribute`, `SCOPEfind`, …) run while
an entity is printed overwrites the marks of the scopes it visits.  `clobber e` = the entities whose mark printing `e` overwrites that way.
Which functions linked into exp2cxx call such a libexpress function is regenerated (`Generated.CxxMarks.foreignMarkWriters`).
-/
namespace StepModel.Marks

inductive Mark
  | notknown | cantprocess | canprocess | processed
  | stamp (n : Nat)        -- a value of libexpress' `__SCOPE_search_id`
  deriving DecidableEq, Repr

structure PrintSt where
  marks : String → Mark
  printed : List String     -- ENTITYPrint calls, in order (each creates entity/Sdai<E>.h and .cc)

/-- one round of the entity loop -/
def printStep (clobber : String → List String) (st : PrintSt) (e : String) : PrintSt :=
  if st.marks e = .canprocess then
    { marks := fun x => if x = e then .processed else if x ∈ clobber e then .stamp 0 else st.marks x
      printed := st.printed ++ [e] }
  else st

/-- the entity loop of `SCOPEPrint` over the entities in dictionary order -/
def entityLoop (clobber : String → List String) (ents : List String) (st : PrintSt) : PrintSt :=
  ents.foldl (printStep clobber) st

/-- the marks are the pass machinery's own while a schema is printed: nothing linked into exp2cxx calls a libexpress function
    that stamps `search_id`, and `search_id` is assigned only by the pass machinery (multpass.c, SCOPEPrint) and by the
    ComplexCollect constructor, which runs before the marks are initialised -/
def marksPrivate : Bool :=
  Generated.CxxMarks.foreignMarkWriters.isEmpty &&
  Generated.CxxMarks.ownMarkWriters.all fun (f, _) => f == "multpass.c" || f == "classes_wrapper.cc" || f == "expressbuild.cc"

end StepModel.Marks

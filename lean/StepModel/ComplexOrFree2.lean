import StepModel.ComplexOrFree
/-! `matchNonORs` on OR-free lists: the specification, proved by induction on the fuel. -/
namespace StepModel.Complex.Match
open StepModel.Generated StepModel.Complex

/-- what `matchNonORs` leaves behind on a fresh OR-free list `t` none of whose leaves was marked (request names `N`) -/
structure NP (N : List Name) (t : Tree) (es : Ents) (r : ST × Ents × MT) : Prop where
  ok : EntsOK r.2.1
  nm : names r.2.1 = names es
  pok : POK r.1
  via : r.1.viable = r.2.2
  known : r.2.2 ≠ .unknown
  pin : ∀ x ∈ placed r.1, x ∈ leaves t ∧ x ∈ N
  mks : ∀ x, Mk r.2.1 x ↔ Mk es x ∨ x ∈ placed r.1
  uns : r.2.2 = .unsat ↔ satT N t = false
  sat : r.2.2 ≠ .unsat → (∀ x, x ∈ placed r.1 ↔ x ∈ covT N t) ∧ (r.2.2 = .all ∨ r.2.2 = .some_) ∧
    (r.2.2 = .all ↔ allMarked r.2.1 = true)

/-- the children processed by the loop of `AndList::matchNonORs` -/
structure AndTail (N : List Name) (restT : List Tree) (es es' : Ents) (failed : Bool) (tail : List ST) : Prop where
  len : tail.length = restT.length
  pok : POKL tail
  pin : ∀ x ∈ placedL tail, x ∈ leavesL restT ∧ x ∈ N
  mks : ∀ x, Mk es' x ↔ Mk es x ∨ x ∈ placedL tail
  bad : failed = true → satAll N restT = false
  good : failed = false → satAll N restT = true ∧ (∀ x, x ∈ placedL tail ↔ x ∈ covAll N restT) ∧
    (∀ c ∈ tail, c.viable = .some_ ∨ c.viable = .all) ∧ (tail ≠ [] → allMarked es' = true → ∃ c ∈ tail, c.viable = .all)

/-- the children processed by the loop of `AndOrList::matchNonORs` -/
structure AndOrTail (N : List Name) (restT : List Tree) (es es' : Ents) (early : Bool) (tail : List ST) : Prop where
  len : tail.length = restT.length
  pok : POKL tail
  pin : ∀ x ∈ placedL tail, x ∈ leavesL restT ∧ x ∈ N
  mks : ∀ x, Mk es' x ↔ Mk es x ∨ x ∈ placedL tail
  cov : ∀ x, x ∈ placedL tail ↔ x ∈ covSat N restT
  yes : early = true → satAny N restT = true ∧ allMarked es' = true
  no : early = false → (∀ c ∈ tail, c.viable = .unsat ∨ c.viable = .some_) ∧
    ((∃ c ∈ tail, c.viable = .some_) ↔ satAny N restT = true) ∧ (satAny N restT = true → allMarked es' = false)

theorem nodup_split {a b : List Name} (h : (a ++ b).Nodup) : a.Nodup ∧ b.Nodup ∧ ∀ x ∈ a, x ∉ b := by
  have := List.nodup_append.mp h
  exact ⟨this.1, this.2.1, fun x hx hx' => this.2.2 x hx x hx' rfl⟩

theorem allMarked_congr {es es' : Ents} (h1 : EntsOK es) (h2 : EntsOK es') (hn : names es' = names es)
    (hm : ∀ x, Mk es' x ↔ Mk es x) : allMarked es' = allMarked es := by
  have a1 := allMarked_iff (names_nodup h1)
  have a2 := allMarked_iff (names_nodup h2)
  rw [hn] at a2
  have : allMarked es' = true ↔ allMarked es = true := by
    rw [a1, a2]; constructor
    · intro h n hn'; exact (hm n).mp (h n hn')
    · intro h n hn'; exact (hm n).mpr (h n hn')
  cases h' : allMarked es' <;> cases h'' : allMarked es <;> simp_all


theorem freshL_length (ts : List Tree) : (freshL ts).length = ts.length := by
  induction ts with
  | nil => rfl
  | cons t ts ih => simp [freshL, ih]

theorem freshL_isEmpty {ts : List Tree} (h : ts ≠ []) : (freshL ts).isEmpty = false := by
  cases ts with
  | nil => exact absurd rfl h
  | cons => rfl

theorem ne_nil_of_len {α β : Type} {a : List α} {b : List β} (h : a.length = b.length) (hb : b ≠ []) : a ≠ [] := by
  intro ha; subst ha
  cases b with
  | nil => exact hb rfl
  | cons => simp at h

theorem nonors_orfree (N : List Name) : ∀ f : Nat,
    (∀ t es r, matchNonORs f (fresh t) es = .ok r → orFree t = true → treeWF t = true → (leaves t).Nodup → EntsOK es →
      names es = N → (∀ x ∈ leaves t, ¬ Mk es x) → NP N t es r) ∧
    (∀ restT done es r, andNonORs f done (freshL restT) es = .ok r → orFreeL restT = true → treeWFL restT = true →
      (leavesL restT).Nodup → EntsOK es → names es = N → (∀ x ∈ leavesL restT, ¬ Mk es x) →
      EntsOK r.2.1 ∧ names r.2.1 = N ∧ ∃ tail, r.1 = done ++ tail ∧ AndTail N restT es r.2.1 r.2.2 tail) ∧
    (∀ restT done es r, andorNonORs f done (freshL restT) es = .ok r → orFreeL restT = true → treeWFL restT = true →
      (leavesL restT).Nodup → EntsOK es → names es = N → (∀ x ∈ leavesL restT, ¬ Mk es x) →
      (∀ c ∈ done, c.viable ≠ .unknown) →
      EntsOK r.2.1 ∧ names r.2.1 = N ∧ ∃ tail, r.1 = done ++ tail ∧ AndOrTail N restT es r.2.1 r.2.2 tail) := by
  intro f
  induction f with
  | zero =>
    exact ⟨fun _ _ _ h => by simp [matchNonORs] at h, fun _ _ _ _ h => by simp [andNonORs] at h,
      fun _ _ _ _ h => by simp [andorNonORs] at h⟩
  | succ f ih =>
    obtain ⟨ih1, ih2, ih3⟩ := ih
    refine ⟨?_, ?_, ?_⟩
    -- ------------------------------------------------------------ matchNonORs
    · intro t es r h hof hwf hnd hok hN hun
      cases t with
      | or cs => simp [orFree] at hof
      | simple n =>
        simp only [fresh, matchNonORs] at h
        cases h
        have hnm : ¬ Mk es n := hun n (by simp [leaves])
        rcases simpleMatch_spec hok n hnm with ⟨hnot, heq⟩ | ⟨hin, es', r', heq, hok', hnm', hmk, hr, hall⟩
        · rw [heq]
          refine ⟨hok, rfl, POK_simple_no n .unsat, rfl, by simp, fun x hx => by simp [placed_simple_no] at hx,
            fun x => by simp [placed_simple_no], ?_, fun h => absurd rfl h⟩
          simp only [satT, true_iff]
          rw [← hN]; simpa using hnot
        · rw [heq]
          have hru : r' ≠ .unsat := by rcases hr with h | h <;> rw [h] <;> simp
          refine ⟨hok', hnm', ⟨fun _ => by rcases hr with h | h <;> rw [h] <;> simp [MT.rank], by simp⟩, rfl,
            by rcases hr with h | h <;> rw [h] <;> simp, ?_, ?_, ?_, fun _ => ⟨?_, hr.symm.symm, hall⟩⟩
          · intro x hx
            rw [placed_simple_mk] at hx; simp only [List.mem_singleton] at hx; subst hx
            exact ⟨by simp [leaves], by rw [← hN]; exact hin⟩
          · intro x; rw [hmk x, placed_simple_mk]; simp only [List.mem_singleton]; exact Or.comm
          · constructor
            · intro h'; exact absurd h' hru
            · intro h'; simp only [satT] at h'; rw [← hN] at h'; simp at h'; exact absurd hin h'
          · intro x; rw [placed_simple_mk]; simp [covT]
      | and ts =>
        simp only [orFree] at hof
        simp only [treeWF, Bool.and_eq_true, Bool.not_eq_true', List.isEmpty_eq_false_iff] at hwf
        simp only [leaves] at hnd hun
        simp only [fresh, matchNonORs, freshL_isEmpty hwf.1, Bool.false_eq_true, if_false] at h
        obtain ⟨⟨cs', es', failed⟩, h1, h2⟩ := bind_ok' h
        obtain ⟨hok', hnm', tail, htail, T⟩ := ih2 ts [] es _ h1 hof hwf.2 hnd hok hN hun
        simp only [List.nil_append] at htail
        have hne : tail ≠ [] := ne_nil_of_len T.len hwf.1
        cases failed with
        | true =>
          simp only [if_true] at h2; cases h2
          have htail' := htail.symm; subst htail'
          refine ⟨hok', by rw [hnm', hN], ⟨by simp, T.pok⟩, rfl, by simp, fun x hx => T.pin x hx, T.mks, ?_,
            fun h => absurd rfl h⟩
          simp only [satT, true_iff]; exact T.bad rfl
        | false =>
          simp only [Bool.false_eq_true, if_false] at h2; cases h2
          have htail' := htail.symm; subst htail'
          obtain ⟨g1, g2, g3, g4⟩ := T.good rfl
          obtain ⟨s1, s2⟩ := setViableVal_and tail es' hne g3
          have hvu : setViableVal tail es' ≠ .unsat := by rcases s1 with h | h <;> rw [h] <;> simp
          refine ⟨hok', by rw [hnm', hN], ⟨by simp, T.pok⟩, rfl, by rcases s1 with h | h <;> rw [h] <;> simp,
            fun x hx => T.pin x hx, T.mks, ?_, fun _ => ⟨g2, s1.symm, ?_⟩⟩
          · constructor
            · intro h'; exact absurd h' hvu
            · intro h'; simp only [satT] at h'; rw [g1] at h'; cases h'
          · constructor
            · intro h'; exact (s2.mp h').2
            · intro h'; exact s2.mpr ⟨g4 hne h', h'⟩
      | andor ts =>
        simp only [orFree] at hof
        simp only [treeWF, Bool.and_eq_true, Bool.not_eq_true', List.isEmpty_eq_false_iff] at hwf
        simp only [leaves] at hnd hun
        simp only [fresh, matchNonORs, freshL_isEmpty hwf.1, Bool.false_eq_true, if_false] at h
        obtain ⟨⟨cs', es', early⟩, h1, h2⟩ := bind_ok' h
        obtain ⟨hok', hnm', tail, htail, T⟩ := ih3 ts [] es _ h1 hof hwf.2 hnd hok hN hun (fun _ h => by cases h)
        simp only [List.nil_append] at htail
        have hne : tail ≠ [] := ne_nil_of_len T.len hwf.1
        cases early with
        | true =>
          simp only [if_true] at h2; cases h2
          have htail' := htail.symm; subst htail'
          obtain ⟨y1, y2⟩ := T.yes rfl
          refine ⟨hok', by rw [hnm', hN], ⟨by simp, T.pok⟩, rfl, by simp, fun x hx => T.pin x hx, T.mks, ?_,
            fun _ => ⟨T.cov, Or.inl rfl, by simp [y2]⟩⟩
          constructor
          · intro h'; cases h'
          · intro h'; simp only [satT] at h'; rw [y1] at h'; cases h'
        | false =>
          simp only [Bool.false_eq_true, if_false] at h2; cases h2
          have htail' := htail.symm; subst htail'
          obtain ⟨n1, n2, n3⟩ := T.no rfl
          obtain ⟨s1, s2⟩ := setViableVal_andor tail es' hne n1
          refine ⟨hok', by rw [hnm', hN], ⟨by simp, T.pok⟩, rfl, by rcases s1 with h | h <;> rw [h] <;> simp,
            fun x hx => T.pin x hx, T.mks, ?_, fun hv => ?_⟩
          · simp only [satT]
            constructor
            · intro h'
              cases hs : satAny N ts with
              | false => rfl
              | true => have := s2.mpr (n2.mpr hs); rw [h'] at this; cases this
            · intro h'
              rcases s1 with h | h
              · exact h
              · have := n2.mp (s2.mp h); rw [h'] at this; cases this
          · have hsome : setViableVal tail es' = .some_ := by
              rcases s1 with h | h
              · exact absurd h hv
              · exact h
            have hsat := n2.mp (s2.mp hsome)
            refine ⟨T.cov, Or.inr hsome, ?_⟩
            rw [hsome, n3 hsat]; simp
    -- ------------------------------------------------------------ the loop of AndList::matchNonORs
    · intro restT done es r h hof hwf hnd hok hN hun
      cases restT with
      | nil =>
        simp only [freshL, andNonORs] at h; cases h
        exact ⟨hok, hN, [], by simp, ⟨rfl, trivial, fun x hx => (by simp [placedL] at hx), fun x => (by simp [placedL]),
          fun h => (by cases h), fun _ => ⟨rfl, fun x => (by simp [placedL, covAll]), fun c hc => (by cases hc),
            fun h => absurd rfl h⟩⟩⟩
      | cons c rest =>
        simp only [orFreeL, Bool.and_eq_true] at hof
        simp only [treeWFL, Bool.and_eq_true] at hwf
        simp only [leavesL] at hnd hun
        obtain ⟨hnd1, hnd2, hdis⟩ := nodup_split hnd
        simp only [freshL, andNonORs, isOr_fresh hof.1, Bool.false_eq_true, if_false] at h
        obtain ⟨⟨ch', es1, rc⟩, h1, h2⟩ := bind_ok' h
        have P := ih1 c es _ h1 hof.1 hwf.1 hnd1 hok hN (fun x hx => hun x (List.mem_append.mpr (Or.inl hx)))
        have hN1 : names es1 = N := by rw [P.nm, hN]
        simp only at h2
        by_cases hrc : rc = .unsat
        · simp only [hrc, if_true] at h2; cases h2
          obtain ⟨fp1, fp2⟩ := freshL_POK rest hof.2
          refine ⟨P.ok, hN1, ch' :: freshL rest, rfl, ⟨by simp [freshL_length], ⟨P.pok, fp1⟩, ?_, ?_, ?_, fun h => (by cases h)⟩⟩
          · intro x hx
            simp only [placedL, fp2, List.append_nil] at hx
            exact ⟨List.mem_append.mpr (Or.inl (P.pin x hx).1), (P.pin x hx).2⟩
          · intro x; simp only [placedL, fp2, List.append_nil]; exact P.mks x
          · intro _; simp only [satAll, Bool.and_eq_false_iff]; exact Or.inl (P.uns.mp hrc)
        · simp only [hrc, if_false] at h2
          have hun1 : ∀ x ∈ leavesL rest, ¬ Mk es1 x := by
            intro x hx hmk
            rcases (P.mks x).mp hmk with h' | h'
            · exact hun x (List.mem_append.mpr (Or.inr hx)) h'
            · exact hdis x (P.pin x h').1 hx
          obtain ⟨hok2, hN2, tail2, ht2, T⟩ := ih2 rest (done ++ [ch']) es1 _ h2 hof.2 hwf.2 hnd2 P.ok hN1 hun1
          obtain ⟨q1, q2, q3⟩ := P.sat hrc
          have hsc : satT N c = true := by
            cases hs : satT N c with
            | true => rfl
            | false => exact absurd (P.uns.mpr hs) hrc
          refine ⟨hok2, hN2, ch' :: tail2, by rw [ht2]; simp, ⟨by simp [T.len], ⟨P.pok, T.pok⟩, ?_, ?_, ?_, ?_⟩⟩
          · intro x hx
            simp only [placedL, List.mem_append] at hx
            rcases hx with h' | h'
            · exact ⟨List.mem_append.mpr (Or.inl (P.pin x h').1), (P.pin x h').2⟩
            · exact ⟨List.mem_append.mpr (Or.inr (T.pin x h').1), (T.pin x h').2⟩
          · intro x
            rw [T.mks x, P.mks x]
            simp only [placedL, List.mem_append, or_assoc]
          · intro hf
            simp only [satAll, Bool.and_eq_false_iff]; exact Or.inr (T.bad hf)
          · intro hf
            obtain ⟨g1, g2, g3, g4⟩ := T.good hf
            refine ⟨by simp [satAll, hsc, g1], ?_, ?_, ?_⟩
            · intro x
              simp only [placedL, covAll, List.mem_append]
              rw [q1 x, g2 x]
            · intro c' hc'
              rcases List.mem_cons.mp hc' with e | e
              · rw [e, P.via]; exact q2.symm
              · exact g3 c' e
            · intro _ hall
              by_cases ht : tail2 = []
              · subst ht
                have hsame : ∀ x, Mk r.2.1 x ↔ Mk es1 x := fun x => by rw [T.mks x]; simp [placedL]
                have := allMarked_congr P.ok hok2 (by rw [hN2, hN1]) hsame
                rw [hall] at this
                exact ⟨ch', by simp, by rw [P.via]; exact q3.mpr this.symm⟩
              · obtain ⟨c', hc', hv'⟩ := g4 ht hall
                exact ⟨c', List.mem_cons_of_mem _ hc', hv'⟩
    -- ------------------------------------------------------------ the loop of AndOrList::matchNonORs
    · intro restT done es r h hof hwf hnd hok hN hun hdone
      cases restT with
      | nil =>
        simp only [freshL, andorNonORs] at h; cases h
        exact ⟨hok, hN, [], by simp, ⟨rfl, trivial, fun x hx => (by simp [placedL] at hx), fun x => (by simp [placedL]),
          fun x => (by simp [placedL, covSat]), fun h => (by cases h),
          fun _ => ⟨fun c hc => (by cases hc), (by simp [satAny]), fun h => (by simp [satAny] at h)⟩⟩⟩
      | cons c rest =>
        simp only [orFreeL, Bool.and_eq_true] at hof
        simp only [treeWFL, Bool.and_eq_true] at hwf
        simp only [leavesL] at hnd hun
        obtain ⟨hnd1, hnd2, hdis⟩ := nodup_split hnd
        simp only [freshL, andorNonORs, isOr_fresh hof.1, Bool.false_eq_true, if_false] at h
        obtain ⟨⟨ch', es1, rc⟩, h1, h2⟩ := bind_ok' h
        have P := ih1 c es _ h1 hof.1 hwf.1 hnd1 hok hN (fun x hx => hun x (List.mem_append.mpr (Or.inl hx)))
        have hN1 : names es1 = N := by rw [P.nm, hN]
        obtain ⟨fp1, fp2⟩ := freshL_POK rest hof.2
        simp only at h2
        have hunr : ∀ (es' : Ents), (∀ x, Mk es' x ↔ Mk es x ∨ x ∈ placed ch') → ∀ x ∈ leavesL rest, ¬ Mk es' x := by
          intro es' hm x hx hmk
          rcases (hm x).mp hmk with h' | h'
          · exact hun x (List.mem_append.mpr (Or.inr hx)) h'
          · exact hdis x (P.pin x h').1 hx
        by_cases hall : rc = .all
        · -- MATCHALL and every earlier child known: return
          have hpk : (done.all fun d => decide (d.viable ≠ .unknown)) = true := by
            simp only [List.all_eq_true, decide_eq_true_eq]; exact hdone
          simp only [hall, if_true, hpk] at h2; cases h2
          obtain ⟨q1, q2, q3⟩ := P.sat (by rw [hall]; simp)
          have hmarked : allMarked es1 = true := q3.mp hall
          have hsc : satT N c = true := by
            cases hs : satT N c with
            | true => rfl
            | false => have := P.uns.mpr hs; rw [hall] at this; cases this
          -- nothing behind this child can be satisfied: its cover would be unmarked
          have hnone : covSat N rest = [] := by
            cases hcs : covSat N rest with
            | nil => rfl
            | cons y ys =>
              exfalso
              have hy : y ∈ covSat N rest := by rw [hcs]; simp
              have hyN := covSat_in N rest hwf.2 y hy
              have hyl := covSat_sub N rest y hy
              have := (allMarked_iff (names_nodup P.ok)).mp hmarked y (by rw [hN1]; exact hyN)
              exact hunr es1 P.mks y hyl this
          have hsr : satAny N rest = false := by
            cases hs : satAny N rest with
            | false => rfl
            | true => exact absurd hnone (covSat_sat N rest hs hwf.2).2
          refine ⟨P.ok, hN1, ch' :: freshL rest, rfl, ⟨by simp [freshL_length], ⟨P.pok, fp1⟩, ?_, ?_, ?_, ?_, fun h => (by cases h)⟩⟩
          · intro x hx
            simp only [placedL, fp2, List.append_nil] at hx
            exact ⟨List.mem_append.mpr (Or.inl (P.pin x hx).1), (P.pin x hx).2⟩
          · intro x; simp only [placedL, fp2, List.append_nil]; exact P.mks x
          · intro x
            simp only [placedL, fp2, List.append_nil, covSat, hsc, if_true, hnone]
            exact q1 x
          · intro _; exact ⟨by simp [satAny, hsc], hmarked⟩
        · simp only [hall, if_false] at h2
          by_cases hrc : rc = .unsat
          · -- UNSATISFIED: unmark what the child marked
            simp only [hrc, if_true] at h2
            obtain ⟨⟨ch2, es2⟩, h3, h4⟩ := bind_ok' h2
            obtain ⟨u1, u2, u3, u4, u5, u6⟩ := (unmark_orfree f).1 ch' es1 _ h3 P.pok P.ok
              (fun x hx => by rw [hN1]; exact (P.pin x hx).2)
            have hsame : ∀ x, Mk es2 x ↔ Mk es x := by
              intro x
              rw [u3 x, P.mks x]
              constructor
              · rintro ⟨h' | h', hn⟩
                · exact h'
                · exact absurd h' hn
              · intro h'
                refine ⟨Or.inl h', fun hp => ?_⟩
                exact hun x (List.mem_append.mpr (Or.inl (P.pin x hp).1)) h'
            have hN2 : names es2 = N := by rw [u2, hN1]
            have hun2 : ∀ x ∈ leavesL rest, ¬ Mk es2 x := fun x hx hmk =>
              hun x (List.mem_append.mpr (Or.inr hx)) ((hsame x).mp hmk)
            have hd2 : ∀ c' ∈ done ++ [ch2], c'.viable ≠ .unknown := by
              intro c' hc'
              rcases List.mem_append.mp hc' with e | e
              · exact hdone c' e
              · simp only [List.mem_singleton] at e; rw [e, u6, P.via, hrc]; simp
            obtain ⟨hok3, hN3, tail2, ht2, T⟩ := ih3 rest (done ++ [ch2]) es2 _ h4 hof.2 hwf.2 hnd2 u1 hN2 hun2 hd2
            have hsc : satT N c = false := P.uns.mp hrc
            refine ⟨hok3, hN3, ch2 :: tail2, by rw [ht2]; simp, ⟨by simp [T.len], ⟨u5, T.pok⟩, ?_, ?_, ?_, ?_, ?_⟩⟩
            · intro x hx
              simp only [placedL, u4, List.nil_append] at hx
              exact ⟨List.mem_append.mpr (Or.inr (T.pin x hx).1), (T.pin x hx).2⟩
            · intro x; rw [T.mks x, hsame x]; simp [placedL, u4]
            · intro x; simp only [placedL, u4, List.nil_append, covSat, hsc, Bool.false_eq_true, if_false]; exact T.cov x
            · intro he
              obtain ⟨y1, y2⟩ := T.yes he
              exact ⟨by simp [satAny, y1], y2⟩
            · intro he
              obtain ⟨n1, n2, n3⟩ := T.no he
              refine ⟨?_, ?_, ?_⟩
              · intro c' hc'
                rcases List.mem_cons.mp hc' with e | e
                · rw [e, u6, P.via]; exact Or.inl hrc
                · exact n1 c' e
              · simp only [satAny, hsc, Bool.false_or, List.mem_cons, exists_eq_or_imp]
                rw [← n2]
                constructor
                · rintro (h' | h')
                  · rw [u6, P.via, hrc] at h'; cases h'
                  · exact h'
                · intro h'; exact Or.inr h'
              · intro hs; simp only [satAny, hsc, Bool.false_or] at hs; exact n3 hs
          · -- satisfied (MATCHSOME): keep the marks, go on
            simp only [hrc, if_false] at h2
            obtain ⟨q1, q2, q3⟩ := P.sat hrc
            have hsome : rc = .some_ := by
              rcases q2 with h' | h'
              · exact absurd h' hall
              · exact h'
            have hsc : satT N c = true := by
              cases hs : satT N c with
              | true => rfl
              | false => exact absurd (P.uns.mpr hs) hrc
            have hnotall : allMarked es1 = false := by
              cases ha : allMarked es1 with
              | false => rfl
              | true => exact absurd (q3.mpr ha) hall
            have hd2 : ∀ c' ∈ done ++ [ch'], c'.viable ≠ .unknown := by
              intro c' hc'
              rcases List.mem_append.mp hc' with e | e
              · exact hdone c' e
              · simp only [List.mem_singleton] at e; rw [e, P.via]; exact P.known
            obtain ⟨hok3, hN3, tail2, ht2, T⟩ := ih3 rest (done ++ [ch']) es1 _ h2 hof.2 hwf.2 hnd2 P.ok hN1
              (hunr es1 P.mks) hd2
            refine ⟨hok3, hN3, ch' :: tail2, by rw [ht2]; simp, ⟨by simp [T.len], ⟨P.pok, T.pok⟩, ?_, ?_, ?_, ?_, ?_⟩⟩
            · intro x hx
              simp only [placedL, List.mem_append] at hx
              rcases hx with h' | h'
              · exact ⟨List.mem_append.mpr (Or.inl (P.pin x h').1), (P.pin x h').2⟩
              · exact ⟨List.mem_append.mpr (Or.inr (T.pin x h').1), (T.pin x h').2⟩
            · intro x; rw [T.mks x, P.mks x]; simp only [placedL, List.mem_append, or_assoc]
            · intro x
              simp only [placedL, covSat, hsc, if_true, List.mem_append]
              rw [q1 x, T.cov x]
            · intro he
              obtain ⟨_, y2⟩ := T.yes he
              exact ⟨by simp [satAny, hsc], y2⟩
            · intro he
              obtain ⟨n1, n2, n3⟩ := T.no he
              refine ⟨?_, ?_, ?_⟩
              · intro c' hc'
                rcases List.mem_cons.mp hc' with e | e
                · rw [e, P.via]; exact Or.inr hsome
                · exact n1 c' e
              · simp only [satAny, hsc, Bool.true_or, iff_true]
                exact ⟨ch', by simp, by rw [P.via]; exact hsome⟩
              · intro _
                by_cases hsr : satAny N rest = true
                · exact n3 hsr
                · -- nothing more is marked behind this child
                  have hcn : covSat N rest = [] := by
                    cases hcs : covSat N rest with
                    | nil => rfl
                    | cons y ys =>
                      exfalso
                      have hy : y ∈ covSat N rest := by rw [hcs]; simp
                      have hpl := (T.cov y).mpr hy
                      -- a placed name comes from a child with viable MATCHSOME, i.e. a satisfied one
                      have := (n2.mp ?_)
                      · exact hsr this
                      · -- some child of the tail set a mark: it is MATCHSOME (UNSATISFIED children were unmarked)
                        exact Classical.byContradiction (fun hno => by
                          have hallu : ∀ c' ∈ tail2, c'.viable = .unsat := by
                            intro c' hc'
                            rcases n1 c' hc' with e | e
                            · exact e
                            · exact absurd ⟨c', hc', e⟩ hno
                          have : satAny N rest = true := by
                            cases hs : satAny N rest with
                            | true => rfl
                            | false =>
                              -- covSat of an unsatisfiable rest is empty
                              exfalso
                              exact absurd hy (by
                                have hcov0 : ∀ (l : List Tree), satAny N l = false → covSat N l = [] := by
                                  intro l
                                  induction l with
                                  | nil => intro _; rfl
                                  | cons a l ihl =>
                                    intro hl
                                    simp only [satAny, Bool.or_eq_false_iff] at hl
                                    simp [covSat, hl.1, ihl hl.2]
                                rw [hcov0 rest hs]; simp)
                          exact hsr this)
                  have hsame : ∀ x, Mk r.2.1 x ↔ Mk es1 x := by
                    intro x
                    rw [T.mks x]
                    have : x ∉ placedL tail2 := by
                      intro hp; have := (T.cov x).mp hp; rw [hcn] at this; cases this
                    simp [this]
                  have := allMarked_congr P.ok hok3 (by rw [hN3, hN1]) hsame
                  rw [this]; exact hnotall

end StepModel.Complex.Match

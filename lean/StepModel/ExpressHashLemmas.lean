import StepModel.ExpressHash
/-! Payload-parametricity of the hash-table model: every operation commutes with a map over the payloads. -/
namespace StepModel.ExpressHash

def mapE {π ρ : Type} (f : π → ρ) (e : String × π) : String × ρ := (e.1, f e.2)

/-- apply `f` to every payload, leave keys and structure alone -/
def Table.mapP {π ρ : Type} (f : π → ρ) (t : Table π) : Table ρ :=
  { segmentCount := t.segmentCount, p := t.p, maxp := t.maxp, keyCount := t.keyCount,
    buckets := t.buckets.map (List.map (mapE f)) }

theorem address_mapP {π ρ : Type} (f : π → ρ) (t : Table π) (k : String) :
    address (t.mapP f) k = address t k := rfl

theorem getD_mapP {π ρ : Type} (f : π → ρ) (bs : Array (List (String × π))) (i : Nat) :
    (bs.map (List.map (mapE f))).getD i [] = (bs.getD i []).map (mapE f) := by
  rw [Array.getD_eq_getD_getElem?, Array.getD_eq_getD_getElem?, Array.getElem?_map]
  cases bs[i]? <;> simp

theorem create_mapP {π ρ : Type} (f : π → ρ) : (create : Table π).mapP f = create := by
  simp [create, Table.mapP, Array.map_replicate]

theorem grow_mapP {π ρ : Type} (f : π → ρ) (bs : Array (List (String × π))) (n : Nat) :
    grow (bs.map (List.map (mapE f))) n = (grow bs n).map (List.map (mapE f)) := by
  unfold grow
  split <;> simp [Array.map_append, Array.map_replicate]

theorem expand_mapP {π ρ : Type} (f : π → ρ) (t : Table π) : expand (t.mapP f) = (expand t).mapP f := by
  by_cases h : t.maxp + t.p < directorySize * segmentSize
  · simp only [expand, Table.mapP, h, if_true, grow_mapP, getD_mapP, Array.map_setIfInBounds, List.filter_map]
    rfl
  · simp only [expand, Table.mapP, h, if_false]

theorem insert_mapP {π ρ : Type} (f : π → ρ) (t : Table π) (k : String) (v : π) :
    insert (t.mapP f) k (f v) = (insert t k v).mapP f := by
  have hany : ((t.mapP f).buckets.getD (address (t.mapP f) k) []).any (fun e => e.1 == k)
            = (t.buckets.getD (address t k) []).any (fun e => e.1 == k) := by
    simp only [Table.mapP]
    rw [show address { segmentCount := t.segmentCount, p := t.p, maxp := t.maxp, keyCount := t.keyCount,
                       buckets := Array.map (List.map (mapE f)) t.buckets } k = address t k from rfl,
        getD_mapP, List.any_map]
    rfl
  have hset : ({ segmentCount := t.segmentCount, p := t.p, maxp := t.maxp, keyCount := t.keyCount + 1,
                 buckets := (t.mapP f).buckets.setIfInBounds (address t k) ((t.mapP f).buckets.getD (address t k) [] ++ [(k, f v)]) } : Table ρ)
            = ({ segmentCount := t.segmentCount, p := t.p, maxp := t.maxp, keyCount := t.keyCount + 1,
                 buckets := t.buckets.setIfInBounds (address t k) (t.buckets.getD (address t k) [] ++ [(k, v)]) } : Table π).mapP f := by
    simp only [Table.mapP, getD_mapP, Array.map_setIfInBounds, List.map_append, List.map_cons, List.map_nil, mapE]
  unfold insert
  rw [hany]
  by_cases h1 : (t.buckets.getD (address t k) []).any (fun e => e.1 == k)
  · simp only [h1, if_true]
  · simp only [h1, if_false, Bool.false_eq_true]
    have e1 : address (t.mapP f) k = address t k := rfl
    have e2 : (t.mapP f).keyCount = t.keyCount := rfl
    have e3 : (t.mapP f).segmentCount = t.segmentCount := rfl
    have e4 : (t.mapP f).p = t.p := rfl
    have e5 : (t.mapP f).maxp = t.maxp := rfl
    rw [e1, e2, e3, e4, e5, hset]
    by_cases h2 : (t.keyCount + 1) / (t.segmentCount * segmentSize) > maxLoadFactor
    · simp only [h2, if_true, expand_mapP]
    · simp only [h2, if_false]

theorem insertAll_mapP {π ρ : Type} (f : π → ρ) (kvs : List (String × π)) (t : Table π) :
    insertAll (t.mapP f) (kvs.map (mapE f)) = (insertAll t kvs).mapP f := by
  induction kvs generalizing t with
  | nil => rfl
  | cons kv r ih =>
    simp only [insertAll, List.map_cons, List.foldl_cons] at ih ⊢
    have := insert_mapP f t kv.1 kv.2
    simp only [mapE] at this ⊢
    rw [this]
    exact ih _

theorem list_mapP {π ρ : Type} (f : π → ρ) (t : Table π) (sel : ρ → Bool) :
    list (t.mapP f) sel = (list t (sel ∘ f)).map (mapE f) := by
  unfold list
  simp only [Table.mapP, Array.size_map, List.map_flatMap]
  congr 1
  funext i
  split
  · simp only [List.map_flatMap]
    congr 1
    funext j
    rw [getD_mapP, List.filter_map]
    rfl
  · rfl

/-- the iteration order of a dictionary commutes with any relabelling of the payloads -/
theorem dictOrder_mapP {π ρ : Type} (f : π → ρ) (kvs : List (String × π)) (sel : ρ → Bool) :
    dictOrder (kvs.map (mapE f)) sel = (dictOrder kvs (sel ∘ f)).map (mapE f) := by
  unfold dictOrder
  rw [← create_mapP f, insertAll_mapP, list_mapP]

end StepModel.ExpressHash

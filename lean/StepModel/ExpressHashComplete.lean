import StepModel.ExpressHash
/-!
# Completeness of the dictionary iteration (no table expansion)

For a dictionary that never reaches the load at which `HASHexpand_table` is called
(`KeyCount / (SegmentCount * SEGMENT_SIZE) ≤ MAX_LOAD_FACTOR`, i.e. fewer than `SEGMENT_SIZE * (MAX_LOAD_FACTOR + 1) - 1` =
1535 definitions), `DICTdo` visits **every** defined entry **exactly once**: the iteration is a permutation of the entries
kept by `DICTdefine` (the first definition of each key).  Each bucket holds, in definition order, exactly the kept entries
whose key hashes to it.
-/
namespace StepModel.ExpressHash

/-- the entries `DICTdefine` keeps: the first definition of every key, in definition order -/
def firsts {π : Type} (kvs : List (String × π)) : List (String × π) :=
  kvs.foldl (fun acc kv => if acc.any (fun e => e.1 == kv.1) then acc else acc ++ [kv]) []

/-- bucket index of a key in a table that has never been expanded -/
def home (key : String) : Nat := addressOf 0 segmentSize key

structure Inv {π : Type} (t : Table π) (F : List (String × π)) : Prop where
  p0 : t.p = 0
  maxp : t.maxp = segmentSize
  seg : t.segmentCount = 1
  size : t.buckets.size = segmentSize
  count : t.keyCount = F.length
  bucket : ∀ i, i < segmentSize → t.buckets.getD i [] = F.filter (fun e => home e.1 == i)

theorem segmentSize_pos : 0 < segmentSize := by decide

theorem home_lt (key : String) : home key < segmentSize := by
  unfold home addressOf
  simp only [Nat.not_lt_zero, if_false]
  exact Nat.mod_lt _ segmentSize_pos

theorem getD_set {α : Type} (bs : Array (List α)) (a i : Nat) (v : List α) (ha : a < bs.size) :
    (bs.setIfInBounds a v).getD i [] = if i = a then v else bs.getD i [] := by
  simp only [Array.getD_eq_getD_getElem?, Array.getElem?_setIfInBounds]
  by_cases h : a = i
  · subst h; simp [ha]
  · have : ¬ i = a := fun e => h e.symm
    simp [h, this]

theorem inv_create {π : Type} : Inv (create : Table π) [] := by
  refine ⟨rfl, rfl, rfl, by simp [create], rfl, ?_⟩
  intro i hi
  simp [create, Array.getD_eq_getD_getElem?, Array.getElem?_replicate, hi]

/-- one `DICTdefine` on an unexpanded table that stays below the expansion load -/
theorem inv_insert {π : Type} (t : Table π) (F : List (String × π)) (k : String) (v : π) (h : Inv t F)
    (hload : F.length + 1 < segmentSize * (maxLoadFactor + 1)) :
    Inv (insert t k v) (if F.any (fun e => e.1 == k) then F else F ++ [(k, v)]) := by
  have haddr : address t k = home k := by unfold address home; rw [h.p0, h.maxp]
  have hchain : t.buckets.getD (address t k) [] = F.filter (fun e => home e.1 == home k) := by
    rw [haddr]; exact h.bucket _ (home_lt k)
  have hany : (t.buckets.getD (address t k) []).any (fun e => e.1 == k) = F.any (fun e => e.1 == k) := by
    rw [hchain, List.any_filter]
    congr 1
    funext e
    by_cases he : e.1 = k
    · simp [he]
    · simp [he]
  unfold insert
  rw [hany]
  by_cases hp : F.any (fun e => e.1 == k) = true
  · simp only [hp, if_true]; exact h
  · simp only [hp, Bool.false_eq_true, if_false]
    have hno : ¬ ((t.keyCount + 1) / (t.segmentCount * segmentSize) > maxLoadFactor) := by
      rw [h.count, h.seg, Nat.one_mul]
      have : (F.length + 1) / segmentSize < maxLoadFactor + 1 :=
        (Nat.div_lt_iff_lt_mul segmentSize_pos).mpr (by rw [Nat.mul_comm]; exact hload)
      omega
    rw [if_neg hno]
    refine ⟨h.p0, h.maxp, h.seg, by simp [h.size], by simp [h.count], ?_⟩
    intro i hi
    simp only
    rw [getD_set _ _ _ _ (by rw [haddr, h.size]; exact home_lt k), List.filter_append, hchain, haddr]
    by_cases hik : i = home k
    · subst hik; simp
    · have : ¬ home k = i := fun e => hik e.symm
      simp [hik, this, h.bucket i hi]

theorem inv_insertAll {π : Type} (kvs : List (String × π)) (t : Table π) (F : List (String × π)) (h : Inv t F)
    (hload : F.length + kvs.length + 1 ≤ segmentSize * (maxLoadFactor + 1)) :
    Inv (insertAll t kvs) (kvs.foldl (fun acc kv => if acc.any (fun e => e.1 == kv.1) then acc else acc ++ [kv]) F) := by
  induction kvs generalizing t F with
  | nil => exact h
  | cons kv r ih =>
    simp only [insertAll, List.foldl_cons, List.length_cons] at hload ⊢
    have h1 := inv_insert t F kv.1 kv.2 h (by omega)
    apply ih _ _ h1
    split
    · omega
    · simp; omega

theorem filter_lt_succ {π : Type} (F : List (String × π)) (n : Nat) :
    (F.filter (fun e => decide (home e.1 < n + 1))).Perm
      (F.filter (fun e => decide (home e.1 < n)) ++ F.filter (fun e => home e.1 == n)) := by
  induction F with
  | nil => simp
  | cons a F ihF =>
    simp only [List.filter_cons]
    by_cases h1 : home a.1 < n
    · have h2 : home a.1 < n + 1 := by omega
      have h3 : ¬ home a.1 = n := by omega
      simp only [h1, h2, h3, decide_true, if_true, beq_iff_eq, if_false, List.cons_append]
      exact List.Perm.cons a ihF
    · by_cases h2 : home a.1 = n
      · have h3 : home a.1 < n + 1 := by omega
        have h4 : ¬ (n < n) := by omega
        simp only [h2, h3, decide_true, if_true, beq_self_eq_true] at ihF ⊢
        rw [h2] at h3
        simp only [h3, h4, decide_true, decide_false, if_true, Bool.false_eq_true, if_false]
        exact (List.Perm.cons a ihF).trans List.perm_middle.symm
      · have h3 : ¬ home a.1 < n + 1 := by omega
        simp only [h1, h2, h3, decide_false, Bool.false_eq_true, if_false, beq_iff_eq]
        exact ihF

/-- the buckets of an unexpanded table, one after the other, are a permutation of its entries -/
theorem buckets_perm {π : Type} (F : List (String × π)) (n : Nat) :
    ((List.range n).flatMap fun j => F.filter (fun e => home e.1 == j)).Perm (F.filter (fun e => decide (home e.1 < n))) := by
  induction n with
  | zero => simp
  | succ n ih =>
    rw [List.range_succ, List.flatMap_append]
    simp only [List.flatMap_cons, List.flatMap_nil, List.append_nil]
    exact (List.Perm.append_right _ ih).trans (filter_lt_succ F n).symm

theorem flatMap_congr' {α β : Type} (l : List α) (f g : α → List β) (h : ∀ x ∈ l, f x = g x) : l.flatMap f = l.flatMap g := by
  induction l with
  | nil => rfl
  | cons a r ih =>
    simp only [List.flatMap_cons]
    rw [h a List.mem_cons_self, ih (fun x hx => h x (List.mem_cons_of_mem _ hx))]

theorem filter_all {α : Type} (l : List α) : l.filter (fun _ => true) = l := by
  induction l with
  | nil => rfl
  | cons a r ih => simp [List.filter_cons, ih]

theorem list_of_inv {π : Type} (t : Table π) (F : List (String × π)) (h : Inv t F) :
    (list t (fun _ => true)).Perm F := by
  unfold list
  rw [h.seg]
  simp only [List.range_one, List.flatMap_cons, List.flatMap_nil, List.append_nil, Nat.zero_add, Nat.one_mul, Nat.zero_mul,
    h.size, Nat.le_refl, if_true]
  have e : ((List.range segmentSize).flatMap fun j => (t.buckets.getD j []).filter (fun _ => true)) =
      ((List.range segmentSize).flatMap fun j => F.filter (fun e => home e.1 == j)) := by
    apply flatMap_congr'
    intro j hj
    rw [filter_all]
    exact h.bucket j (List.mem_range.mp hj)
  rw [e]
  have := buckets_perm F segmentSize
  rwa [List.filter_eq_self.mpr (fun e _ => by simp [home_lt])] at this

/-- **DICTdo is complete and duplicate-free** for dictionaries below the expansion load -/
theorem dictOrder_perm_firsts {π : Type} (kvs : List (String × π)) (hsmall : kvs.length + 1 ≤ segmentSize * (maxLoadFactor + 1)) :
    (dictOrder kvs).Perm (firsts kvs) := by
  unfold dictOrder firsts
  exact list_of_inv _ _ (inv_insertAll kvs create [] inv_create (by simpa using hsmall))

theorem firsts_keys_nodup {π : Type} (kvs : List (String × π)) : ((firsts kvs).map (·.1)).Nodup := by
  unfold firsts
  suffices H : ∀ (acc : List (String × π)), (acc.map (·.1)).Nodup →
      ((kvs.foldl (fun acc kv => if acc.any (fun e => e.1 == kv.1) then acc else acc ++ [kv]) acc).map (·.1)).Nodup from H [] List.nodup_nil
  induction kvs with
  | nil => intro acc h; exact h
  | cons kv r ih =>
    intro acc h
    simp only [List.foldl_cons]
    apply ih
    split
    · exact h
    · rename_i hn
      rw [List.map_append, List.nodup_append]
      refine ⟨h, by simp, ?_⟩
      intro a ha b hb
      simp only [List.map_cons, List.map_nil, List.mem_singleton] at hb
      subst hb
      intro e
      apply hn
      obtain ⟨x, hx, hxe⟩ := List.mem_map.mp ha
      exact List.any_eq_true.mpr ⟨x, hx, by simp [hxe, e]⟩

end StepModel.ExpressHash

import StepModel.InstMgr
/-! Helper lemmas for the `InstMgr` invariant (`Props/C13.lean` holds the property theorems). -/
namespace StepModel.InstMgr
open StepModel.Generated

/-! ### the regenerated `NextFileId` rule: what the proofs need of it -/
theorem nextFileIdVal_gt (m : Int) : m < nextFileIdVal m := by
  unfold nextFileIdVal
  first | omega | (dsimp only; split <;> omega)

theorem nextFileIdVal_ne_unassigned (m : Int) : nextFileIdVal m ≠ unassignedFileId := by
  unfold nextFileIdVal unassignedFileId
  first | omega | (dsimp only; split <;> omega)

/-! ### association list -/
theorem mem_mapErase {m : List (Int × Nat)} {k : Int} {p : Int × Nat} :
    p ∈ mapErase m k ↔ p ∈ m ∧ p.1 ≠ k := by
  simp [mapErase]

theorem mapFind_eq_none {m : List (Int × Nat)} {k : Int} :
    mapFind m k = none ↔ ∀ p ∈ m, p.1 ≠ k := by
  simp [mapFind, List.find?_eq_none]

theorem mapFind_some_mem {m : List (Int × Nat)} {k : Int} {v : Nat} (h : mapFind m k = some v) :
    (k, v) ∈ m := by
  unfold mapFind at h
  cases hf : m.find? (fun p => p.1 == k) with
  | none => simp [hf] at h
  | some p =>
    simp [hf] at h
    have hm := List.mem_of_find?_eq_some hf
    have hk := List.find?_some hf
    simp at hk
    cases p with
    | mk a b => simp at h hk; subst h; subst hk; exact hm

theorem mapFind_of_mem {m : List (Int × Nat)} {k : Int} {v : Nat}
    (nd : (m.map (·.1)).Nodup) (h : (k, v) ∈ m) : mapFind m k = some v := by
  induction m with
  | nil => simp at h
  | cons p ps ih =>
    simp only [List.map_cons, List.nodup_cons] at nd
    simp only [List.mem_cons] at h
    unfold mapFind
    rw [List.find?_cons]
    by_cases hp : p.1 = k
    · have : (p.1 == k) = true := by simp [hp]
      rw [this]
      simp
      rcases h with h | h
      · rw [← h]
      · exfalso
        apply nd.1
        rw [hp]
        exact List.mem_map.mpr ⟨(k, v), h, rfl⟩
    · have : (p.1 == k) = false := by simp [hp]
      rw [this]
      rcases h with h | h
      · exfalso; apply hp; rw [← h]
      · exact ih nd.2 h

theorem keys_mapErase_nodup {m : List (Int × Nat)} {k : Int} (nd : (m.map (·.1)).Nodup) :
    ((mapErase m k).map (·.1)).Nodup := by
  unfold mapErase
  exact List.Nodup.sublist (List.Sublist.map _ List.filter_sublist) nd

theorem keys_mapSet_nodup {m : List (Int × Nat)} {k : Int} {v : Nat} (nd : (m.map (·.1)).Nodup) :
    ((mapSet m k v).map (·.1)).Nodup := by
  unfold mapSet
  simp only [List.map_cons, List.nodup_cons]
  refine ⟨?_, keys_mapErase_nodup nd⟩
  intro h
  rcases List.mem_map.mp h with ⟨p, hp, hk⟩
  exact (mem_mapErase.mp hp).2 hk

theorem mem_mapSet {m : List (Int × Nat)} {k : Int} {v : Nat} {p : Int × Nat} :
    p ∈ mapSet m k v ↔ p = (k, v) ∨ (p ∈ m ∧ p.1 ≠ k) := by
  simp [mapSet, mem_mapErase]

/-! ### `renumberFrom` only touches `arrayIndex` -/
theorem renumberFrom_length (idx j : Nat) (ns : List Node) : (renumberFrom idx j ns).length = ns.length := by
  induction ns generalizing j with
  | nil => rfl
  | cons n ns ih => simp [renumberFrom, ih]

theorem renumberFrom_map_nid (idx j : Nat) (ns : List Node) :
    (renumberFrom idx j ns).map (·.nid) = ns.map (·.nid) := by
  induction ns generalizing j with
  | nil => rfl
  | cons n ns ih => simp only [renumberFrom, List.map_cons, ih]; split <;> rfl

theorem renumberFrom_map_inst (idx j : Nat) (ns : List Node) :
    (renumberFrom idx j ns).map (·.inst) = ns.map (·.inst) := by
  induction ns generalizing j with
  | nil => rfl
  | cons n ns ih => simp only [renumberFrom, List.map_cons, ih]; split <;> rfl

theorem renumberFrom_map_state (idx j : Nat) (ns : List Node) :
    (renumberFrom idx j ns).map (·.state) = ns.map (·.state) := by
  induction ns generalizing j with
  | nil => rfl
  | cons n ns ih => simp only [renumberFrom, List.map_cons, ih]; split <;> rfl

theorem renumberFrom_getElem (idx j : Nat) (ns : List Node) (i : Nat) (h : i < ns.length) :
    (renumberFrom idx j ns)[i]'(by rw [renumberFrom_length]; exact h) =
      if idx ≤ j + i then { ns[i] with arrayIndex := ((j + i : Nat) : Int) } else ns[i] := by
  induction ns generalizing j i with
  | nil => simp at h
  | cons n ns ih =>
    cases i with
    | zero => simp [renumberFrom]
    | succ i =>
      simp only [renumberFrom, List.getElem_cons_succ]
      have := ih (j + 1) i (by simpa using h)
      rw [this]
      have e : j + 1 + i = j + (i + 1) := by omega
      rw [e]

/-- a node of the renumbered list is a node of the original up to its `arrayIndex` -/
theorem mem_renumberFrom {idx j : Nat} {ns : List Node} {n : Node} (h : n ∈ renumberFrom idx j ns) :
    ∃ n' ∈ ns, n'.nid = n.nid ∧ n'.inst = n.inst ∧ n'.state = n.state := by
  induction ns generalizing j with
  | nil => simp [renumberFrom] at h
  | cons a as ih =>
    simp only [renumberFrom, List.mem_cons] at h
    rcases h with h | h
    · refine ⟨a, by simp, ?_⟩
      subst h
      split <;> simp
    · rcases ih h with ⟨n', hm, hh⟩
      exact ⟨n', by simp [hm], hh⟩

theorem mem_of_renumberFrom {idx j : Nat} {ns : List Node} {n' : Node} (h : n' ∈ ns) :
    ∃ n ∈ renumberFrom idx j ns, n'.nid = n.nid ∧ n'.inst = n.inst ∧ n'.state = n.state := by
  induction ns generalizing j with
  | nil => simp at h
  | cons a as ih =>
    simp only [List.mem_cons] at h
    rcases h with h | h
    · subst h
      refine ⟨_, by simp [renumberFrom]; exact Or.inl rfl, ?_⟩
      split <;> simp
    · rcases ih (j := j + 1) h with ⟨n, hm, hh⟩
      exact ⟨n, by simp [renumberFrom, hm], hh⟩

end StepModel.InstMgr

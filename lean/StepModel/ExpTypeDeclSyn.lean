import StepModel.ExpStmtSyn
/-!
# declaration syntax: TYPE declarations, CONSTANT blocks, algorithm bodies (property C07)

Token image of `TYPE_out` (`src/exppp/pretty_type.c`: underlying type through `TYPE_body_out`, `ENUMERATION OF ( … )` and
`SELECT ( … )` in source order, WHERE rules through `WHERE_out`), of `SCOPEconsts_out` (`pretty_scope.c`: the CONSTANT block,
printed when the scope has constants) and of an algorithm body (`SCOPElocals_out` followed by `STMTlist_out`), with readers
following `type_decl`, `constant_decl`, `local_decl` + `statement_rep` of expparse.y.  Embedded expressions are single tokens.
-/
namespace StepModel.Express

inductive TyBody
  | ty (t : Ty)
  | enum (items : List String)
  | select (items : List String)
  deriving DecidableEq, Repr

structure TypeDeclS where
  name : String
  body : TyBody
  dom : List DomRule
  deriving DecidableEq, Repr

def tyBodyToks : TyBody → List DTok
  | .ty t => tyToks t
  | .enum is => [.kw "ENUMERATION", .kw "OF", .sym "("] ++ nameListToks is ++ [.sym ")"]
  | .select is => [.kw "SELECT", .sym "("] ++ nameListToks is ++ [.sym ")"]

/-- `TYPE_out` as tokens -/
def typeDeclToks (d : TypeDeclS) : List DTok :=
  [.kw "TYPE", .id d.name, .sym "="] ++ tyBodyToks d.body ++ [.sym ";"]
    ++ (if d.dom = [] then [] else .kw "WHERE" :: d.dom.flatMap domToks) ++ [.kw "END_TYPE", .sym ";"]

/-- `type_decl` -/
def parseTypeDecl (n : Nat) : List DTok → Option (TypeDeclS × List DTok)
  | .kw "TYPE" :: .id name :: .sym "=" :: r =>
    let body : Option (TyBody × List DTok) :=
      match r with
      | .kw "ENUMERATION" :: .kw "OF" :: .sym "(" :: r1 => (parseIdList n r1).map fun (is, r2) => (.enum is, r2)
      | .kw "SELECT" :: .sym "(" :: r1 => (parseIdList n r1).map fun (is, r2) => (.select is, r2)
      | _ => (parseTy n r).map fun (t, r2) => (.ty t, r2)
    match body with
    | some (b, .sym ";" :: r3) =>
      match optClause "WHERE" (parseDom n) r3 with
      | some (ws, .kw "END_TYPE" :: .sym ";" :: r4) => some (⟨name, b, ws⟩, r4)
      | _ => none
    | _ => none
  | _ => none

structure ConstDeclS where
  name : String
  ty : Ty
  init : Expr
  deriving DecidableEq, Repr

def constToks (c : ConstDeclS) : List DTok := [.id c.name, .sym ":"] ++ tyToks c.ty ++ [.sym ":=", .ex c.init, .sym ";"]

/-- `SCOPEconsts_out` as tokens -/
def constsToks (cs : List ConstDeclS) : List DTok :=
  if cs = [] then [] else [.kw "CONSTANT"] ++ cs.flatMap constToks ++ [.kw "END_CONSTANT", .sym ";"]

def parseConstList : Nat → List DTok → Option (List ConstDeclS × List DTok)
  | 0, _ => none
  | n + 1, ts =>
    match ts with
    | .kw "END_CONSTANT" :: .sym ";" :: r => some ([], r)
    | .id s :: .sym ":" :: r =>
      match parseTy n r with
      | some (t, .sym ":=" :: .ex e :: .sym ";" :: r') =>
        match parseConstList n r' with
        | some (cs, r'') => some (⟨s, t, e⟩ :: cs, r'')
        | none => none
      | _ => none
    | _ => none

/-- `constant_decl` or nothing -/
def parseConsts (n : Nat) : List DTok → Option (List ConstDeclS × List DTok)
  | .kw "CONSTANT" :: r => parseConstList n r
  | r => some ([], r)

/-- the body of an algorithm: LOCAL block (if any), then the statements -/
def algBodyToks (ls : List Local) (b : Stmt) : List DTok := localsToks ls ++ stmtsToks b

def parseAlgBody (n : Nat) (ts : List DTok) : Option ((List Local × Stmt) × List DTok) :=
  match parseLocals n ts with
  | some (ls, r) =>
    match parseStmts n r with
    | some (b, r') => some ((ls, b), r')
    | none => none
  | none => none

end StepModel.Express

import StepModel.ExpDeclSyn
/-!
# declaration syntax: ENTITY declarations (property C07)

Token image of `ENTITY_out`, `ENTITYattrs_out` (explicit attributes, DERIVE), `ENTITYinverse_out`, `ENTITYunique_out`
(`src/exppp/pretty_entity.c`), `WHERE_out` (`pretty_where.c`), `SUBTYPEout` (`pretty_subtype.c`) with the supertype expression
printed by `EXPR__out` (`oneof_`, `OP_AND`, `OP_ANDOR` through `EXPRop2__out`: parentheses omitted under an equal parent
operator — the dispatch kinds come from `Generated.ExpPrec.opDispatch`), and a recursive-descent reader of those tokens
following `entity_decl`, `subsuper_decl`, `supertype_expression` / `supertype_factor`, `entity_body`, `explicit_attribute`,
`derived_attribute`, `inverse_attr`, `labelled_attrib_list`, `where_clause` of expparse.y.
Embedded expressions (initialisers, bounds, UNIQUE references, domain rules) are single tokens (`DTok.ex`): their own round trip
is `C07_parse_print`.  White space and line breaks do not occur at this level (`C07_wrap_decomp`, `C07_lex_layout_partial`).
-/
namespace StepModel.Express
open StepModel.Generated

/-- supertype expressions as the parser builds them; `oneof` holds a `nil`/`cons` spine -/
inductive SupEx
  | ent (s : String)
  | oneof (items : SupEx)
  | bin (andor : Bool) (a b : SupEx)
  | nil | cons (e t : SupEx)
  deriving DecidableEq, Repr, Inhabited

def supCode (andor : Bool) : String := if andor then "OP_ANDOR" else "OP_AND"
def supWord (andor : Bool) : String := if andor then "ANDOR" else "AND"

/-- `EXPRop2__out( …, previous_op )` for the operator: parentheses are omitted under an equal parent -/
def supOmit (andor : Bool) : Bool := ((dispatchOf (supCode andor) ExpPrec.opDispatch).map (·.1)) == some "op2prev"

/-- `previous_op` handed to the right operand (see `rprev`) -/
def supRprev (andor : Bool) : Option Bool := if ExpPrec.rightOperandSeesParent then some andor else none

def supParen (andor paren : Bool) (prev : Option Bool) : Bool := paren && (!supOmit andor || prev != some andor)

mutual
/-- `EXPR__out( e, paren, previous_op )` on a supertype expression, as tokens -/
def supToks : SupEx → Bool → Option Bool → List DTok
  | .ent s, _, _ => [.id s]
  | .oneof items, _, _ => [.kw "ONEOF", .sym "("] ++ supItems items true ++ [.sym ")"]
  | .bin o a b, paren, prev =>
    (if supParen o paren prev then [.sym "("] else []) ++ supToks a true (some o) ++ [.kw (supWord o)] ++ supToks b true (supRprev o)
      ++ (if supParen o paren prev then [.sym ")"] else [])
  | .nil, _, _ => []
  | .cons _ _, _, _ => []
/-- the operands of ONEOF: `EXPR_out( arg, 1 )` each -/
def supItems : SupEx → Bool → List DTok
  | .cons e t, first => (if first then [] else [.sym ","]) ++ supToks e true none ++ supItems t false
  | _, _ => []
end

mutual
/-- `supertype_factor` -/
def parseSupFactor : Nat → List DTok → Option (SupEx × List DTok)
  | 0, _ => none
  | n + 1, ts =>
    match ts with
    | .id s :: r => some (.ent s, r)
    | .kw "ONEOF" :: .sym "(" :: r =>
      match parseSupList n r with
      | some (l, .sym ")" :: r') => some (.oneof l, r')
      | _ => none
    | .sym "(" :: r =>
      match parseSupExpr n r with
      | some (e, .sym ")" :: r') => some (e, r')
      | _ => none
    | _ => none
/-- `supertype_expression`: factors joined by AND / ANDOR, one left-associative level -/
def parseSupExpr : Nat → List DTok → Option (SupEx × List DTok)
  | 0, _ => none
  | n + 1, ts =>
    match parseSupFactor n ts with
    | some (f, r) => parseSupLoop n f r
    | none => none
def parseSupLoop : Nat → SupEx → List DTok → Option (SupEx × List DTok)
  | 0, _, _ => none
  | n + 1, l, ts =>
    match ts with
    | .kw "AND" :: r =>
      match parseSupFactor n r with
      | some (f, r') => parseSupLoop n (.bin false l f) r'
      | none => none
    | .kw "ANDOR" :: r =>
      match parseSupFactor n r with
      | some (f, r') => parseSupLoop n (.bin true l f) r'
      | none => none
    | _ => some (l, ts)
/-- `supertype_expression_list` -/
def parseSupList : Nat → List DTok → Option (SupEx × List DTok)
  | 0, _ => none
  | n + 1, ts =>
    match parseSupExpr n ts with
    | some (e, .sym "," :: r) =>
      match parseSupList n r with
      | some (t, r') => some (.cons e t, r')
      | none => none
    | some (e, r) => some (.cons e .nil, r)
    | none => none
end

/-- what the parser reads back: a chain is regrouped to the left where the printer drops the parentheses of a RIGHT operand; where
it does not (`rightOperandSeesParent = false`) `supNorm` is the identity -/
def supAttach (o : Bool) (l : SupEx) : SupEx → SupEx
  | .bin o' x y => if o' = o then .bin o (supAttach o l x) y else .bin o l (.bin o' x y)
  | r => .bin o l r

def supNorm : SupEx → SupEx
  | .bin o a b =>
    if supOmit o && ExpPrec.rightOperandSeesParent then supAttach o (supNorm a) (supNorm b) else .bin o (supNorm a) (supNorm b)
  | .oneof items => .oneof (supNorm items)
  | .cons e t => .cons (supNorm e) (supNorm t)
  | e => e

/-! ## ENTITY -/

/-- `attribute_decl`: a name, or the redeclaration form `SELF\supertype.name` -/
inductive AttrName
  | plain (s : String)
  | redecl (sup attr : String)
  deriving DecidableEq, Repr, Inhabited

def AttrName.toks : AttrName → List DTok
  | .plain s => [.id s]
  | .redecl sup a => [.kw "SELF", .sym "\\", .id sup, .sym ".", .id a]

structure ExplAttr where
  name : AttrName
  optional : Bool
  ty : Ty
  deriving DecidableEq, Repr

structure DerAttr where
  name : AttrName
  ty : Ty
  init : Expr
  deriving DecidableEq, Repr

/-- `inverse_attr`: `name : [SET|BAG [bounds] OF] entity FOR attribute;` -/
structure InvAttr where
  name : AttrName
  aggr : Option (String × Option (Expr × Expr))
  ent : String
  attr : String
  deriving DecidableEq, Repr

structure UniqRule where
  label : Option String
  refs : List Expr
  deriving DecidableEq, Repr

structure DomRule where
  label : Option String
  expr : Expr
  deriving DecidableEq, Repr

structure EntityDecl where
  name : String
  abstract : Bool
  sup : Option SupEx
  subOf : List String
  expl : List ExplAttr
  der : List DerAttr
  inv : List InvAttr
  uniq : List UniqRule
  dom : List DomRule
  deriving DecidableEq, Repr

def explToks (a : ExplAttr) : List DTok :=
  a.name.toks ++ [.sym ":"] ++ (if a.optional then [.kw "OPTIONAL"] else []) ++ tyToks a.ty ++ [.sym ";"]

def derToks (a : DerAttr) : List DTok :=
  a.name.toks ++ [.sym ":"] ++ tyToks a.ty ++ [.sym ":=", .ex a.init, .sym ";"]

def invTy (a : InvAttr) : Ty :=
  match a.aggr with
  | some (k, b) => .aggr k b false false (.named a.ent)
  | none => .named a.ent

def invToks (a : InvAttr) : List DTok :=
  a.name.toks ++ [.sym ":"] ++ tyToks (invTy a) ++ [.kw "FOR", .id a.attr, .sym ";"]

def refsToks : List Expr → List DTok
  | [] => []
  | [e] => [.ex e]
  | e :: es => .ex e :: .sym "," :: refsToks es

def uniqToks (u : UniqRule) : List DTok :=
  (match u.label with | some l => [.id l, .sym ":"] | none => []) ++ refsToks u.refs ++ [.sym ";"]

def domToks (w : DomRule) : List DTok :=
  (match w.label with | some l => [.id l, .sym ":"] | none => []) ++ [.ex w.expr, .sym ";"]

def nameListToks : List String → List DTok
  | [] => []
  | [s] => [.id s]
  | s :: ss => .id s :: .sym "," :: nameListToks ss

/-- `ENTITY_out` as tokens -/
def entityToks (e : EntityDecl) : List DTok :=
  [.kw "ENTITY", .id e.name]
    ++ (if e.abstract then [.kw "ABSTRACT"] else [])
    ++ (match e.sup with
        | some s => [.kw "SUPERTYPE", .kw "OF", .sym "("] ++ supToks s false none ++ [.sym ")"]
        | none => if e.abstract then [.kw "SUPERTYPE"] else [])
    ++ (if e.subOf = [] then [] else [.kw "SUBTYPE", .kw "OF", .sym "("] ++ nameListToks e.subOf ++ [.sym ")"])
    ++ [.sym ";"]
    ++ e.expl.flatMap explToks
    ++ (if e.der = [] then [] else .kw "DERIVE" :: e.der.flatMap derToks)
    ++ (if e.inv = [] then [] else .kw "INVERSE" :: e.inv.flatMap invToks)
    ++ (if e.uniq = [] then [] else .kw "UNIQUE" :: e.uniq.flatMap uniqToks)
    ++ (if e.dom = [] then [] else .kw "WHERE" :: e.dom.flatMap domToks)
    ++ [.kw "END_ENTITY", .sym ";"]

/-! ### reader -/

def parseAttrName : List DTok → Option (AttrName × List DTok)
  | .id s :: r => some (.plain s, r)
  | .kw "SELF" :: .sym "\\" :: .id sup :: .sym "." :: .id a :: r => some (.redecl sup a, r)
  | _ => none

/-- `explicit_attr_list` (one name per declaration, as exppp prints them); stops at the first token that is not an attribute name -/
def parseExpl : Nat → List DTok → Option (List ExplAttr × List DTok)
  | 0, _ => none
  | n + 1, ts =>
    match parseAttrName ts with
    | some (nm, .sym ":" :: r) =>
      let (op, r1) := takeKw "OPTIONAL" r
      match parseTy n r1 with
      | some (t, .sym ";" :: r2) =>
        match parseExpl n r2 with
        | some (as, r3) => some (⟨nm, op, t⟩ :: as, r3)
        | none => none
      | _ => none
    | _ => some ([], ts)

def parseDer : Nat → List DTok → Option (List DerAttr × List DTok)
  | 0, _ => none
  | n + 1, ts =>
    match parseAttrName ts with
    | some (nm, .sym ":" :: r) =>
      match parseTy n r with
      | some (t, .sym ":=" :: .ex e :: .sym ";" :: r2) =>
        match parseDer n r2 with
        | some (as, r3) => some (⟨nm, t, e⟩ :: as, r3)
        | none => none
      | _ => none
    | _ => some ([], ts)

/-- `set_or_bag_of_entity` -/
def parseInvTy : List DTok → Option ((Option (String × Option (Expr × Expr)) × String) × List DTok)
  | .id s :: r => some ((none, s), r)
  | .kw k :: r =>
    if k = "SET" ∨ k = "BAG" then
      let (b, r1) := takeBounds r
      match r1 with
      | .kw "OF" :: .id s :: r2 => some ((some (k, b), s), r2)
      | _ => none
    else none
  | _ => none

def parseInv : Nat → List DTok → Option (List InvAttr × List DTok)
  | 0, _ => none
  | n + 1, ts =>
    match parseAttrName ts with
    | some (nm, .sym ":" :: r) =>
      match parseInvTy r with
      | some ((ag, en), .kw "FOR" :: .id a :: .sym ";" :: r2) =>
        match parseInv n r2 with
        | some (as, r3) => some (⟨nm, ag, en, a⟩ :: as, r3)
        | none => none
      | _ => none
    | _ => some ([], ts)

/-- `qualified_attr_list` up to the semicolon -/
def parseRefs : Nat → List DTok → Option (List Expr × List DTok)
  | 0, _ => none
  | n + 1, ts =>
    match ts with
    | .ex e :: .sym "," :: r =>
      match parseRefs n r with
      | some (es, r') => some (e :: es, r')
      | none => none
    | .ex e :: .sym ";" :: r => some ([e], r)
    | _ => none

/-- `labelled_attrib_list_list` -/
def parseUniq : Nat → List DTok → Option (List UniqRule × List DTok)
  | 0, _ => none
  | n + 1, ts =>
    match ts with
    | .id l :: .sym ":" :: r =>
      match parseRefs n r with
      | some (es, r1) =>
        match parseUniq n r1 with
        | some (us, r2) => some (⟨some l, es⟩ :: us, r2)
        | none => none
      | none => none
    | .ex e :: r =>
      match parseRefs n (.ex e :: r) with
      | some (es, r1) =>
        match parseUniq n r1 with
        | some (us, r2) => some (⟨none, es⟩ :: us, r2)
        | none => none
      | none => none
    | _ => some ([], ts)

/-- `where_clause_list` -/
def parseDom : Nat → List DTok → Option (List DomRule × List DTok)
  | 0, _ => none
  | n + 1, ts =>
    match ts with
    | .id l :: .sym ":" :: .ex e :: .sym ";" :: r =>
      match parseDom n r with
      | some (ws, r1) => some (⟨some l, e⟩ :: ws, r1)
      | none => none
    | .ex e :: .sym ";" :: r =>
      match parseDom n r with
      | some (ws, r1) => some (⟨none, e⟩ :: ws, r1)
      | none => none
    | _ => some ([], ts)

/-- `defined_type_list` up to the closing parenthesis -/
def parseIdList : Nat → List DTok → Option (List String × List DTok)
  | 0, _ => none
  | n + 1, ts =>
    match ts with
    | .id s :: .sym "," :: r =>
      match parseIdList n r with
      | some (ss, r') => some (s :: ss, r')
      | none => none
    | .id s :: .sym ")" :: r => some ([s], r)
    | _ => none

/-- a clause introduced by a keyword, or nothing -/
def optClause {α : Type} (k : String) (p : List DTok → Option (List α × List DTok)) : List DTok → Option (List α × List DTok)
  | .kw k' :: r => if k' = k then p r else some ([], .kw k' :: r)
  | ts => some ([], ts)

/-- `entity_decl` -/
def parseEntity (n : Nat) : List DTok → Option (EntityDecl × List DTok)
  | .kw "ENTITY" :: .id name :: r =>
    let (ab, r1) := takeKw "ABSTRACT" r
    let supr : Option (Option SupEx × List DTok) :=
      match r1 with
      | .kw "SUPERTYPE" :: .kw "OF" :: .sym "(" :: r2 =>
        match parseSupExpr n r2 with
        | some (s, .sym ")" :: r3) => some (some s, r3)
        | _ => none
      | .kw "SUPERTYPE" :: r2 => if ab then some (none, r2) else none
      | _ => if ab then none else some (none, r1)
    match supr with
    | none => none
    | some (sup, r2) =>
      let subr : Option (List String × List DTok) :=
        match r2 with
        | .kw "SUBTYPE" :: .kw "OF" :: .sym "(" :: r3 => parseIdList n r3
        | _ => some ([], r2)
      match subr with
      | some (sub, .sym ";" :: r3) =>
        match parseExpl n r3 with
        | none => none
        | some (ex, r4) =>
          match optClause "DERIVE" (parseDer n) r4 with
          | none => none
          | some (de, r5) =>
            match optClause "INVERSE" (parseInv n) r5 with
            | none => none
            | some (iv, r6) =>
              match optClause "UNIQUE" (parseUniq n) r6 with
              | none => none
              | some (uq, r7) =>
                match optClause "WHERE" (parseDom n) r7 with
                | some (wh, .kw "END_ENTITY" :: .sym ";" :: r8) => some (⟨name, ab, sup, sub, ex, de, iv, uq, wh⟩, r8)
                | _ => none
      | _ => none
  | _ => none

/-- the entity as it is read back: the supertype expression regrouped (`supNorm`) -/
def EntityDecl.norm (e : EntityDecl) : EntityDecl := { e with sup := e.sup.map supNorm }

end StepModel.Express

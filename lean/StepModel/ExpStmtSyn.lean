import StepModel.ExpEntitySyn
/-!
# declaration syntax: statements (property C07)

Token image of `STMT_out` / `STMTlist_out` (`src/exppp/pretty_stmt.c`: assignment, procedure call, RETURN, SKIP, ESCAPE, compound
statement, IF, ALIAS), `CASEout` (`pretty_case.c`: the labels of one case action as one comma-separated list, OTHERWISE last) and
`LOOPout` (`pretty_loop.c`: increment control with the BY clause the parser always supplies, WHILE, UNTIL), and a
recursive-descent reader of those tokens following `statement`, `statement_rep`, `case_statement` / `case_action`,
`repeat_statement`, `alias_statement`, … of expparse.y.  Embedded expressions are single tokens (`DTok.ex`).
Statement lists, case-action lists are `nil`/`cons` spines inside the one inductive type.
-/
namespace StepModel.Express

inductive Stmt
  | assign (lhs rhs : Expr)
  | call (name : String) (args : List Expr)
  | ret (v : Option Expr)
  | skip | escape
  | compound (body : Stmt)
  | cond (c : Expr) (th : Stmt) (hasElse : Bool) (el : Stmt)
  | case (sel : Expr) (items : Stmt) (hasOther : Bool) (other : Stmt)
  | item (labels : List Expr) (action : Stmt)
  | loop (incr : Option (String × Expr × Expr × Expr)) (wh un : Option Expr) (body : Stmt)
  | alias (name : String) (ref : Expr) (body : Stmt)
  | nil | cons (s t : Stmt)
  deriving DecidableEq, Repr, Inhabited

def incrToks : Option (String × Expr × Expr × Expr) → List DTok
  | some (v, a, b, c) => [.id v, .sym ":=", .ex a, .kw "TO", .ex b, .kw "BY", .ex c]
  | none => []

def optKwEx (k : String) : Option Expr → List DTok
  | some e => [.kw k, .ex e]
  | none => []

mutual
/-- `STMT_out` as tokens -/
def stmtToks : Stmt → List DTok
  | .assign l r => [.ex l, .sym ":=", .ex r, .sym ";"]
  | .call f as => [.id f, .sym "("] ++ refsToks as ++ [.sym ")", .sym ";"]
  | .ret none => [.kw "RETURN", .sym ";"]
  | .ret (some e) => [.kw "RETURN", .sym "(", .ex e, .sym ")", .sym ";"]
  | .skip => [.kw "SKIP", .sym ";"]
  | .escape => [.kw "ESCAPE", .sym ";"]
  | .compound b => [.kw "BEGIN"] ++ stmtsToks b ++ [.kw "END", .sym ";"]
  | .cond c th he el =>
    [.kw "IF", .ex c, .kw "THEN"] ++ stmtsToks th ++ (if he then [.kw "ELSE"] ++ stmtsToks el else []) ++ [.kw "END_IF", .sym ";"]
  | .case sel its ho o =>
    [.kw "CASE", .ex sel, .kw "OF"] ++ caseItemsToks its ++ (if ho then [.kw "OTHERWISE", .sym ":"] ++ stmtToks o else [])
      ++ [.kw "END_CASE", .sym ";"]
  | .item ls a => refsToks ls ++ [.sym ":"] ++ stmtToks a
  | .loop incr wh un b =>
    [.kw "REPEAT"] ++ incrToks incr ++ optKwEx "WHILE" wh ++ optKwEx "UNTIL" un ++ [.sym ";"] ++ stmtsToks b
      ++ [.kw "END_REPEAT", .sym ";"]
  | .alias a e b => [.kw "ALIAS", .id a, .kw "FOR", .ex e, .sym ";"] ++ stmtsToks b ++ [.kw "END_ALIAS", .sym ";"]
  | .nil => []
  | .cons _ _ => []
/-- `STMTlist_out` -/
def stmtsToks : Stmt → List DTok
  | .cons s t => stmtToks s ++ stmtsToks t
  | _ => []
/-- the case actions of `CASEout` -/
def caseItemsToks : Stmt → List DTok
  | .cons s t => stmtToks s ++ caseItemsToks t
  | _ => []
end

def stmtStarters : List String := ["RETURN", "SKIP", "ESCAPE", "BEGIN", "IF", "CASE", "REPEAT", "ALIAS"]

/-- can a statement begin here -/
def startsStmt : List DTok → Bool
  | .ex _ :: _ => true
  | .id _ :: _ => true
  | .kw k :: _ => stmtStarters.contains k
  | _ => false

/-- actual parameters after the opening parenthesis, through the closing one -/
def parseCallArgs : Nat → List DTok → Option (List Expr × List DTok)
  | 0, _ => none
  | n + 1, ts =>
    match ts with
    | .sym ")" :: r => some ([], r)
    | .ex e :: .sym ")" :: r => some ([e], r)
    | .ex e :: .sym "," :: r =>
      match parseCallArgs n r with
      | some (es, r') => if es = [] then none else some (e :: es, r')
      | none => none
    | _ => none

/-- the further labels of a case action, through the colon -/
def parseLabels : Nat → List DTok → Option (List Expr × List DTok)
  | 0, _ => none
  | n + 1, ts =>
    match ts with
    | .sym ":" :: r => some ([], r)
    | .sym "," :: .ex e :: r =>
      match parseLabels n r with
      | some (es, r') => some (e :: es, r')
      | none => none
    | _ => none

def takeIncr : List DTok → Option (String × Expr × Expr × Expr) × List DTok
  | .id v :: .sym ":=" :: .ex a :: .kw "TO" :: .ex b :: .kw "BY" :: .ex c :: r => (some (v, a, b, c), r)
  | r => (none, r)

def takeKwEx (k : String) : List DTok → Option Expr × List DTok
  | .kw k' :: .ex e :: r => if k' = k then (some e, r) else (none, .kw k' :: .ex e :: r)
  | r => (none, r)

mutual
/-- `statement` -/
def parseStmt : Nat → List DTok → Option (Stmt × List DTok)
  | 0, _ => none
  | n + 1, ts =>
    match ts with
    | .ex l :: .sym ":=" :: .ex r :: .sym ";" :: rest => some (.assign l r, rest)
    | .id f :: .sym "(" :: rest =>
      match parseCallArgs n rest with
      | some (as, .sym ";" :: rest') => some (.call f as, rest')
      | _ => none
    | .kw "RETURN" :: .sym ";" :: rest => some (.ret none, rest)
    | .kw "RETURN" :: .sym "(" :: .ex e :: .sym ")" :: .sym ";" :: rest => some (.ret (some e), rest)
    | .kw "SKIP" :: .sym ";" :: rest => some (.skip, rest)
    | .kw "ESCAPE" :: .sym ";" :: rest => some (.escape, rest)
    | .kw "BEGIN" :: rest =>
      match parseStmts n rest with
      | some (b, .kw "END" :: .sym ";" :: r') => some (.compound b, r')
      | _ => none
    | .kw "IF" :: .ex c :: .kw "THEN" :: rest =>
      match parseStmts n rest with
      | some (th, .kw "ELSE" :: r1) =>
        match parseStmts n r1 with
        | some (el, .kw "END_IF" :: .sym ";" :: r2) => some (.cond c th true el, r2)
        | _ => none
      | some (th, .kw "END_IF" :: .sym ";" :: r1) => some (.cond c th false .nil, r1)
      | _ => none
    | .kw "CASE" :: .ex sel :: .kw "OF" :: rest =>
      match parseCaseItems n rest with
      | some (its, .kw "OTHERWISE" :: .sym ":" :: r1) =>
        match parseStmt n r1 with
        | some (o, .kw "END_CASE" :: .sym ";" :: r2) => some (.case sel its true o, r2)
        | _ => none
      | some (its, .kw "END_CASE" :: .sym ";" :: r1) => some (.case sel its false .nil, r1)
      | _ => none
    | .kw "REPEAT" :: rest =>
      let (incr, r1) := takeIncr rest
      let (wh, r2) := takeKwEx "WHILE" r1
      let (un, r3) := takeKwEx "UNTIL" r2
      match r3 with
      | .sym ";" :: r4 =>
        match parseStmts n r4 with
        | some (b, .kw "END_REPEAT" :: .sym ";" :: r5) => some (.loop incr wh un b, r5)
        | _ => none
      | _ => none
    | .kw "ALIAS" :: .id a :: .kw "FOR" :: .ex e :: .sym ";" :: rest =>
      match parseStmts n rest with
      | some (b, .kw "END_ALIAS" :: .sym ";" :: r') => some (.alias a e b, r')
      | _ => none
    | _ => none
/-- `statement_rep`, up to the first token that cannot begin a statement -/
def parseStmts : Nat → List DTok → Option (Stmt × List DTok)
  | 0, _ => none
  | n + 1, ts =>
    if startsStmt ts then
      match parseStmt n ts with
      | some (s, r) =>
        match parseStmts n r with
        | some (t, r') => some (.cons s t, r')
        | none => none
      | none => none
    else some (.nil, ts)
/-- `case_action_list` -/
def parseCaseItems : Nat → List DTok → Option (Stmt × List DTok)
  | 0, _ => none
  | n + 1, ts =>
    match ts with
    | .ex l :: rest =>
      match parseLabels n rest with
      | some (ls, r1) =>
        match parseStmt n r1 with
        | some (a, r2) =>
          match parseCaseItems n r2 with
          | some (t, r3) => some (.cons (.item (l :: ls) a) t, r3)
          | none => none
        | none => none
      | none => none
    | _ => some (.nil, ts)
end

mutual
/-- statements the grammar can produce -/
def wfStmt : Stmt → Prop
  | .assign _ _ | .call _ _ | .ret _ | .skip | .escape => True
  | .compound b => wfStmts b
  | .cond _ th he el => wfStmts th ∧ wfStmts el ∧ (he = false → el = .nil)
  | .case _ its ho o => wfCaseItems its ∧ (ho = true → wfStmt o) ∧ (ho = false → o = .nil)
  | .loop _ _ _ b => wfStmts b
  | .alias _ _ b => wfStmts b
  | .item _ _ | .nil | .cons _ _ => False
def wfStmts : Stmt → Prop
  | .nil => True
  | .cons s t => wfStmt s ∧ wfStmts t
  | _ => False
def wfCaseItems : Stmt → Prop
  | .nil => True
  | .cons (.item ls a) t => ls ≠ [] ∧ wfStmt a ∧ wfCaseItems t
  | _ => False
end

end StepModel.Express

import StepModel.ComplexOrFreeSem
import StepModel.ComplexForest3
/-! OR-free collects: the matcher agrees with the plain meaning (soundness and completeness). -/
namespace StepModel.Complex.Match
open StepModel.Generated StepModel.Complex

theorem der_iff_sat_cov (h : Tree) (hh : orFreeHead h) (N : List Name) :
    Der (denote h) N ↔ satT N h = true ∧ ∀ n ∈ N, n ∈ covT N h := by
  obtain ⟨hof, hwf, hnd, _⟩ := hh
  constructor
  · intro hd
    obtain ⟨h1, h2⟩ := (orfree_meaning h hof hwf hnd N (der_sub hd)).mp hd
    exact ⟨h1, fun n hn => (h2 n).mp hn⟩
  · rintro ⟨h1, h2⟩
    have hsub : ∀ y ∈ N, y ∈ leaves h := fun y hy => cov_sub_leaves N h y (h2 y hy)
    refine (orfree_meaning h hof hwf hnd N hsub).mpr ⟨h1, fun x => ⟨h2 x, fun hx => (cov_sat N h h1 hwf).1 x hx⟩⟩

/-- **Soundness and completeness of the matcher on the OR-free fragment** -/
theorem orfree_sound_complete (c : Collect) (hc : ∀ h ∈ c, orFreeHead h) (parts : List Name) (b : Bool)
    (hs : supports c [] parts = .ok b) : b = true ↔ evalB c [] parts = true := by
  rw [supports_orfree c hc parts b hs, evalB_nomult]
  have hset : SameSet (mkNames parts) parts := fun x => mem_mkNames parts x
  constructor
  · rintro ⟨h, hh, h1, h2⟩
    exact ⟨h, hh, (Der.congr hset).mp ((der_iff_sat_cov h (hc h hh) _).mpr ⟨h1, h2⟩)⟩
  · rintro ⟨h, hh, hd⟩
    obtain ⟨h1, h2⟩ := (der_iff_sat_cov h (hc h hh) _).mp ((Der.congr hset).mpr hd)
    exact ⟨h, hh, h1, h2⟩

end StepModel.Complex.Match

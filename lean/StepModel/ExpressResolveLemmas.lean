import StepModel.ExpressResolve
import StepModel.ExpressDiagLemmas
/-! Lemmas about the cycle search of `Express.Resolve` (`dfs`): soundness for both variants, completeness for the
`continue` variant — for every graph, start node, sibling order and fuel. -/
namespace StepModel.Express.Resolve
open StepModel.Generated
open StepModel.Express.Diag (Arg Diag Via)

/-- `b` is reachable from `a` in at least one step of `g` -/
inductive Reach (g : String → List String) : String → String → Prop
  | step {a b : String} : b ∈ g a → Reach g a b
  | trans {a b c : String} : b ∈ g a → Reach g b c → Reach g a c

def ReachRefl (g : String → List String) (a b : String) : Prop := a = b ∨ Reach g a b

theorem Reach.tail {g : String → List String} {a b c : String} (h : Reach g a b) (hc : c ∈ g b) : Reach g a c := by
  induction h with
  | step h1 => exact .trans h1 (.step hc)
  | trans h1 _ ih => exact .trans h1 (ih hc)

/-- the property of a search function that soundness is about -/
def SoundP (e : String) (g : String → List String) (f : List String → List String → Option Dfs) : Prop :=
  ∀ (cs vis : List String) (r : Dfs), f cs vis = some r → r.found = true →
    ∀ s, (∀ c ∈ cs, Reach g s c) → Reach g s e ∧ ∀ n ∈ r.trail, Reach g s n ∧ ReachRefl g n e

theorem dfsList_sound (ret : Bool) (e : String) (g : String → List String)
    (rec : List String → List String → Option Dfs) (hrec : SoundP e g rec) : SoundP e g (dfsList ret e g rec) := by
  intro cs
  induction cs with
  | nil => intro vis r h hf; simp [dfsList] at h; rw [← h] at hf; simp at hf
  | cons c cs ih =>
    intro vis r h hf s hs
    simp only [dfsList] at h
    split at h
    next hce =>
      simp at h; subst h; subst hce
      exact ⟨hs c (by simp), by simp⟩
    next hce =>
      split at h
      next hv =>
        split at h
        · simp at h; rw [← h] at hf; simp at hf
        · exact ih vis r h hf s (fun x hx => hs x (by simp [hx]))
      next hv =>
        split at h
        · simp at h
        next r' hr' =>
          split at h
          next hf' =>
            simp at h; subst h
            have hsc : Reach g s c := hs c (by simp)
            obtain ⟨h1, h2⟩ := hrec (g c) (c :: vis) r' hr' hf' s (fun x hx => hsc.tail hx)
            obtain ⟨h3, _⟩ := hrec (g c) (c :: vis) r' hr' hf' c (fun x hx => .step hx)
            refine ⟨h1, ?_⟩
            intro n hn
            simp at hn
            rcases hn with hn | hn
            · exact h2 n hn
            · subst hn; exact ⟨hsc, Or.inr h3⟩
          next hf' =>
            exact ih r'.visited r h hf s (fun x hx => hs x (by simp [hx]))

theorem dfs_soundP (ret : Bool) (e : String) (g : String → List String) : ∀ fuel, SoundP e g (dfs ret e g fuel)
  | 0 => by intro cs vis r h; simp [dfs] at h
  | n + 1 => by simpa [dfs] using dfsList_sound ret e g _ (dfs_soundP ret e g n)

theorem dfs_sound (ret : Bool) (e : String) (g : String → List String) (fuel : Nat) (cs vis : List String) (r : Dfs)
    (h : dfs ret e g fuel cs vis = some r) (hf : r.found = true) (s : String) (hs : ∀ c ∈ cs, Reach g s c) :
    Reach g s e ∧ ∀ n ∈ r.trail, Reach g s n ∧ ReachRefl g n e :=
  dfs_soundP ret e g fuel cs vis r h hf s hs

/-- what a completed, unsuccessful search (the `continue` variant) leaves behind -/
def CompleteP (e : String) (g : String → List String) (f : List String → List String → Option Dfs) : Prop :=
  ∀ (cs vis : List String) (r : Dfs), f cs vis = some r → r.found = false →
    (∀ x ∈ vis, x ∈ r.visited) ∧ (∀ c ∈ cs, c ≠ e ∧ c ∈ r.visited) ∧
    (∀ n ∈ r.visited, n ∉ vis → ∀ c ∈ g n, c ≠ e ∧ c ∈ r.visited)

theorem dfsList_complete (e : String) (g : String → List String)
    (rec : List String → List String → Option Dfs) (hrec : CompleteP e g rec) :
    CompleteP e g (dfsList false e g rec) := by
  intro cs
  induction cs with
  | nil =>
    intro vis r h hf
    simp [dfsList] at h; subst h
    exact ⟨fun x hx => hx, by simp, fun n hn hnv => absurd hn hnv⟩
  | cons c cs ih =>
    intro vis r h hf
    simp only [dfsList] at h
    split at h
    next hce => simp at h; rw [← h] at hf; simp at hf
    next hce =>
      split at h
      next hv =>
        simp only [Bool.false_eq_true, if_false] at h
        obtain ⟨a, b, c'⟩ := ih vis r h hf
        refine ⟨a, ?_, c'⟩
        intro x hx
        simp at hx
        rcases hx with hx | hx
        · subst hx; exact ⟨hce, a x hv⟩
        · exact b x hx
      next hv =>
        split at h
        · simp at h
        next r' hr' =>
          split at h
          next hf' => simp at h; rw [← h] at hf; simp at hf
          next hf' =>
            have hf'' : r'.found = false := by cases hq : r'.found <;> simp_all
            obtain ⟨a1, b1, c1⟩ := hrec (g c) (c :: vis) r' hr' hf''
            obtain ⟨a2, b2, c2⟩ := ih r'.visited r h hf
            refine ⟨fun x hx => a2 x (a1 x (by simp [hx])), ?_, ?_⟩
            · intro x hx
              simp at hx
              rcases hx with hx | hx
              · subst hx; exact ⟨hce, a2 x (a1 x (by simp))⟩
              · exact b2 x hx
            · intro n hn hnv k hk
              by_cases hn' : n ∈ r'.visited
              · by_cases hnc : n = c
                · subst hnc
                  obtain ⟨k1, k2⟩ := b1 k hk
                  exact ⟨k1, a2 k k2⟩
                · have : n ∉ c :: vis := by simp [hnc, hnv]
                  obtain ⟨k1, k2⟩ := c1 n hn' this k hk
                  exact ⟨k1, a2 k k2⟩
              · exact c2 n hn hn' k hk

theorem dfs_completeP (e : String) (g : String → List String) : ∀ fuel, CompleteP e g (dfs false e g fuel)
  | 0 => by intro cs vis r h; simp [dfs] at h
  | n + 1 => by simpa [dfs] using dfsList_complete e g _ (dfs_completeP e g n)

/-- completeness of the `continue` variant: a search from `e` that finishes without finding `e` proves that `e` is
    on no cycle -/
theorem dfs_complete (e : String) (g : String → List String) (fuel : Nat) (r : Dfs)
    (h : dfs false e g fuel (g e) [] = some r) (hf : r.found = false) : ¬ Reach g e e := by
  obtain ⟨_, b, c⟩ := dfs_completeP e g fuel (g e) [] r h hf
  have key : ∀ a n, Reach g a n → (a = e ∨ a ∈ r.visited) → n ≠ e ∧ n ∈ r.visited := by
    intro a n hr
    induction hr with
    | step h1 =>
      intro ha
      rcases ha with ha | ha
      · subst ha; exact b _ h1
      · exact c _ ha (by simp) _ h1
    | @trans a' b' c' h1 _ ih =>
      intro ha
      have : b' ∈ r.visited := by
        rcases ha with ha | ha
        · subst ha; exact (b _ h1).2
        · exact (c _ ha (by simp) _ h1).2
      exact ih (Or.inr this)
  intro hcyc
  exact (key e e hcyc (Or.inl rfl)).1 rfl

/-! ### imports: what a schema hands out does not depend on the order in which pass 2 visits the schemas -/

/-- no two partial USE items of a schema share a visible name (part of well-formedness: a second one is a
    DUPLICATE_DECL unless it is the same object) -/
def NoDupAlias (f : File) : Prop := ∀ s ∈ f.schemas, ((useItems s).map fun x => x.2.visibleName).Nodup

theorem findSome_key_mem {α β : Type} (key : α → String) (n : String) (h : α → Option β) :
    ∀ (xs : List α) (o : β), xs.findSome? (fun x => if key x = n then h x else none) = some o →
      ∃ y ∈ xs, key y = n ∧ h y = some o := by
  intro xs
  induction xs with
  | nil => intro o hh; simp at hh
  | cons x xs ih =>
    intro o hh
    simp only [List.findSome?_cons] at hh
    split at hh
    next o' ho' =>
      by_cases hk : key x = n
      · simp [hk] at ho'
        exact ⟨x, by simp, hk, by simpa [← hh] using ho'⟩
      · simp [hk] at ho'
    next hnone =>
      obtain ⟨y, hy, h1, h2⟩ := ih o hh
      exact ⟨y, by simp [hy], h1, h2⟩

/-- with distinct keys, "first item under that key that resolves" is "the item under that key, if it resolves" -/
theorem findSome_eq_find {α β : Type} (key : α → String) (n : String) (h : α → Option β) :
    ∀ (xs : List α), (xs.map key).Nodup → ∀ o,
      xs.findSome? (fun x => if key x = n then h x else none) = some o →
      (xs.find? (fun x => key x = n)).bind h = some o := by
  intro xs
  induction xs with
  | nil => intro _ o hh; simp at hh
  | cons x xs ih =>
    intro hnd o hh
    simp only [List.map_cons, List.nodup_cons] at hnd
    by_cases hk : key x = n
    · simp only [List.find?_cons, hk, decide_true, Option.bind_some]
      simp only [List.findSome?_cons, hk, if_true] at hh
      cases hx : h x with
      | some o' => simpa [hx] using hh
      | none =>
        simp only [hx] at hh
        obtain ⟨y, hy, h1, _⟩ := findSome_key_mem key n h xs o hh
        exact absurd (List.mem_map.mpr ⟨y, hy, h1.trans hk.symm⟩) hnd.1
    · simp only [List.find?_cons, hk, decide_false]
      simp only [List.findSome?_cons, hk, if_false] at hh
      exact ih hnd.2 o hh

theorem viaDict_le_viaList (rec : String → String → Option Obj) (t : Schema) (n : String)
    (nd : ((useItems t).map fun x => x.2.visibleName).Nodup) (o : Obj) (h : viaDict rec t n = some o) :
    viaList rec t n = some o := by
  have := findSome_eq_find (fun x : String × Item => x.2.visibleName) n (fun x => rec x.1 x.2.old) (useItems t) nd o h
  simpa [viaList] using this

theorem exportOf_order_independent (f : File) (hnd : NoDupAlias f) (p₁ p₂ : String → Bool) :
    ∀ (fuel : Nat), exportOf f true p₁ fuel = exportOf f true p₂ fuel := by
  intro fuel
  induction fuel with
  | zero => rfl
  | succ fuel ih =>
    funext T n
    simp only [exportOf, ih, exportStep]
    cases hs : findSchema f T with
    | none => rfl
    | some t =>
      simp only [if_true]
      have nd := hnd t (List.mem_of_find?_eq_some hs)
      have key : ∀ (p : String → Bool),
          (if p T = true then viaDict (exportOf f true p₂ fuel) t n else none).or (viaList (exportOf f true p₂ fuel) t n)
            = viaList (exportOf f true p₂ fuel) t n := by
        intro p
        by_cases hp : p T = true
        · simp only [hp, if_true]
          cases hA : viaDict (exportOf f true p₂ fuel) t n with
          | none => simp
          | some o => simp [viaDict_le_viaList _ t n nd o hA]
        · simp [hp]
      rw [key p₁, key p₂]

/-! ### every diagnostic of the model carries the file of its schema, goes through `ERRORreport_with_symbol`, and passes
arguments that fit the format of its code (regenerated table) -/

/-- file of origin, entry point, and arguments fitting the format -/
def OKd (p : String) (d : Diag) : Prop :=
  d.file = p.toList ∧ d.via = .symbol ∧ Diag.fits (Diag.parseFmt (Diag.formatOf d.code)) d.args = true ∧
  d.code ≠ LibErrors.SUBORDINATE_FAILED

def AllOK (p : String) (ds : List Diag) : Prop := ∀ d ∈ ds, OKd p d

theorem allOK_nil (p : String) : AllOK p [] := by intro d h; simp at h
theorem allOK_one {p : String} {d : Diag} (h : OKd p d) : AllOK p [d] := by
  intro x hx; simp at hx; subst hx; exact h
theorem allOK_append {p : String} {a b : List Diag} (ha : AllOK p a) (hb : AllOK p b) : AllOK p (a ++ b) := by
  intro d h; rcases List.mem_append.mp h with h | h
  · exact ha d h
  · exact hb d h
theorem allOK_cons {p : String} {a : Diag} {b : List Diag} (ha : OKd p a) (hb : AllOK p b) : AllOK p (a :: b) := by
  intro d h; rcases List.mem_cons.mp h with h | h
  · subst h; exact ha
  · exact hb d h
theorem allOK_flatMap {α : Type} {p : String} (l : List α) (g : α → List Diag) (h : ∀ x ∈ l, AllOK p (g x)) :
    AllOK p (l.flatMap g) := by
  intro d hd; obtain ⟨x, hx, hd⟩ := List.mem_flatMap.mp hd; exact h x hx d hd
theorem allOK_filterMap {α : Type} {p : String} (l : List α) (g : α → Option Diag)
    (h : ∀ x ∈ l, ∀ d, g x = some d → OKd p d) : AllOK p (l.filterMap g) := by
  intro d hd; obtain ⟨x, hx, hd⟩ := List.mem_filterMap.mp hd; exact h x hx d hd
theorem allOK_map {α : Type} {p : String} (l : List α) (g : α → Diag) (h : ∀ x ∈ l, OKd p (g x)) :
    AllOK p (l.map g) := by
  intro d hd; obtain ⟨x, hx, hd⟩ := List.mem_map.mp hd; subst hd; exact h x hx

/-- closes `OKd p (mk p CODE line [args…])` for a concrete code and argument shapes -/
macro "okd" : tactic =>
  `(tactic| (refine ⟨rfl, rfl, ?_, (by simp only [mk]; decide)⟩
             apply Diag.fits_of_codeFits
             simp only [mk, sArg, List.map, Diag.Arg.kind]
             decide))

theorem typeRefDiags_ok (p : String) (env : Env) (s : Schema) : ∀ t, AllOK p (typeRefDiags p env s t)
  | .simple => by simp [typeRefDiags, allOK_nil]
  | .aggr b => by simpa [typeRefDiags] using typeRefDiags_ok p env s b
  | .named n l => by
    simp only [typeRefDiags]
    split
    · exact allOK_nil p
    · split
      · exact allOK_one (by okd)
      · split
        · exact allOK_one (by okd)
        · exact allOK_nil p
        · exact allOK_one (by okd)

theorem dupDiags_ok (p : String) : ∀ items seen, AllOK p (dupDiags p items seen)
  | [], _ => by simp [dupDiags, allOK_nil]
  | (n, l) :: rest, seen => by
    simp only [dupDiags]
    split
    · exact allOK_cons (by okd) (dupDiags_ok p rest seen)
    · exact dupDiags_ok p rest _

set_option maxRecDepth 8000 in
theorem declParseDiags_ok (p : String) (d : Decl) : AllOK p (declParseDiags p d) := by
  cases d with
  | entity e =>
    apply allOK_append (dupDiags_ok _ _ _)
    apply allOK_flatMap; intro r _
    apply allOK_filterMap; intro x _ d hd
    cases x <;> simp at hd
    subst hd; okd
  | type t =>
    simp only [declParseDiags]
    split
    · exact dupDiags_ok _ _ _
    · exact allOK_nil _
  | func _ => exact allOK_nil _
  | syntaxError _ _ _ => exact allOK_nil _

theorem parseDeclsFrom_ok (p : String) : ∀ ds seen, AllOK p (parseDeclsFrom p ds seen).1
  | [], _ => by simp [parseDeclsFrom, allOK_nil]
  | d :: ds, seen => by
    cases d with
    | syntaxError k n l => simp only [parseDeclsFrom]; exact allOK_one (by okd)
    | entity e =>
      simp only [parseDeclsFrom, declKey]
      split
      · exact allOK_cons (by okd) (allOK_append (declParseDiags_ok _ _) (parseDeclsFrom_ok p ds _))
      · exact allOK_append (declParseDiags_ok _ _) (parseDeclsFrom_ok p ds _)
    | type t =>
      simp only [parseDeclsFrom, declKey]
      split
      · exact allOK_cons (by okd) (allOK_append (declParseDiags_ok _ _) (parseDeclsFrom_ok p ds _))
      · exact allOK_append (declParseDiags_ok _ _) (parseDeclsFrom_ok p ds _)
    | func fn =>
      simp only [parseDeclsFrom, declKey]
      split
      · exact allOK_cons (by okd) (allOK_append (declParseDiags_ok _ _) (parseDeclsFrom_ok p ds _))
      · exact allOK_append (declParseDiags_ok _ _) (parseDeclsFrom_ok p ds _)

theorem pass1_ok (f : File) (s : Schema) : AllOK (fileOf f s) (pass1 f s) := by
  apply allOK_flatMap
  intro i _
  split
  · exact allOK_nil _
  · split
    · exact allOK_map _ _ (fun _ _ => by okd)
    · exact allOK_one (by okd)

theorem aliasDups_ok (p : String) : ∀ items seen, AllOK p (aliasDups p items seen)
  | [], _ => by simp [aliasDups, allOK_nil]
  | (n, l, o) :: rest, seen => by
    simp only [aliasDups]
    split
    · split
      · exact aliasDups_ok p rest seen
      · exact allOK_cons (by okd) (aliasDups_ok p rest seen)
    · exact aliasDups_ok p rest _

theorem pass2_ok (f : File) (fb : Bool) (s : Schema) : AllOK (fileOf f s) (pass2 f fb s) := by
  have miss : ∀ (items : List (String × Item)),
      AllOK (fileOf f s) (items.filterMap fun x =>
        match exportOf f fb (processedBefore f s.name) (importFuel f) x.1 x.2.old with
        | some _ => none
        | none => some (mk (fileOf f s) LibErrors.REF_NONEXISTENT x.2.line [sArg x.2.old, sArg x.1])) := by
    intro items
    apply allOK_filterMap
    intro x _ d hd
    split at hd
    · simp at hd
    · simp at hd; subst hd; okd
  simp only [pass2]
  exact allOK_append (allOK_append (allOK_append (miss _) (aliasDups_ok _ _ _)) (miss _)) (aliasDups_ok _ _ _)

theorem subtypeResolve_ok (p : String) (l : Nat) (n dn : String) (dl : Nat) :
    OKd p (mk p LibErrors.SUBTYPE_RESOLVE l (subtypeResolveArgs n dn dl)) := by
  refine ⟨rfl, rfl, ?_, (by simp only [mk]; decide)⟩
  have h : ResolveGen.subtypeResolvePassesName = true := by decide
  apply Diag.fits_of_codeFits
  simp only [mk, subtypeResolveArgs, h, if_true, sArg, List.map, Diag.Arg.kind]
  decide

theorem pass3_ok (p : String) (env : Env) (s : Schema) : AllOK p (pass3 p env s) := by
  apply allOK_flatMap
  intro decl _
  cases decl with
  | entity e =>
    simp only
    split
    · exact allOK_nil _
    simp only [superSubDiags]
    apply allOK_append
    · apply allOK_filterMap; intro x _ d hd
      split at hd
      · simp at hd
      · split at hd <;> (simp at hd; subst hd; okd)
    · apply allOK_filterMap; intro x _ d hd
      split at hd
      · simp at hd
      · split at hd
        · simp at hd; subst hd; exact subtypeResolve_ok _ _ _ _ _
        · simp at hd; subst hd; okd
  | type t =>
    simp only [typeDeclDiags]
    split
    · apply allOK_append
      · apply allOK_append
        · split
          · split
            · exact allOK_one (by okd)
            · exact allOK_nil _
          · exact allOK_nil _
        · exact typeRefDiags_ok _ _ _ _
      · split
        · split
          · exact allOK_one (by okd)
          · exact allOK_nil _
        · exact allOK_nil _
    · apply allOK_flatMap; intro x _; exact typeRefDiags_ok _ _ _ _
    · exact allOK_nil _
  | func _ => exact allOK_nil _
  | syntaxError _ _ _ => exact allOK_nil _

theorem cycleDiags_ok (p : String) (lc cc : Nat) (lineOf : String → Nat) (start : String)
    (hl : ∀ l n, OKd p (mk p lc l [sArg n])) (hc : ∀ l n, OKd p (mk p cc l [sArg n])) :
    ∀ r, AllOK p (cycleDiags p lc cc lineOf start r)
  | none => allOK_nil _
  | some r => by
    simp only [cycleDiags]
    split
    · exact allOK_cons (hl _ _) (allOK_map _ _ (fun _ _ => hc _ _))
    · exact allOK_nil _

theorem inverseDiags_ok (p : String) (s : Schema) (a : Attr) (h : String → String → Bool) : AllOK p (inverseDiags p s a h) := by
  simp only [inverseDiags]
  split
  · exact allOK_nil _
  · split
    · split
      · split
        · exact allOK_nil _
        · exact allOK_one (by okd)
      · split
        · exact allOK_one (by okd)
        · exact allOK_nil _
    · exact allOK_one (by okd)

theorem uniqueDiags_ok (p : String) (s : Schema) (e : Entity) (fuel : Nat) (u : UniqueItem) :
    AllOK p (uniqueDiags p s e fuel u) := by
  have hu : AllOK p (match namedAttr s u.attr fuel e.name with
      | some true => []
      | _ => [mk p LibErrors.UNKNOWN_ATTR_IN_ENTITY u.line [sArg u.attr, sArg e.name]]) := by
    split
    · exact allOK_nil _
    · exact allOK_one (by okd)
  have hn : AllOK p (if e.attrs.any (·.name = u.attr) then [mk p LibErrors.UNIQUE_QUAL_REDECL u.line [sArg u.attr, sArg e.name]] else []) := by
    split
    · exact allOK_one (by okd)
    · exact allOK_nil _
  simp only [uniqueDiags]
  split
  · exact hu
  · split
    · exact allOK_append (allOK_append (allOK_cons (by okd) (allOK_one (by okd))) hu) hn
    · split
      · exact hu
      · split
        · exact allOK_append hn hu
        · exact allOK_append (allOK_append (allOK_cons (by okd) (allOK_one (by okd))) hu) hn

theorem entityPass4_ok (p : String) (env : Env) (s : Schema) (e : Entity) : AllOK p (entityPass4 p env s e) := by
  simp only [entityPass4]
  refine allOK_append (allOK_append (allOK_append ?_ ?_) ?_) ?_
  · simp only [missingSuperDiags]
    apply allOK_filterMap; intro x _ d hd
    split at hd
    · split at hd
      · simp at hd
      · simp at hd; subst hd; okd
    · simp at hd
  · apply allOK_flatMap; intro a _
    apply allOK_append (typeRefDiags_ok _ _ _ _)
    split
    · exact inverseDiags_ok _ _ _ _
    · exact allOK_nil _
  · apply allOK_flatMap; intro u _; exact uniqueDiags_ok _ _ _ _ _
  · simp only [subsuperCycleDiags]
    split
    · simp only [nestingDiags]
      split
      · exact allOK_one (by okd)
      · exact allOK_nil _
    · exact cycleDiags_ok _ _ _ _ _ (fun _ _ => by okd) (fun _ _ => by okd) _

theorem pass4_ok (p : String) (env : Env) (s : Schema) : AllOK p (pass4 p env s) := by
  apply allOK_flatMap
  intro decl _
  cases decl with
  | type t =>
    simp only [selectCycleDiags]
    split
    · exact cycleDiags_ok _ _ _ _ _ (fun _ _ => by okd) (fun _ _ => by okd) _
    · exact allOK_nil _
  | entity e =>
    simp only
    split
    · exact allOK_nil _
    · exact entityPass4_ok _ _ _ _
  | func _ => exact allOK_nil _
  | syntaxError _ _ _ => exact allOK_nil _

theorem missingSelf_ok (p : String) (r : Rule) : AllOK p (missingSelf p r) := by
  simp only [missingSelf]
  split
  · exact allOK_one (by okd)
  · exact allOK_nil _

theorem globalRef_ok (p : String) (env : Env) (s : Schema) (r : Rule) (n : String) (ds : List Diag)
    (h : globalRef p env s r n = some ds) : AllOK p ds := by
  simp only [globalRef] at h
  split at h
  · simp only [Option.some.injEq] at h; subst h
    split
    · exact allOK_nil _
    · exact allOK_one (by okd)
  · split at h
    · simp only [Option.some.injEq] at h; subst h; exact allOK_nil _
    · simp at h

theorem callDiags_ok (p : String) (s : Schema) (r : Rule) (fn : String) (argc : Nat) : AllOK p (callDiags p s r fn argc) := by
  simp only [callDiags]
  split
  · split
    · exact allOK_nil _
    · exact allOK_one (by okd)
  · split
    · split
      · exact allOK_nil _
      · exact allOK_one (by okd)
    · exact allOK_cons (by okd) (missingSelf_ok _ _)

theorem operandDiags_ok (p : String) (s : Schema) (fuel : Nat) (r : Rule) (field : String) (t : TypeRef) :
    AllOK p (operandDiags p s fuel r field t) := by
  simp only [operandDiags]
  split
  · exact allOK_one (by okd)
  · exact allOK_one (by okd)
  · split
    · exact allOK_nil _
    · exact allOK_one (by okd)
  · split
    · exact allOK_nil _
    · exact allOK_one (by okd)
  · split
    · exact allOK_nil _
    · split
      · exact allOK_one (by okd)
      · exact allOK_one (by okd)
  · exact allOK_nil _

theorem dotDiags_ok (p : String) (s : Schema) (fuel : Nat) (e : Entity) (r : Rule) (a f : String) (ix : Bool) :
    AllOK p (dotDiags p s fuel e r a f ix) := by
  simp only [dotDiags]
  split
  · exact allOK_one (by okd)
  · exact operandDiags_ok _ _ _ _ _ _

theorem argsRun_ok (p : String) (diagsOf : CallArg → List Diag) (sees : CallArg → Bool) (h : ∀ a, AllOK p (diagsOf a)) :
    ∀ args, AllOK p (argsRun diagsOf sees args).1
  | [] => by simp [argsRun, allOK_nil]
  | a :: as => by
    simp only [argsRun]
    split
    · exact h a
    · exact allOK_append (h a) (argsRun_ok p diagsOf sees h as)

theorem argDiags_ok (p : String) (env : Env) (s : Schema) (fuel : Nat) (e : Entity) (r : Rule) (a : CallArg) :
    AllOK p (argDiags p env s fuel e r a) := by
  cases a with
  | lit => exact allOK_nil _
  | bare n =>
    simp only [argDiags]
    split
    · exact allOK_nil _
    · split
      next ds hg => exact globalRef_ok _ _ _ _ _ _ hg
      · exact allOK_one (by okd)
  | selfAttr a =>
    simp only [argDiags]
    split
    · exact allOK_nil _
    · exact allOK_one (by okd)

theorem algArgDiags_ok (p : String) (env : Env) (s : Schema) (f : Func) (r : Rule) (a : CallArg) :
    AllOK p (algArgDiags p env s f r a) := by
  cases a with
  | bare n =>
    simp only [algArgDiags]
    split
    · exact allOK_nil _
    · split
      next ds hg => exact globalRef_ok _ _ _ _ _ _ hg
      · exact allOK_one (by okd)
  | lit => exact allOK_nil _
  | selfAttr a => exact allOK_nil _

theorem callWithDiags_ok (p : String) (env : Env) (s : Schema) (fuel : Nat) (e : Entity) (r : Rule) (fn : String)
    (args : List CallArg) : AllOK p (callWithDiags p env s fuel e r fn args) := by
  simp only [callWithDiags]
  split
  · refine allOK_append (allOK_append (callDiags_ok _ _ _ _ _) (argsRun_ok p _ _ (argDiags_ok p env s fuel e r) args)) ?_
    split
    · exact allOK_nil _
    · exact missingSelf_ok _ _
  · exact callDiags_ok _ _ _ _ _

theorem typeRuleDiags_ok (p : String) (s : Schema) : AllOK p (typeRuleDiags p s) := by
  apply allOK_flatMap; intro t _
  apply allOK_flatMap; intro r _
  apply allOK_flatMap; intro it _
  cases it with
  | call fn argc => exact callDiags_ok _ _ _ _ _
  | _ => exact allOK_nil _

theorem entityPass5_ok (p : String) (env : Env) (s : Schema) (fuel : Nat) (e : Entity) : AllOK p (entityPass5 p env s fuel e) := by
  refine allOK_append (allOK_append ?_ ?_) ?_
  · apply allOK_filterMap
    intro x hx d hd
    obtain ⟨r, d0⟩ := x
    simp only at hd
    split at hd
    · simp at hd; subst hd
      -- every candidate is an OVERLOADED_ATTR diagnostic built by `mk`
      simp only [overloadCands, List.mem_flatMap] at hx
      obtain ⟨a, _, hx⟩ := hx
      split at hx
      · simp at hx
      · simp only [List.mem_map] at hx
        obtain ⟨sup, _, hx⟩ := hx
        simp at hx; obtain ⟨_, rfl⟩ := hx; okd
    · simp at hd
  · apply allOK_flatMap; intro a _
    split
    · exact allOK_nil _
    · split
      · exact allOK_one (by okd)
      · split
        · split
          · exact allOK_nil _
          · exact allOK_one (by okd)
        · exact allOK_nil _
  · apply allOK_flatMap; intro r _
    apply allOK_flatMap; intro it _
    cases it with
    | call fn argc => exact callDiags_ok _ _ _ _ _
    | selfAttr an =>
      simp only [ruleItemDiags]
      split
      · exact allOK_nil _
      · exact allOK_one (by okd)
    | bareAttr an =>
      simp only [ruleItemDiags]
      split
      · exact allOK_nil _
      · simp only [bareOutside]
        split
        next ds hg => exact allOK_append (globalRef_ok _ _ _ _ _ _ hg) (missingSelf_ok _ _)
        · exact allOK_cons (by okd) (missingSelf_ok _ _)
    | badGroup an => exact allOK_cons (by okd) (allOK_one (by okd))
    | smallReal _ => exact allOK_nil _
    | dot a f ix => exact dotDiags_ok _ _ _ _ _ _ _ _
    | callWith fn args => exact callWithDiags_ok _ _ _ _ _ _ _ _

theorem algDiags_ok (p : String) (env : Env) (s : Schema) : AllOK p (algDiags p env s) := by
  apply allOK_flatMap; intro d _
  cases d with
  | func f =>
    apply allOK_flatMap; intro r _
    apply allOK_flatMap; intro it _
    cases it with
    | call fn argc =>
      intro d hd
      have := callDiags_ok p s { r with isWhere := false } fn argc d hd
      exact this
    | bareAttr n =>
      simp only [algItemDiags]
      split
      · exact allOK_nil _
      · split
        next ds hg => exact globalRef_ok _ _ _ _ _ _ hg
        · exact allOK_one (by okd)
    | callWith fn args =>
      simp only [algItemDiags]
      split
      · exact allOK_append (fun d hd => callDiags_ok p s { r with isWhere := false } fn args.length d hd)
          (argsRun_ok p _ _ (algArgDiags_ok p env s f r) args)
      · exact fun d hd => callDiags_ok p s { r with isWhere := false } fn args.length d hd
    | _ => exact allOK_nil _
  | _ => exact allOK_nil _

theorem pass5_ok (p : String) (env : Env) (s : Schema) : AllOK p (pass5 p env s).diags := by
  simp only [pass5]
  exact allOK_append (allOK_append (typeRuleDiags_ok _ _) (allOK_flatMap _ _ (fun e _ => entityPass5_ok _ _ _ _ e)))
    (algDiags_ok _ _ _)

theorem parseSchemas_ok (p : String) : ∀ ss, AllOK p (parseSchemas p ss)
  | [] => by simp [parseSchemas, allOK_nil]
  | s :: ss => by
    simp only [parseSchemas]
    split
    · exact parseDeclsFrom_ok _ _ _
    · exact allOK_append (parseDeclsFrom_ok _ _ _) (parseSchemas_ok p ss)

theorem parseDiags_ok (f : File) : AllOK f.path (parseDiags f) := parseSchemas_ok _ _

/-- every diagnostic of the resolve phase of a (multi-schema, multi-file) run is well formed for SOME file of the run: the
    file of the schema whose pass produced it -/
theorem resolveDiags_ok (f : File) : ∀ d ∈ (resolveDiags f).diags, ∃ p, OKd p d := by
  intro d hd
  simp only [resolveDiags, List.mem_append, List.mem_flatMap] at hd
  rcases hd with ((((hd | hd) | hd) | hd) | hd) | hd
  · simp only [externalParseDiags, List.mem_flatMap] at hd
    obtain ⟨s, _, hd⟩ := hd
    exact ⟨_, parseDeclsFrom_ok _ _ _ d hd⟩
  · obtain ⟨s, _, hd⟩ := hd; exact ⟨_, pass1_ok f s d hd⟩
  · obtain ⟨s, _, hd⟩ := hd; exact ⟨_, pass2_ok f _ s d hd⟩
  · obtain ⟨s, _, hd⟩ := hd; exact ⟨_, pass3_ok _ _ _ d hd⟩
  · obtain ⟨s, _, hd⟩ := hd; exact ⟨_, pass4_ok _ _ _ d hd⟩
  · obtain ⟨x, hx, hd⟩ := hd
    simp only [List.mem_map] at hx
    obtain ⟨s, _, rfl⟩ := hx
    exact ⟨_, pass5_ok _ _ _ d hd⟩

end StepModel.Express.Resolve

import StepModel.ComplexMarks
/-! `unmarkAll` removes exactly the marks the sub-hierarchy holds. -/
namespace StepModel.Complex.Match
open StepModel.Generated StepModel.Complex

mutual
  /-- the marks of an OrList sit in its `choice` child only -/
  def OrT : ST → Prop
    | .simple .. => True
    | .mult j _ c _ _ cs => OrTL cs ∧ (j = .or → ∀ i ch, cs[i]? = some ch → inRange c cs.length ≠ some i → holds ch = [])
  def OrTL : List ST → Prop
    | [] => True
    | c :: cs => OrT c ∧ OrTL cs
end

theorem OrTL_iff (cs : List ST) : OrTL cs ↔ ∀ c ∈ cs, OrT c := by
  induction cs with
  | nil => simp [OrTL]
  | cons a l ih => simp [OrTL, ih]

mutual
  theorem Loc_of_H0 (es : Ents) : ∀ (t : ST), holds t = [] → Loc es t
    | .simple n v im, h => by
      simp only [holds] at h
      simp only [Loc]
      intro him; simp [him] at h
    | .mult _ _ _ _ _ cs, h => by
      simp only [holds] at h
      simp only [Loc]
      exact LocL_of_H0 es cs h
  theorem LocL_of_H0 (es : Ents) : ∀ (cs : List ST), holdsL cs = [] → LocL es cs
    | [], _ => trivial
    | c :: cs, h => by
      simp only [holdsL, List.append_eq_nil_iff] at h
      exact ⟨Loc_of_H0 es c h.1, LocL_of_H0 es cs h.2⟩
end

mutual
  theorem OrT_of_H0 : ∀ (t : ST), holds t = [] → OrT t
    | .simple .., _ => trivial
    | .mult _ _ _ _ _ cs, h => by
      simp only [holds] at h
      simp only [OrT]
      exact ⟨OrTL_of_H0 cs h, fun _ i ch hch _ => (holdsL_nil_iff cs).mp h ch (List.mem_of_getElem? hch)⟩
  theorem OrTL_of_H0 : ∀ (cs : List ST), holdsL cs = [] → OrTL cs
    | [], _ => trivial
    | c :: cs, h => by
      simp only [holdsL, List.append_eq_nil_iff] at h
      exact ⟨OrT_of_H0 c h.1, OrTL_of_H0 cs h.2⟩
end

/-- all children but the one at `i` hold nothing -/
theorem cntL_only {cs : List ST} {i : Nat} {ch : ST} (hch : cs[i]? = some ch)
    (hothers : ∀ j c, cs[j]? = some c → j ≠ i → holds c = []) (n : Name) : cntL n cs = cnt n ch := by
  induction cs generalizing i with
  | nil => simp at hch
  | cons a l ih =>
    rw [cntL_cons]
    cases i with
    | zero =>
      simp at hch; subst hch
      have : holdsL l = [] := by
        apply (holdsL_nil_iff l).mpr
        intro c hc
        obtain ⟨j, hj⟩ := List.getElem?_of_mem hc
        exact hothers (j + 1) c (by simpa using hj) (by omega)
      simp [cntL, this]
    | succ i =>
      have ha : holds a = [] := hothers 0 a (by simp) (by omega)
      rw [cnt_zero_of_nil ha, Nat.zero_add]
      exact ih (by simpa using hch) (fun j c hj hne => hothers (j + 1) c (by simpa using hj) (by omega))

theorem holdsL_set_nil {cs : List ST} {i : Nat} {ch' : ST}
    (hothers : ∀ j c, cs[j]? = some c → j ≠ i → holds c = []) (h' : holds ch' = []) : holdsL (cs.set i ch') = [] := by
  apply (holdsL_nil_iff _).mpr
  intro c hc
  obtain ⟨j, hj⟩ := List.getElem?_of_mem hc
  by_cases hji : i = j
  · subst hji
    simp [List.getElem?_set] at hj
    rw [← hj.2]; exact h'
  · rw [List.getElem?_set_ne hji] at hj
    exact hothers j c hj (fun e => hji e.symm)

/-- what `unmarkAll` leaves: nothing held, the outside untouched -/
structure UPost (o : Name → Nat) (es es' : Ents) (H : List Name) : Prop where
  h0 : H = []
  fr : ∀ n, o n = if markAt es' n = .no then 0 else 1
  same : SameOut o es es'

theorem unmark_marks (N : List Name) (hN : N.Pairwise (· < ·)) : ∀ f : Nat,
    (∀ t es r o, unmarkAll f t es = .ok r → names es = N → Fr o t es → OrT t → UPost o es r.2 (holds r.1)) ∧
    (∀ cs es r o, unmarkList f cs es = .ok r → names es = N → FrL o cs es → OrTL cs → UPost o es r.2 (holdsL r.1)) := by
  intro f
  induction f with
  | zero => exact ⟨fun _ _ _ _ h => by simp [unmarkAll] at h, fun _ _ _ _ h => by simp [unmarkList] at h⟩
  | succ f ih =>
    obtain ⟨ih1, ih2⟩ := ih
    refine ⟨?_, ?_⟩
    · intro t es r o h hnm hfr hor
      have hnd : (names es).Nodup := by rw [hnm]; exact nodup_of_sorted hN
      cases t with
      | simple n v im =>
        obtain ⟨hc, hl⟩ := hfr
        simp only [Loc] at hl
        simp only [unmarkAll, simpleUnmark] at h
        by_cases hlow : v.rank < MT.rank .some_
        · simp only [hlow, if_true] at h
          cases h
          have him : im = .no := by
            apply Classical.byContradiction
            intro hne
            have := (hl hne).2
            omega
          subst him
          refine ⟨by simp [holds], fun x => ?_, fun _ _ => rfl⟩
          have := hc x
          simpa [cnt, holds] using this
        · simp only [hlow, if_false] at h
          cases hfg : findGe n es 0 with
          | none => simp only [hfg] at h; cases h
          | some i =>
            simp only [hfg] at h
            cases he : es[i]? with
            | none => simp only [he] at h; cases h
            | some e =>
              simp only [he] at h
              cases h
              by_cases him : im = .no
              · subst him
                have hc' : ∀ x, o x = if markAt es x = .no then 0 else 1 := by
                  intro x; have := hc x; simpa [cnt, holds] using this
                have hsame : ∀ x, markAt (if e.mark.rank ≤ Mark.no.rank then setMark es i .no else es) x = markAt es x := by
                  intro x
                  split
                  · rename_i hr
                    rw [markAt_setMark hnd he]
                    split
                    · rename_i hx
                      have hm : e.mark = .no := by
                        cases hem : e.mark <;> rw [hem] at hr <;> simp [Mark.rank] at hr ⊢
                      rw [hx, markAt_get es i e hnd he, hm]
                    · rfl
                  · rfl
                refine ⟨by simp [holds], fun x => ?_, fun x _ => hsame x⟩
                simp only; rw [hsame x]; exact hc' x
              · obtain ⟨hma, _⟩ := hl him
                have hmem : n ∈ names es := mem_of_markAt (by rw [hma]; exact him)
                obtain ⟨j, e', hj, he', hen⟩ := findGe_sorted n es 0 (by rw [hnm]; exact hN) hmem
                rw [hfg] at hj
                simp only [Nat.zero_add, Option.some.injEq] at hj
                subst hj
                rw [he] at he'; cases he'
                have hem : e.mark = im := by rw [← hma, ← hen]; exact (markAt_get es i e hnd he).symm
                have hle : e.mark.rank ≤ im.rank := by rw [hem]; exact Nat.le_refl _
                simp only [hle, if_true]
                have hon : o n = 0 := by
                  have := hc n
                  rw [hma] at this
                  simp [cnt, holds, him] at this
                  omega
                refine ⟨by simp [holds], fun x => ?_, fun x hx => ?_⟩
                · rw [markAt_setMark hnd he, hen]
                  by_cases hx : x = n
                  · subst hx; simp [hon]
                  · simp only [hx, if_false]
                    have := hc x
                    have hcx : cnt x (ST.simple n v im) = 0 := by
                      simp only [cnt, holds, him, if_false]
                      exact List.count_eq_zero_of_not_mem (by simp [hx])
                    rw [hcx] at this; simpa using this
                · rw [markAt_setMark hnd he, hen]
                  have : x ≠ n := by intro e'; rw [e', hon] at hx; exact Nat.lt_irrefl _ hx
                  simp [this]
      | mult j v c c1 k cs =>
        obtain ⟨hc, hl⟩ := hfr
        simp only [Loc] at hl
        simp only [OrT] at hor
        cases j with
        | or =>
          have hoth := hor.2 rfl
          simp only [unmarkAll] at h
          have hallnil : (∀ i ch, cs[i]? = some ch → inRange c cs.length ≠ some i) → holdsL cs = [] := by
            intro hno
            apply (holdsL_nil_iff cs).mpr
            intro ch hch
            obtain ⟨i, hi⟩ := List.getElem?_of_mem hch
            exact hoth i ch hi (hno i ch hi)
          have hsame0 : holdsL cs = [] → UPost o es es (holds (ST.mult .or v c c1 k cs)) := by
            intro hn0
            refine ⟨by simp only [holds]; exact hn0, fun x => ?_, fun _ _ => rfl⟩
            have := hc x
            simpa [cnt, holds, hn0] using this
          split at h
          · rename_i hir
            cases h
            exact hsame0 (hallnil (fun i ch _ => by rw [hir]; simp))
          · rename_i i hir
            split at h
            · rename_i hnone
              cases h
              exact hsame0 (hallnil (fun i' ch hch => by
                rw [hir]; intro e; cases e; rw [hnone] at hch; cases hch))
            · rename_i ch hch
              obtain ⟨⟨ch', es'⟩, h1, h2⟩ := bind_ok' h
              cases h2
              have hothers : ∀ j c0, cs[j]? = some c0 → j ≠ i → holds c0 = [] := by
                intro j c0 hj hne
                exact hoth j c0 hj (by rw [hir]; intro e; cases e; exact hne rfl)
              have hfrc : Fr o ch es := by
                refine ⟨fun x => ?_, (LocL_iff es cs).mp hl ch (List.mem_of_getElem? hch)⟩
                have := hc x
                rw [cnt_mult, cntL_only hch hothers x] at this; exact this
              have P := ih1 ch es _ o h1 hnm hfrc ((OrTL_iff cs).mp hor.1 ch (List.mem_of_getElem? hch))
              exact ⟨by simp only [holds]; exact holdsL_set_nil hothers P.h0, P.fr, P.same⟩
        | and =>
          simp only [unmarkAll] at h
          obtain ⟨⟨cs', es'⟩, h1, h2⟩ := bind_ok' h
          cases h2
          have P := ih2 cs es _ o h1 hnm ⟨hc, hl⟩ hor.1
          exact ⟨by simp only [holds]; exact P.h0, P.fr, P.same⟩
        | andor =>
          simp only [unmarkAll] at h
          obtain ⟨⟨cs', es'⟩, h1, h2⟩ := bind_ok' h
          cases h2
          have P := ih2 cs es _ o h1 hnm ⟨hc, hl⟩ hor.1
          exact ⟨by simp only [holds]; exact P.h0, P.fr, P.same⟩
    · intro cs es r o h hnm hfr hor
      cases cs with
      | nil =>
        simp only [unmarkList] at h; cases h
        obtain ⟨hc, _⟩ := hfr
        refine ⟨rfl, fun x => ?_, fun _ _ => rfl⟩
        have := hc x; simpa [cntL, holdsL] using this
      | cons ch rest =>
        obtain ⟨hc, hl⟩ := hfr
        simp only [LocL] at hl
        simp only [OrTL] at hor
        simp only [unmarkList] at h
        obtain ⟨⟨ch', es1⟩, h1, h2⟩ := bind_ok' h
        obtain ⟨⟨rest', es2⟩, h3, h4⟩ := bind_ok' h2
        cases h4
        have hfrc : Fr (fun n => o n + cntL n rest) ch es := by
          refine ⟨fun x => ?_, hl.1⟩
          have := hc x
          rw [cntL_cons] at this
          simp only; omega
        have P := ih1 ch es _ _ h1 hnm hfrc hor.1
        have hn1 : names es1 = N := by rw [(unmark_names f).1 ch es _ h1]; exact hnm
        have hfrr : FrL o rest es1 := by
          refine ⟨fun x => ?_, LocL_congr rest (fun x hx => P.same x (by show 0 < o x + cntL x rest; omega)) hl.2⟩
          exact P.fr x
        have Q := ih2 rest es1 _ o h3 hn1 hfrr hor.2
        refine ⟨by simp only [holdsL, P.h0, Q.h0, List.append_nil], Q.fr, fun x hx => ?_⟩
        rw [Q.same x hx]
        exact P.same x (by show 0 < o x + cntL x rest; omega)

end StepModel.Complex.Match
